import OPM.Model.CsvExport
/-! Helper lemmas for C34: stable sort, tick times, the row loop as a pure function of the row time. -/
namespace OPM.CsvExport

/-- Nondecreasing times. -/
def SortedT (l : List Sample) : Prop := l.Pairwise (fun a b => a.1 ≤ b.1)

/-- Last element whose time is `≤ t` (what a sample-and-hold shows on a time-sorted list). -/
def lastLE (t : Int) : List Sample → Option Sample
  | [] => none
  | a :: l => match lastLE t l with
    | some b => some b
    | none => if a.1 ≤ t then some a else none

/-- Reference semantics on the *recorded* (unsorted) list: the value with the greatest time `≤ t`;
    among equal times the one recorded last. -/
def hold (t : Int) : List Sample → Option Sample
  | [] => none
  | x :: l => match hold t l with
    | some b => if x.1 ≤ t ∧ b.1 < x.1 then some x else some b
    | none => if x.1 ≤ t then some x else none

theorem lastLE_cons_some {t : Int} {l : List Sample} {b : Sample} (a : Sample) (h : lastLE t l = some b) :
    lastLE t (a :: l) = some b := by
  simp [lastLE, h]

theorem lastLE_cons_none {t : Int} {l : List Sample} (a : Sample) (h : lastLE t l = none) :
    lastLE t (a :: l) = if a.1 ≤ t then some a else none := by
  simp [lastLE, h]

/-! ### insertion sort -/

theorem mem_insSample (x y : Sample) (l : List Sample) : y ∈ insSample x l ↔ y = x ∨ y ∈ l := by
  induction l with
  | nil => simp [insSample]
  | cons a l ih =>
    unfold insSample
    split
    · simp only [List.mem_cons, ih]; grind
    · simp only [List.mem_cons]

theorem sorted_insSample (x : Sample) (l : List Sample) (h : SortedT l) : SortedT (insSample x l) := by
  induction l with
  | nil => simp [insSample, SortedT]
  | cons a l ih =>
    unfold SortedT at *
    rw [List.pairwise_cons] at h
    unfold insSample
    split
    · rename_i hlt
      rw [List.pairwise_cons]
      refine ⟨?_, ih h.2⟩
      intro y hy
      rcases (mem_insSample x y l).1 hy with rfl | hy
      · omega
      · exact h.1 y hy
    · rename_i hge
      rw [List.pairwise_cons, List.pairwise_cons]
      refine ⟨?_, h⟩
      intro y hy
      rcases List.mem_cons.1 hy with rfl | hy
      · omega
      · have := h.1 y hy; omega

theorem sorted_sortSamples (l : List Sample) : SortedT (sortSamples l) := by
  induction l with
  | nil => simp [sortSamples, SortedT]
  | cons a l ih => exact sorted_insSample a _ ih

theorem lastLE_mem {t : Int} {l : List Sample} {b : Sample} (h : lastLE t l = some b) : b ∈ l ∧ b.1 ≤ t := by
  induction l with
  | nil => simp [lastLE] at h
  | cons a l ih =>
    unfold lastLE at h
    split at h
    · rename_i c hc
      cases h
      exact ⟨List.mem_cons_of_mem _ (ih hc).1, (ih hc).2⟩
    · split at h
      · cases h; exact ⟨List.mem_cons_self, by assumption⟩
      · cases h

theorem lastLE_none {t : Int} {l : List Sample} (h : lastLE t l = none) : ∀ y ∈ l, t < y.1 := by
  induction l with
  | nil => simp
  | cons a l ih =>
    unfold lastLE at h
    split at h
    · cases h
    · rename_i hn
      split at h
      · cases h
      · intro y hy
        rcases List.mem_cons.1 hy with rfl | hy
        · omega
        · exact ih hn y hy

/-- Inserting `x` (recorded before everything in `l`) into the sorted list changes the held value exactly
    as the reference semantics says. -/
theorem lastLE_insSample (t : Int) (x : Sample) (l : List Sample) (hs : SortedT l) :
    lastLE t (insSample x l) =
      match lastLE t l with
      | some b => if x.1 ≤ t ∧ b.1 < x.1 then some x else some b
      | none => if x.1 ≤ t then some x else none := by
  induction l with
  | nil => simp [insSample, lastLE]
  | cons a l ih =>
    unfold SortedT at hs
    rw [List.pairwise_cons] at hs
    have ih := ih hs.2
    unfold insSample
    split
    · rename_i hlt
      -- a stays in front
      cases hl : lastLE t l with
      | some b =>
        rw [hl] at ih
        rw [lastLE_cons_some a hl]
        simp only at ih ⊢
        by_cases hc : x.1 ≤ t ∧ b.1 < x.1
        · rw [if_pos hc] at ih ⊢; exact lastLE_cons_some a ih
        · rw [if_neg hc] at ih ⊢; exact lastLE_cons_some a ih
      | none =>
        rw [hl] at ih
        rw [lastLE_cons_none a hl]
        simp only at ih
        by_cases hx : x.1 ≤ t
        · have ha : a.1 ≤ t := by omega
          rw [if_pos hx] at ih
          rw [lastLE_cons_some a ih, if_pos ha]
          simp only
          rw [if_pos ⟨hx, hlt⟩]
        · rw [if_neg hx] at ih
          rw [lastLE_cons_none a ih]
          by_cases ha : a.1 ≤ t
          · rw [if_pos ha]; simp only; rw [if_neg (by omega)]
          · rw [if_neg ha]; simp only; rw [if_neg hx]
    · rename_i hge
      cases hl : lastLE t (a :: l) with
      | none =>
        rw [lastLE_cons_none x hl]
      | some b =>
        rw [lastLE_cons_some x hl]
        simp only
        have hb := lastLE_mem hl
        have : a.1 ≤ b.1 := by
          rcases List.mem_cons.1 hb.1 with rfl | hm
          · omega
          · exact hs.1 b hm
        rw [if_neg (by omega)]

theorem lastLE_sortSamples (t : Int) (l : List Sample) : lastLE t (sortSamples l) = hold t l := by
  induction l with
  | nil => rfl
  | cons x l ih =>
    show lastLE t (insSample x (sortSamples l)) = _
    rw [lastLE_insSample t x _ (sorted_sortSamples l), ih]
    rfl

/-! ### the row loop -/

theorem adv_adv (t₁ t₂ : Int) (h : t₁ ≤ t₂) (l : List Sample) : adv t₂ (adv t₁ l) = adv t₂ l := by
  induction l with
  | nil => rfl
  | cons a l ih =>
    cases l with
    | nil => rfl
    | cons b rest =>
      by_cases hb : b.1 ≤ t₁
      · have hb2 : b.1 ≤ t₂ := by omega
        rw [show adv t₁ (a :: b :: rest) = adv t₁ (b :: rest) by simp [adv, hb]]
        rw [show adv t₂ (a :: b :: rest) = adv t₂ (b :: rest) by simp [adv, hb2]]
        exact ih
      · rw [show adv t₁ (a :: b :: rest) = a :: b :: rest by simp [adv, hb]]

/-- On a time-sorted list, advancing to `t` and looking at the head is the sample-and-hold value. -/
theorem emit_adv (t : Int) (l : List Sample) (hs : SortedT l) :
    emit t (adv t l) = (lastLE t l).map (·.2) := by
  induction l with
  | nil => rfl
  | cons a l ih =>
    unfold SortedT at hs
    rw [List.pairwise_cons] at hs
    cases l with
    | nil =>
      simp only [adv, emit, lastLE]
      by_cases h : a.1 ≤ t
      · have : ¬ t < a.1 := by omega
        simp [h, this]
      · have : t < a.1 := by omega
        simp [h, this]
    | cons b rest =>
      have ih := ih hs.2
      by_cases hb : b.1 ≤ t
      · rw [show adv t (a :: b :: rest) = adv t (b :: rest) by simp [adv, hb], ih]
        cases hl : lastLE t (b :: rest) with
        | some c => rw [lastLE_cons_some a hl]
        | none => have := lastLE_none hl b List.mem_cons_self; omega
      · rw [show adv t (a :: b :: rest) = a :: b :: rest by simp [adv, hb]]
        have hnone : lastLE t (b :: rest) = none := by
          cases hl : lastLE t (b :: rest) with
          | none => rfl
          | some c =>
            have hc := lastLE_mem hl
            have : b.1 ≤ c.1 := by
              rcases List.mem_cons.1 hc.1 with rfl | hm
              · omega
              · have := hs.2; rw [List.pairwise_cons] at this; exact this.1 c hm
            omega
        rw [lastLE_cons_none a hnone]
        simp only [emit]
        by_cases h : a.1 ≤ t
        · have : ¬ t < a.1 := by omega
          simp [h, this]
        · have : t < a.1 := by omega
          simp [h, this]

/-- The stateful row loop over nondecreasing row times is a pure function of the row time. -/
theorem rows_eq (ts : List Int) (hts : ts.Pairwise (· ≤ ·)) (st : List (List Sample)) :
    rows ts st = ts.map (fun t => ⟨t, st.map (fun l => emit t (adv t l))⟩) := by
  induction ts generalizing st with
  | nil => rfl
  | cons t ts ih =>
    rw [List.pairwise_cons] at hts
    simp only [rows, List.map_cons, List.map_map]
    rw [ih hts.2]
    congr 1
    apply List.map_congr_left
    intro t' ht'
    have hle := hts.1 t' ht'
    congr 1
    simp only [List.map_map]
    apply List.map_congr_left
    intro l _
    simp only [Function.comp]
    rw [adv_adv t t' hle]

/-! ### tick times -/

theorem mem_insTime (t y : Int) (l : List Int) : y ∈ insTime t l ↔ y = t ∨ y ∈ l := by
  induction l with
  | nil => simp [insTime]
  | cons a l ih =>
    unfold insTime
    split
    · simp only [List.mem_cons, ih]; grind
    · split
      · rename_i h; simp only [List.mem_cons]; grind
      · simp only [List.mem_cons]

theorem sorted_insTime (t : Int) (l : List Int) (h : l.Pairwise (· < ·)) : (insTime t l).Pairwise (· < ·) := by
  induction l with
  | nil => simp [insTime]
  | cons a l ih =>
    rw [List.pairwise_cons] at h
    unfold insTime
    split
    · rw [List.pairwise_cons]
      refine ⟨?_, ih h.2⟩
      intro y hy
      rcases (mem_insTime t y l).1 hy with rfl | hy
      · assumption
      · exact h.1 y hy
    · split
      · exact List.pairwise_cons.2 h
      · rw [List.pairwise_cons, List.pairwise_cons]
        refine ⟨?_, h⟩
        intro y hy
        rcases List.mem_cons.1 hy with rfl | hy
        · omega
        · have := h.1 y hy; omega

theorem tickTimes_sorted (log : PlotLog) : (tickTimes log).Pairwise (· < ·) := by
  unfold tickTimes
  induction allTimes log with
  | nil => simp
  | cons a l ih => exact sorted_insTime a _ ih

theorem mem_tickTimes (log : PlotLog) (t : Int) : t ∈ tickTimes log ↔ t ∈ allTimes log := by
  unfold tickTimes
  induction allTimes log with
  | nil => simp
  | cons a l ih => simp only [List.foldr_cons, mem_insTime, ih, List.mem_cons]

end OPM.CsvExport
