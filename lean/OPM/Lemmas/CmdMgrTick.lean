import OPM.Lemmas.CmdMgrGood
/-!
`CommandManager.tick` keeps the invariant `Good`: the loop over the snapshot is split at the (unique) lifecycle
request; the lifecycle step is analysed per command and phase (Start, Stop 1/2, Restart 1/2/3).
-/
namespace OPM.CmdMgr

theorem mem_merged (s : State) (r : Req) : r ∈ (merged s).executing ↔ r ∈ s.queue ++ s.executing := by
  simp [merged]

theorem good_merged {s : State} (g : Good s) : Good (merged s) := by
  have hperm : ((merged s).executing.map (·.id)).Perm ((s.queue ++ s.executing).map (·.id)) := by
    simp only [merged, List.map_append, List.map_reverse]
    exact List.Perm.append_right _ (List.reverse_perm _)
  have hmem : ∀ x, x ∈ (merged s).queue ++ (merged s).executing ↔ x ∈ s.queue ++ s.executing := by
    intro x; simp [merged]
  refine ⟨g.fix, ?_, ?_, ?_, ?_, rfl, rfl⟩
  · refine ⟨g.core.serials, hperm.nodup_iff.mpr g.ids.nodup, ?_, g.core.dead, g.core.excl, g.core.trace,
      g.core.evBound⟩
    intro o ho hm
    obtain ⟨a, b, r, hr, h1, h2, _⟩ := g.core.live o ho hm
    exact ⟨a, b, r, (mem_merged s r).mpr (List.mem_append_right _ hr), h1, h2, by simp [merged]⟩
  · refine ⟨?_, ?_, g.ids.tnodup, g.ids.tlt⟩
    · show ((([] : List Req) ++ (merged s).executing).map (fun r => r.id)).Nodup
      rw [List.nil_append]; exact hperm.nodup_iff.mpr g.ids.nodup
    · intro x hx; exact g.ids.lt x ((hmem x).mp hx)
  · refine ⟨?_, ?_, g.life.trk, ?_⟩
    · intro a ha b hb; exact g.life.one a ((hmem a).mp ha) b ((hmem b).mp hb)
    · intro hs x hx; exact g.life.idle hs x ((hmem x).mp hx)
    · have := g.life.res
      show match s.resident with | none => _ | some l => _
      cases hl : s.resident with
      | none => rw [hl] at this; exact this
      | some l =>
        rw [hl] at this
        obtain ⟨c1, c2, ⟨r, hr, hrn⟩, c4, c5⟩ := this
        have hex : (merged s).executing = s.executing := by simp [merged, c2]
        refine ⟨c1, rfl, ⟨r, by rw [hex]; exact hr, hrn⟩, ?_, c5⟩
        intro hp
        obtain ⟨d1, d2, d3⟩ := c4 hp
        exact ⟨d1, by rw [hex]; exact d2, fun hn => by rw [hex]; exact d3 hn⟩
  · intro ht x hx hu; exact g.trq ht x ((hmem x).mp hx) hu

theorem loop_append (a b : List Req) (s : State) :
    loop (a ++ b) s = match loop a s with
      | (s', true) => (s', true)
      | (s', false) => loop b s' := by
  induction a generalizing s with
  | nil => simp [loop]
  | cons r rest ih =>
    simp only [List.cons_append, loop]
    split
    · exact ih s
    · cases hx : executeReq s r with
      | mk s1 raised =>
        cases raised with
        | true => simp
        | false => simp only; exact ih s1

/-- Requests that are done are skipped. -/
theorem loop_all_done (l : List Req) (s : State) (h : ∀ r ∈ l, r.id ∈ s.done) : loop l s = (s, false) := by
  induction l with
  | nil => rfl
  | cons r rest ih =>
    simp only [loop]
    rw [if_pos ((isDone_iff s r).mpr (h r (List.mem_cons_self ..)))]
    exact ih (fun x hx => h x (List.mem_cons_of_mem _ hx))

/-- The snapshot the loop runs over is all UOD requests, or exactly one lifecycle request with UOD requests
around it. -/
theorem split_life {s : State} (g : Good s) :
    (∀ r ∈ s.executing, r.isUod = true) ∨
    ∃ pre l post, s.executing = pre ++ l :: post ∧ l.isUod = false ∧
      (∀ r ∈ pre, r.isUod = true) ∧ (∀ r ∈ post, r.isUod = true) := by
  by_cases hall : ∀ r ∈ s.executing, r.isUod = true
  · exact Or.inl hall
  · right
    have : ∃ l, l ∈ s.executing ∧ l.isUod = false := by
      apply Classical.byContradiction
      intro hne
      apply hall
      intro r hr
      cases hu : r.isUod with
      | true => rfl
      | false => exact absurd ⟨r, hr, hu⟩ hne
    obtain ⟨l, hl, hlu⟩ := this
    obtain ⟨pre, post, he⟩ := List.append_of_mem hl
    refine ⟨pre, l, post, he, hlu, ?_, ?_⟩
    · intro r hr
      cases hu : r.isUod with
      | true => rfl
      | false =>
        have hre : r ∈ s.executing := by rw [he]; exact List.mem_append_left _ hr
        have : r = l := g.life.one r (List.mem_append_right _ hre) l (List.mem_append_right _ hl) hu hlu
        subst this
        have hn := g.core.ids
        rw [he] at hn
        simp only [List.map_append, List.map_cons] at hn
        rw [List.nodup_append] at hn
        exact absurd rfl (hn.2.2 r.id (List.mem_map_of_mem hr) r.id (List.mem_cons_self ..))
    · intro r hr
      cases hu : r.isUod with
      | true => rfl
      | false =>
        have hre : r ∈ s.executing := by rw [he]; exact List.mem_append_right _ (List.mem_cons_of_mem _ hr)
        have : r = l := g.life.one r (List.mem_append_right _ hre) l (List.mem_append_right _ hl) hu hlu
        subst this
        have hn := g.core.ids
        rw [he] at hn
        simp only [List.map_append, List.map_cons] at hn
        rw [List.nodup_append] at hn
        have := (List.nodup_cons.mp hn.2.1).1
        exact absurd (List.mem_map_of_mem hr) this



theorem good_sys {s : State} (g : Good s) (b : Bool) :
    Good (if b = true then { s with sys := .running, paused := true } else s) := by
  split
  · exact g.congr rfl rfl rfl rfl rfl rfl rfl rfl rfl rfl rfl rfl rfl rfl
  · exact g

/-- No instance is live when no UOD request is held. -/
theorem Core.no_live {s : State} (h : Core s) (hn : ∀ r ∈ s.executing, r.isUod = true → r.id ∈ s.done) :
    ∀ o ∈ s.objs, o.inMap = false := by
  intro o ho
  cases hm : o.inMap with
  | false => rfl
  | true =>
    obtain ⟨_, _, r, hr, h1, _, h3⟩ := h.live o ho hm
    exact absurd (hn r hr (by simp [Req.isUod, h1])) h3

theorem Core.rehome {s s' : State} (h : Core s) (hdead : ∀ o ∈ s.objs, o.inMap = false)
    (hobjs : s'.objs = s.objs) (hev : s'.events = s.events) (_hcfg : s'.cfg = s.cfg)
    (hn : (s'.executing.map (·.id)).Nodup) : Core s' := by
  refine ⟨by rw [hobjs]; exact h.serials, hn, ?_, by rw [hobjs]; exact h.dead, ?_, by rw [hobjs, hev]; exact h.trace,
    by rw [hobjs, hev]; exact h.evBound⟩
  · intro o ho hm; rw [hobjs] at ho; rw [hdead o ho] at hm; cases hm
  · intro o ho o' _ hm; rw [hobjs] at ho; rw [hdead o ho] at hm; cases hm

/-- The loop ran over UOD requests only and the manager was not replaced. -/
theorem good_finish_uod {s0 s1 : State} (g0 : Good s0) (h1 : Core s1) (hv : view s1 = view s0)
    (hd : ∀ i ∈ s1.done, ∃ c ∈ s0.executing, c.id = i ∧ (c.isUod = true ∨ s0.resident = none)) (b : Bool) :
    Good (finish s1 b) := by
  have hr : s1.resetTo = none := by rw [(view_eq hv).2.2.2.2.2.1]; exact g0.reset
  unfold finish
  simp only [hr]
  exact good_sys (good_commit g0 h1 hv hd) b



theorem State.resident_none_eta (s : State) (h : s.resident = none) : { s with resident := none } = s := by
  cases s; simp_all

/-- Facts about the state after the UOD requests that precede the lifecycle request in the snapshot. -/
structure PreLife (s0 s1 : State) (pre post : List Req) (l : Req) : Prop where
  g0 : Good s0
  q0 : s0.queue = []
  d0 : s0.done = []
  ex : s0.executing = pre ++ l :: post
  lu : l.isUod = false
  upre : ∀ r ∈ pre, r.isUod = true
  upost : ∀ r ∈ post, r.isUod = true
  core : Core s1
  view : view s1 = view s0
  doneOnly : ∀ i, i ∈ s1.done → ∃ c ∈ s0.executing, c.isUod = true ∧ c.id = i

namespace PreLife
variable {s0 s1 : State} {pre post : List Req} {l : Req} (p : PreLife s0 s1 pre post l)
include p

theorem lmem : l ∈ s0.executing := by rw [p.ex]; simp
theorem postmem : ∀ r ∈ post, r ∈ s0.executing := fun r hr => by rw [p.ex]; simp [hr]
theorem ex1 : s1.executing = s0.executing := (view_eq p.view).2.1
theorem cfg1 : s1.cfg = s0.cfg := (view_eq p.view).2.2.2.2.2.2.2.2.2.2.2.2.2.2.2.1
theorem fix1 : s1.cfg.fixCancel = true := by rw [p.cfg1]; exact p.g0.fix
theorem trackEx1 : TrackEx s1 := p.g0.trackEx.of_view p.view

theorem lnotdone : l.id ∉ s1.done := by
  intro h
  obtain ⟨c, hc, hcu, e⟩ := p.doneOnly _ h
  have : c = l := req_id_inj p.g0.core.ids hc p.lmem e
  rw [this, p.lu] at hcu; cases hcu

theorem postNodup : (post.map (·.id)).Nodup := by
  have := p.g0.core.ids
  rw [p.ex] at this
  simp only [List.map_append, List.map_cons] at this
  rw [List.nodup_append] at this
  exact (List.nodup_cons.mp this.2.1).2

/-- The only lifecycle request of the snapshot. -/
theorem life_unique (r : Req) (hr : r ∈ s0.executing) (hu : r.isUod = false) : r = l :=
  p.g0.life.one r (List.mem_append_right _ hr) l (List.mem_append_right _ p.lmem) hu p.lu

/-- When the engine holds no UOD request, the snapshot is the lifecycle request alone. -/
theorem alone (h : noUod s0.executing) : pre = [] ∧ post = [] := by
  constructor
  · cases hp : pre with
    | nil => rfl
    | cons a t =>
      have ha : a ∈ pre := by rw [hp]; simp
      have := h a (by rw [p.ex]; exact List.mem_append_left _ ha)
      rw [p.upre a ha] at this; cases this
  · cases hp : post with
    | nil => rfl
    | cons a t =>
      have ha : a ∈ post := by rw [hp]; simp
      have := h a (p.postmem a ha)
      rw [p.upost a ha] at this; cases this

end PreLife

/-- Case "the lifecycle command ends at once without effect" (Start while started, Stop/Restart while
stopped): the request is done, nothing else changes. -/
theorem good_life_noop {s0 s1 : State} {pre post : List Req} {l : Req} (p : PreLife s0 s1 pre post l)
    (hres : s0.resident = none) (b : Bool) : Good (finish (loop post (markDone s1 l)).1 b) := by
  have hcoreL : Core (markDone s1 l) := by
    apply p.core.congr (by simp) (by simp) (by simp) (by simp)
    intro r hr hu hd
    rw [markDone_done_mem] at hd
    rcases hd with hd | ⟨e, _⟩
    · exact hd
    · have : r = l := req_id_inj p.core.ids hr (by rw [p.ex1]; exact p.lmem) e
      subst this
      rw [p.lu] at hu; cases hu
  have q := loop_uod_spec post [] hcoreL (by simpa using p.fix1) (p.trackEx1.of_view (by simp))
    (fun r hr => ⟨by simp [p.ex1, p.postmem r hr], p.upost r hr⟩) p.postNodup (by simp)
  apply good_finish_uod p.g0 q.core (by rw [q.view, view_markDone, p.view])
  intro i hi
  rcases q.doneOnly i hi with h1 | ⟨c, hc, hcu, e⟩
  · rw [markDone_done_mem] at h1
    rcases h1 with h1 | ⟨e, _⟩
    · obtain ⟨c, hc, hcu, e⟩ := p.doneOnly i h1
      exact ⟨c, hc, e, Or.inl hcu⟩
    · exact ⟨l, p.lmem, e.symm, Or.inr hres⟩
  · exact ⟨c, by simpa [p.ex1] using hc, e, Or.inl hcu⟩



theorem finish_commit (s : State) (h : s.resetTo = none) (b : Bool) :
    finish s b = if b = true then { commit s with sys := .running, paused := true } else commit s := by
  unfold finish
  simp only [h]

/-- The new command manager after Stop / Restart replaced the old one. -/
def resetState (s : State) (c : List Req) : State :=
  { s with executing := c, done := [], queue := [], resetTo := none, restartPending := none }

theorem finish_reset (s : State) (c : List Req) (h : s.resetTo = some c) (b : Bool) :
    finish s b = if b = true then { resetState s c with sys := .running, paused := true } else resetState s c := by
  unfold finish resetState
  simp only [h]

/-- The state after the first phase of Stop / Restart, committed. -/
theorem good_after_cancelAll {s0 sL : State} (g0 : Good s0) (_hq0 : s0.queue = []) {l : Req}
    (hl : l ∈ s0.executing) (n : Name) (hn : l.name = n) (hn' : n = .stop ∨ n = .restart)
    (hcore : Core sL) (hcfg : sL.cfg = s0.cfg) (hnid : sL.nextId = s0.nextId) (hqL : sL.queue = [])
    (hexL : sL.executing = s0.executing) (htr : sL.track.map (·.id) = s0.track.map (·.id))
    (htk : sL.tracking = s0.tracking) (hst : sL.started = s0.started) (hsp : sL.stopping = true)
    (hres : sL.resident = some ⟨n, 1⟩) (hrp : n = .restart → sL.restartPending = some l)
    (hrt : sL.resetTo = none)
    (hall : ∀ c ∈ s0.executing, c.isUod = true → c.id ∈ sL.done) (hlnd : l.id ∉ sL.done) :
    Good (commit sL) := by
  have hmemC : ∀ x, x ∈ (commit sL).executing ↔ x ∈ s0.executing ∧ x.id ∉ sL.done := by
    intro x; rw [mem_commit_executing, hexL]
  have hnoUod : ∀ x ∈ (commit sL).executing, x.isUod = false := by
    intro x hx
    obtain ⟨h1, h2⟩ := (hmemC x).mp hx
    cases hu : x.isUod with
    | false => rfl
    | true => exact absurd (hall x h1 hu) h2
  have hqC : (commit sL).queue = [] := hqL
  have hlin : l ∈ (commit sL).executing := (hmemC l).mpr ⟨hl, hlnd⟩
  have hsubl : (commit sL).executing.Sublist s0.executing := by
    show (sL.executing.filter _).Sublist s0.executing
    rw [hexL]; exact List.filter_sublist
  refine ⟨by show sL.cfg.fixCancel = true; rw [hcfg]; exact g0.fix, hcore.commit, ?_, ?_, ?_, rfl, hrt⟩
  · refine ⟨?_, ?_, ?_, ?_⟩
    · rw [hqC, List.nil_append]
      exact List.Nodup.sublist (List.Sublist.map _ hsubl) g0.core.ids
    · intro x hx
      rw [hqC, List.nil_append] at hx
      show x.id < sL.nextId
      rw [hnid]
      exact g0.ids.lt x (List.mem_append_right _ (hsubl.subset hx))
    · show (sL.track.map (·.id)).Nodup
      rw [htr]; exact g0.ids.tnodup
    · show ∀ i ∈ sL.track.map (·.id), i < sL.nextId
      rw [htr, hnid]; exact g0.ids.tlt
  · refine ⟨?_, ?_, ?_, ?_⟩
    · intro a ha c hc
      rw [hqC, List.nil_append] at ha hc
      exact g0.life.one a (List.mem_append_right _ (hsubl.subset ha)) c (List.mem_append_right _ (hsubl.subset hc))
    · intro _ x hx
      rw [hqC, List.nil_append] at hx
      exact hnoUod x hx
    · show sL.started = true → sL.tracking = true
      rw [hst, htk]; exact g0.life.trk
    · show match sL.resident with | none => _ | some l => _
      rw [hres]
      refine ⟨?_, hqC, ⟨l, hlin, hn⟩, ?_, ?_⟩
      · rcases hn' with rfl | rfl
        · exact Or.inl rfl
        · exact Or.inr (Or.inl rfl)
      · intro _
        refine ⟨hsp, hnoUod, ?_⟩
        intro hr
        exact ⟨l, hrp hr, hlin, by rw [hn]; exact hr⟩
      · intro h2; simp at h2
  · intro _ x hx hu
    rw [hqC, List.nil_append] at hx
    rw [hnoUod x hx] at hu; cases hu

/-- Case "first phase of Stop / Restart": every other command is cancelled and finalized; the lifecycle
command stays resident. -/
theorem good_life_cancelAll {s0 s1 : State} {pre post : List Req} {l : Req} (p : PreLife s0 s1 pre post l)
    (n : Name) (hn : l.name = n) (hn' : n = .stop ∨ n = .restart) (sA : State)
    (hobjs : sA.objs = s1.objs) (hev : sA.events = s1.events) (hex : sA.executing = s1.executing)
    (hdone : sA.done = s1.done) (hcfg : sA.cfg = s1.cfg) (htr : sA.track = s1.track)
    (htk : sA.tracking = s1.tracking) (hq : sA.queue = s1.queue) (hnid : sA.nextId = s1.nextId)
    (hst : sA.started = s1.started) (hsp : sA.stopping = true) (hrt : sA.resetTo = s1.resetTo)
    (hrp : n = .restart → sA.restartPending = some l) (b : Bool) :
    Good (finish (loop post { cancelAll n sA.executing sA with resident := some ⟨n, 1⟩ }).1 b) := by
  obtain ⟨v1, v2, v3, v4, v5, v6, v7, v8, v9, v10, v11, v12, v13, v14, v15, v16, v17⟩ := view_eq p.view
  have hcoreA : Core sA := p.core.congr hobjs hev hex hcfg (fun _ _ _ hd => by rw [hdone] at hd; exact hd)
  have htrA : TrackEx sA := by
    intro ht r hr hu
    rw [htr]; exact p.trackEx1 (by rw [← htk]; exact ht) r (by rw [← hex]; exact hr) hu
  have pp := cancelWhere_spec (fun c => !(c.name == n)) false sA.executing hcoreA (by rw [hcfg]; exact p.fix1) htrA
    (fun c hc => hc)
  rw [← cancelAll_eq] at pp
  generalize cancelAll n sA.executing sA = sC at *
  obtain ⟨w1, w2, w3, w4, w5, w6, w7, w8, w9, w10, w11, w12, w13, w14, w15, w16, w17⟩ := view_eq pp.view
  have hexC : sC.executing = s0.executing := by rw [w2, hex, v2]
  have hnlife : ∀ c : Req, c.isUod = true → (!(c.name == n)) = true := by
    intro c hc
    rcases hn' with rfl | rfl <;> cases hcn : c.name <;> simp_all [Req.isUod]
  have hall : ∀ c ∈ s0.executing, c.isUod = true → c.id ∈ sC.done :=
    fun c hc hu => pp.allDone c (by rw [hex, v2]; exact hc) (hnlife c hu) hu
  have hlnd : l.id ∉ sC.done := by
    intro hi
    rcases pp.doneOnly _ hi with h0 | ⟨c, hc, hs, e⟩
    · rw [hdone] at h0; exact p.lnotdone h0
    · have : c = l := req_id_inj p.g0.core.ids (by rw [← v2, ← hex]; exact hc) p.lmem e
      subst this
      simp [hn] at hs
  -- the rest of the snapshot is done: nothing more happens in this tick
  have hloop : loop post { sC with resident := some ⟨n, 1⟩ } = ({ sC with resident := some ⟨n, 1⟩ }, false) :=
    loop_all_done _ _ (fun r hr => hall r (p.postmem r hr) (p.upost r hr))
  rw [hloop]
  have hcoreL : Core { sC with resident := some ⟨n, 1⟩ } := pp.core.congr rfl rfl rfl rfl (fun _ _ _ hd => hd)
  have hreset : sC.resetTo = none := by rw [w6, hrt, v6]; exact p.g0.reset
  rw [finish_commit { sC with resident := some ⟨n, 1⟩ } hreset]
  apply good_sys
  exact good_after_cancelAll p.g0 p.q0 p.lmem n hn hn' hcoreL (by show sC.cfg = s0.cfg; rw [w16, hcfg, v16])
    (by show sC.nextId = s0.nextId; rw [w15, hnid, v15]) (by show sC.queue = []; rw [w1, hq, v1]; exact p.q0)
    hexC (by show sC.track.map (·.id) = _; rw [w17, htr, v17]) (by show sC.tracking = _; rw [w3, htk, v3])
    (by show sC.started = _; rw [w7, hst, v7]) (by show sC.stopping = true; rw [w8]; exact hsp) rfl
    (fun hr => by show sC.restartPending = some l; rw [w5]; exact hrp hr) hreset hall hlnd



theorem no_live_alone {s0 : State} (g0 : Good s0) {l : Req} (hex : s0.executing = [l]) (hlu : l.isUod = false) :
    ∀ o ∈ s0.objs, o.inMap = false := by
  apply g0.core.no_live
  intro r hr hu
  rw [hex] at hr
  simp at hr
  subst hr
  rw [hlu] at hu; cases hu

/-- Case "a run begins" (Start, last phase of Restart): the snapshot is the lifecycle request alone. -/
theorem good_life_begin {s0 : State} (g0 : Good s0) (hq0 : s0.queue = []) {l : Req}
    (hex : s0.executing = [l]) (hlu : l.isUod = false) (sB : State)
    (hobjs : sB.objs = s0.objs) (hev : sB.events = s0.events) (hexB : sB.executing = s0.executing)
    (_hdone : sB.done = []) (hcfg : sB.cfg = s0.cfg) (htr : sB.track = s0.track) (hq : sB.queue = s0.queue)
    (hnid : sB.nextId = s0.nextId) (hrt : sB.resetTo = none) (hsp : sB.stopping = false) (b : Bool) :
    Good (finish (lifeDone (beginRun sB) l) b) := by
  have hdead := no_live_alone g0 hex hlu
  have hrtL : (lifeDone (beginRun sB) l).resetTo = none := by simp [lifeDone, beginRun, hrt]
  rw [finish_commit _ hrtL]
  apply good_sys
  have hexC : (commit (lifeDone (beginRun sB) l)).executing = [] := by
    have hd : l.id ∈ (lifeDone (beginRun sB) l).done := by
      simp only [lifeDone]
      rw [markDone_done_mem]
      exact Or.inr ⟨rfl, l, by simp [beginRun, hexB, hex], rfl⟩
    apply List.eq_nil_iff_forall_not_mem.mpr
    intro x hx
    obtain ⟨h1, h2⟩ := (mem_commit_executing _ x).mp hx
    have : x = l := by
      simp only [lifeDone, markDone_executing, beginRun, hexB, hex] at h1
      simpa using h1
    subst this
    exact h2 hd
  have hqC : (commit (lifeDone (beginRun sB) l)).queue = [] := by
    simp [commit, lifeDone, beginRun, hq, hq0]
  refine ⟨by simp [commit, lifeDone, beginRun, hcfg, g0.fix], ?_, ?_, ?_, ?_, rfl, by simp [commit, lifeDone, beginRun, hrt]⟩
  · exact g0.core.rehome hdead (by simp [commit, lifeDone, beginRun, hobjs]) (by simp [commit, lifeDone, beginRun, hev])
      (by simp [commit, lifeDone, beginRun, hcfg]) (by rw [hexC]; simp)
  · refine ⟨by rw [hqC, hexC]; simp, by rw [hqC, hexC]; simp, ?_, ?_⟩
    · simp only [commit, lifeDone, markDone_track, beginRun, htr]; exact g0.ids.tnodup
    · simp only [commit, lifeDone, markDone_track, markDone_nextId, beginRun, htr, hnid]; exact g0.ids.tlt
  · refine ⟨by rw [hqC, hexC]; simp, by rw [hqC, hexC]; simp [noUod], by simp [commit, lifeDone, beginRun], ?_⟩
    simp [commit, lifeDone, beginRun, hsp]
  · rw [hqC, hexC]; simp

/-- Case "the run ends" (second phase of Stop / Restart): tracking off, run log reported, simulations and run
id cleared, new interpreter and command manager (`carry` = what the new manager starts with). -/
theorem good_life_end {s0 : State} (g0 : Good s0) {l : Req} (hex : s0.executing = [l]) (hlu : l.isUod = false)
    (b : Bool) :
    Good (finish (lifeDone (endRun s0 []) l) b) ∧
    (l.name = .restart → Good (finish { endRun s0 [l] with resident := some ⟨.restart, 2⟩ } b)) := by
  have hdead := no_live_alone g0 hex hlu
  have hl : l ∈ s0.executing := by rw [hex]; simp
  constructor
  · rw [finish_reset _ [] (by simp [lifeDone, endRun])]
    apply good_sys
    refine ⟨by simp [resetState, lifeDone, endRun, g0.fix], ?_, ?_, ?_, ?_, rfl, rfl⟩
    · exact g0.core.rehome hdead (by simp [resetState, lifeDone, endRun]) (by simp [resetState, lifeDone, endRun])
        (by simp [resetState, lifeDone, endRun]) (by simp [resetState])
    · exact ⟨by simp [resetState], by simp [resetState], by simp [resetState, lifeDone, endRun],
        by simp [resetState, lifeDone, endRun]⟩
    · exact ⟨by simp [resetState], by simp [resetState, noUod], by simp [resetState, lifeDone, endRun],
        by simp [resetState, lifeDone, endRun]⟩
    · simp [resetState, lifeDone, endRun]
  · intro hn
    rw [finish_reset _ [l] (by simp [endRun])]
    apply good_sys
    refine ⟨by simp [resetState, endRun, g0.fix], ?_, ?_, ?_, ?_, rfl, rfl⟩
    · exact g0.core.rehome hdead (by simp [resetState, endRun]) (by simp [resetState, endRun])
        (by simp [resetState, endRun]) (by simp [resetState])
    · refine ⟨by simp [resetState], ?_, by simp [resetState, endRun], by simp [resetState, endRun]⟩
      intro x hx
      simp [resetState] at hx; subst hx
      simp only [resetState, endRun]
      exact g0.ids.lt x (List.mem_append_right _ hl)
    · refine ⟨?_, ?_, by simp [resetState, endRun], ?_⟩
      · intro a ha c hc _ _; simp [resetState] at ha hc; rw [ha, hc]
      · intro _ x hx; simp [resetState] at hx; rw [hx]; exact hlu
      · exact ⟨Or.inr (Or.inr rfl), rfl, ⟨l, by simp [resetState], hn⟩, by intro h; simp at h,
          fun _ => by simp [resetState, endRun]⟩
    · simp [resetState, endRun]



theorem good_setPending {s : State} (g : Good s) (hres : s.resident = none) (x : Option Req) :
    Good { s with restartPending := x } := by
  refine ⟨g.fix, g.core.congr rfl rfl rfl rfl (fun _ _ _ hd => hd), ⟨g.ids.nodup, g.ids.lt, g.ids.tnodup, g.ids.tlt⟩,
    ⟨g.life.one, g.life.idle, g.life.trk, ?_⟩, g.trq, g.done, g.reset⟩
  have := g.life.res
  show match s.resident with | none => _ | some l => _
  rw [hres] at this ⊢
  exact this

theorem PreLife.setPending {s0 s1 : State} {pre post : List Req} {l : Req} (p : PreLife s0 s1 pre post l)
    (hres : s0.resident = none) (x : Option Req) :
    PreLife { s0 with restartPending := x } { s1 with restartPending := x } pre post l := by
  refine ⟨good_setPending p.g0 hres x, p.q0, p.d0, p.ex, p.lu, p.upre, p.upost, ?_, ?_, p.doneOnly⟩
  · exact p.core.congr rfl rfl rfl rfl (fun _ _ _ hd => hd)
  · obtain ⟨a1, a2, a3, a4, a5, a6, a7, a8, a9, a10, a11, a12, a13, a14, a15, a16, a17⟩ := view_eq p.view
    have a0 := view_paused p.view
    show View.mk _ _ _ _ _ _ _ _ _ _ _ _ _ _ _ _ _ _ = View.mk _ _ _ _ _ _ _ _ _ _ _ _ _ _ _ _ _ _
    rw [a0, a1, a2, a3, a4, a6, a7, a8, a9, a10, a11, a12, a13, a14, a15, a16, a17]

/-! ### what `_execute_internal_command` does in each lifecycle situation -/

section equations
variable {s : State} {l : Req}

theorem executeLife_start_started (h : s.resident = none) (hn : l.name = .start) (hst : s.started = true) :
    executeLife s l = markDone s l := by
  unfold executeLife
  rw [h, hn]
  show lifeStart { s with resident := some ⟨.start, 0⟩ } l = _
  unfold lifeStart
  rw [if_pos hst]
  show markDone { s with resident := none } l = _
  rw [State.resident_none_eta s h]

theorem executeLife_start_fresh (h : s.resident = none) (hn : l.name = .start) (hst : s.started = false) :
    executeLife s l = lifeDone (beginRun { s with resident := some ⟨.start, 0⟩ }) l := by
  unfold executeLife
  rw [h, hn]
  show lifeStart { s with resident := some ⟨.start, 0⟩ } l = _
  unfold lifeStart
  rw [if_neg (by simp [hst])]

theorem executeLife_stop_idle (h : s.resident = none) (hn : l.name = .stop) (hsys : s.sys ≠ .running) :
    executeLife s l = markDone s l := by
  unfold executeLife
  rw [h, hn]
  show lifeStop0 { s with resident := some ⟨.stop, 0⟩ } l = _
  unfold lifeStop0
  rw [if_pos (by simpa using hsys)]
  show markDone { s with resident := none } l = _
  rw [State.resident_none_eta s h]

theorem executeLife_stop_run (h : s.resident = none) (hn : l.name = .stop) (hsys : s.sys = .running) :
    executeLife s l =
      { cancelAll .stop s.executing { s with resident := some ⟨.stop, 0⟩, stopping := true }
        with resident := some ⟨.stop, 1⟩ } := by
  unfold executeLife
  rw [h, hn]
  show lifeStop0 { s with resident := some ⟨.stop, 0⟩ } l = _
  unfold lifeStop0
  rw [if_neg (by simp [hsys])]

theorem executeLife_restart_idle (h : s.resident = none) (hn : l.name = .restart) (hsys : s.sys ≠ .running) :
    executeLife s l = markDone { s with restartPending := some l } l := by
  unfold executeLife
  rw [h, hn]
  show lifeRestart0 { s with restartPending := some l, resident := some ⟨.restart, 0⟩ } l = _
  unfold lifeRestart0
  rw [if_pos (by simpa using hsys)]
  show markDone { s with restartPending := some l, resident := none } l = _
  have : ({ s with restartPending := some l, resident := none } : State) = { s with restartPending := some l } := by
    cases s; simp_all
  rw [this]

theorem executeLife_restart_run (h : s.resident = none) (hn : l.name = .restart) (hsys : s.sys = .running) :
    executeLife s l =
      { cancelAll .restart s.executing
          { s with restartPending := some l, resident := some ⟨.restart, 0⟩, stopping := true, sys := .restarting }
        with resident := some ⟨.restart, 1⟩ } := by
  unfold executeLife
  rw [h, hn]
  show lifeRestart0 { s with restartPending := some l, resident := some ⟨.restart, 0⟩ } l = _
  unfold lifeRestart0
  rw [if_neg (by simp [hsys])]

/-- The second `cancel_all_commands` of the repaired Stop / Restart finds nothing to cancel when the manager
holds the lifecycle request alone. -/
theorem lastCancel_alone (n : Name) (hex : s.executing = [l]) (hn : l.name = n) : lastCancel n s = s := by
  unfold lastCancel
  split
  · rw [hex]; simp [cancelAll, hn]
  · rfl

theorem executeLife_stop_end (h : s.resident = some ⟨.stop, 1⟩) (hn : l.name = .stop) (hex : s.executing = [l]) :
    executeLife s l = lifeDone (endRun s []) l := by
  unfold executeLife
  rw [h, hn]
  show lifeDone (endRun (lastCancel .stop s) []) l = _
  rw [lastCancel_alone .stop hex hn]

theorem executeLife_restart_end (h : s.resident = some ⟨.restart, 1⟩) (hn : l.name = .restart)
    (hex : s.executing = [l]) :
    executeLife s l = { endRun s (match s.restartPending with | some p => [p] | none => [])
                        with resident := some ⟨.restart, 2⟩ } := by
  unfold executeLife
  rw [h, hn]
  show { endRun (lastCancel .restart s) (match s.restartPending with | some p => [p] | none => [])
         with resident := some ⟨.restart, 2⟩ } = _
  rw [lastCancel_alone .restart hex hn]

theorem executeLife_restart_begin (h : s.resident = some ⟨.restart, 2⟩) (hn : l.name = .restart) :
    executeLife s l = lifeDone (beginRun s) l := by
  unfold executeLife
  rw [h, hn]
  rfl

end equations

/-- The lifecycle step when no lifecycle command is resident (its first tick). -/
theorem good_life_fresh {s0 s1 : State} {pre post : List Req} {l : Req} (p : PreLife s0 s1 pre post l)
    (hs1 : pre = [] → s1 = s0) (hres : s0.resident = none) (b : Bool) :
    Good (finish (loop post (executeLife s1 l)).1 b) := by
  obtain ⟨v1, v2, v3, v4, v5, v6, v7, v8, v9, v10, v11, v12, v13, v14, v15, v16, v17⟩ := view_eq p.view
  have hres1 : s1.resident = none := by rw [v4]; exact hres
  have hstop0 : s0.stopping = false := by
    have := p.g0.life.res; rw [hres] at this; exact this
  cases hn : l.name with
  | uod k => have := p.lu; simp [Req.isUod, hn] at this
  | start =>
    cases hst : s1.started with
    | true =>
      rw [executeLife_start_started hres1 hn hst]
      exact good_life_noop p hres b
    | false =>
      rw [executeLife_start_fresh hres1 hn hst]
      obtain ⟨hp1, hp2⟩ := p.alone (fun r hr => p.g0.life.idle (by rw [← v7]; exact hst) r
        (List.mem_append_right _ hr))
      subst hp2
      have := hs1 hp1; subst this
      have hex : s1.executing = [l] := by rw [p.ex, hp1]; rfl
      simp only [loop]
      exact good_life_begin p.g0 p.q0 hex p.lu _ rfl rfl rfl p.d0 rfl rfl rfl rfl p.g0.reset hstop0 b
  | stop =>
    by_cases hsys : s1.sys = .running
    · rw [executeLife_stop_run hres1 hn hsys]
      exact good_life_cancelAll p .stop hn (Or.inl rfl)
        { s1 with resident := some ⟨.stop, 0⟩, stopping := true } rfl rfl rfl rfl rfl rfl rfl rfl rfl rfl rfl rfl
        (by intro h; cases h) b
    · rw [executeLife_stop_idle hres1 hn hsys]
      exact good_life_noop p hres b
  | restart =>
    by_cases hsys : s1.sys = .running
    · rw [executeLife_restart_run hres1 hn hsys]
      exact good_life_cancelAll p .restart hn (Or.inr rfl)
        { s1 with restartPending := some l, resident := some ⟨.restart, 0⟩, stopping := true, sys := .restarting }
        rfl rfl rfl rfl rfl rfl rfl rfl rfl rfl rfl rfl (fun _ => rfl) b
    · rw [executeLife_restart_idle hres1 hn hsys]
      exact good_life_noop (p.setPending hres (some l)) hres b



/-- The lifecycle step when a Stop / Restart command is resident (its later ticks). -/
theorem good_life_resident {s0 : State} {pre post : List Req} {l : Req} {s1 : State}
    (p : PreLife s0 s1 pre post l) (hs1 : pre = [] → s1 = s0) {ρ : Life} (hres : s0.resident = some ρ) (b : Bool) :
    Good (finish (loop post (executeLife s1 l)).1 b) := by
  have hr := p.g0.life.res
  rw [hres] at hr
  obtain ⟨hcases, _, ⟨r, hrm, hrn⟩, h1, h2⟩ := hr
  have hru : r.isUod = false := by rcases hcases with rfl | rfl | rfl <;> simp_all [Req.isUod]
  have hrl : r = l := p.life_unique r hrm hru
  subst hrl
  -- the engine holds no UOD request in these phases
  have hno : noUod s0.executing := by
    rcases hcases with rfl | rfl | rfl
    · exact (h1 rfl).2.1
    · exact (h1 rfl).2.1
    · exact fun x hx => p.g0.life.idle (h2 rfl).2 x (List.mem_append_right _ hx)
  obtain ⟨hp1, hp2⟩ := p.alone hno
  subst hp2
  have := hs1 hp1; subst this
  have hex : s1.executing = [r] := by rw [p.ex, hp1]; rfl
  rcases hcases with rfl | rfl | rfl
  · rw [executeLife_stop_end hres hrn hex]
    simp only [loop]
    exact (good_life_end p.g0 hex p.lu b).1
  · rw [executeLife_restart_end hres hrn hex]
    obtain ⟨q, hq1, hq2, _⟩ := (h1 rfl).2.2 rfl
    have : q = r := by rw [hex] at hq2; simpa using hq2
    subst this
    simp only [hq1, loop]
    exact (good_life_end p.g0 hex p.lu b).2 hrn
  · rw [executeLife_restart_begin hres hrn]
    simp only [loop]
    exact good_life_begin p.g0 p.q0 hex p.lu s1 rfl rfl rfl p.d0 rfl rfl rfl rfl p.g0.reset (h2 rfl).1 b

/-- One tick of the command manager keeps the invariant. -/
theorem good_tick {s : State} (g : Good s) : Good (tick s).1 := by
  have g0 := good_merged g
  unfold tick
  simp only
  generalize hs0 : merged s = s0 at *
  have hq0 : s0.queue = [] := by rw [← hs0]; rfl
  have hd0 : s0.done = [] := by rw [← hs0]; rfl
  rcases split_life g0 with hall | ⟨pre, l, post, he, hlu, hpre, hpost⟩
  · have q := loop_uod_spec s0.executing [] g0.core g0.fix g0.trackEx (fun r hr => ⟨hr, hall r hr⟩) g0.core.ids
      (by simp)
    apply good_finish_uod g0 q.core q.view
    intro i hi
    rcases q.doneOnly i hi with h0 | ⟨c, hc, hcu, e⟩
    · rw [hd0] at h0; cases h0
    · exact ⟨c, hc, e, Or.inl hcu⟩
  · rw [he, loop_append]
    have hnd := g0.core.ids
    rw [he] at hnd
    simp only [List.map_append, List.map_cons] at hnd
    rw [List.nodup_append] at hnd
    have q1 := loop_uod_spec pre [] g0.core g0.fix g0.trackEx
      (fun r hr => ⟨by rw [he]; exact List.mem_append_left _ hr, hpre r hr⟩) hnd.1 (by simp)
    have hdo : ∀ i, i ∈ (loop pre s0).1.done → ∃ c ∈ s0.executing, c.isUod = true ∧ c.id = i := by
      intro i hi
      rcases q1.doneOnly i hi with h0 | h1
      · rw [hd0] at h0; cases h0
      · exact h1
    have p : PreLife s0 (loop pre s0).1 pre post l :=
      ⟨g0, hq0, hd0, he, hlu, hpre, hpost, q1.core, q1.view, hdo⟩
    have hs1 : pre = [] → (loop pre s0).1 = s0 := by intro h; rw [h]; rfl
    cases hl1 : loop pre s0 with
    | mk s1 r1 =>
      rw [hl1] at p hs1
      simp only at p hs1
      cases r1 with
      | true =>
        simp only
        apply good_finish_uod g0 p.core p.view
        intro i hi
        obtain ⟨c, hc, hcu, e⟩ := p.doneOnly i hi
        exact ⟨c, hc, e, Or.inl hcu⟩
      | false =>
        simp only [loop]
        rw [if_neg (by rw [isDone_iff]; exact p.lnotdone)]
        have hx : executeReq s1 l = (executeLife s1 l, false) := by
          unfold executeReq
          cases hn : l.name with
          | uod k => have := hlu; simp [Req.isUod, hn] at this
          | start => rfl
          | stop => rfl
          | restart => rfl
        rw [hx]
        simp only
        cases hres : s0.resident with
        | none => exact good_life_fresh p hs1 hres _
        | some ρ => exact good_life_resident p hs1 hres _

theorem good_step {s : State} (g : Good s) (op : Op) : Good (step s op).1 := by
  cases op with
  | req k bad => exact good_request g k bad
  | user n => exact good_user g n
  | tick => exact good_tick g
  | cancel i => exact good_cancel g i
  | force i => exact good_force g i
  | sim j => exact good_simulate g j
  | pause b => exact g.congr rfl rfl rfl rfl rfl rfl rfl rfl rfl rfl rfl rfl rfl rfl

theorem good_run {s : State} (g : Good s) (ops : List Op) : Good (run s ops) := by
  induction ops generalizing s with
  | nil => exact g
  | cons op rest ih => exact ih (good_step g op)

end OPM.CmdMgr
