import OPM.Lemmas.InterpLock
import OPM.Model.InterpBlocks
/-!
# Blocks: the order of `get_locked_blocks()` (C05)

`ProgramNode.get_locked_blocks()` sorts the locked blocks by their `key_path` *string*, reversed, and the
interpreter treats the first element as the innermost block.  This file proves that reading correct:
for a well-formed method tree (`ProgWF`: a parent has a smaller index than its child and its key path
is a proper prefix of the child's — both are how `Node.key_path` and the depth-first numbering are
built, and the driver re-checks them on every parsed method) and a set of locked blocks that is a
chain under ancestry (the C05 invariant), the list is ordered deepest first: every later element is an
ancestor of every earlier one (`lockedBlocks_pairwise`, `head_is_deepest`).  It also gives the
canonical-form lemma used to compute `lockedBlocks` after a step (`lockedBlocks_unique`).
-/
namespace OPM.Interp

/-! ## membership in `get_locked_blocks()` -/

theorem mem_insertDesc (p : Prog) (x y : Nat) (l : List Nat) :
    y ∈ insertDesc p x l ↔ y = x ∨ y ∈ l := by
  induction l with
  | nil => simp [insertDesc]
  | cons z zs ih =>
    simp only [insertDesc]
    split
    · simp
    · simp only [List.mem_cons, ih]
      constructor
      · rintro (h | h | h) <;> simp [h]
      · rintro (h | h | h) <;> simp [h]

theorem mem_foldl_insertDesc (p : Prog) (bs acc : List Nat) (y : Nat) :
    y ∈ bs.foldl (fun acc x => insertDesc p x acc) acc ↔ y ∈ bs ∨ y ∈ acc := by
  induction bs generalizing acc with
  | nil => simp
  | cons b bs ih =>
    simp only [List.foldl, ih, mem_insertDesc, List.mem_cons]
    constructor
    · rintro (h | h | h) <;> simp [h]
    · rintro ((h | h) | h) <;> simp [h]

/-- `b` is returned by `get_locked_blocks()` iff it is a Block of the method that holds the lock. -/
theorem mem_lockedBlocks (p : Prog) (s : St) (b : Nat) :
    b ∈ lockedBlocks p s ↔
      b < p.size ∧ (node p b).inProgram = true ∧ isBlock p b = true ∧ (s.rt b).lockAcquired = true := by
  unfold lockedBlocks
  simp only [mem_foldl_insertDesc, List.mem_filter, List.mem_range, Bool.and_eq_true, getRt_eq]
  constructor
  · rintro (⟨h1, ⟨h2, h3⟩, h4⟩ | h)
    · exact ⟨h1, h2, h3, h4⟩
    · cases h
  · rintro ⟨h1, h2, h3, h4⟩
    exact Or.inl ⟨h1, ⟨h2, h3⟩, h4⟩

/-- Any two locked method blocks are nested in each other. -/
def Chain (p : Prog) (s : St) : Prop :=
  ∀ a b, a ∈ lockedBlocks p s → b ∈ lockedBlocks p s →
    a = b ∨ a ∈ ancestors p b ∨ b ∈ ancestors p a

/-! ## well-formed method trees -/

theorem node_of_size_le (p : Prog) (n : Nat) (h : p.size ≤ n) : node p n = default := by
  unfold node
  simp [Array.getD, Nat.not_lt.mpr h]

theorem parent_none_of_size_le (p : Prog) (n : Nat) (h : p.size ≤ n) : (node p n).parent = none := by
  rw [node_of_size_le p n h]; rfl

theorem isBlock_lt_size (p : Prog) (n : Nat) (h : isBlock p n = true) : n < p.size := by
  by_cases hn : n < p.size
  · exact hn
  · exfalso
    unfold isBlock at h
    rw [node_of_size_le p n (Nat.le_of_not_lt hn)] at h
    revert h; decide

theorem wf_node (p : Prog) (hwf : ProgWF p = true) (n : Nat) (hn : n < p.size) :
    (node p n).inProgram = true ∧
    ∀ q, (node p n).parent = some q → q < n ∧ properPrefix (node p q).keyPath (node p n).keyPath = true := by
  unfold ProgWF at hwf
  have := List.all_eq_true.mp hwf n (List.mem_range.mpr hn)
  simp only [Bool.and_eq_true] at this
  refine ⟨this.1, ?_⟩
  intro q hq
  have h2 := this.2
  rw [hq] at h2
  simp only [Bool.and_eq_true, decide_eq_true_eq] at h2
  exact h2

theorem wf_parent (p : Prog) (hwf : ProgWF p = true) (n q : Nat) (hq : (node p n).parent = some q) :
    q < n ∧ properPrefix (node p q).keyPath (node p n).keyPath = true := by
  by_cases hn : n < p.size
  · exact (wf_node p hwf n hn).2 q hq
  · rw [parent_none_of_size_le p n (Nat.le_of_not_lt hn)] at hq; cases hq

theorem properPrefix_iff (a b : List Nat) :
    properPrefix a b = true ↔ ∃ c cs, b = a ++ c :: cs := by
  unfold properPrefix
  simp only [Bool.and_eq_true, decide_eq_true_eq, List.isPrefixOf_iff_prefix]
  constructor
  · rintro ⟨⟨t, ht⟩, hl⟩
    cases t with
    | nil => simp at ht; subst ht; omega
    | cons c cs => exact ⟨c, cs, ht.symm⟩
  · rintro ⟨c, cs, h⟩
    subst h
    exact ⟨⟨c :: cs, rfl⟩, by simp⟩

theorem properPrefix_trans (a b c : List Nat) (h1 : properPrefix a b = true) (h2 : properPrefix b c = true) :
    properPrefix a c = true := by
  rw [properPrefix_iff] at *
  obtain ⟨x, xs, hb⟩ := h1
  obtain ⟨y, ys, hc⟩ := h2
  subst hb; subst hc
  exact ⟨x, xs ++ y :: ys, by simp⟩

/-- Python `str.__lt__`: a proper prefix is smaller … -/
theorem ltCodes_append (a : List Nat) (c : Nat) (cs : List Nat) : ltCodes a (a ++ c :: cs) = true := by
  induction a with
  | nil => rfl
  | cons x a ih => simp [ltCodes, ih]

/-- … and never larger. -/
theorem ltCodes_append_rev (a : List Nat) (c : Nat) (cs : List Nat) : ltCodes (a ++ c :: cs) a = false := by
  induction a with
  | nil => rfl
  | cons x a ih => simp [ltCodes, ih]

theorem ltCodes_of_properPrefix (a b : List Nat) (h : properPrefix a b = true) :
    ltCodes a b = true ∧ ltCodes b a = false := by
  obtain ⟨c, cs, hb⟩ := (properPrefix_iff a b).mp h
  subst hb
  exact ⟨ltCodes_append a c cs, ltCodes_append_rev a c cs⟩

/-- In a well-formed tree every ancestor has a smaller index and a key path that is a proper prefix. -/
theorem ancestorsAux_wf (p : Prog) (hwf : ProgWF p = true) :
    ∀ fuel n a, a ∈ ancestorsAux p fuel n →
      a < n ∧ properPrefix (node p a).keyPath (node p n).keyPath = true := by
  intro fuel
  induction fuel with
  | zero => intro n a h; simp [ancestorsAux] at h
  | succ fuel ih =>
    intro n a h
    unfold ancestorsAux at h
    split at h
    · cases h
    · rename_i q hq
      have hw := wf_parent p hwf n q hq
      simp only [List.mem_cons] at h
      rcases h with h | h
      · subst h; exact hw
      · have := ih q a h
        exact ⟨Nat.lt_trans this.1 hw.1, properPrefix_trans _ _ _ this.2 hw.2⟩

theorem ancestors_lt (p : Prog) (hwf : ProgWF p = true) (n a : Nat) (h : a ∈ ancestors p n) : a < n :=
  (ancestorsAux_wf p hwf _ n a h).1

theorem ancestors_keyPath (p : Prog) (hwf : ProgWF p = true) (n a : Nat) (h : a ∈ ancestors p n) :
    ltCodes (node p a).keyPath (node p n).keyPath = true ∧
    ltCodes (node p n).keyPath (node p a).keyPath = false :=
  ltCodes_of_properPrefix _ _ (ancestorsAux_wf p hwf _ n a h).2

/-! ## the sort of `get_locked_blocks()` puts the deepest block first -/

/-- `b` is an ancestor of `a` ("`a` is deeper"). -/
def Deeper (p : Prog) (a b : Nat) : Prop := b ∈ ancestors p a

theorem insertDesc_pairwise (p : Prog) (hwf : ProgWF p = true) (x : Nat) (l : List Nat)
    (hl : l.Pairwise (Deeper p))
    (hc : ∀ y ∈ l, Deeper p x y ∨ Deeper p y x) :
    (insertDesc p x l).Pairwise (Deeper p) := by
  induction l with
  | nil => simp [insertDesc]
  | cons y ys ih =>
    have hy := hc y (List.mem_cons_self ..)
    rw [List.pairwise_cons] at hl
    simp only [insertDesc]
    split
    · rename_i hlt
      -- `y`'s key path is smaller: `y` is an ancestor of `x`, and so is everything after `y`
      have hxy : Deeper p x y := by
        rcases hy with h | h
        · exact h
        · have := (ancestors_keyPath p hwf y x h).2
          rw [this] at hlt; cases hlt
      rw [List.pairwise_cons]
      refine ⟨?_, List.pairwise_cons.mpr hl⟩
      intro z hz
      simp only [List.mem_cons] at hz
      rcases hz with hz | hz
      · subst hz; exact hxy
      · rcases hc z (List.mem_cons_of_mem _ hz) with h | h
        · exact h
        · exfalso
          have h1 := ancestors_lt p hwf z x h
          have h2 := ancestors_lt p hwf x y hxy
          have h3 := ancestors_lt p hwf y z (hl.1 z hz)
          omega
    · rename_i hlt
      have hyx : Deeper p y x := by
        rcases hy with h | h
        · have := (ancestors_keyPath p hwf x y h).1
          rw [this] at hlt; exact absurd rfl hlt
        · exact h
      rw [List.pairwise_cons]
      refine ⟨?_, ih hl.2 (fun z hz => hc z (List.mem_cons_of_mem _ hz))⟩
      intro z hz
      rw [mem_insertDesc] at hz
      rcases hz with hz | hz
      · subst hz; exact hyx
      · exact hl.1 z hz

theorem foldl_insertDesc_pairwise (p : Prog) (hwf : ProgWF p = true) (bs acc : List Nat)
    (hnd : bs.Nodup) (hdis : ∀ x ∈ bs, x ∉ acc) (hacc : acc.Pairwise (Deeper p))
    (hc : ∀ a b, (a ∈ bs ∨ a ∈ acc) → (b ∈ bs ∨ b ∈ acc) → a = b ∨ Deeper p a b ∨ Deeper p b a) :
    (bs.foldl (fun acc x => insertDesc p x acc) acc).Pairwise (Deeper p) := by
  induction bs generalizing acc with
  | nil => exact hacc
  | cons b bs ih =>
    simp only [List.foldl]
    rw [List.nodup_cons] at hnd
    apply ih _ hnd.2
    · intro x hx hmem
      rw [mem_insertDesc] at hmem
      rcases hmem with h | h
      · subst h; exact hnd.1 hx
      · exact hdis x (List.mem_cons_of_mem _ hx) h
    · apply insertDesc_pairwise p hwf b acc hacc
      intro y hy
      rcases hc b y (Or.inl (List.mem_cons_self ..)) (Or.inr hy) with h | h | h
      · subst h; exact absurd hy (hdis b (List.mem_cons_self ..))
      · exact Or.inl h
      · exact Or.inr h
    · intro a c ha hcm
      apply hc
      · rcases ha with h | h
        · exact Or.inl (List.mem_cons_of_mem _ h)
        · rw [mem_insertDesc] at h
          rcases h with h | h
          · subst h; exact Or.inl (List.mem_cons_self ..)
          · exact Or.inr h
      · rcases hcm with h | h
        · exact Or.inl (List.mem_cons_of_mem _ h)
        · rw [mem_insertDesc] at h
          rcases h with h | h
          · subst h; exact Or.inl (List.mem_cons_self ..)
          · exact Or.inr h

/-- **The planned prefix lemma.**  For a well-formed tree and a chain of locked blocks, the list that
    `get_locked_blocks()` returns (key-path string sort, reversed) is ordered deepest first: every later
    element is an ancestor of every earlier one. -/
theorem lockedBlocks_pairwise (p : Prog) (s : St) (hwf : ProgWF p = true) (hch : Chain p s) :
    (lockedBlocks p s).Pairwise (Deeper p) := by
  have key : ∀ bs : List Nat, bs.foldl (fun acc x => insertDesc p x acc) [] = lockedBlocks p s → bs.Nodup →
      (bs.foldl (fun acc x => insertDesc p x acc) []).Pairwise (Deeper p) := by
    intro bs hbs hnd
    apply foldl_insertDesc_pairwise p hwf bs [] hnd
    · intro x _ h; cases h
    · exact List.Pairwise.nil
    · intro a b ha hb
      have ha' : a ∈ lockedBlocks p s := by rw [← hbs, mem_foldl_insertDesc]; exact ha
      have hb' : b ∈ lockedBlocks p s := by rw [← hbs, mem_foldl_insertDesc]; exact hb
      rcases hch a b ha' hb' with h | h | h
      · exact Or.inl h
      · exact Or.inr (Or.inr h)
      · exact Or.inr (Or.inl h)
  exact key _ rfl (List.Pairwise.filter _ List.nodup_range)

/-- The head of `get_locked_blocks()` is the deepest locked block: all the others are its ancestors. -/
theorem head_is_deepest (p : Prog) (s : St) (hwf : ProgWF p = true) (hch : Chain p s)
    (x : Nat) (rest : List Nat) (hl : lockedBlocks p s = x :: rest) :
    ∀ y ∈ rest, y ∈ ancestors p x := by
  have := lockedBlocks_pairwise p s hwf hch
  rw [hl, List.pairwise_cons] at this
  exact this.1

/-! ## canonical form: a deepest-first list is determined by its elements -/

theorem desc_unique : ∀ (l1 l2 : List Nat), l1.Pairwise (· > ·) → l2.Pairwise (· > ·) →
    (∀ x, x ∈ l1 ↔ x ∈ l2) → l1 = l2 := by
  intro l1
  induction l1 with
  | nil =>
    intro l2 _ _ h
    cases l2 with
    | nil => rfl
    | cons b t => exact absurd ((h b).mpr (List.mem_cons_self ..)) (by simp)
  | cons a t1 ih =>
    intro l2 h1 h2 h
    cases l2 with
    | nil => exact absurd ((h a).mp (List.mem_cons_self ..)) (by simp)
    | cons b t2 =>
      rw [List.pairwise_cons] at h1 h2
      have hab : a = b := by
        have ha := (h a).mp (List.mem_cons_self ..)
        have hb := (h b).mpr (List.mem_cons_self ..)
        simp only [List.mem_cons] at ha hb
        rcases ha with ha | ha
        · exact ha
        · rcases hb with hb | hb
          · exact hb.symm
          · have := h1.1 b hb; have := h2.1 a ha; omega
      subst hab
      congr 1
      apply ih t2 h1.2 h2.2
      intro x
      constructor
      · intro hx
        have := (h x).mp (List.mem_cons_of_mem _ hx)
        simp only [List.mem_cons] at this
        rcases this with e | e
        · subst e; have := h1.1 x hx; omega
        · exact e
      · intro hx
        have := (h x).mpr (List.mem_cons_of_mem _ hx)
        simp only [List.mem_cons] at this
        rcases this with e | e
        · subst e; have := h2.1 x hx; omega
        · exact e

theorem deeper_gt (p : Prog) (hwf : ProgWF p = true) (l : List Nat) (h : l.Pairwise (Deeper p)) :
    l.Pairwise (· > ·) :=
  h.imp (fun {a b} hab => ancestors_lt p hwf a b hab)

/-- A deepest-first list with the same elements as `get_locked_blocks()` *is* `get_locked_blocks()`. -/
theorem lockedBlocks_unique (p : Prog) (s : St) (hwf : ProgWF p = true) (hch : Chain p s) (l : List Nat)
    (hl : l.Pairwise (Deeper p)) (hm : ∀ x, x ∈ l ↔ x ∈ lockedBlocks p s) : lockedBlocks p s = l :=
  (desc_unique l _ (deeper_gt p hwf l hl) (deeper_gt p hwf _ (lockedBlocks_pairwise p s hwf hch)) hm).symm

end OPM.Interp
