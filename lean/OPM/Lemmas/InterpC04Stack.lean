import OPM.Lemmas.InterpC04Events
set_option linter.unusedSimpArgs false
set_option linter.unusedVariables false
/-!
C04 lemmas, Parts C and D: the control state of an interrupt generator.

Part C (`Early` / `Spent`): the stack of the generator registered for a Watch/Alarm `w` is first one
of the few "before the body" shapes and, from the invocation step on, contains only frames that can
never lead back to `w`'s invocation point — for methods without `Call macro` whose tree is ordered
(children have larger indices than their parent, which is how the parser numbers them).

Part D (`Quiet` / `Armed`): at every tick boundary no frame of a generator sits at a Watch/Alarm
invocation point; within a sub-tick the invocation point is only reached from the await point with
`activated` set, with nothing in between.
-/
namespace OPM.Interp

/-! ### decidable well-formedness hypotheses on the program -/

/-- no `Call macro` instruction in the method -/
def noCalls (p : Prog) : Bool :=
  (List.range p.size).all (fun n => !isCall p n)

/-- children are numbered after their parent (pre-order numbering of a tree) -/
def ordered (p : Prog) : Bool :=
  (List.range p.size).all (fun n => (node p n).children.all (fun c => decide (n < c)))

theorem node_default (p : Prog) (n : Nat) (h : ¬ n < p.size) : node p n = default := by
  unfold node
  simp [Array.getD, h]

theorem noCalls_kind (p : Prog) (h : noCalls p = true) (n : Nat) (nm : String) :
    (node p n).kind ≠ .call nm := by
  intro hk
  by_cases hn : n < p.size
  · unfold noCalls at h
    have := List.all_eq_true.mp h n (List.mem_range.mpr hn)
    simp [isCall, hk] at this
  · rw [node_default p n hn] at hk
    cases hk

theorem ordered_lt (p : Prog) (h : ordered p = true) (n c : Nat) (hc : c ∈ (node p n).children) : n < c := by
  by_cases hn : n < p.size
  · unfold ordered at h
    have := List.all_eq_true.mp h n (List.mem_range.mpr hn)
    have := List.all_eq_true.mp this c hc
    simpa using this
  · rw [node_default p n hn] at hc
    cases hc

theorem isCond_kind (p : Prog) (w : Nat) (h : isCond p w = true) :
    ∃ c, (node p w).kind = .watch c ∨ (node p w).kind = .alarm c := by
  unfold isCond at h
  split at h
  · exact ⟨_, Or.inl (by assumption)⟩
  · exact ⟨_, Or.inr (by assumption)⟩
  · cases h

/-! ### Part C: after the body started -/

/-- Frames that may occur in `w`'s generator once `w`'s body has started: `w`'s own tail frames and
    frames of nodes numbered after `w`. -/
def frameOK (w : Nat) : Frame → Bool
  | .wrapEnter n | .wrapThr n | .wrapDispatch n | .callRet n _ | .waitLoop n _ => decide (w < n)
  | .wrapAfter n | .children n _ _ => decide (w ≤ n)
  | .body n pc => decide (w < n) || (decide (n = w) && decide (3 ≤ pc))

def Spent (w : Nat) (stack : List Frame) : Prop := ∀ g ∈ stack, frameOK w g = true

theorem stepBody_spent (p : Prog) (s : St) (n pc : Nat) (below : List Frame) (w : Nat)
    (hnc : ∀ nm, (node p n).kind ≠ .call nm) (hw : isCond p w = true)
    (h : frameOK w (.body n pc) = true) :
    ∀ g ∈ outTop (stepBody p s n pc below), frameOK w g = true := by
  unfold isCond at hw
  simp only [frameOK, Bool.or_eq_true, Bool.and_eq_true, decide_eq_true_eq] at h
  unfold stepBody
  simp only []
  split
  all_goals (repeat' split)
  all_goals (try (simp only [outTop, List.mem_cons, List.mem_nil_iff, or_false, forall_eq_or_imp, forall_eq,
    frameOK, Bool.or_eq_true, Bool.and_eq_true, decide_eq_true_eq, List.not_mem_nil, false_imp_iff, implies_true,
    and_true]))
  all_goals (try (simp_all; done))
  all_goals (try (rcases h with h | ⟨h1, h2⟩ <;> first | omega | (subst_vars; simp_all; done) | (simp_all; omega)))

theorem stepFrame_spent (p : Prog) (s : St) (f : Frame) (below : List Frame) (w : Nat)
    (hnc : noCalls p = true) (hord : ordered p = true) (hw : isCond p w = true)
    (h : frameOK w f = true) :
    ∀ g ∈ outTop (stepFrame p s f below), frameOK w g = true := by
  cases f with
  | body n pc => exact stepBody_spent p s n pc below w (noCalls_kind p hnc n) hw h
  | children n inx inChild =>
    simp only [frameOK, decide_eq_true_eq] at h
    unfold stepFrame
    simp only []
    repeat' split
    all_goals (simp only [outTop, List.mem_cons, List.mem_nil_iff, or_false, forall_eq_or_imp, forall_eq,
      frameOK, decide_eq_true_eq, List.not_mem_nil, false_imp_iff, implies_true, and_true])
    all_goals (try omega)
    -- entering child `c`
    rename_i c hc _ _ _
    have := ordered_lt p hord n c (List.mem_of_getElem? hc)
    omega
  | _ =>
    simp only [frameOK, decide_eq_true_eq] at h
    unfold stepFrame
    simp only []
    repeat' split
    all_goals (simp only [outTop, List.mem_cons, List.mem_nil_iff, or_false, forall_eq_or_imp, forall_eq,
      frameOK, Bool.or_eq_true, Bool.and_eq_true, decide_eq_true_eq, List.not_mem_nil, false_imp_iff, implies_true,
      and_true])
    all_goals (try omega)

theorem unwind_sub (s : St) (stack : List Frame) : ∀ g ∈ (unwind s stack).2, g ∈ stack := by
  induction stack with
  | nil => intro g hg; cases hg
  | cons f rest ih =>
    intro g hg
    cases f <;> simp only [unwind] at hg <;>
      first | exact List.mem_cons_of_mem _ (ih g hg) | exact List.mem_cons_of_mem _ hg

theorem stepGen_stack (p : Prog) (s : St) (f : Frame) (below : List Frame) :
    ∀ g ∈ (stepGen p s (f :: below)).2.1, g ∈ outTop (stepFrame p s f below) ∨ g ∈ below := by
  intro g hg
  unfold stepGen at hg
  simp only [] at hg
  cases hs : stepFrame p s f below with
  | next s' top sig =>
    rw [hs] at hg
    simp only [List.mem_append] at hg
    simpa [outTop] using hg
  | raise s' =>
    rw [hs] at hg
    exact Or.inr (unwind_sub _ _ g hg)

/-- Once `w`'s body has started, the generator's stack stays `Spent` and it never starts `w`'s body again. -/
theorem spent_step (p : Prog) (s : St) (stack : List Frame) (w : Nat)
    (hnc : noCalls p = true) (hord : ordered p = true) (hw : isCond p w = true) (h : Spent w stack) :
    Spent w (stepGen p s stack).2.1 ∧ bsCount (stepGen p s stack).1 w = bsCount s w := by
  cases stack with
  | nil => exact ⟨by simpa [stepGen] using h, rfl⟩
  | cons f below =>
    constructor
    · intro g hg
      rcases stepGen_stack p s f below g hg with h1 | h1
      · exact stepFrame_spent p s f below w hnc hord hw (h f (List.mem_cons_self ..)) g h1
      · exact h g (List.mem_cons_of_mem _ h1)
    · rcases stepGen_bs p s (f :: below) w hw with h1 | h1
      · exact h1
      · simp only [List.head?, Option.some.injEq] at h1
        have := h f (List.mem_cons_self ..)
        rw [h1] at this
        simp [frameOK] at this

/-! ### before the body started -/

/-- The stack of `w`'s interrupt generator up to and including the invocation point. -/
def Early (w : Nat) (stack : List Frame) : Prop :=
  stack = [.wrapEnter w] ∨ stack = [.wrapThr w] ∨ stack = [.wrapDispatch w] ∨
  stack = [.body w 0, .wrapAfter w] ∨ stack = [.body w 1, .wrapAfter w] ∨ stack = [.body w 2, .wrapAfter w]

/-- `stepGen` on a non-empty stack, with the continuation after `stepFrame` as a named function. -/
def finishStep (below : List Frame) : Out → St × List Frame × Signal
  | .next s top sig => (s, top ++ below, sig)
  | .raise s => ((unwind s below).1, (unwind s below).2, .cont)

theorem stepGen_cons (p : Prog) (s : St) (f : Frame) (below : List Frame) :
    stepGen p s (f :: below) = finishStep below (stepFrame p s f below) := by
  unfold stepGen finishStep
  simp only []
  cases stepFrame p s f below <;> rfl

@[simp] theorem finishStep_next (below : List Frame) (s : St) (top : List Frame) (sig : Signal) :
    finishStep below (.next s top sig) = (s, top ++ below, sig) := rfl

theorem early_step (p : Prog) (s : St) (stack : List Frame) (w : Nat)
    (hw : isCond p w = true) (h : Early w stack) :
    (Early w (stepGen p s stack).2.1 ∧ bsCount (stepGen p s stack).1 w = bsCount s w) ∨
    (Spent w (stepGen p s stack).2.1 ∧ bsCount (stepGen p s stack).1 w ≤ bsCount s w + 1) := by
  obtain ⟨c, hk⟩ := isCond_kind p w hw
  have spentNil : Spent w [] := by intro g hg; cases hg
  have spent1 : Spent w [.wrapAfter w] := by
    intro g hg; simp only [List.mem_cons, List.mem_nil_iff, or_false] at hg; subst hg; simp [frameOK]
  have spent9 : Spent w [.body w 9, .wrapAfter w] := by
    intro g hg; simp only [List.mem_cons, List.mem_nil_iff, or_false] at hg
    rcases hg with hg | hg <;> subst hg <;> simp [frameOK]
  rcases h with h | h | h | h | h | h <;> subst h
  · -- wrapEnter
    simp only [stepGen_cons, stepFrame, apply_ite (finishStep []), finishStep_next, List.append_nil]
    split
    · right; exact ⟨spentNil, Nat.le_succ _⟩
    · left; exact ⟨Or.inr (Or.inl rfl), rfl⟩
  · -- wrapThr
    simp only [stepGen_cons, stepFrame, apply_ite (finishStep []), finishStep_next, List.append_nil]
    split
    · split
      · right; exact ⟨spentNil, Nat.le_succ _⟩
      · left; exact ⟨Or.inr (Or.inl rfl), rfl⟩
    · left; refine ⟨Or.inr (Or.inr (Or.inl rfl)), ?_⟩
      simp [bs_emit]
  · -- wrapDispatch
    left
    rw [stepGen_cons]
    exact ⟨Or.inr (Or.inr (Or.inr (Or.inl rfl))), rfl⟩
  · -- body 0
    rcases hk with hk | hk
    · simp only [stepGen_cons, stepFrame, stepBody_watch_pc0 p s w _ c hk, apply_ite (finishStep _), finishStep_next,
        List.cons_append, List.nil_append]
      repeat' split
      · right; exact ⟨spent9, by simp⟩
      · right; exact ⟨spent9, Nat.le_succ _⟩
      · right; exact ⟨spent1, Nat.le_succ _⟩
      · left; exact ⟨Or.inr (Or.inr (Or.inr (Or.inr (Or.inl rfl)))), rfl⟩
      · left; exact ⟨Or.inr (Or.inr (Or.inr (Or.inr (Or.inr rfl)))), rfl⟩
    · simp only [stepGen_cons, stepFrame, stepBody_alarm_pc0 p s w _ c hk, apply_ite (finishStep _), finishStep_next,
        List.cons_append, List.nil_append]
      repeat' split
      · right; exact ⟨spent9, by simp⟩
      · right; exact ⟨spent9, Nat.le_succ _⟩
      · left; exact ⟨Or.inr (Or.inr (Or.inr (Or.inr (Or.inl rfl)))), rfl⟩
      · left; exact ⟨Or.inr (Or.inr (Or.inr (Or.inr (Or.inr rfl)))), rfl⟩
  · -- body 1
    rcases hk with hk | hk
    · simp only [stepGen_cons, stepFrame, stepBody_watch_pc1 p s w _ c hk, apply_ite (finishStep _), finishStep_next,
        List.cons_append, List.nil_append]
      repeat' split
      · left; exact ⟨Or.inr (Or.inr (Or.inr (Or.inr (Or.inr rfl)))), rfl⟩
      · right; exact ⟨spent1, Nat.le_succ _⟩
      · left; exact ⟨Or.inr (Or.inr (Or.inr (Or.inr (Or.inl rfl)))), by simp⟩
    · simp only [stepGen_cons, stepFrame, stepBody_alarm_pc1 p s w _ c hk, apply_ite (finishStep _), finishStep_next,
        List.cons_append, List.nil_append]
      repeat' split
      · left; exact ⟨Or.inr (Or.inr (Or.inr (Or.inr (Or.inr rfl)))), rfl⟩
      · left; exact ⟨Or.inr (Or.inr (Or.inr (Or.inr (Or.inl rfl)))), by simp⟩
  · -- body 2: the invocation
    right
    rw [stepGen_pc2 p s w _ hw]
    refine ⟨?_, ?_⟩
    · intro g hg
      simp only [List.mem_cons, List.mem_nil_iff, or_false] at hg
      rcases hg with hg | hg | hg <;> subst hg <;> simp [frameOK]
    · simp [bs_pc2]

end OPM.Interp
