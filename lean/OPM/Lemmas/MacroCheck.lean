import OPM.Model.MacroCheck
/-! Soundness, completeness and termination of the repaired recursion check `OPM.MacroCheck.cascade`
against the transitive "calling this macro will call `name`" relation. -/
namespace OPM.MacroCheck
open OPM.Interp

/-- Running the body of macro node `a` executes a `Call macro: cn` whose name is registered to node `b`. -/
def Edge (p : Prog) (macros : List (String × Nat)) (a b : Nat) : Prop :=
  ∃ cn, cn ∈ execCalls p a ∧ macros.lookup cn = some b

/-- Reflexive-transitive closure of `Edge`: the macro bodies a call of `a` can get to run. -/
inductive Reach (p : Prog) (macros : List (String × Nat)) : Nat → Nat → Prop
  | refl (a : Nat) : Reach p macros a a
  | step (a b c : Nat) : Edge p macros a b → Reach p macros b c → Reach p macros a c

/-- A call of macro node `m` will (directly or through any chain of macro calls, also calls nested in
    Watch / Alarm / Block bodies) execute a `Call macro: name`. -/
def CallsName (p : Prog) (macros : List (String × Nat)) (name : String) (m : Nat) : Prop :=
  ∃ m', Reach p macros m m' ∧ name ∈ execCalls p m'

theorem CallsName.of_edge {p : Prog} {macros : List (String × Nat)} {name : String} {a b : Nat}
    (e : Edge p macros a b) (h : CallsName p macros name b) : CallsName p macros name a := by
  rcases h with ⟨m', r, hn⟩
  exact ⟨m', Reach.step a b m' e r, hn⟩

/-! ### soundness -/

theorem scan_sound (p : Prog) (macros : List (String × Nat)) (name : String)
    (rec : Nat → List Nat → Option (List String × List Nat)) (m : Nat)
    (hrec : ∀ m' v path v', rec m' v = some (path, v') → path ≠ [] →
      name ∈ path ∧ CallsName p macros name m')
    (cs : List String) (hcs : ∀ cn ∈ cs, cn ∈ execCalls p m) (v : List Nat) (path : List String) (v' : List Nat)
    (h : scan macros name rec cs v = some (path, v')) (hne : path ≠ []) :
    name ∈ path ∧ CallsName p macros name m := by
  induction cs generalizing v with
  | nil => simp [scan] at h; exact absurd h.1 hne
  | cons cn cs ih =>
    have hcs' : ∀ c ∈ cs, c ∈ execCalls p m := fun c hc => hcs c (List.mem_cons_of_mem _ hc)
    unfold scan at h
    split at h
    · rename_i hcn
      simp only [Option.some.injEq, Prod.mk.injEq] at h
      refine ⟨by rw [← h.1, hcn]; simp, m, Reach.refl m, ?_⟩
      rw [← hcn]; exact hcs cn (by simp)
    · split at h
      · exact ih hcs' v h
      · rename_i m' hl
        split at h
        · exact ih hcs' v h
        · split at h
          · cases h
          · rename_i path1 v1 hr
            split at h
            · exact ih hcs' v1 h
            · rename_i hpe
              simp only [Option.some.injEq, Prod.mk.injEq] at h
              have hp1 : path1 ≠ [] := by
                intro e; apply hpe; simp [e]
              have := hrec m' v path1 v1 hr hp1
              refine ⟨by rw [← h.1]; exact List.mem_cons_of_mem _ this.1, ?_⟩
              exact CallsName.of_edge ⟨cn, hcs cn (by simp), hl⟩ this.2

theorem cascadeAux_sound (p : Prog) (macros : List (String × Nat)) (name : String) (fuel : Nat) :
    ∀ m v path v', cascadeAux p macros name fuel m v = some (path, v') → path ≠ [] →
      name ∈ path ∧ CallsName p macros name m := by
  induction fuel with
  | zero => intro m v path v' h; simp [cascadeAux] at h
  | succ fuel ih =>
    intro m v path v' h hne
    unfold cascadeAux at h
    exact scan_sound p macros name _ m ih _ (fun _ hc => hc) _ path v' h hne

/-! ### completeness: an empty answer leaves a closed visited set -/

/-- `x` does not call `name` itself and all its callees are in `r`. -/
def Good (p : Prog) (macros : List (String × Nat)) (name : String) (x : Nat) (r : List Nat) : Prop :=
  name ∉ execCalls p x ∧ ∀ y, Edge p macros x y → y ∈ r

theorem Good.mono {p : Prog} {macros : List (String × Nat)} {name : String} {x : Nat} {r r' : List Nat}
    (h : Good p macros name x r) (hs : ∀ y ∈ r, y ∈ r') : Good p macros name x r' :=
  ⟨h.1, fun y e => hs y (h.2 y e)⟩

/-- What a search that answers `[]` guarantees. -/
def EmptyOk (p : Prog) (macros : List (String × Nat)) (name : String) (v r : List Nat) : Prop :=
  (∀ y ∈ v, y ∈ r) ∧ ∀ x ∈ r, x ∉ v → Good p macros name x r

theorem scan_empty (p : Prog) (macros : List (String × Nat)) (name : String)
    (rec : Nat → List Nat → Option (List String × List Nat))
    (hrec : ∀ m' v r, rec m' v = some ([], r) → m' ∈ r ∧ EmptyOk p macros name v r)
    (cs : List String) (v r : List Nat) (h : scan macros name rec cs v = some ([], r)) :
    EmptyOk p macros name v r ∧ ∀ cn ∈ cs, cn ≠ name ∧ ∀ y, macros.lookup cn = some y → y ∈ r := by
  induction cs generalizing v with
  | nil =>
    simp [scan] at h
    subst h
    exact ⟨⟨fun _ hy => hy, fun x hx hnx => absurd hx hnx⟩, fun _ hc => by cases hc⟩
  | cons cn cs ih =>
    unfold scan at h
    split at h
    · simp at h
    · rename_i hcn
      split at h
      · rename_i hl
        have := ih v h
        refine ⟨this.1, ?_⟩
        intro c hc
        rcases List.mem_cons.mp hc with e | e
        · subst e; exact ⟨hcn, fun y hy => by rw [hl] at hy; cases hy⟩
        · exact this.2 c e
      · rename_i m' hl
        split at h
        · rename_i hv
          have := ih v h
          refine ⟨this.1, ?_⟩
          intro c hc
          rcases List.mem_cons.mp hc with e | e
          · subst e
            refine ⟨hcn, fun y hy => ?_⟩
            rw [hl] at hy; cases hy
            exact this.1.1 m' (by simpa using hv)
          · exact this.2 c e
        · split at h
          · cases h
          · rename_i path1 v1 hr
            split at h
            · rename_i hpe
              have hp : path1 = [] := by simpa using hpe
              subst hp
              have h1 := hrec m' v v1 hr
              have h2 := ih v1 h
              refine ⟨⟨fun y hy => h2.1.1 y (h1.2.1 y hy), ?_⟩, ?_⟩
              · intro x hx hnx
                by_cases hx1 : x ∈ v1
                · exact (h1.2.2 x hx1 hnx).mono h2.1.1
                · exact h2.1.2 x hx hx1
              · intro c hc
                rcases List.mem_cons.mp hc with e | e
                · subst e
                  refine ⟨hcn, fun y hy => ?_⟩
                  rw [hl] at hy; cases hy
                  exact h2.1.1 m' h1.1
                · exact h2.2 c e
            · simp at h

theorem cascadeAux_empty (p : Prog) (macros : List (String × Nat)) (name : String) (fuel : Nat) :
    ∀ m v r, cascadeAux p macros name fuel m v = some ([], r) → m ∈ r ∧ EmptyOk p macros name v r := by
  induction fuel with
  | zero => intro m v r h; simp [cascadeAux] at h
  | succ fuel ih =>
    intro m v r h
    unfold cascadeAux at h
    have := scan_empty p macros name _ ih _ _ _ h
    have hm : m ∈ r := this.1.1 m (by simp)
    refine ⟨hm, fun y hy => this.1.1 y (List.mem_cons_of_mem _ hy), ?_⟩
    intro x hx hnx
    by_cases hxm : x = m
    · subst hxm
      refine ⟨fun hn => (this.2 name hn).1 rfl, ?_⟩
      rintro y ⟨cn, hc, hl⟩
      exact (this.2 cn hc).2 y hl
    · exact this.1.2 x hx (by simp [hxm, hnx])

theorem closed_reach (p : Prog) (macros : List (String × Nat)) (name : String) (r : List Nat)
    (hr : ∀ x ∈ r, Good p macros name x r) (a b : Nat) (h : Reach p macros a b) (ha : a ∈ r) : b ∈ r := by
  induction h with
  | refl a => exact ha
  | step a b c e _ ih => exact ih ((hr a ha).2 b e)

/-! ### termination: the fuel `cascadeFuel` is never used up -/

/-- number of table entries whose macro node has not been visited -/
def unv (macros : List (String × Nat)) (v : List Nat) : Nat :=
  (macros.filter (fun e => !v.contains e.2)).length

theorem unv_le_length (macros : List (String × Nat)) (v : List Nat) : unv macros v ≤ macros.length :=
  List.length_filter_le _ _

theorem unv_mono (macros : List (String × Nat)) (v v' : List Nat) (h : ∀ y ∈ v, y ∈ v') :
    unv macros v' ≤ unv macros v := by
  unfold unv
  induction macros with
  | nil => simp
  | cons e l ih =>
    simp only [List.filter_cons]
    by_cases h1 : v'.contains e.2 = true
    · have ih' := ih
      by_cases h2 : v.contains e.2 = true
      · simp only [h1, h2, Bool.not_true, Bool.false_eq_true, if_false]
        exact ih'
      · have h2' : v.contains e.2 = false := by simpa using h2
        simp only [h1, h2', Bool.not_true, Bool.not_false, Bool.false_eq_true, if_false, if_true, List.length_cons]
        omega
    · have h1' : v'.contains e.2 = false := by simpa using h1
      have h2 : v.contains e.2 = false := by
        cases hc : v.contains e.2 with
        | false => rfl
        | true =>
          have : e.2 ∈ v' := h e.2 (by simpa using hc)
          have : v'.contains e.2 = true := by simpa using this
          rw [h1'] at this; cases this
      simp only [h1', h2, Bool.not_false, if_true, List.length_cons]
      omega

theorem lookup_mem (macros : List (String × Nat)) (cn : String) (m : Nat)
    (h : macros.lookup cn = some m) : ∃ e ∈ macros, e.2 = m := by
  induction macros with
  | nil => simp [List.lookup] at h
  | cons e l ih =>
    obtain ⟨k, b⟩ := e
    simp only [List.lookup] at h
    split at h
    · simp only [Option.some.injEq] at h
      exact ⟨(k, b), by simp, h⟩
    · obtain ⟨e', he', h'⟩ := ih h
      exact ⟨e', List.mem_cons_of_mem _ he', h'⟩

theorem unv_cons_lt (macros : List (String × Nat)) (v : List Nat) (m : Nat)
    (hm : ∃ e ∈ macros, e.2 = m) (hv : v.contains m = false) : unv macros (m :: v) < unv macros v := by
  unfold unv
  induction macros with
  | nil => obtain ⟨e, he, _⟩ := hm; cases he
  | cons e l ih =>
    have hle : (l.filter (fun e => !(m :: v).contains e.2)).length ≤ (l.filter (fun e => !v.contains e.2)).length :=
      unv_mono l v (m :: v) (fun y hy => List.mem_cons_of_mem _ hy)
    simp only [List.filter_cons]
    by_cases hem : e.2 = m
    · have h1 : (m :: v).contains e.2 = true := by simp [hem]
      have h2 : v.contains e.2 = false := by rw [hem]; exact hv
      simp only [h1, h2, Bool.not_true, Bool.not_false, if_true, List.length_cons]
      simp only [Bool.false_eq_true, if_false]
      omega
    · obtain ⟨e', he', h'⟩ := hm
      have hl : ∃ e ∈ l, e.2 = m := by
        rcases List.mem_cons.mp he' with h0 | h0
        · subst h0; exact absurd h' hem
        · exact ⟨e', h0, h'⟩
      have := ih hl
      have h3 : (m :: v).contains e.2 = v.contains e.2 := by
        simp only [List.contains_cons]
        have : (e.2 == m) = false := by simpa using hem
        rw [this]; simp
      rw [h3]
      split
      · simp only [List.length_cons]; omega
      · exact this

theorem scan_mono (macros : List (String × Nat)) (name : String)
    (rec : Nat → List Nat → Option (List String × List Nat))
    (hrec : ∀ m' v path r, rec m' v = some (path, r) → ∀ y ∈ v, y ∈ r)
    (cs : List String) (v : List Nat) (path : List String) (r : List Nat)
    (h : scan macros name rec cs v = some (path, r)) : ∀ y ∈ v, y ∈ r := by
  induction cs generalizing v with
  | nil => simp [scan] at h; rw [← h.2]; exact fun _ hy => hy
  | cons cn cs ih =>
    unfold scan at h
    split at h
    · simp only [Option.some.injEq, Prod.mk.injEq] at h; rw [← h.2]; exact fun _ hy => hy
    · split at h
      · exact ih v h
      · split at h
        · exact ih v h
        · split at h
          · cases h
          · rename_i path1 v1 hr
            have h1 := hrec _ _ _ _ hr
            split at h
            · exact fun y hy => ih v1 h y (h1 y hy)
            · simp only [Option.some.injEq, Prod.mk.injEq] at h; rw [← h.2]; exact h1

theorem cascadeAux_mono (p : Prog) (macros : List (String × Nat)) (name : String) (fuel : Nat) :
    ∀ m v path r, cascadeAux p macros name fuel m v = some (path, r) → ∀ y ∈ v, y ∈ r := by
  induction fuel with
  | zero => intro m v path r h; simp [cascadeAux] at h
  | succ fuel ih =>
    intro m v path r h y hy
    unfold cascadeAux at h
    exact scan_mono macros name _ ih _ _ _ _ h y (List.mem_cons_of_mem _ hy)

theorem scan_total (macros : List (String × Nat)) (name : String) (f : Nat)
    (rec : Nat → List Nat → Option (List String × List Nat))
    (hmono : ∀ m' v path r, rec m' v = some (path, r) → ∀ y ∈ v, y ∈ r)
    (hrec : ∀ m' v, unv macros (m' :: v) < f → rec m' v ≠ none)
    (cs : List String) (v : List Nat) (hv : unv macros v ≤ f) : scan macros name rec cs v ≠ none := by
  induction cs generalizing v with
  | nil => simp [scan]
  | cons cn cs ih =>
    unfold scan
    split
    · simp
    · split
      · exact ih v hv
      · rename_i m' hl
        split
        · exact ih v hv
        · rename_i hc
          have hc' : v.contains m' = false := by simpa using hc
          have hlt := unv_cons_lt macros v m' (lookup_mem macros cn m' hl) hc'
          split
          · rename_i hr
            exact absurd hr (hrec m' v (by omega))
          · rename_i path1 v1 hr
            split
            · apply ih v1
              have := unv_mono macros v v1 (hmono _ _ _ _ hr)
              omega
            · simp

theorem cascadeAux_total (p : Prog) (macros : List (String × Nat)) (name : String) (fuel : Nat) :
    ∀ m v, unv macros (m :: v) < fuel → cascadeAux p macros name fuel m v ≠ none := by
  induction fuel with
  | zero => intro m v h; omega
  | succ fuel ih =>
    intro m v h
    unfold cascadeAux
    exact scan_total macros name fuel _ (cascadeAux_mono p macros name fuel) ih _ _ (by omega)

end OPM.MacroCheck
