import OPM.Lemmas.InterpC04Stack
set_option linter.unusedSimpArgs false
set_option linter.unusedVariables false
/-!
# Injected code in the interpreter model (lemmas for C14)

Part A — *frame*: the generator that runs a snippet made of Mark / Wait / UOD command / Notify-like /
blank lines (`neutralKind`) touches, in every micro-step and hence in every sub-tick (`runGen`, by
induction over the micro-steps), nothing but the runtime records of the snippet's own nodes, the Mark
tag, the event log and the error slot: no record of a method line, no interrupt, no macro, no block
tag, no base unit, no other generator.

Part B — *once*: the generator registered for an injected node (`[wrapEnter n]`) starts the injected
body at most once in its whole life, under every environment (the C04 argument for Watch/Alarm,
redone for the injected wrapper whose invocation point is `body n 0`).
-/
namespace OPM.Interp

/-! ## Part A: the frame of a neutral snippet -/

/-- Instructions that only act on themselves (and on the Mark tag / the command queue). -/
def neutralKind : Kind → Bool
  | .injected | .mark _ | .wait _ | .simple _ | .blank _ => true
  | .cmd _ fails => !fails
  | _ => false

/-- A frame of a node of the set `D`; `callRet` frames (they write to the macro node) are excluded. -/
def frameIn (D : Nat → Bool) : Frame → Bool
  | .callRet _ _ => false
  | f => D (frameNode f)

/-- What a step leaves alone: every record outside `D` and all registration / scope state. -/
structure Outside (D : Nat → Bool) (s s' : St) : Prop where
  rt : ∀ k, D k = false → s'.rt k = s.rt k
  imap : s'.imap = s.imap
  macros : s'.macros = s.macros
  blockTag : s'.blockTag = s.blockTag
  baseFactor : s'.baseFactor = s.baseFactor
  baseUnit : s'.baseUnit = s.baseUnit
  gens : s'.gens = s.gens
  nextGid : s'.nextGid = s.nextGid

theorem outside_refl (D : Nat → Bool) (s : St) : Outside D s s :=
  ⟨fun _ _ => rfl, rfl, rfl, rfl, rfl, rfl, rfl, rfl⟩

theorem outside_trans {D : Nat → Bool} {a b c : St} (h1 : Outside D a b) (h2 : Outside D b c) : Outside D a c :=
  ⟨fun k hk => (h2.rt k hk).trans (h1.rt k hk), h2.imap.trans h1.imap, h2.macros.trans h1.macros,
   h2.blockTag.trans h1.blockTag, h2.baseFactor.trans h1.baseFactor, h2.baseUnit.trans h1.baseUnit,
   h2.gens.trans h1.gens, h2.nextGid.trans h1.nextGid⟩

theorem outside_setRt (D : Nat → Bool) (s : St) (n : Nat) (f : NodeRt → NodeRt) (hn : D n = true) :
    Outside D s (setRt s n f) := by
  refine ⟨?_, rfl, rfl, rfl, rfl, rfl, rfl, rfl⟩
  intro k hk
  simp only [rt_setRt]
  split
  · rename_i e; subst e; rw [hn] at hk; cases hk
  · rfl

theorem outside_emit (D : Nat → Bool) (s : St) (e : Event) : Outside D s (emit s e) :=
  ⟨fun _ _ => rfl, rfl, rfl, rfl, rfl, rfl, rfl, rfl⟩

theorem outside_marks (D : Nat → Bool) (s : St) (m : List String) : Outside D s { s with marks := m } :=
  ⟨fun _ _ => rfl, rfl, rfl, rfl, rfl, rfl, rfl, rfl⟩

theorem outside_lastError (D : Nat → Bool) (s : St) (e : Option Nat) : Outside D s { s with lastError := e } :=
  ⟨fun _ _ => rfl, rfl, rfl, rfl, rfl, rfl, rfl, rfl⟩

theorem outside_markCompleted (D : Nat → Bool) (s : St) (n : Nat) (hn : D n = true) :
    Outside D s (markCompleted s n) := by
  unfold markCompleted
  split
  · exact outside_emit D s _
  · exact outside_trans (outside_setRt D s n _ hn) (outside_emit D _ _)

theorem outside_finishNode (D : Nat → Bool) (s : St) (n : Nat) (hn : D n = true) :
    Outside D s (finishNode s n) := by
  unfold finishNode
  exact outside_trans (outside_markCompleted D s n hn) (outside_setRt D _ n _ hn)

theorem outside_markFailed (D : Nat → Bool) (s : St) (n : Nat) (hn : D n = true) :
    Outside D s (markFailed s n) := by
  unfold markFailed
  exact outside_trans (outside_setRt D s n _ hn) (outside_emit D _ _)

def outStateI : Out → St
  | .next s _ _ => s
  | .raise s => s

def outTopI : Out → List Frame
  | .next _ top _ => top
  | .raise _ => []

theorem stepBody_neutral (p : Prog) (D : Nat → Bool) (s : St) (n pc : Nat) (below : List Frame)
    (hn : D n = true) (hk : neutralKind (node p n).kind = true) :
    Outside D s (outStateI (stepBody p s n pc below)) ∧
    ∀ g ∈ outTopI (stepBody p s n pc below), frameIn D g = true := by
  have own : ∀ pc', frameIn D (.body n pc') = true := by intro pc'; simpa [frameIn, frameNode] using hn
  have none : ∀ g, g ∈ ([] : List Frame) → frameIn D g = true := by intro g hg; cases hg
  have one : ∀ f, frameIn D f = true → ∀ g, g ∈ [f] → frameIn D g = true := by
    intro f hf g hg; simp only [List.mem_cons, List.mem_nil_iff, or_false] at hg; subst hg; exact hf
  cases hkd : (node p n).kind <;> rw [hkd] at hk <;>
    simp only [neutralKind, Bool.false_eq_true, Bool.not_eq_true'] at hk <;>
    unfold stepBody <;> simp only [hkd]
  case blank t =>
    split
    · simp only [outStateI, outTopI]; exact ⟨outside_setRt D s n _ hn, one _ (own _)⟩
    · simp only [outStateI, outTopI]; exact ⟨outside_setRt D s n _ hn, none⟩
  case mark nm =>
    split
    · split
      · simp only [outStateI, outTopI]; exact ⟨outside_refl D s, none⟩
      · simp only [outStateI, outTopI]; exact ⟨outside_trans (outside_trans (outside_marks D s _) (outside_emit D _ _)) (outside_finishNode D _ n hn),
          one _ (own _)⟩
    · simp only [outStateI, outTopI]; exact ⟨outside_refl D s, none⟩
  case simple lb =>
    split
    · simp only [outStateI, outTopI]; exact ⟨outside_trans (outside_emit D s _) (outside_finishNode D _ n hn), one _ (own _)⟩
    · simp only [outStateI, outTopI]; exact ⟨outside_refl D s, none⟩
  case wait d =>
    split
    · split
      · simp only [outStateI, outTopI]; exact ⟨outside_setRt D s n _ hn, none⟩
      · simp only [outStateI, outTopI]; exact ⟨outside_setRt D s n _ hn, one _ (by simpa [frameIn, frameNode] using hn)⟩
    · simp only [outStateI, outTopI]; exact ⟨outside_refl D s, none⟩
  case cmd nm fails =>
    subst hk
    split
    · simp only [Bool.false_eq_true, if_false, outStateI, outTopI]
      exact ⟨outside_emit D s _, one _ (own _)⟩
    · simp only [outStateI, outTopI]; exact ⟨outside_refl D s, none⟩
  case injected =>
    split
    · simp only [outStateI, outTopI]; refine ⟨outside_emit D s _, ?_⟩
      intro g hg
      simp only [outTopI, List.mem_cons, List.mem_nil_iff, or_false] at hg
      rcases hg with hg | hg <;> subst hg
      · simpa [frameIn, frameNode] using hn
      · exact own _
    · simp only [outStateI, outTopI]; exact ⟨outside_finishNode D s n hn, one _ (own _)⟩
    · simp only [outStateI, outTopI]; exact ⟨outside_refl D s, none⟩

theorem stepFrame_neutral (p : Prog) (D : Nat → Bool) (s : St) (f : Frame) (below : List Frame)
    (hkind : ∀ k, D k = true → neutralKind (node p k).kind = true)
    (hclosed : ∀ k, D k = true → ∀ c ∈ (node p k).children, D c = true)
    (hf : frameIn D f = true) :
    Outside D s (outStateI (stepFrame p s f below)) ∧
    ∀ g ∈ outTopI (stepFrame p s f below), frameIn D g = true := by
  cases f with
  | body n pc =>
    have hn : D n = true := by simpa [frameIn, frameNode] using hf
    exact stepBody_neutral p D s n pc below hn (hkind n hn)
  | callRet n m => simp [frameIn] at hf
  | wrapEnter n =>
    have hn : D n = true := by simpa [frameIn, frameNode] using hf
    unfold stepFrame; simp only []
    split
    · simp only [outStateI, outTopI]; exact ⟨outside_refl D s, by intro g hg; simp [outTopI] at hg⟩
    · simp only [outStateI, outTopI]; exact ⟨outside_setRt D s n _ hn, by intro g hg; simp [outTopI] at hg; subst hg; simpa [frameIn, frameNode] using hn⟩
  | wrapThr n =>
    have hn : D n = true := by simpa [frameIn, frameNode] using hf
    unfold stepFrame; simp only []
    split
    · split
      · simp only [outStateI, outTopI]; exact ⟨outside_refl D s, by intro g hg; simp [outTopI] at hg⟩
      · simp only [outStateI, outTopI]; exact ⟨outside_refl D s, by intro g hg; simp [outTopI] at hg; subst hg; simpa [frameIn, frameNode] using hn⟩
    · simp only [outStateI, outTopI]; exact ⟨outside_trans (outside_setRt D s n _ hn) (outside_emit D _ _),
        by intro g hg; simp [outTopI] at hg; subst hg; simpa [frameIn, frameNode] using hn⟩
  | wrapDispatch n =>
    have hn : D n = true := by simpa [frameIn, frameNode] using hf
    unfold stepFrame; simp only []
    simp only [outStateI, outTopI]
    refine ⟨outside_refl D s, ?_⟩
    intro g hg
    simp at hg
    rcases hg with hg | hg <;> subst hg <;> simpa [frameIn, frameNode] using hn
  | wrapAfter n =>
    unfold stepFrame; simp only []
    simp only [outStateI, outTopI]
    exact ⟨outside_refl D s, by intro g hg; simp at hg⟩
  | waitLoop n endT =>
    have hn : D n = true := by simpa [frameIn, frameNode] using hf
    have hw : ∀ g, g ∈ [Frame.waitLoop n endT] → frameIn D g = true := by
      intro g hg; simp only [List.mem_cons, List.mem_nil_iff, or_false] at hg; subst hg
      simpa [frameIn, frameNode] using hn
    have hb : ∀ g, g ∈ [Frame.body n 2] → frameIn D g = true := by
      intro g hg; simp only [List.mem_cons, List.mem_nil_iff, or_false] at hg; subst hg
      simpa [frameIn, frameNode] using hn
    unfold stepFrame; simp only []
    split
    · repeat' split
      all_goals (simp only [outStateI, outTopI])
      all_goals (first | exact ⟨outside_refl D s, hw⟩ | exact ⟨outside_refl D s, fun g hg => nomatch hg⟩)
    · simp only [outStateI, outTopI]
      exact ⟨outside_finishNode D s n hn, hb⟩
  | children n inx inChild =>
    have hn : D n = true := by simpa [frameIn, frameNode] using hf
    have self : ∀ i b, frameIn D (.children n i b) = true := by intro i b; simpa [frameIn, frameNode] using hn
    unfold stepFrame; simp only []
    split
    · simp only [outStateI, outTopI]; exact ⟨outside_setRt D s n _ hn, by intro g hg; simp [outTopI] at hg; subst hg; exact self _ _⟩
    · split
      · simp only [outStateI, outTopI]; exact ⟨outside_refl D s, by intro g hg; simp [outTopI] at hg⟩
      · split
        · simp only [outStateI, outTopI]; exact ⟨outside_setRt D s n _ hn, by intro g hg; simp [outTopI] at hg⟩
        · rename_i c hc
          split
          · simp only [outStateI, outTopI]; exact ⟨outside_setRt D s n _ hn, by intro g hg; simp [outTopI] at hg⟩
          · split
            · simp only [outStateI, outTopI]; exact ⟨outside_refl D s, by intro g hg; simp [outTopI] at hg; subst hg; exact self _ _⟩
            · split
              · simp only [outStateI, outTopI]; exact ⟨outside_setRt D s n _ hn, by intro g hg; simp [outTopI] at hg⟩
              · simp only [outStateI, outTopI]; refine ⟨outside_refl D s, ?_⟩
                intro g hg
                simp [outTopI] at hg
                rcases hg with hg | hg
                · subst hg
                  have := hclosed n hn c (List.mem_of_getElem? hc)
                  simpa [frameIn, frameNode] using this
                · subst hg; exact self _ _

theorem unwind_neutral (D : Nat → Bool) (s : St) (stack : List Frame) (h : ∀ g ∈ stack, frameIn D g = true) :
    Outside D s (unwind s stack).1 ∧ ∀ g ∈ (unwind s stack).2, frameIn D g = true := by
  induction stack with
  | nil => exact ⟨outside_lastError D s _, by intro g hg; cases hg⟩
  | cons f rest ih =>
    have hrest : ∀ g ∈ rest, frameIn D g = true := fun g hg => h g (List.mem_cons_of_mem _ hg)
    cases f with
    | wrapAfter n =>
      have hn : D n = true := by simpa [frameIn, frameNode] using h _ List.mem_cons_self
      simp only [unwind]
      exact ⟨outside_trans (outside_setRt D s n _ hn) (outside_lastError D _ _), hrest⟩
    | _ => simp only [unwind]; exact ih hrest

/-- One micro-step of a generator all of whose frames belong to a neutral, child-closed node set. -/
theorem stepGen_neutral (p : Prog) (D : Nat → Bool)
    (hkind : ∀ k, D k = true → neutralKind (node p k).kind = true)
    (hclosed : ∀ k, D k = true → ∀ c ∈ (node p k).children, D c = true)
    (s : St) (stack : List Frame) (h : ∀ g ∈ stack, frameIn D g = true) :
    Outside D s (stepGen p s stack).1 ∧ ∀ g ∈ (stepGen p s stack).2.1, frameIn D g = true := by
  cases stack with
  | nil => exact ⟨outside_refl D s, by intro g hg; simp [stepGen] at hg⟩
  | cons f below =>
    have hf := h f List.mem_cons_self
    have hb : ∀ g ∈ below, frameIn D g = true := fun g hg => h g (List.mem_cons_of_mem _ hg)
    have hs := stepFrame_neutral p D s f below hkind hclosed hf
    unfold stepGen
    simp only []
    cases hst : stepFrame p s f below with
    | next s' top sig =>
      rw [hst] at hs
      refine ⟨hs.1, ?_⟩
      intro g hg
      simp only [List.mem_append] at hg
      rcases hg with hg | hg
      · exact hs.2 g hg
      · exact hb g hg
    | raise s' =>
      rw [hst] at hs
      have hu := unwind_neutral D s' below hb
      exact ⟨outside_trans hs.1 hu.1, hu.2⟩

/-- **Frame, lifted over a sub-tick** (induction over the micro-steps): running such a generator to its
    next `EndTick` changes no runtime record outside `D`, no interrupt, macro, block tag, base unit or
    other generator; and its stack stays inside `D`. -/
theorem runGen_neutral (p : Prog) (D : Nat → Bool)
    (hkind : ∀ k, D k = true → neutralKind (node p k).kind = true)
    (hclosed : ∀ k, D k = true → ∀ c ∈ (node p k).children, D c = true)
    (fuel : Nat) (s : St) (stack : List Frame) (h : ∀ g ∈ stack, frameIn D g = true) :
    Outside D s (runGen p fuel s stack).1 ∧ ∀ g ∈ (runGen p fuel s stack).2.1, frameIn D g = true := by
  induction fuel generalizing s stack with
  | zero => exact ⟨outside_refl D s, h⟩
  | succ fuel ih =>
    unfold runGen
    have h1 := stepGen_neutral p D hkind hclosed s stack h
    rcases hs : stepGen p s stack with ⟨s1, st1, sig⟩
    rw [hs] at h1
    cases sig
    · have h2 := ih s1 st1 h1.2
      exact ⟨outside_trans h1.1 h2.1, h2.2⟩
    · exact h1
    · exact h1

/-! ## Part B: at most one body start per registration -/

def isInjected (p : Prog) (n : Nat) : Bool :=
  match (node p n).kind with | .injected => true | _ => false

def frameOKI (w : Nat) : Frame → Bool
  | .wrapEnter n | .wrapThr n | .wrapDispatch n | .callRet n _ | .waitLoop n _ => decide (w < n)
  | .wrapAfter n | .children n _ _ => decide (w ≤ n)
  | .body n pc => decide (w < n) || (decide (n = w) && decide (1 ≤ pc))

def SpentI (w : Nat) (stack : List Frame) : Prop := ∀ g ∈ stack, frameOKI w g = true

theorem stepBody_spentI (p : Prog) (s : St) (n pc : Nat) (below : List Frame) (w : Nat)
    (hnc : ∀ nm, (node p n).kind ≠ .call nm) (hw : isInjected p w = true)
    (h : frameOKI w (.body n pc) = true) :
    ∀ g ∈ outTop (stepBody p s n pc below), frameOKI w g = true := by
  unfold isInjected at hw
  simp only [frameOKI, Bool.or_eq_true, Bool.and_eq_true, decide_eq_true_eq] at h
  unfold stepBody
  simp only []
  split
  all_goals (repeat' split)
  all_goals (try (simp only [outTop, List.mem_cons, List.mem_nil_iff, or_false, forall_eq_or_imp, forall_eq,
    frameOKI, Bool.or_eq_true, Bool.and_eq_true, decide_eq_true_eq, List.not_mem_nil, false_imp_iff, implies_true,
    and_true]))
  all_goals (try (simp_all; done))
  all_goals (try (rcases h with h | ⟨h1, h2⟩ <;> first | omega | (subst_vars; simp_all; done) | (simp_all; omega)))

theorem stepFrame_spentI (p : Prog) (s : St) (f : Frame) (below : List Frame) (w : Nat)
    (hnc : noCalls p = true) (hord : ordered p = true) (hw : isInjected p w = true)
    (h : frameOKI w f = true) :
    ∀ g ∈ outTop (stepFrame p s f below), frameOKI w g = true := by
  cases f with
  | body n pc => exact stepBody_spentI p s n pc below w (noCalls_kind p hnc n) hw h
  | children n inx inChild =>
    simp only [frameOKI, decide_eq_true_eq] at h
    unfold stepFrame
    simp only []
    repeat' split
    all_goals (simp only [outTop, List.mem_cons, List.mem_nil_iff, or_false, forall_eq_or_imp, forall_eq,
      frameOKI, decide_eq_true_eq, List.not_mem_nil, false_imp_iff, implies_true, and_true])
    all_goals (try omega)
    rename_i c hc _ _ _
    have := ordered_lt p hord n c (List.mem_of_getElem? hc)
    omega
  | _ =>
    simp only [frameOKI, decide_eq_true_eq] at h
    unfold stepFrame
    simp only []
    repeat' split
    all_goals (simp only [outTop, List.mem_cons, List.mem_nil_iff, or_false, forall_eq_or_imp, forall_eq,
      frameOKI, Bool.or_eq_true, Bool.and_eq_true, decide_eq_true_eq, List.not_mem_nil, false_imp_iff, implies_true,
      and_true])
    all_goals (try omega)

/-- Only the invocation point (`pc = 0`) of an injected wrapper appends a `bodyStart` event for it. -/
theorem stepBody_bsI (p : Prog) (s : St) (n pc : Nat) (below : List Frame) (w : Nat) (hw : isInjected p w = true) :
    bsCount (outState (stepBody p s n pc below)) w = bsCount s w ∨ (w = n ∧ pc = 0) := by
  by_cases hc : w = n ∧ pc = 0
  · exact Or.inr hc
  · left
    unfold isInjected at hw
    unfold stepBody
    simp only []
    split
    all_goals (repeat' split)
    all_goals (try simp only [outState, bs_setRt, bs_finishNode, bs_markFailed, bs_markCompleted,
      bs_registerInterrupt, bs_unregisterInterrupt, bs_tryActivate, bs_abort, bs_endBlockStep, bs_endBlocksStep,
      bs_alarmRearm, bs_callPrepare, bs_callFinish, bs_emit])
    all_goals (try (simp [bsCount]; done))
    all_goals (try (simp_all [bsCount]; done))
    all_goals (
      have hne : ¬ (Event.bodyStart n = Event.bodyStart w) := by
        intro e; injection e with e; subst e; simp_all
      simp [bsCount, hne, emit, setRt])

theorem stepFrame_bsI (p : Prog) (s : St) (f : Frame) (below : List Frame) (w : Nat) (hw : isInjected p w = true) :
    bsCount (outState (stepFrame p s f below)) w = bsCount s w ∨ f = .body w 0 := by
  cases f with
  | body n pc =>
    rcases stepBody_bsI p s n pc below w hw with h | ⟨e1, e2⟩
    · exact Or.inl h
    · subst e1; subst e2; exact Or.inr rfl
  | _ =>
    left
    unfold stepFrame
    simp only []
    repeat' split
    all_goals (try simp only [outState, bs_setRt, bs_finishNode, bs_callFinish, bs_emit])
    all_goals (try (simp [bsCount]; done))

theorem stepGen_bsI (p : Prog) (s : St) (stack : List Frame) (w : Nat) (hw : isInjected p w = true) :
    bsCount (stepGen p s stack).1 w = bsCount s w ∨ stack.head? = some (.body w 0) := by
  unfold stepGen
  cases stack with
  | nil => exact Or.inl rfl
  | cons f below =>
    simp only []
    have := stepFrame_bsI p s f below w hw
    cases hs : stepFrame p s f below with
    | next s' top sig =>
      rw [hs] at this
      rcases this with h | h
      · exact Or.inl h
      · exact Or.inr (by rw [h]; rfl)
    | raise s' =>
      rw [hs] at this
      simp only []
      rw [bs_unwind]
      rcases this with h | h
      · exact Or.inl h
      · exact Or.inr (by rw [h]; rfl)

theorem spentI_step (p : Prog) (s : St) (stack : List Frame) (w : Nat)
    (hnc : noCalls p = true) (hord : ordered p = true) (hw : isInjected p w = true) (h : SpentI w stack) :
    SpentI w (stepGen p s stack).2.1 ∧ bsCount (stepGen p s stack).1 w = bsCount s w := by
  cases stack with
  | nil => exact ⟨by simpa [stepGen] using h, rfl⟩
  | cons f below =>
    constructor
    · intro g hg
      rcases stepGen_stack p s f below g hg with h1 | h1
      · exact stepFrame_spentI p s f below w hnc hord hw (h f (List.mem_cons_self ..)) g h1
      · exact h g (List.mem_cons_of_mem _ h1)
    · rcases stepGen_bsI p s (f :: below) w hw with h1 | h1
      · exact h1
      · simp only [List.head?, Option.some.injEq] at h1
        have := h f (List.mem_cons_self ..)
        rw [h1] at this
        simp [frameOKI] at this

/-- The stack of the injected generator up to and including the invocation point. -/
def EarlyI (w : Nat) (stack : List Frame) : Prop :=
  stack = [.wrapEnter w] ∨ stack = [.wrapThr w] ∨ stack = [.wrapDispatch w] ∨ stack = [.body w 0, .wrapAfter w]

theorem stepBody_injected_pc0 (p : Prog) (s : St) (w : Nat) (below : List Frame)
    (hk : (node p w).kind = .injected) :
    stepBody p s w 0 below = .next (emit s (.bodyStart w)) [.children w 0 false, .body w 1] .cont := by
  unfold stepBody
  simp only [hk]

theorem earlyI_step (p : Prog) (s : St) (stack : List Frame) (w : Nat)
    (hw : isInjected p w = true) (h : EarlyI w stack) :
    (EarlyI w (stepGen p s stack).2.1 ∧ bsCount (stepGen p s stack).1 w = bsCount s w) ∨
    (SpentI w (stepGen p s stack).2.1 ∧ bsCount (stepGen p s stack).1 w ≤ bsCount s w + 1) := by
  have hk : (node p w).kind = .injected := by
    unfold isInjected at hw
    split at hw
    · assumption
    · cases hw
  have spentNil : SpentI w [] := by intro g hg; cases hg
  rcases h with h | h | h | h <;> subst h
  · -- wrapEnter
    simp only [stepGen_cons, stepFrame, apply_ite (finishStep []), finishStep_next, List.append_nil]
    split
    · right; exact ⟨spentNil, Nat.le_succ _⟩
    · left; exact ⟨Or.inr (Or.inl rfl), rfl⟩
  · -- wrapThr
    simp only [stepGen_cons, stepFrame, apply_ite (finishStep []), finishStep_next, List.append_nil]
    split
    · split
      · right; exact ⟨spentNil, Nat.le_succ _⟩
      · left; exact ⟨Or.inr (Or.inl rfl), rfl⟩
    · left; refine ⟨Or.inr (Or.inr (Or.inl rfl)), ?_⟩
      simp [bs_emit]
  · -- wrapDispatch
    left
    rw [stepGen_cons]
    exact ⟨Or.inr (Or.inr (Or.inr rfl)), rfl⟩
  · -- body 0: the invocation
    right
    rw [stepGen_cons]
    simp only [stepFrame, stepBody_injected_pc0 p s w _ hk, finishStep_next, List.cons_append, List.nil_append]
    refine ⟨?_, ?_⟩
    · intro g hg
      simp only [List.mem_cons, List.mem_nil_iff, or_false] at hg
      rcases hg with hg | hg | hg <;> subst hg <;> simp [frameOKI]
    · simp only [bsCount, emit, List.count_cons]
      simp

/-- Number of `bodyStart w` events emitted by a generator that starts with `stack` and makes one
    micro-step per state of the list — the states are arbitrary (whatever the other generators, the
    requests and the tag values did in between). -/
def genStartsI (p : Prog) (w : Nat) : List St → List Frame → Nat
  | [], _ => 0
  | s :: ss, stack =>
    (bsCount (stepGen p s stack).1 w - bsCount s w) + genStartsI p w ss (stepGen p s stack).2.1

theorem genStartsI_spent (p : Prog) (w : Nat) (hnc : noCalls p = true) (hord : ordered p = true)
    (hw : isInjected p w = true) (ss : List St) (stack : List Frame) (h : SpentI w stack) :
    genStartsI p w ss stack = 0 := by
  induction ss generalizing stack with
  | nil => rfl
  | cons s ss ih =>
    obtain ⟨h1, h2⟩ := spentI_step p s stack w hnc hord hw h
    simp only [genStartsI, h2, Nat.sub_self, Nat.zero_add]
    exact ih _ h1

theorem genStartsI_early (p : Prog) (w : Nat) (hnc : noCalls p = true) (hord : ordered p = true)
    (hw : isInjected p w = true) (ss : List St) (stack : List Frame) (h : EarlyI w stack) :
    genStartsI p w ss stack ≤ 1 := by
  induction ss generalizing stack with
  | nil => exact Nat.zero_le _
  | cons s ss ih =>
    rcases earlyI_step p s stack w hw h with ⟨h1, h2⟩ | ⟨h1, h2⟩
    · simp only [genStartsI, h2, Nat.sub_self, Nat.zero_add]
      exact ih _ h1
    · simp only [genStartsI, genStartsI_spent p w hnc hord hw ss _ h1, Nat.add_zero]
      omega

end OPM.Interp
