import OPM.Model.ParseLine
import OPM.Lemmas.ParseLine
/-!
Helper lemmas for C18, condition part (`_parse_tag_operator_value`): operator search, `split`, the number
scanner on a rendered number.
-/
namespace OPM.ParseLine
set_option linter.unusedSimpArgs false

/-! ### operator characters -/

theorem opChar_iff (c : Char) : isOpChar c = true ↔ (c = '<' ∨ c = '>' ∨ c = '=' ∨ c = '!') := by
  simp [isOpChar, or_assoc]

theorem space_not_op {c : Char} (h : isSpace c = true) : isOpChar c = false := by
  cases ho : isOpChar c with
  | false => rfl
  | true =>
    rcases (opChar_iff c).mp ho with rfl | rfl | rfl | rfl <;> exact absurd h (by decide)

theorem decimal_not_op {c : Char} (h : isDecimal c = true) : isOpChar c = false := by
  cases ho : isOpChar c with
  | false => rfl
  | true =>
    rcases (opChar_iff c).mp ho with rfl | rfl | rfl | rfl <;> exact absurd h (by decide)

theorem letter_not_op {c : Char} (h : isAsciiLetter c = true) : isOpChar c = false := by
  cases ho : isOpChar c with
  | false => rfl
  | true =>
    rcases (opChar_iff c).mp ho with rfl | rfl | rfl | rfl <;> exact absurd h (by decide)

theorem unit_not_op {c : Char} (h : isUnitChar c = true) : isOpChar c = false := by
  simp only [isUnitChar, Bool.or_eq_true, beq_iff_eq] at h
  rcases h with ((((h | rfl) | rfl) | rfl) | rfl) | rfl
  · exact letter_not_op h
  all_goals decide

theorem unit_not_space {c : Char} (h : isUnitChar c = true) : isSpace c = false := by
  simp only [isUnitChar, Bool.or_eq_true, beq_iff_eq] at h
  rcases h with ((((h | rfl) | rfl) | rfl) | rfl) | rfl
  · exact letter_not_space c h
  all_goals decide

/-! ### prefix / infix / split -/

theorem isPrefixB_ne {x0 a : Char} (xs r : List Char) (h : x0 ≠ a) : isPrefixB (x0 :: xs) (a :: r) = false := by
  simp [isPrefixB, h]

theorem isPrefixB_self_append (x r : List Char) : isPrefixB x (x ++ r) = true := by
  induction x with
  | nil => cases r <;> rfl
  | cons a as ih => simp [isPrefixB, ih]

/-- text without operator characters after `M` does not help an all-operator prefix -/
theorem isPrefixB_append_noop (x : List Char) (hx : ∀ c ∈ x, isOpChar c = true) (B : List Char)
    (hB : ∀ c ∈ B, isOpChar c = false) : ∀ M, isPrefixB x (M ++ B) = isPrefixB x M := by
  induction x with
  | nil => intro M; cases M <;> cases B <;> rfl
  | cons x0 xs ih =>
    intro M
    cases M with
    | nil =>
      cases B with
      | nil => rfl
      | cons b bs =>
        have h0 := hx x0 List.mem_cons_self
        have hb := hB b List.mem_cons_self
        have : x0 ≠ b := by rintro rfl; rw [h0] at hb; cases hb
        simp [isPrefixB, this]
    | cons m M' =>
      have := ih (fun c hc => hx c (List.mem_cons_of_mem _ hc)) M'
      simp [isPrefixB, this]

theorem isInfixB_skip {x0 : Char} (xs : List Char) (h0 : isOpChar x0 = true) (A : List Char)
    (hA : ∀ c ∈ A, isOpChar c = false) (Y : List Char) :
    isInfixB (x0 :: xs) (A ++ Y) = isInfixB (x0 :: xs) Y := by
  induction A with
  | nil => rfl
  | cons a A' ih =>
    have ha := hA a List.mem_cons_self
    have : x0 ≠ a := by rintro rfl; rw [h0] at ha; cases ha
    simp only [List.cons_append, isInfixB, isPrefixB_ne _ _ this, Bool.false_or]
    exact ih (fun c hc => hA c (List.mem_cons_of_mem _ hc))

theorem isInfixB_tail (x : List Char) (hne : x ≠ []) (hx : ∀ c ∈ x, isOpChar c = true) (B : List Char)
    (hB : ∀ c ∈ B, isOpChar c = false) : ∀ M, isInfixB x (M ++ B) = isInfixB x M := by
  intro M
  induction M with
  | nil =>
    cases x with
    | nil => exact absurd rfl hne
    | cons x0 xs =>
      have := isInfixB_skip xs (hx x0 List.mem_cons_self) B hB []
      simpa [isInfixB] using this
  | cons m M' ih =>
    simp only [List.cons_append, isInfixB, ih]
    have := isPrefixB_append_noop x hx B hB (m :: M')
    simp only [List.cons_append] at this
    rw [this]

/-- an operator occurs in `A ++ op ++ B` exactly if it occurs in `op` (`A`, `B` free of operator chars) -/
theorem isInfixB_in_op (x : List Char) (hne : x ≠ []) (hx : ∀ c ∈ x, isOpChar c = true) (A M B : List Char)
    (hA : ∀ c ∈ A, isOpChar c = false) (hB : ∀ c ∈ B, isOpChar c = false) :
    isInfixB x (A ++ (M ++ B)) = isInfixB x M := by
  cases x with
  | nil => exact absurd rfl hne
  | cons x0 xs =>
    rw [isInfixB_skip xs (hx x0 List.mem_cons_self) A hA]
    exact isInfixB_tail _ hne hx B hB M

theorem find?_ext_mem {α : Type} (l : List α) (p q : α → Bool) (h : ∀ x ∈ l, p x = q x) :
    l.find? p = l.find? q := by
  induction l with
  | nil => rfl
  | cons a t ih =>
    simp only [List.find?_cons, h a List.mem_cons_self]
    rw [ih (fun x hx => h x (List.mem_cons_of_mem _ hx))]

theorem splitFirst_none (op : List Char) {o0 : Char} {os : List Char} (hop : op = o0 :: os)
    (h0 : isOpChar o0 = true) (B : List Char) (hB : ∀ c ∈ B, isOpChar c = false) : splitFirst op B = none := by
  subst hop
  induction B with
  | nil => rfl
  | cons b bs ih =>
    have hb := hB b List.mem_cons_self
    have : o0 ≠ b := by rintro rfl; rw [h0] at hb; cases hb
    simp only [splitFirst, isPrefixB_ne _ _ this, Bool.false_eq_true, ↓reduceIte]
    rw [ih (fun c hc => hB c (List.mem_cons_of_mem _ hc))]

theorem splitFirst_here (op : List Char) (hne : op ≠ []) (B : List Char) : splitFirst op (op ++ B) = some ([], B) := by
  cases op with
  | nil => exact absurd rfl hne
  | cons o0 os =>
    have := isPrefixB_self_append (o0 :: os) B
    simp only [List.cons_append] at this ⊢
    simp [splitFirst, this]

theorem splitFirst_skip (op : List Char) {o0 : Char} {os : List Char} (hop : op = o0 :: os)
    (h0 : isOpChar o0 = true) (A : List Char) (hA : ∀ c ∈ A, isOpChar c = false) (B : List Char) :
    splitFirst op (A ++ (op ++ B)) = some (A, B) := by
  induction A with
  | nil => simpa using splitFirst_here op (by rw [hop]; simp) B
  | cons a A' ih =>
    have ha := hA a List.mem_cons_self
    have : o0 ≠ a := by rintro rfl; rw [h0] at ha; cases ha
    have ih' := ih (fun c hc => hA c (List.mem_cons_of_mem _ hc))
    subst hop
    simp only [List.cons_append, splitFirst, isPrefixB_ne _ _ this, Bool.false_eq_true, ↓reduceIte]
    simp only [List.cons_append] at ih'
    rw [ih']

/-! ### the number scanner on a rendered number -/

/-- the rest after a number: nothing, or white space first -/
def CleanRest (r : List Char) : Prop :=
  match r with
  | [] => True
  | y :: _ => isSpace y = true

theorem space_not_decimal {y : Char} (h : isSpace y = true) : isDecimal y = false := by
  cases hd : isDecimal y with
  | false => rfl
  | true => rw [decimal_not_space y hd] at h; cases h

theorem cleanRest_stops {r : List Char} (h : CleanRest r) : Stops isDecimal r := by
  cases r with
  | nil => trivial
  | cons y t => exact space_not_decimal h

theorem digitsLen_app {ds r : List Char} (hd : ∀ c ∈ ds, isDecimal c = true) (hr : Stops isDecimal r) :
    digitsLen (ds ++ r) = ds.length := by
  simp [digitsLen, takeWhile_stop hd hr]

def expStr (e : Option (Char × List Char × List Char)) : List Char :=
  match e with
  | some (e, s, d) => e :: (s ++ d)
  | none => []

def fracStr (f : Option (List Char)) : List Char :=
  match f with
  | some f => '.' :: f
  | none => []

theorem num_text_eq (n : Num) : n.text = n.sign ++ (n.int ++ (fracStr n.frac ++ expStr n.exp)) := rfl

theorem expLen_some {e : Char} {s d : List Char} (he : e = 'e' ∨ e = 'E') (hs : isSign s) (hne : d ≠ [])
    (hd : ∀ c ∈ d, isDecimal c = true) (rest : List Char) (hr : Stops isDecimal rest) :
    expLen (e :: (s ++ d) ++ rest) = 1 + s.length + d.length := by
  have hee : (e == 'e' || e == 'E') = true := by rcases he with rfl | rfl <;> decide
  have hpos : 1 ≤ d.length := by
    cases d with
    | nil => exact absurd rfl hne
    | cons _ _ => simp
  cases d with
  | nil => exact absurd rfl hne
  | cons d0 ds =>
    have h0 := hd d0 List.mem_cons_self
    have h1 : d0 ≠ '+' := by rintro rfl; exact absurd h0 (by decide)
    have h2 : d0 ≠ '-' := by rintro rfl; exact absurd h0 (by decide)
    have hlen := digitsLen_app hd hr
    rcases hs with rfl | rfl | rfl
    · simp only [List.nil_append, List.cons_append] at hlen ⊢
      simp [expLen, signLen, hee, h1, h2, hlen]
    · simp only [List.cons_append, List.nil_append] at hlen ⊢
      simp [expLen, signLen, hee, hlen]
    · simp only [List.cons_append, List.nil_append] at hlen ⊢
      simp [expLen, signLen, hee, hlen]

theorem expLen_clean {rest : List Char} (hr : CleanRest rest) : expLen rest = 0 := by
  cases rest with
  | nil => rfl
  | cons y t =>
    have hy : isSpace y = true := hr
    have h1 : y ≠ 'e' := by rintro rfl; exact absurd hy (by decide)
    have h2 : y ≠ 'E' := by rintro rfl; exact absurd hy (by decide)
    simp [expLen, h1, h2]

theorem expLen_render (e : Option (Char × List Char × List Char))
    (he : ∀ e' s d, e = some (e', s, d) → (e' = 'e' ∨ e' = 'E') ∧ isSign s ∧ d ≠ [] ∧ ∀ c ∈ d, isDecimal c = true)
    (rest : List Char) (hr : CleanRest rest) : expLen (expStr e ++ rest) = (expStr e).length := by
  cases e with
  | none => simpa [expStr] using expLen_clean hr
  | some x =>
    obtain ⟨e', s, d⟩ := x
    obtain ⟨h1, h2, h3, h4⟩ := he e' s d rfl
    have := expLen_some h1 h2 h3 h4 rest (cleanRest_stops hr)
    simp only [expStr, List.length_cons, List.length_append]
    rw [this]; omega

/-- what follows the mantissa does not continue it -/
theorem expStr_stops (e : Option (Char × List Char × List Char))
    (he : ∀ e' s d, e = some (e', s, d) → (e' = 'e' ∨ e' = 'E') ∧ isSign s ∧ d ≠ [] ∧ ∀ c ∈ d, isDecimal c = true)
    (rest : List Char) (hr : CleanRest rest) :
    Stops isDecimal (expStr e ++ rest) ∧ ∀ t, expStr e ++ rest ≠ '.' :: t := by
  cases e with
  | none =>
    refine ⟨by simpa [expStr] using cleanRest_stops hr, ?_⟩
    intro t ht
    simp only [expStr, List.nil_append] at ht
    rw [ht] at hr
    exact absurd (show isSpace '.' = true from hr) (by decide)
  | some x =>
    obtain ⟨e', s, d⟩ := x
    obtain ⟨h1, _, _, _⟩ := he e' s d rfl
    constructor
    · show isDecimal e' = false
      rcases h1 with rfl | rfl <;> decide
    · intro t ht
      simp only [expStr, List.cons_append, List.cons.injEq] at ht
      rcases h1 with rfl | rfl <;> exact absurd ht.1 (by decide)

theorem mantLen_render (int : List Char) (frac : Option (List Char)) (R : List Char)
    (hint : ∀ c ∈ int, isDecimal c = true) (hfrac : ∀ f, frac = some f → ∀ c ∈ f, isDecimal c = true)
    (hne : int ≠ [] ∨ ∃ f, frac = some f ∧ f ≠ []) (hR : Stops isDecimal R) (hdot : ∀ t, R ≠ '.' :: t) :
    mantLen (int ++ (fracStr frac ++ R)) = some (int ++ fracStr frac).length := by
  have hdotd : isDecimal '.' = false := by decide
  cases hf : frac with
  | none =>
    have hi : int ≠ [] := by
      rcases hne with h | ⟨f, h, _⟩
      · exact h
      · rw [hf] at h; cases h
    have hpos : 1 ≤ int.length := by
      cases int with
      | nil => exact absurd rfl hi
      | cons _ _ => simp
    simp only [fracStr, List.nil_append, List.append_nil]
    have hl := digitsLen_app hint hR
    unfold mantLen
    cases R with
    | nil => simp [hpos] at hl ⊢; simp [hl, hpos]
    | cons y t =>
      have hy : y ≠ '.' := by rintro rfl; exact hdot t rfl
      simp [hl, hpos, hy]
  | some f =>
    have hfd := hfrac f hf
    simp only [fracStr]
    have hstop : Stops isDecimal ('.' :: f ++ R) := hdotd
    have hl := digitsLen_app hint hstop
    have hl2 := digitsLen_app hfd hR
    cases int with
    | cons i0 is =>
      have hpos : 1 ≤ (i0 :: is).length := by simp
      unfold mantLen
      simp only [List.cons_append, List.append_assoc] at hl ⊢
      simp only [hl, hpos, ge_iff_le, ↓reduceIte]
      have : List.drop (i0 :: is).length (i0 :: (is ++ '.' :: (f ++ R))) = '.' :: (f ++ R) := by
        have := List.drop_left (l₁ := i0 :: is) (l₂ := '.' :: (f ++ R))
        simp
      rw [this]
      simp [hl2]
      omega
    | nil =>
      have hfne : f ≠ [] := by
        rcases hne with h | ⟨f', h, h'⟩
        · exact absurd rfl h
        · rw [hf] at h; cases h; exact h'
      have hpos : 1 ≤ f.length := by
        cases f with
        | nil => exact absurd rfl hfne
        | cons _ _ => simp
      unfold mantLen
      have h0 : digitsLen ('.' :: (f ++ R)) = 0 := by simp [digitsLen, List.takeWhile_cons, hdotd]
      simp only [List.nil_append, List.cons_append, h0, ge_iff_le, Nat.le_zero_eq, Nat.succ_ne_zero,
        ↓reduceIte, hl2, hpos, List.length_cons]
      simp; omega

/-- the atomic match of `float_re` on a rendered number is the whole number -/
theorem floatMax_render (n : Num) (h : n.WF) (rest : List Char) (hr : CleanRest rest) :
    floatMax (n.text ++ rest) = some n.text.length := by
  obtain ⟨hs, hint, hfrac, hne, hexp⟩ := h
  obtain ⟨hst, hdot⟩ := expStr_stops n.exp hexp rest hr
  have hm := mantLen_render n.int n.frac (expStr n.exp ++ rest) hint hfrac hne hst hdot
  have hel := expLen_render n.exp hexp rest hr
  have e1 : n.text ++ rest = n.sign ++ (n.int ++ (fracStr n.frac ++ (expStr n.exp ++ rest))) := by
    rw [num_text_eq]; simp [List.append_assoc]
  have hlen : n.text.length = n.sign.length + (n.int ++ fracStr n.frac).length + (expStr n.exp).length := by
    rw [num_text_eq]; simp [List.length_append]; omega
  -- the sign
  have hsg : signLen (n.text ++ rest) = n.sign.length := by
    rw [e1]
    rcases hs with hs | hs | hs
    · rw [hs]
      simp only [List.nil_append, List.length_nil]
      -- first character of the mantissa is a digit or '.'
      cases hi : n.int with
      | cons i0 is =>
        have h0 := hint i0 (by rw [hi]; exact List.mem_cons_self)
        have h1 : i0 ≠ '+' := by rintro rfl; exact absurd h0 (by decide)
        have h2 : i0 ≠ '-' := by rintro rfl; exact absurd h0 (by decide)
        simp [signLen, h1, h2]
      | nil =>
        rcases hne with h | ⟨f, hf, _⟩
        · exact absurd hi h
        · simp [signLen, hf, fracStr]
    · rw [hs]; rfl
    · rw [hs]; rfl
  unfold floatMax
  simp only [hsg]
  have hdrop : (n.text ++ rest).drop n.sign.length = n.int ++ (fracStr n.frac ++ (expStr n.exp ++ rest)) := by
    rw [e1]; exact List.drop_left
  rw [hdrop, hm]
  have hdrop2 : (n.text ++ rest).drop (n.sign.length + (n.int ++ fracStr n.frac).length) = expStr n.exp ++ rest := by
    rw [e1]
    have : n.sign ++ (n.int ++ (fracStr n.frac ++ (expStr n.exp ++ rest)))
        = (n.sign ++ (n.int ++ fracStr n.frac)) ++ (expStr n.exp ++ rest) := by simp [List.append_assoc]
    rw [this]
    have hl : n.sign.length + (n.int ++ fracStr n.frac).length = (n.sign ++ (n.int ++ fracStr n.frac)).length := by
      simp [List.length_append]
    rw [hl]; exact List.drop_left
  simp only [hdrop2, hel, hlen]

/-! ### the typed value of a rendered number -/

theorem signLen_app (s : List Char) (hs : isSign s) (r : List Char)
    (hr : ∀ c ∈ r.head?, c ≠ '+' ∧ c ≠ '-') :
    signLen (s ++ r) = s.length ∧ ((s ++ r).head? == some '-') = decide (s = ['-']) := by
  rcases hs with rfl | rfl | rfl
  · cases r with
    | nil => simp [signLen]
    | cons c cs =>
      obtain ⟨h1, h2⟩ := hr c (by simp)
      simp [signLen, h1, h2]
  · simp [signLen]
  · simp [signLen]

theorem expValue_render (e : Option (Char × List Char × List Char))
    (he : ∀ e' s d, e = some (e', s, d) → (e' = 'e' ∨ e' = 'E') ∧ isSign s ∧ d ≠ [] ∧ ∀ c ∈ d, isDecimal c = true) :
    expValue (expStr e) = expInt e := by
  cases e with
  | none => rfl
  | some x =>
    obtain ⟨e', s, d⟩ := x
    obtain ⟨_, h2, h3, h4⟩ := he e' s d rfl
    have hd : ∀ c ∈ d.head?, c ≠ '+' ∧ c ≠ '-' := by
      intro c hc
      have hm : c ∈ d := by
        cases d with
        | nil => simp at hc
        | cons d0 ds => simp at hc; subst hc; exact List.mem_cons_self
      have := h4 c hm
      constructor <;> (rintro rfl; exact absurd this (by decide))
    obtain ⟨hl, hh⟩ := signLen_app s h2 d hd
    have htw : d.takeWhile isDecimal = d := by
      have := takeWhile_stop (b := []) h4 trivial
      simpa using this
    simp only [expStr, expValue, expInt, hl, hh, List.drop_left, htw]
    by_cases hs : s = ['-'] <;> simp [hs]

theorem numValue_render (n : Num) (h : n.WF) : numValue n.text = n.value := by
  obtain ⟨hs, hint, hfrac, hne, hexp⟩ := h
  obtain ⟨hst, hdot⟩ := expStr_stops n.exp hexp [] trivial
  simp only [List.append_nil] at hst hdot
  have hev := expValue_render n.exp hexp
  -- sign
  have hhead : ∀ c ∈ (n.int ++ (fracStr n.frac ++ expStr n.exp)).head?, c ≠ '+' ∧ c ≠ '-' := by
    intro c hc
    cases hi : n.int with
    | cons i0 is =>
      rw [hi] at hc
      simp at hc; subst hc
      have := hint i0 (by rw [hi]; exact List.mem_cons_self)
      constructor <;> (rintro rfl; exact absurd this (by decide))
    | nil =>
      rcases hne with h | ⟨f, hf, _⟩
      · exact absurd hi h
      · rw [hi, hf] at hc
        simp [fracStr] at hc; subst hc; decide
  obtain ⟨hl, hh⟩ := signLen_app n.sign hs _ hhead
  unfold numValue Num.value
  rw [num_text_eq]
  simp only [hl, hh, List.drop_left]
  cases hf : n.frac with
  | none =>
    have hstop : Stops isDecimal (fracStr none ++ expStr n.exp) := by simpa [fracStr] using hst
    simp only [takeWhile_stop hint hstop, dropWhile_stop hint hstop]
    simp only [fracStr, List.nil_append]
    have hnd : ∀ a, expStr n.exp ≠ '.' :: a := hdot
    have : (match expStr n.exp with
        | '.' :: a => (List.takeWhile isDecimal a, List.dropWhile isDecimal a)
        | _ => ([], expStr n.exp)) = ([], expStr n.exp) := by
      split
      · rename_i a heq; exact absurd heq (hnd a)
      · rfl
    simp only [this, hev]
    by_cases hsg : n.sign = ['-'] <;> simp [hsg]
  | some f =>
    have hfd := hfrac f hf
    have hstop : Stops isDecimal (fracStr (some f) ++ expStr n.exp) := by
      show isDecimal '.' = false; decide
    simp only [takeWhile_stop hint hstop, dropWhile_stop hint hstop]
    simp only [fracStr, List.cons_append, takeWhile_stop hfd hst, dropWhile_stop hfd hst, hev]
    by_cases hsg : n.sign = ['-'] <;> simp [hsg]

/-! ### the right-hand side -/

theorem unitTail_nil : unitTail [] = none := by simp [unitTail]

theorem unitTail_unit {w u : List Char} (hw : ∀ c ∈ w, isSpace c = true) (hne : u ≠ [])
    (hu : ∀ c ∈ u, isUnitChar c = true) : unitTail (w ++ u) = some u := by
  have hst : Stops isSpace u := by
    cases u with
    | nil => trivial
    | cons u0 us => exact unit_not_space (hu u0 List.mem_cons_self)
  have hall : u.all isUnitChar = true := List.all_eq_true.mpr hu
  have hemp : u.isEmpty = false := by simpa using hne
  simp [unitTail, dropWhile_stop hw hst, hall, hemp]

theorem parseRhs_num (n : Num) (h : n.WF) : parseRhs true n.text = ⟨n.text, none, true⟩ := by
  have hm := floatMax_render n h [] trivial
  simp only [List.append_nil] at hm
  simp [parseRhs, hm, unitTail_nil]

theorem parseRhs_num_unit (n : Num) (h : n.WF) {w u : List Char} (hwne : w ≠ [])
    (hw : ∀ c ∈ w, isSpace c = true) (hne : u ≠ []) (hu : ∀ c ∈ u, isUnitChar c = true) :
    parseRhs true (n.text ++ (w ++ u)) = ⟨n.text, some u, true⟩ := by
  have hclean : CleanRest (w ++ u) := by
    cases w with
    | nil => exact absurd rfl hwne
    | cons w0 ws => exact hw w0 List.mem_cons_self
  have hm := floatMax_render n h (w ++ u) hclean
  simp [parseRhs, hm, unitTail_unit hw hne hu]

theorem floatMax_text {t : List Char}
    (h : ∀ c ∈ t.head?, (c ≠ '+' ∧ c ≠ '-' ∧ c ≠ '.' ∧ isDecimal c = false)) : floatMax t = none := by
  cases t with
  | nil => simp [floatMax, signLen, mantLen, digitsLen]
  | cons c cs =>
    obtain ⟨h1, h2, h3, h4⟩ := h c (by simp)
    simp [floatMax, signLen, h1, h2, mantLen, digitsLen, List.takeWhile_cons, h4, h3]

/-- a text that does not start with a sign, a digit or '.' is not number-like -/
theorem numberLike_of_head {t : List Char}
    (h : ∀ c ∈ t.head?, (c ≠ '+' ∧ c ≠ '-' ∧ c ≠ '.' ∧ isDecimal c = false)) : numberLike t = false := by
  simp [numberLike, floatMax_text h]

theorem parseRhs_text {t : List Char} (h : numberLike t = false) : parseRhs true t = ⟨t, none, false⟩ := by
  unfold numberLike at h
  cases hm : floatMax t with
  | none => simp [parseRhs, hm]
  | some k =>
    rw [hm] at h
    simp only [Bool.or_eq_false_iff] at h
    obtain ⟨h1, h2⟩ := h
    have h2' : unitTail (t.drop k) = none := by
      cases hu : unitTail (t.drop k) with
      | none => rfl
      | some u => rw [hu] at h2; cases h2
    simp [parseRhs, hm, h2', h1]

/-! ### rendered values: trimmed, free of operator characters -/

theorem trimmed_of_ends {a m u : List Char} (ha : a ≠ []) (hu : u ≠ [])
    (han : ∀ c ∈ a, isSpace c = false) (hun : ∀ c ∈ u, isSpace c = false) : Trimmed (a ++ (m ++ u)) := by
  refine ⟨by simp [ha], ?_, ?_⟩
  · cases a with
    | nil => exact absurd rfl ha
    | cons a0 as => exact han a0 List.mem_cons_self
  · have : (a ++ (m ++ u)).reverse = u.reverse ++ (m.reverse ++ a.reverse) := by simp
    rw [this]
    cases hr : u.reverse with
    | nil => exact absurd (List.reverse_eq_nil_iff.mp hr) hu
    | cons y t =>
      have : y ∈ u := by
        have : y ∈ u.reverse := by rw [hr]; exact List.mem_cons_self
        exact List.mem_reverse.mp this
      exact hun y this

theorem sign_chars {s : List Char} (hs : isSign s) : ∀ c ∈ s, isSpace c = false ∧ isOpChar c = false := by
  intro c hc
  rcases hs with rfl | rfl | rfl
  · cases hc
  · simp only [List.mem_singleton] at hc; subst hc; decide
  · simp only [List.mem_singleton] at hc; subst hc; decide

theorem num_text_chars (n : Num) (h : n.WF) : n.text ≠ [] ∧ ∀ c ∈ n.text, isSpace c = false ∧ isOpChar c = false := by
  obtain ⟨hs, hint, hfrac, hne, hexp⟩ := h
  have hdec : ∀ c, isDecimal c = true → isSpace c = false ∧ isOpChar c = false :=
    fun c hc => ⟨decimal_not_space c hc, decimal_not_op hc⟩
  constructor
  · rw [num_text_eq]
    rcases hne with h | ⟨f, hf, _⟩
    · simp [h]
    · simp [hf, fracStr]
  · intro c hc
    rw [num_text_eq] at hc
    simp only [List.mem_append] at hc
    rcases hc with hc | hc | hc | hc
    · exact sign_chars hs c hc
    · exact hdec c (hint c hc)
    · cases hf : n.frac with
      | none => rw [hf] at hc; cases hc
      | some f =>
        rw [hf] at hc
        simp only [fracStr, List.mem_cons] at hc
        rcases hc with rfl | hc
        · decide
        · exact hdec c (hfrac f hf c hc)
    · cases he : n.exp with
      | none => rw [he] at hc; cases hc
      | some x =>
        obtain ⟨e, s, d⟩ := x
        obtain ⟨h1, h2, _, h4⟩ := hexp e s d he
        rw [he] at hc
        simp only [expStr, List.mem_cons, List.mem_append] at hc
        rcases hc with rfl | hc | hc
        · rcases h1 with rfl | rfl <;> decide
        · exact sign_chars h2 c hc
        · exact hdec c (h4 c hc)

theorem value_render_props (v : Value) (h : v.WF) :
    Trimmed v.render ∧ ∀ c ∈ v.render, isOpChar c = false := by
  cases v with
  | text t =>
    obtain ⟨h1, h2, _⟩ := h
    exact ⟨h1, h2⟩
  | num n unit =>
    cases unit with
    | none =>
      have h' : n.WF := h
      obtain ⟨hne, hch⟩ := num_text_chars n h'
      refine ⟨⟨hne, ?_, ?_⟩, fun c hc => (hch c hc).2⟩
      · show Stops isSpace n.text
        cases ht : n.text with
        | nil => trivial
        | cons a0 as => exact (hch a0 (by rw [ht]; exact List.mem_cons_self)).1
      · show Stops isSpace n.text.reverse
        cases hr : n.text.reverse with
        | nil => trivial
        | cons y t =>
          have : y ∈ n.text := by
            have : y ∈ n.text.reverse := by rw [hr]; exact List.mem_cons_self
            exact List.mem_reverse.mp this
          exact (hch y this).1
    | some wu =>
      obtain ⟨w, u⟩ := wu
      obtain ⟨hn, _, hw, hune, hu⟩ := h
      obtain ⟨hne, hch⟩ := num_text_chars n hn
      refine ⟨trimmed_of_ends hne hune (fun c hc => (hch c hc).1) (fun c hc => unit_not_space (hu c hc)), ?_⟩
      intro c hc
      simp only [Value.render, List.mem_append] at hc
      rcases hc with hc | hc | hc
      · exact (hch c hc).2
      · exact space_not_op (hw c hc)
      · exact unit_not_op (hu c hc)

/-- value text and unit a rendered value stands for -/
def Value.valueText : Value → List Char
  | .num n _ => n.text
  | .text t => t

def Value.isNumber : Value → Bool
  | .num _ _ => true
  | .text _ => false

/-- the typed value: the number the parts denote; a text has none -/
def Value.numeric : Value → Option Dec10
  | .num n _ => some n.value
  | .text _ => none

def Value.unitText : Value → Option (List Char)
  | .num _ (some (_, u)) => some u
  | .num _ none => none
  | .text _ => none

theorem parseRhs_value (v : Value) (h : v.WF) : parseRhs true v.render = ⟨v.valueText, v.unitText, v.isNumber⟩ := by
  cases v with
  | text t => exact parseRhs_text h.2.2
  | num n unit =>
    cases unit with
    | none => exact parseRhs_num n h
    | some wu =>
      obtain ⟨w, u⟩ := wu
      obtain ⟨hn, hwne, hw, hune, hu⟩ := h
      exact parseRhs_num_unit n hn hwne hw hune hu

/-- `_parse_tag_operator_value` on a rendered well-formed condition -/
theorem parseCond_render (ops : List (List Char)) (hops : OpsOK ops) (p : CondParts) (h : p.WF ops) :
    parseCond true ops p.render =
      ⟨p.op, p.tag, p.value.render, some p.tag, some p.value.valueText, p.value.unitText, false, p.value.numeric⟩ := by
  obtain ⟨hop, htag, htagop, hs1, hs2, htr, hv⟩ := h
  obtain ⟨hvt, hvop⟩ := value_render_props p.value hv
  obtain ⟨hopne, hopch⟩ := hops.1 p.op hop
  have hA : ∀ c ∈ p.tag ++ p.s1, isOpChar c = false := by
    intro c hc
    rcases List.mem_append.mp hc with hc | hc
    · exact htagop c hc
    · exact space_not_op (hs1 c hc)
  have hB : ∀ c ∈ p.s2 ++ (p.value.render ++ p.trail), isOpChar c = false := by
    intro c hc
    simp only [List.mem_append] at hc
    rcases hc with hc | hc | hc
    · exact space_not_op (hs2 c hc)
    · exact hvop c hc
    · exact space_not_op (htr c hc)
  -- the operator found is `p.op`
  have hfind : ops.find? (fun op => isInfixB op p.render) = some p.op := by
    rw [find?_ext_mem ops _ (fun x => isInfixB x p.op)]
    · exact hops.2 p.op hop
    · intro x hx
      obtain ⟨hxne, hxch⟩ := hops.1 x hx
      exact isInfixB_in_op x hxne hxch _ _ _ hA hB
  cases hopc : p.op with
  | nil => exact absurd hopc hopne
  | cons o0 os =>
    have h0 : isOpChar o0 = true := hopch o0 (by rw [hopc]; exact List.mem_cons_self)
    have hsplit : splitFirst p.op p.render = some (p.tag ++ p.s1, p.s2 ++ (p.value.render ++ p.trail)) :=
      splitFirst_skip p.op hopc h0 _ hA _
    have hsplit2 : splitFirst p.op (p.s2 ++ (p.value.render ++ p.trail)) = none :=
      splitFirst_none p.op hopc h0 _ hB
    have hl : strip (p.tag ++ p.s1) = p.tag := strip_trimmed_pad htag hs1
    have hr : strip (p.s2 ++ (p.value.render ++ p.trail)) = p.value.render := strip_mid hs2 hvt htr
    have htne : p.tag.isEmpty = false := by simpa using htag.1
    have hvne : p.value.render.isEmpty = false := by simpa using hvt.1
    have hnum : (if p.value.isNumber = true then some (numValue p.value.valueText) else none) = p.value.numeric := by
      cases hval : p.value with
      | text t => rfl
      | num n unit =>
        have hn : n.WF := by
          rw [hval] at hv
          cases unit with
          | none => exact hv
          | some wu => exact hv.1
        simp [Value.isNumber, Value.valueText, Value.numeric, numValue_render n hn]
    unfold parseCond
    rw [hfind]
    simp only [hsplit, hsplit2, Option.isSome_none, Bool.false_eq_true, ↓reduceIte, hl, hr, htne, hvne,
      parseRhs_value p.value hv, hnum]
    simp [hopc]

end OPM.ParseLine
