import OPM.Lemmas.InterpC02c
set_option linter.unusedSimpArgs false
set_option linter.unusedVariables false
/-!
C02 lemmas, part 9: which generators exist.  For methods without Alarm, Call macro, End block, End blocks
(nothing re-arms, resets or aborts an interrupt) a Watch is registered at most once in a whole run: the
method's lines are run by the main generator and by at most one generator per Watch.
-/
namespace OPM.InterpC02
open OPM.Interp OPM.InterpRun

/-- the instruction kinds after which an interrupt can be registered again -/
def abortKind : Kind → Bool
  | .alarm _ | .call _ | .endBlock | .endBlocks | .injected => true
  | _ => false

def noAbort (p : Prog) : Bool := (List.range p.size).all (fun n => !abortKind (node p n).kind)

theorem noAbort_kind (p : Prog) (h : noAbort p = true) (n : Nat) : abortKind (node p n).kind = false := by
  by_cases hn : n < p.size
  · unfold noAbort at h
    have := List.all_eq_true.mp h n (List.mem_range.mpr hn)
    simpa using this
  · rw [node_default p n hn]; rfl

def isRegOf (w : Nat) : Event → Bool
  | .register k => k == w
  | _ => false

def regEvs (w : Nat) (s : St) : List Event := s.events.filter (isRegOf w)

theorem reg_setRt (w : Nat) (s : St) (n : Nat) (f : NodeRt → NodeRt) : regEvs w (setRt s n f) = regEvs w s := rfl

theorem reg_emit (w : Nat) (s : St) (e : Event) :
    regEvs w (emit s e) = if isRegOf w e then e :: regEvs w s else regEvs w s := by
  unfold regEvs emit; simp only [List.filter_cons]

theorem reg_emit_other (w : Nat) (s : St) (e : Event) (h : isRegOf w e = false) : regEvs w (emit s e) = regEvs w s := by
  rw [reg_emit, h]; rfl

theorem reg_markCompleted (w : Nat) (s : St) (n : Nat) : regEvs w (markCompleted s n) = regEvs w s := by
  unfold markCompleted; split
  · exact reg_emit_other _ _ _ rfl
  · rw [reg_emit_other _ _ _ rfl, reg_setRt]

theorem reg_finishNode (w : Nat) (s : St) (n : Nat) : regEvs w (finishNode s n) = regEvs w s := by
  unfold finishNode; rw [reg_setRt, reg_markCompleted]

theorem reg_markFailed (w : Nat) (s : St) (n : Nat) : regEvs w (markFailed s n) = regEvs w s := by
  unfold markFailed; rw [reg_emit_other _ _ _ rfl, reg_setRt]

theorem reg_tryActivate (w : Nat) (s : St) (n : Nat) (c : Cond) : regEvs w (tryActivate s n c) = regEvs w s := by
  unfold tryActivate
  simp only []
  split
  · rfl
  · split <;> rfl

theorem reg_register (p : Prog) (w : Nat) (s : St) (n : Nat) :
    regEvs w (registerInterrupt p s n) = if n == w then .register n :: regEvs w s else regEvs w s := by
  unfold registerInterrupt
  simp only []
  split <;> simp [regEvs, emit, setRt, isRegOf, List.filter_cons]

theorem reg_marks (w : Nat) (s : St) (m : List String) : regEvs w { s with marks := m } = regEvs w s := rfl
theorem reg_base (w : Nat) (s : St) (f : Rat) (u : String) : regEvs w { s with baseFactor := f, baseUnit := u } = regEvs w s := rfl
theorem reg_macros (w : Nat) (s : St) (m : List (String × Nat)) : regEvs w { s with macros := m } = regEvs w s := rfl
theorem reg_blockTag (w : Nat) (s : St) (b : Option String) : regEvs w { s with blockTag := b } = regEvs w s := rfl

/-- a body step registers `w` only as the Watch `w` itself, finding it unregistered, and marks it registered -/
theorem stepBody_reg (p : Prog) (s : St) (n pc : Nat) (below : List Frame) (w : Nat)
    (hk : abortKind (node p n).kind = false) :
    (regEvs w (outState (stepBody p s n pc below)) = regEvs w s ∧
      ((s.rt w).interruptRegistered = true → ((outState (stepBody p s n pc below)).rt w).interruptRegistered = true)) ∨
    (regEvs w (outState (stepBody p s n pc below)) = .register w :: regEvs w s ∧
      (s.rt w).interruptRegistered = false ∧ ((outState (stepBody p s n pc below)).rt w).interruptRegistered = true) := by
  unfold stepBody
  simp only []
  split
  all_goals (try (rename_i hkind; rw [hkind] at hk; simp [abortKind] at hk; done))
  all_goals (repeat' split)
  all_goals (simp only [outState, reg_setRt, reg_finishNode, reg_markFailed, reg_tryActivate, reg_register, reg_emit,
    isRegOf, reg_marks, reg_base, reg_macros, reg_blockTag, if_false, Bool.false_eq_true, rt_setRt, rt_emit,
    rt_finishNode, rt_markFailed, rt_tryActivate, rt_registerInterrupt, getRt_eq])
  all_goals (try (left; refine ⟨by first | trivial | rfl, fun h => ?_⟩; first | exact h | (split <;> simp_all); done))
  all_goals (
    by_cases hnw : n = w
    · subst hnw
      right
      simp_all
    · left
      have : (n == w) = false := by simpa using hnw
      simp only [this, if_false, Bool.false_eq_true]
      refine ⟨trivial, fun h => ?_⟩
      have hwn : ¬ w = n := fun e => hnw e.symm
      simp [hwn, h])

theorem stepFrame_reg (p : Prog) (hna : noAbort p = true) (s : St) (f : Frame) (below : List Frame) (w : Nat) :
    (regEvs w (outState (stepFrame p s f below)) = regEvs w s ∧
      ((s.rt w).interruptRegistered = true → ((outState (stepFrame p s f below)).rt w).interruptRegistered = true)) ∨
    (regEvs w (outState (stepFrame p s f below)) = .register w :: regEvs w s ∧
      (s.rt w).interruptRegistered = false ∧ ((outState (stepFrame p s f below)).rt w).interruptRegistered = true) := by
  cases f with
  | body n pc => exact stepBody_reg p s n pc below w (noAbort_kind p hna n)
  | callRet n m =>
    left
    simp only [stepFrame, outState]
    unfold callFinish
    refine ⟨by simp only [reg_setRt, reg_finishNode], fun h => ?_⟩
    simp only [rt_setRt, rt_finishNode, getRt_eq]
    repeat' split
    all_goals (try subst_vars)
    all_goals exact h
  | _ =>
    left
    unfold stepFrame
    simp only []
    repeat' split
    all_goals (simp only [outState, reg_setRt, reg_finishNode, reg_emit, isRegOf, if_false, Bool.false_eq_true,
      rt_setRt, rt_emit, rt_finishNode, getRt_eq])
    all_goals (refine ⟨by first | rfl | trivial, fun h => ?_⟩)
    all_goals (try (repeat' split))
    all_goals (try subst_vars)
    all_goals (first | exact h | rfl)

theorem reg_unwind (w : Nat) (s : St) (stack : List Frame) : regEvs w (unwind s stack).1 = regEvs w s := by
  induction stack with
  | nil => rfl
  | cons f rest ih => cases f <;> simp only [unwind, ih] <;> rfl

theorem unwind_ir (s : St) (stack : List Frame) (k : Nat) :
    (((unwind s stack).1).rt k).interruptRegistered = (s.rt k).interruptRegistered := by
  induction stack with
  | nil => rfl
  | cons f rest ih =>
    cases f <;> simp only [unwind, ih]
    simp only [rt_setRt]
    split
    · rename_i h; subst h; rfl
    · rfl

def cntReg (w : Nat) (l : List Event) : Nat := (l.filter (isRegOf w)).length

/-- `c0` registrations of `w` before this tick plus those of this tick: at most one, none while unregistered -/
def RegInv (w c0 : Nat) (s : St) : Prop :=
  c0 + cntReg w s.events ≤ 1 ∧ ((s.rt w).interruptRegistered = false → c0 + cntReg w s.events = 0)

theorem regInv_stepGen (p : Prog) (hna : noAbort p = true) (w c0 : Nat) (s : St) (stack : List Frame)
    (h : RegInv w c0 s) : RegInv w c0 (stepGen p s stack).1 := by
  cases stack with
  | nil => exact h
  | cons f below =>
    have key := stepFrame_reg p hna s f below w
    have hstate : regEvs w (stepGen p s (f :: below)).1 = regEvs w (outState (stepFrame p s f below)) ∧
        ((stepGen p s (f :: below)).1.rt w).interruptRegistered =
          ((outState (stepFrame p s f below)).rt w).interruptRegistered := by
      unfold stepGen
      simp only []
      cases hst : stepFrame p s f below with
      | next s' top sig => exact ⟨rfl, rfl⟩
      | raise s' => simp only [outState]; exact ⟨reg_unwind w s' below, unwind_ir s' below w⟩
    unfold RegInv cntReg at *
    have e1 : (List.filter (isRegOf w) (stepGen p s (f :: below)).1.events) = regEvs w (stepGen p s (f :: below)).1 := rfl
    have e2 : (List.filter (isRegOf w) s.events) = regEvs w s := rfl
    rw [e1, hstate.1, hstate.2]
    rw [e2] at h
    rcases key with ⟨k1, k2⟩ | ⟨k1, k2, k3⟩
    · rw [k1]
      refine ⟨h.1, fun hf => h.2 ?_⟩
      cases hc : (s.rt w).interruptRegistered with
      | false => rfl
      | true => rw [k2 hc] at hf; cases hf
    · rw [k1]
      have := h.2 k2
      refine ⟨by simp only [List.length_cons]; omega, fun hf => ?_⟩
      rw [k3] at hf; cases hf

theorem regInv_lifts (p : Prog) (hna : noAbort p = true) (w c0 : Nat) : Lifts p (RegInv w c0) (fun _ => True) where
  fresh := fun _ => trivial
  step := fun s stack h _ => ⟨regInv_stepGen p hna w c0 s stack h, trivial⟩
  congr := fun s s' hc h => by
    unfold RegInv at *
    rw [hc.rt, hc.events]; exact h

def RegQ (w c0 : Nat) (s : St) : Prop := c0 ≤ 1 ∧ ((s.rt w).interruptRegistered = false → c0 = 0)

theorem cntReg_append (w : Nat) (a b : List Event) : cntReg w (a ++ b) = cntReg w a + cntReg w b := by
  unfold cntReg; simp [List.filter_append]

theorem cntReg_reverse (w : Nat) (a : List Event) : cntReg w a.reverse = cntReg w a := by
  unfold cntReg; simp [List.filter_reverse]

theorem regQ_execStep (p : Prog) (hna : noAbort p = true) (w : Nat) (acc : St × List Event) (r : Req)
    (h : RegQ w (cntReg w acc.2) acc.1) : RegQ w (cntReg w (execStep p acc r).2) (execStep p acc r).1 := by
  cases r with
  | tick i =>
    simp only [execStep, applyReq, reqEvents, cntReg_append, cntReg_reverse]
    have h0 : Good (RegInv w (cntReg w acc.2)) (fun _ => True) (tickStart acc.1 i) := by
      refine ⟨?_, fun _ _ => trivial⟩
      unfold RegInv tickStart
      simp only [cntReg, List.filter_nil, List.length_nil, Nat.add_zero]
      exact h
    exact (good_tick (regInv_lifts p hna w _) acc.1 i h0).1
  | cancel n =>
    simp only [execStep, applyReq, reqEvents, List.append_nil]
    cases hc : cancel p acc.1 n with
    | none => exact h
    | some s' =>
      simp only [Option.getD]
      unfold cancel at hc
      split at hc
      · cases hc
        refine ⟨h.1, fun hf => h.2 ?_⟩
        simp only [rt_setRt] at hf
        split at hf
        · rename_i e; subst e; exact hf
        · exact hf
      · cases hc
  | force n =>
    simp only [execStep, applyReq, reqEvents, List.append_nil]
    cases hc : force p acc.1 n with
    | none => exact h
    | some s' =>
      simp only [Option.getD]
      unfold force at hc
      split at hc
      · cases hc
        refine ⟨h.1, fun hf => h.2 ?_⟩
        simp only [rt_setRt] at hf
        split at hf
        · rename_i e; subst e; exact hf
        · exact hf
      · cases hc
  | complete n =>
    simp only [execStep, applyReq, reqEvents, List.append_nil]
    split
    · unfold completeCmd
      split
      · exact h
      · refine ⟨h.1, fun hf => h.2 ?_⟩
        simp only [rt_setRt] at hf
        split at hf
        · rename_i e; subst e; exact hf
        · exact hf
    · exact h

theorem regQ_run (p : Prog) (hna : noAbort p = true) (w : Nat) (reqs : List Req) (acc : St × List Event)
    (h : RegQ w (cntReg w acc.2) acc.1) :
    RegQ w (cntReg w (reqs.foldl (execStep p) acc).2) (reqs.foldl (execStep p) acc).1 := by
  induction reqs generalizing acc with
  | nil => exact h
  | cons r rs ih => exact ih _ (regQ_execStep p hna w acc r h)

end OPM.InterpC02
