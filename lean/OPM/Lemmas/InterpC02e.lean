import OPM.Lemmas.InterpC02b
set_option linter.unusedSimpArgs false
set_option linter.unusedVariables false
/-!
C02 lemmas, part 5: sequential methods (no Watch, Alarm, Call macro, injected code: one generator).

The structural invariant `SeqInv` of the single generator stack:
* the stack is a chain (part 1) whose node numbers do not increase downwards, strictly across a
  children-loop frame (`relR`): the stack is a path from the root of the tree to the running line;
* `K`: a loop frame `children n inx true` has `inx = child_index n` (`≤` while between children);
* `J`: a line that has ever been entered is either below `child_index` of its scope (its visit has
  returned) or is the line the scope's loop is inside of right now.
Consequences (Properties/C02): a line is entered at most once, lines of a scope are entered in source
order, each only after the visit of the previous one returned.
-/
namespace OPM.InterpC02
open OPM.Interp

def seqKind : Kind → Bool
  | .watch _ | .alarm _ | .call _ | .injected => false
  | _ => true

/-- the (parent, index) slot a node claims to sit in -/
def slot (p : Prog) (c : Nat) : Option (Nat × Nat) :=
  match (node p c).parent with
  | some n => some (n, (node p n).children.idxOf c)
  | none => none

/-- Sequential method on a well-formed tree: no Watch / Alarm / Call macro / injected node, every child
    is numbered after its parent and sits in exactly one slot. -/
def sequential (p : Prog) : Bool :=
  (List.range p.size).all fun n =>
    seqKind (node p n).kind &&
    (List.range (node p n).children.length).all fun i =>
      match (node p n).children[i]? with
      | some c => decide (slot p c = some (n, i)) && decide (n < c)
      | none => true

theorem seq_kind (p : Prog) (h : sequential p = true) (n : Nat) : seqKind (node p n).kind = true := by
  by_cases hn : n < p.size
  · unfold sequential at h
    have := List.all_eq_true.mp h n (List.mem_range.mpr hn)
    simp only [Bool.and_eq_true] at this
    exact this.1
  · rw [node_default p n hn]; rfl

theorem seq_child (p : Prog) (h : sequential p = true) (n i c : Nat) (hc : (node p n).children[i]? = some c) :
    slot p c = some (n, i) ∧ n < c := by
  have hn : n < p.size := by
    apply Classical.byContradiction
    intro hn
    rw [node_default p n hn] at hc
    have hd : (default : Node).children = [] := rfl
    rw [hd] at hc
    simp at hc
  unfold sequential at h
  have := List.all_eq_true.mp h n (List.mem_range.mpr hn)
  simp only [Bool.and_eq_true] at this
  have hi : i < (node p n).children.length := (List.getElem?_eq_some_iff.mp hc).1
  have := List.all_eq_true.mp this.2 i (List.mem_range.mpr hi)
  rw [hc] at this
  simpa using this

/-- a node sits in at most one slot -/
theorem seq_slot_unique (p : Prog) (h : sequential p = true) (n i n' i' c : Nat)
    (h1 : (node p n).children[i]? = some c) (h2 : (node p n').children[i']? = some c) : n = n' ∧ i = i' := by
  have a := (seq_child p h n i c h1).1
  have b := (seq_child p h n' i' c h2).1
  rw [a] at b
  simpa using b

/-! ### the order of node numbers along the stack -/

/-- `f` lies above `g`: node numbers do not increase downwards, and strictly increase above a loop frame -/
def relR (f g : Frame) : Prop :=
  match g with
  | .children n _ _ => n < frameNode f
  | _ => frameNode g ≤ frameNode f

theorem relR_mono (f f' g : Frame) (h : relR f g) (hn : frameNode f ≤ frameNode f') : relR f' g := by
  unfold relR at *
  cases g <;> simp only [] at * <;> omega

theorem frameNode_cls (f g : Frame) (h : cls f = cls g) : frameNode f = frameNode g := by
  cases f <;> cases g <;> simp_all [cls, frameNode]

/-- a wrapper frame that is waiting (`wrapEnter`, `wrapThr`, `wrapDispatch`) or a loop frame between
    children can only be the top of a chain -/
theorem chain_top_only (p : Prog) (f g : Frame) (rest : List Frame) (h : chainOK p (f :: g :: rest)) :
    (∀ n, g ≠ .wrapEnter n) ∧ (∀ n, g ≠ .wrapThr n) ∧ (∀ n, g ≠ .wrapDispatch n) ∧ (∀ n i, g ≠ .children n i false) ∧
    (∀ n e, g ≠ .waitLoop n e) := by
  have := h.1
  simp only [headOK] at this
  refine ⟨?_, ?_, ?_, ?_, ?_⟩ <;> intros <;> intro e <;> subst e <;> cases hc : cls f <;> rw [hc] at this <;>
    simp [aboveC] at this

/-! ### what a body step of a sequential instruction does to `hasRecord`, `child_index` and the stack -/

theorem hasRecord_endBlockStep (p : Prog) (s : St) (k : Nat) :
    ((endBlockStep p s).rt k).hasRecord = (s.rt k).hasRecord :=
  proj_endBlockStep (·.hasRecord) (fun _ _ => rfl) (fun _ _ => rfl) (fun _ _ => rfl) p s k

theorem hasRecord_endBlocksStep (p : Prog) (s : St) (k : Nat) :
    ((endBlocksStep p s).rt k).hasRecord = (s.rt k).hasRecord :=
  proj_endBlocksStep (·.hasRecord) (fun _ _ => rfl) (fun _ _ => rfl) (fun _ _ => rfl) p s k

theorem ci_endBlockStep (p : Prog) (s : St) (k : Nat) :
    ((endBlockStep p s).rt k).childIndex = (s.rt k).childIndex :=
  proj_endBlockStep (·.childIndex) (fun _ _ => rfl) (fun _ _ => rfl) (fun _ _ => rfl) p s k

theorem ci_endBlocksStep (p : Prog) (s : St) (k : Nat) :
    ((endBlocksStep p s).rt k).childIndex = (s.rt k).childIndex :=
  proj_endBlocksStep (·.childIndex) (fun _ _ => rfl) (fun _ _ => rfl) (fun _ _ => rfl) p s k

theorem stepBody_hasRecord (p : Prog) (s : St) (n pc : Nat) (below : List Frame) (k : Nat)
    (hk : seqKind (node p n).kind = true) :
    ((outState (stepBody p s n pc below)).rt k).hasRecord = (s.rt k).hasRecord := by
  unfold stepBody
  simp only []
  split
  all_goals (try (rename_i hkind; rw [hkind] at hk; simp [seqKind] at hk; done))
  all_goals (repeat' split)
  all_goals (simp only [outState, rt_setRt, rt_emit, rt_finishNode, rt_markFailed, rt_markCompleted,
    rt_registerInterrupt, rt_tryActivate, getRt_eq, hasRecord_endBlockStep, hasRecord_endBlocksStep])
  all_goals (try (repeat' split))
  all_goals (try subst_vars)
  all_goals (try (first | rfl | exact hasRecord_endBlockStep _ _ _ | exact hasRecord_endBlocksStep _ _ _))

theorem stepBody_ci_other (p : Prog) (s : St) (n pc : Nat) (below : List Frame) (k : Nat)
    (hk : seqKind (node p n).kind = true) (hkn : k ≠ n) :
    ((outState (stepBody p s n pc below)).rt k).childIndex = (s.rt k).childIndex := by
  unfold stepBody
  simp only []
  split
  all_goals (try (rename_i hkind; rw [hkind] at hk; simp [seqKind] at hk; done))
  all_goals (repeat' split)
  all_goals (simp only [outState, rt_setRt, rt_emit, rt_finishNode, rt_markFailed, rt_markCompleted,
    rt_registerInterrupt, rt_tryActivate, getRt_eq, ci_endBlockStep, ci_endBlocksStep, hkn, if_false, false_and])

theorem stepBody_ci_own (p : Prog) (s : St) (n pc : Nat) (below : List Frame)
    (hk : seqKind (node p n).kind = true) :
    ((outState (stepBody p s n pc below)).rt n).childIndex = (s.rt n).childIndex ∨
    ((outState (stepBody p s n pc below)).rt n).childIndex = (node p n).children.length := by
  unfold stepBody
  simp only []
  split
  all_goals (try (rename_i hkind; rw [hkind] at hk; simp [seqKind] at hk; done))
  all_goals (repeat' split)
  all_goals (simp only [outState, rt_setRt, rt_emit, rt_finishNode, rt_markFailed, rt_markCompleted,
    rt_registerInterrupt, rt_tryActivate, getRt_eq, ci_endBlockStep, ci_endBlocksStep, if_true, true_and])
  all_goals (try (repeat' split))
  all_goals (first | exact Or.inl rfl | exact Or.inr rfl | exact Or.inl trivial | exact Or.inr trivial
                   | (left; exact ci_endBlockStep _ _ _) | (left; exact ci_endBlocksStep _ _ _))

/-- the frames a sequential body step leaves: all of the same node; a loop frame only as `children n 0 false` on top -/
theorem stepBody_topShape (p : Prog) (s : St) (n pc : Nat) (below : List Frame)
    (hk : seqKind (node p n).kind = true) :
    (∀ a ∈ outTop (stepBody p s n pc below), frameNode a = n) ∧
    (∀ m inx b, .children m inx b ∈ outTop (stepBody p s n pc below) → m = n ∧ inx = 0 ∧ b = false) ∧
    (outTop (stepBody p s n pc below)).Pairwise relR ∧
    (∀ c, .wrapEnter c ∉ outTop (stepBody p s n pc below) ∧ .wrapThr c ∉ outTop (stepBody p s n pc below)) := by
  unfold stepBody
  simp only []
  split
  all_goals (try (rename_i hkind; rw [hkind] at hk; simp [seqKind] at hk; done))
  all_goals (repeat' split)
  all_goals (simp [outTop, frameNode, relR])

/-! ### the invariant -/

structure SeqInv (p : Prog) (s : St) (st : List Frame) : Prop where
  chain : chainOK p st
  pair : st.Pairwise relR
  K : ∀ n inx b, Frame.children n inx b ∈ st →
        (b = true → inx = (s.rt n).childIndex) ∧ (b = false → inx ≤ (s.rt n).childIndex)
  J : ∀ n i c, (node p n).children[i]? = some c → (s.rt c).hasRecord = true →
        i < (s.rt n).childIndex ∨ Frame.children n i true ∈ st
  H : ∀ c, st.head? = some (.wrapThr c) → (s.rt c).hasRecord = true
  Z : ∀ f0, st.getLast? = some f0 → frameNode f0 = 0

/-- what a step that replaces the top frame `f` by `top` (state `s` → `s'`) has to satisfy -/
structure StepSpec (p : Prog) (s : St) (f : Frame) (s' : St) (top : List Frame) : Prop where
  topOK : topOK p (cls f) top
  topNode : ∀ a ∈ top, frameNode f ≤ frameNode a
  topPair : top.Pairwise relR
  ciOther : ∀ k, k ≠ frameNode f → (s'.rt k).childIndex = (s.rt k).childIndex
  hrNew : ∀ k, (s'.rt k).hasRecord = true → (s.rt k).hasRecord = true ∨ f = .wrapEnter k
  hrMono : ∀ k, (s.rt k).hasRecord = true → (s'.rt k).hasRecord = true
  topK : ∀ n inx b, Frame.children n inx b ∈ top →
        (b = true → inx = (s'.rt n).childIndex) ∧ (b = false → inx ≤ (s'.rt n).childIndex)
  ownJ : ∀ i c, (node p (frameNode f)).children[i]? = some c →
        (i < (s.rt (frameNode f)).childIndex ∨ f = .children (frameNode f) i true) →
        i < (s'.rt (frameNode f)).childIndex ∨ Frame.children (frameNode f) i true ∈ top
  topH : ∀ c, top.head? = some (.wrapThr c) → (s'.rt c).hasRecord = true

theorem no_loop_of_own_node_below (f : Frame) (below : List Frame) (h : (f :: below).Pairwise relR)
    (n i : Nat) (b : Bool) (hn : frameNode f = n) : Frame.children n i b ∉ below := by
  intro hm
  have := (List.pairwise_cons.mp h).1 _ hm
  simp only [relR] at this
  omega

theorem topOK_last (p : Prog) (c : FCls) (top : List Frame) (h : topOK p c top) (x : Frame)
    (hx : top.getLast? = some x) : cls x = c := by
  induction top with
  | nil => cases hx
  | cons a rest ih =>
    cases rest with
    | nil => simp only [List.getLast?_singleton, Option.some.injEq] at hx; subst hx; exact h.1
    | cons b rest' =>
      rw [List.getLast?_cons_cons] at hx
      exact ih h.2 hx

theorem getLast?_append_cons {α : Type} (a : List α) (g : α) (r : List α) :
    (a ++ g :: r).getLast? = (g :: r).getLast? := by
  induction a with
  | nil => rfl
  | cons x a ih =>
    cases a with
    | nil => simp only [List.cons_append, List.nil_append, List.getLast?_cons_cons]
    | cons y a' =>
      rw [List.cons_append, List.cons_append, List.getLast?_cons_cons]
      exact ih

theorem seqInv_replace (p : Prog) (hseq : sequential p = true) (s s' : St) (f : Frame) (below top : List Frame)
    (h : SeqInv p s (f :: below)) (sp : StepSpec p s f s' top) : SeqInv p s' (top ++ below) := by
  have hU := no_loop_of_own_node_below f below h.pair
  have hpairBelow := (List.pairwise_cons.mp h.pair).2
  have hrelF := (List.pairwise_cons.mp h.pair).1
  refine ⟨?_, ?_, ?_, ?_, ?_, ?_⟩
  · exact chainOK_append p (cls f) top below sp.topOK h.chain.1 h.chain.2
  · rw [List.pairwise_append]
    refine ⟨sp.topPair, hpairBelow, ?_⟩
    intro a ha b hb
    exact relR_mono f a b (hrelF b hb) (sp.topNode a ha)
  · intro n inx b hm
    rcases List.mem_append.mp hm with h1 | h1
    · exact sp.topK n inx b h1
    · have hne : n ≠ frameNode f := by
        intro e; exact hU n inx b e.symm h1
      rw [sp.ciOther n hne]
      exact h.K n inx b (List.mem_cons_of_mem _ h1)
  · intro n i c hc hr
    rcases sp.hrNew c hr with hold | hnew
    · rcases h.J n i c hc hold with h1 | h1
      · by_cases hn : n = frameNode f
        · subst hn
          rcases sp.ownJ i c hc (Or.inl h1) with h2 | h2
          · exact Or.inl h2
          · exact Or.inr (List.mem_append_left _ h2)
        · rw [sp.ciOther n hn]; exact Or.inl h1
      · rcases List.mem_cons.mp h1 with h2 | h2
        · -- the loop frame is `f` itself
          have hn : frameNode f = n := by rw [← h2]; rfl
          subst hn
          rcases sp.ownJ i c hc (Or.inr h2.symm) with h3 | h3
          · exact Or.inl h3
          · exact Or.inr (List.mem_append_left _ h3)
        · exact Or.inr (List.mem_append_right _ h2)
    · -- `c` is entered right now: its slot is the loop frame directly below
      subst hnew
      cases below with
      | nil =>
        have := h.Z (.wrapEnter c) rfl
        simp only [frameNode] at this
        have := (seq_child p hseq n i c hc).2
        omega
      | cons g rest =>
        have hh := h.chain.1
        simp only [headOK, cls] at hh
        cases g <;> simp only [aboveC] at hh
        case children n' i' b' =>
          cases b' <;> simp only [aboveC] at hh
          have := seq_slot_unique p hseq n i n' i' c hc hh
          rw [this.1, this.2]
          exact Or.inr (List.mem_append_right _ (by simp))
  · intro c hc
    cases top with
    | nil =>
      simp only [List.nil_append] at hc
      cases below with
      | nil => cases hc
      | cons g rest =>
        simp only [List.head?_cons, Option.some.injEq] at hc
        exact absurd hc ((chain_top_only p f g rest h.chain).2.1 c)
    | cons a rest => exact sp.topH c (by simpa using hc)
  · intro f0 hl
    cases below with
    | nil =>
      simp only [List.append_nil] at hl
      have := topOK_last p (cls f) top sp.topOK f0 hl
      rw [frameNode_cls f0 f this]
      exact h.Z f rfl
    | cons g rest =>
      rw [getLast?_append_cons] at hl
      apply h.Z f0
      rw [List.getLast?_cons_cons]
      exact hl

/-! ### every step of a sequential method meets the spec -/

theorem getElem?_lt {α : Type} (l : List α) (i : Nat) (c : α) (h : l[i]? = some c) : i < l.length :=
  (List.getElem?_eq_some_iff.mp h).1

theorem spec_body (p : Prog) (hseq : sequential p = true) (s : St) (n pc : Nat) (below : List Frame)
    (s' : St) (top : List Frame) (sig : Signal) (hst : stepBody p s n pc below = .next s' top sig) :
    StepSpec p s (.body n pc) s' top := by
  have hk := seq_kind p hseq n
  have hshape := stepBody_topShape p s n pc below hk
  have htop := stepBody_top p s n pc below
  have hhr := fun k => stepBody_hasRecord p s n pc below k hk
  have hco := fun k => stepBody_ci_other p s n pc below k hk
  have hcown := stepBody_ci_own p s n pc below hk
  rw [hst] at hshape htop hhr hco hcown
  simp only [outTop, outState] at hshape htop hhr hco hcown
  refine ⟨htop, ?_, hshape.2.2.1, ?_, ?_, ?_, ?_, ?_, ?_⟩
  · intro a ha; rw [hshape.1 a ha]; exact Nat.le_refl _
  · intro k hk'; exact hco k hk'
  · intro k hr; rw [hhr k] at hr; exact Or.inl hr
  · intro k hr; rw [hhr k]; exact hr
  · intro m inx b hm
    obtain ⟨e1, e2, e3⟩ := hshape.2.1 m inx b hm
    subst e1 e2 e3
    exact ⟨fun h => (by cases h), fun _ => Nat.zero_le _⟩
  · intro i c hc hpre
    simp only [frameNode] at hc hpre ⊢
    rcases hpre with h1 | h1
    · left
      rcases hcown with e | e
      · rw [e]; exact h1
      · rw [e]; exact getElem?_lt _ _ _ hc
    · cases h1
  · intro c hc
    have : Frame.wrapThr c ∈ top := List.mem_of_mem_head? hc
    exact absurd this (hshape.2.2.2 c).2

theorem spec_simple (p : Prog) (s : St) (f : Frame) (top : List Frame) (s' : St)
    (hrt : ∀ k, (s'.rt k).childIndex = (s.rt k).childIndex ∧ (s'.rt k).hasRecord = (s.rt k).hasRecord)
    (htop : topOK p (cls f) top) (hnode : ∀ a ∈ top, frameNode a = frameNode f)
    (hnoloop : ∀ a ∈ top, (∀ n i b, a ≠ .children n i b) ∧ (∀ c, a ≠ .wrapThr c))
    (hpair : top.Pairwise relR) (hf : ∀ n i, f ≠ .children n i true) : StepSpec p s f s' top := by
  refine ⟨htop, ?_, hpair, ?_, ?_, ?_, ?_, ?_, ?_⟩
  · intro a ha; rw [hnode a ha]; exact Nat.le_refl _
  · intro k _; exact (hrt k).1
  · intro k hr; rw [(hrt k).2] at hr; exact Or.inl hr
  · intro k hr; rw [(hrt k).2]; exact hr
  · intro n inx b hm; exact absurd rfl ((hnoloop _ hm).1 n inx b)
  · intro i c hc hpre
    rcases hpre with h1 | h1
    · left; rw [(hrt _).1]; exact h1
    · exact absurd h1 (hf _ _)
  · intro c hc
    exact absurd rfl ((hnoloop _ (List.mem_of_mem_head? hc)).2 c)

/-- the three outcomes of the children loop between two children -/
theorem children_false_cases (p : Prog) (s : St) (n inx : Nat) (below : List Frame) :
    (∃ s', stepFrame p s (.children n inx false) below = .next s' [] .cont ∧
        ∀ k, (s'.rt k).childIndex = (s.rt k).childIndex ∧ (s'.rt k).hasRecord = (s.rt k).hasRecord) ∨
    (stepFrame p s (.children n inx false) below = .next s [.children n (inx + 1) false] .cont ∧
      inx < (s.rt n).childIndex) ∨
    (∃ c, (node p n).children[inx]? = some c ∧ (s.rt n).childIndex ≤ inx ∧
      stepFrame p s (.children n inx false) below = .next s [.wrapEnter c, .children n inx true] .cont) := by
  have hset : ∀ k, ((setRt s n fun r => { r with childrenComplete := true }).rt k).childIndex = (s.rt k).childIndex ∧
      ((setRt s n fun r => { r with childrenComplete := true }).rt k).hasRecord = (s.rt k).hasRecord := by
    intro k; simp only [rt_setRt]; split
    · rename_i e; subst e; exact ⟨rfl, rfl⟩
    · exact ⟨rfl, rfl⟩
  by_cases h0 : (decide (inx = 0) && ((s.rt n).completed || (s.rt n).childrenComplete)) = true
  · left; exact ⟨s, by simp only [stepFrame, getRt_eq, h0, Bool.false_eq_true, if_false, if_true] <;> rfl, fun k => ⟨rfl, rfl⟩⟩
  · cases hk : (node p n).children[inx]? with
    | none => left; exact ⟨_, by simp only [stepFrame, getRt_eq, h0, hk, Bool.false_eq_true, if_false] <;> rfl, hset⟩
    | some c =>
      by_cases h1 : ((s.rt n).childrenComplete || (s.rt n).completed) = true
      · left; exact ⟨_, by simp only [stepFrame, getRt_eq, h0, hk, h1, Bool.false_eq_true, if_false, if_true] <;> rfl, hset⟩
      · by_cases h2 : inx < (s.rt n).childIndex
        · right; left; exact ⟨by simp only [stepFrame, getRt_eq, h0, hk, h1, h2, Bool.false_eq_true, if_false, if_true] <;> rfl, h2⟩
        · by_cases h3 : inEndedBlock p s (Frame.children n inx false :: below) c = true
          · left; exact ⟨_, by simp only [stepFrame, getRt_eq, h0, hk, h1, h2, h3, Bool.false_eq_true, if_false, if_true] <;> rfl, hset⟩
          · right; right
            exact ⟨c, rfl, by omega, by simp only [stepFrame, getRt_eq, h0, hk, h1, h2, h3, Bool.false_eq_true, if_false, if_true] <;> rfl⟩

theorem callFinish_ci_hr (s : St) (n m k : Nat) :
    ((callFinish s n m).rt k).childIndex = (s.rt k).childIndex ∧ ((callFinish s n m).rt k).hasRecord = (s.rt k).hasRecord := by
  unfold callFinish
  simp only [rt_setRt, rt_finishNode, getRt_eq]
  repeat' split
  all_goals (try subst_vars)
  all_goals exact ⟨rfl, rfl⟩

theorem finishNode_ci_hr (s : St) (n k : Nat) :
    ((finishNode s n).rt k).childIndex = (s.rt k).childIndex ∧ ((finishNode s n).rt k).hasRecord = (s.rt k).hasRecord := by
  simp only [rt_finishNode]
  split
  · rename_i e; subst e; exact ⟨rfl, rfl⟩
  · exact ⟨rfl, rfl⟩

theorem wrapThr_cases (p : Prog) (s : St) (n : Nat) (below : List Frame) (s' : St) (top : List Frame) (sig : Signal)
    (hst : stepFrame p s (.wrapThr n) below = .next s' top sig) :
    (s' = s ∧ top = []) ∨ (s' = s ∧ top = [.wrapThr n]) ∨
    (s' = emit (setRt s n (fun r => { r with started := true })) (.start n) ∧ top = [.wrapDispatch n]) := by
  by_cases hw : (!(s.rt n).started && !(s.rt n).completed && awaitingThreshold p s n) = true
  · by_cases he : inEndedBlock p s below n = true
    · simp only [stepFrame, getRt_eq, hw, he, if_true] at hst
      cases hst; exact Or.inl ⟨rfl, rfl⟩
    · simp only [stepFrame, getRt_eq, hw, he, if_true, if_false, Bool.false_eq_true] at hst
      cases hst; exact Or.inr (Or.inl ⟨rfl, rfl⟩)
  · simp only [stepFrame, getRt_eq, hw, if_false, Bool.false_eq_true] at hst
    cases hst; exact Or.inr (Or.inr ⟨rfl, rfl⟩)

theorem waitLoop_cases (p : Prog) (s : St) (n : Nat) (e : Rat) (below : List Frame) (s' : St) (top : List Frame)
    (sig : Signal) (hst : stepFrame p s (.waitLoop n e) below = .next s' top sig) :
    (s' = s ∧ top = [.waitLoop n e]) ∨ (s' = finishNode s n ∧ top = [.body n 2]) := by
  by_cases h1 : (decide (s.tickTime < e) && !(getRt s n).forced) = true
  · simp only [stepFrame, h1, if_true] at hst
    generalize hb : (_ && (getRt s n).waitStart.isNone) = b at hst
    cases b
    · simp only [Bool.false_eq_true, if_false] at hst
      cases hst; exact Or.inl ⟨rfl, rfl⟩
    · simp only [if_true] at hst
      cases hst
  · simp only [stepFrame, h1, if_false, Bool.false_eq_true] at hst
    cases hst; exact Or.inr ⟨rfl, rfl⟩

/-- **Every step of a sequential method meets the spec** (given `K` and `H` for the stepped frame). -/
theorem stepFrame_spec (p : Prog) (hseq : sequential p = true) (s : St) (f : Frame) (below : List Frame)
    (s' : St) (top : List Frame) (sig : Signal) (hst : stepFrame p s f below = .next s' top sig)
    (hK : ∀ n inx b, f = .children n inx b →
      (b = true → inx = (s.rt n).childIndex) ∧ (b = false → inx ≤ (s.rt n).childIndex))
    (hH : ∀ c, f = .wrapThr c → (s.rt c).hasRecord = true) : StepSpec p s f s' top := by
  cases f with
  | body n pc => exact spec_body p hseq s n pc below s' top sig hst
  | wrapEnter n =>
    by_cases hc : (s.rt n).completed = true
    · have : stepFrame p s (.wrapEnter n) below = .next s [] .cont := by
        simp only [stepFrame, getRt_eq, hc, if_true]
      rw [this] at hst; cases hst
      exact spec_simple p s _ [] s (fun k => ⟨rfl, rfl⟩) trivial (by simp) (by simp) List.Pairwise.nil (by simp)
    · have : stepFrame p s (.wrapEnter n) below =
          .next (setRt s n (fun r => { r with hasRecord := true })) [.wrapThr n] .cont := by
        simp only [stepFrame, getRt_eq, hc, if_false, Bool.false_eq_true]
      rw [this] at hst; cases hst
      refine ⟨⟨rfl, trivial⟩, by simp [frameNode], by simp, ?_, ?_, ?_, by simp, ?_, ?_⟩
      · intro k _; simp only [rt_setRt]; split
        · rename_i e; subst e; rfl
        · rfl
      · intro k hr
        simp only [rt_setRt] at hr
        split at hr
        · rename_i e; subst e; exact Or.inr rfl
        · exact Or.inl hr
      · intro k hr
        simp only [rt_setRt]; split
        · rfl
        · exact hr
      · intro i c hc' hpre
        rcases hpre with h1 | h1
        · left; simp only [frameNode, rt_setRt, if_true]; exact h1
        · cases h1
      · intro c hc'
        simp only [List.head?_cons, Option.some.injEq, Frame.wrapThr.injEq] at hc'
        subst hc'
        simp
  | wrapThr n =>
    have hhr := hH n rfl
    rcases wrapThr_cases p s n below s' top sig hst with ⟨e1, e2⟩ | ⟨e1, e2⟩ | ⟨e1, e2⟩
    · subst e1 e2
      exact spec_simple p s' _ [] s' (fun k => ⟨rfl, rfl⟩) trivial (by simp) (by simp) List.Pairwise.nil (by simp)
    · subst e1 e2
      refine ⟨⟨rfl, trivial⟩, by simp [frameNode], by simp, fun _ _ => rfl, fun _ h => Or.inl h, fun _ h => h,
        by simp, ?_, ?_⟩
      · intro i c hc' hpre
        rcases hpre with h1 | h1
        · exact Or.inl h1
        · cases h1
      · intro c hc'
        simp only [List.head?_cons, Option.some.injEq, Frame.wrapThr.injEq] at hc'
        subst hc'; exact hhr
    · subst e1 e2
      refine spec_simple p s _ _ _ ?_ ⟨rfl, trivial⟩ (by simp [frameNode]) (by simp) (by simp) (by simp)
      intro k; simp only [rt_emit, rt_setRt]; split
      · rename_i e; subst e; exact ⟨rfl, rfl⟩
      · exact ⟨rfl, rfl⟩
  | wrapDispatch n =>
    simp only [stepFrame] at hst; cases hst
    exact spec_simple p s _ _ s (fun k => ⟨rfl, rfl⟩) ⟨rfl, rfl, trivial⟩ (by simp [frameNode]) (by simp)
      (by simp [relR, frameNode]) (by simp)
  | wrapAfter n =>
    simp only [stepFrame] at hst; cases hst
    exact spec_simple p s _ [] s (fun k => ⟨rfl, rfl⟩) trivial (by simp) (by simp) List.Pairwise.nil (by simp)
  | callRet n m =>
    simp only [stepFrame] at hst; cases hst
    exact spec_simple p s _ _ _ (callFinish_ci_hr s n m) ⟨rfl, trivial⟩ (by simp [frameNode]) (by simp) (by simp) (by simp)
  | waitLoop n e =>
    rcases waitLoop_cases p s n e below s' top sig hst with ⟨e1, e2⟩ | ⟨e1, e2⟩
    · subst e1 e2
      exact spec_simple p s' _ _ s' (fun k => ⟨rfl, rfl⟩) ⟨rfl, trivial⟩ (by simp [frameNode]) (by simp) (by simp) (by simp)
    · subst e1 e2
      exact spec_simple p s _ _ _ (finishNode_ci_hr s n) ⟨rfl, trivial⟩ (by simp [frameNode]) (by simp) (by simp) (by simp)
  | children n inx b =>
    cases b with
    | true =>
      have hk := (hK n inx true rfl).1 rfl
      simp only [stepFrame, if_true] at hst; cases hst
      refine ⟨⟨rfl, trivial⟩, by simp [frameNode], by simp, ?_, ?_, ?_, ?_, ?_, by simp⟩
      · intro k hk'; simp only [frameNode] at hk'; simp [rt_setRt, hk']
      · intro k hr
        simp only [rt_setRt] at hr
        split at hr
        · rename_i e; subst e; exact Or.inl hr
        · exact Or.inl hr
      · intro k hr
        simp only [rt_setRt]; split
        · rename_i e; subst e; exact hr
        · exact hr
      · intro m i b hm
        simp only [List.mem_singleton, Frame.children.injEq] at hm
        obtain ⟨e1, e2, e3⟩ := hm
        subst e1 e2 e3
        refine ⟨fun h => (by cases h), fun _ => ?_⟩
        simp only [rt_setRt, if_true]; omega
      · intro i c hc' hpre
        simp only [frameNode] at hc' hpre ⊢
        left
        simp only [rt_setRt, if_true]
        rcases hpre with h1 | h1
        · omega
        · simp only [Frame.children.injEq, and_true, true_and] at h1; omega
    | false =>
      have hk := (hK n inx false rfl).2 rfl
      rcases children_false_cases p s n inx below with ⟨s1, h1, hrt⟩ | ⟨h1, hlt⟩ | ⟨c, hc, hge, h1⟩
      · rw [h1] at hst; cases hst
        exact spec_simple p s _ [] _ hrt trivial (by simp) (by simp) List.Pairwise.nil (by simp)
      · rw [h1] at hst; cases hst
        refine ⟨⟨rfl, trivial⟩, by simp [frameNode], by simp, fun _ _ => rfl, fun _ h => Or.inl h, fun _ h => h, ?_, ?_,
          by simp⟩
        · intro m i b hm
          simp only [List.mem_singleton, Frame.children.injEq] at hm
          obtain ⟨e1, e2, e3⟩ := hm
          subst e1 e2 e3
          exact ⟨fun h => (by cases h), fun _ => by omega⟩
        · intro i c hc' hpre
          rcases hpre with h2 | h2
          · exact Or.inl h2
          · simp at h2
      · rw [h1] at hst; cases hst
        have hlt := (seq_child p hseq n inx c hc).2
        refine ⟨⟨hc, rfl, trivial⟩, ?_, ?_, fun _ _ => rfl, fun _ h => Or.inl h, fun _ h => h, ?_, ?_, by simp⟩
        · intro a ha
          simp only [List.mem_cons, List.mem_nil_iff, or_false] at ha
          rcases ha with e | e <;> subst e <;> simp only [frameNode] <;> omega
        · simp [relR, frameNode, hlt]
        · intro m i b hm
          simp only [List.mem_cons, List.mem_nil_iff, or_false, Frame.children.injEq, reduceCtorEq, false_or] at hm
          obtain ⟨e1, e2, e3⟩ := hm
          subst e1 e2 e3
          exact ⟨fun _ => by omega, fun h => (by cases h)⟩
        · intro i c' hc' hpre
          rcases hpre with h2 | h2
          · exact Or.inl h2
          · simp at h2

/-! ### a raising body: the frames up to the wrapper are dropped -/

theorem unwind_ci (s : St) (stack : List Frame) (k : Nat) :
    (((unwind s stack).1).rt k).childIndex = (s.rt k).childIndex := by
  induction stack with
  | nil => rfl
  | cons f rest ih =>
    cases f <;> simp only [unwind, ih]
    simp only [rt_setRt]
    split
    · rename_i h; subst h; rfl
    · rfl

theorem unwind_hr (s : St) (stack : List Frame) (k : Nat) :
    (((unwind s stack).1).rt k).hasRecord = (s.rt k).hasRecord := by
  induction stack with
  | nil => rfl
  | cons f rest ih =>
    cases f <;> simp only [unwind, ih]
    simp only [rt_setRt]
    split
    · rename_i h; subst h; rfl
    · rfl

theorem unwind_ci_hr (s : St) (stack : List Frame) (k : Nat) :
    (((unwind s stack).1).rt k).childIndex = (s.rt k).childIndex ∧
    (((unwind s stack).1).rt k).hasRecord = (s.rt k).hasRecord := ⟨unwind_ci s stack k, unwind_hr s stack k⟩

theorem raise_only_body (p : Prog) (s : St) (f : Frame) (below : List Frame) (s' : St)
    (h : stepFrame p s f below = .raise s') :
    (∃ n pc, f = .body n pc ∧ stepBody p s n pc below = .raise s') ∨ (∃ n e, f = .waitLoop n e ∧ s' = s) := by
  cases f with
  | body n pc => exact Or.inl ⟨n, pc, rfl, h⟩
  | waitLoop n e =>
    right
    refine ⟨n, e, rfl, ?_⟩
    by_cases h1 : (decide (s.tickTime < e) && !(getRt s n).forced) = true
    · simp only [stepFrame, h1, if_true] at h
      generalize hb : (_ && (getRt s n).waitStart.isNone) = b at h
      cases b
      · simp only [Bool.false_eq_true, if_false] at h; cases h
      · simp only [if_true] at h; cases h; rfl
    · simp only [stepFrame, h1, if_false, Bool.false_eq_true] at h; cases h
  | wrapEnter n =>
    by_cases hc : (s.rt n).completed = true
    · simp only [stepFrame, getRt_eq, hc, if_true] at h; cases h
    · simp only [stepFrame, getRt_eq, hc, if_false, Bool.false_eq_true] at h; cases h
  | wrapThr n =>
    by_cases hw : (!(s.rt n).started && !(s.rt n).completed && awaitingThreshold p s n) = true
    · by_cases he : inEndedBlock p s below n = true
      · simp only [stepFrame, getRt_eq, hw, he, if_true] at h; cases h
      · simp only [stepFrame, getRt_eq, hw, he, if_true, if_false, Bool.false_eq_true] at h; cases h
    · simp only [stepFrame, getRt_eq, hw, if_false, Bool.false_eq_true] at h; cases h
  | wrapDispatch n => simp only [stepFrame] at h; cases h
  | wrapAfter n => simp only [stepFrame] at h; cases h
  | callRet n m => simp only [stepFrame] at h; cases h
  | children n inx b =>
    cases b with
    | true => simp only [stepFrame, if_true] at h; cases h
    | false =>
      rcases children_false_cases p s n inx below with ⟨s1, h1, _⟩ | ⟨h1, _⟩ | ⟨c, _, _, h1⟩ <;> rw [h1] at h <;> cases h

theorem seqInv_raise (p : Prog) (s s' : St) (f : Frame) (below : List Frame) (n0 : Nat)
    (h : SeqInv p s (f :: below)) (hB : cls f = .B n0)
    (hhr : ∀ k, (s'.rt k).hasRecord = (s.rt k).hasRecord)
    (hci : ∀ k, k ≠ n0 → (s'.rt k).childIndex = (s.rt k).childIndex)
    (hown : (s'.rt n0).childIndex = (s.rt n0).childIndex ∨ (s'.rt n0).childIndex = (node p n0).children.length) :
    SeqInv p (unwind s' below).1 (unwind s' below).2 := by
  have hfn : frameNode f = n0 := by
    cases f <;> simp_all [cls, frameNode]
  have hnotloop : ∀ n i b, f ≠ .children n i b := by
    intro n i b e; subst e; simp [cls] at hB
  have hU := no_loop_of_own_node_below f below h.pair
  have hci' : ∀ k, k ≠ n0 → (((unwind s' below).1).rt k).childIndex = (s.rt k).childIndex := by
    intro k hk; rw [(unwind_ci_hr s' below k).1]; exact hci k hk
  have hhr' : ∀ k, (((unwind s' below).1).rt k).hasRecord = (s.rt k).hasRecord := by
    intro k; rw [(unwind_ci_hr s' below k).2]; exact hhr k
  have hown' : (((unwind s' below).1).rt n0).childIndex = (s.rt n0).childIndex ∨
      (((unwind s' below).1).rt n0).childIndex = (node p n0).children.length := by
    rw [(unwind_ci_hr s' below n0).1]; exact hown
  -- the shape of the stack below a body-level frame
  have hshape : below = [] ∨ ∃ rest, below = .wrapAfter n0 :: rest := by
    cases below with
    | nil => exact Or.inl rfl
    | cons g rest =>
      right
      have := h.chain.1
      rw [hB] at this
      simp only [headOK] at this
      cases g <;> simp only [aboveC] at this
      case wrapAfter c => subst this; exact ⟨rest, rfl⟩
  have hJ : ∀ (st' : List Frame), (∀ n i, Frame.children n i true ∈ below → Frame.children n i true ∈ st') →
      ∀ n i c, (node p n).children[i]? = some c → (((unwind s' below).1).rt c).hasRecord = true →
        i < (((unwind s' below).1).rt n).childIndex ∨ Frame.children n i true ∈ st' := by
    intro st' hsub n i c hc hr
    rw [hhr' c] at hr
    rcases h.J n i c hc hr with h1 | h1
    · left
      by_cases hn : n = n0
      · subst hn
        rcases hown' with e | e
        · rw [e]; exact h1
        · rw [e]; exact getElem?_lt _ _ _ hc
      · rw [hci' n hn]; exact h1
    · rcases List.mem_cons.mp h1 with h2 | h2
      · exact absurd h2.symm (hnotloop n i true)
      · exact Or.inr (hsub n i h2)
  rcases hshape with e | ⟨rest, e⟩
  · subst e
    simp only [unwind]
    refine ⟨trivial, List.Pairwise.nil, fun _ _ _ hm => (by cases hm), ?_, fun _ hc => (by cases hc), fun _ hl => (by cases hl)⟩
    intro n i c hc hr
    have := hJ [] (fun _ _ hm => by cases hm) n i c hc (by simpa [unwind] using hr)
    simpa [unwind] using this
  · subst e
    have hun : (unwind s' (.wrapAfter n0 :: rest)).2 = rest := by simp [unwind]
    rw [hun]
    refine ⟨h.chain.2.2, (List.pairwise_cons.mp (List.pairwise_cons.mp h.pair).2).2, ?_, ?_, ?_, ?_⟩
    · intro n inx b hm
      have hmb : Frame.children n inx b ∈ Frame.wrapAfter n0 :: rest := List.mem_cons_of_mem _ hm
      have hne : n ≠ n0 := by
        intro e; exact hU n inx b (by rw [hfn, e]) hmb
      rw [hci' n hne]
      exact h.K n inx b (List.mem_cons_of_mem _ hmb)
    · apply hJ rest
      intro n i hm
      rcases List.mem_cons.mp hm with h2 | h2
      · cases h2
      · exact h2
    · intro c hc
      cases rest with
      | nil => cases hc
      | cons g rest' =>
        simp only [List.head?_cons, Option.some.injEq] at hc
        exact absurd hc ((chain_top_only p (.wrapAfter n0) g rest' h.chain.2).2.1 c)
    · intro f0 hl
      apply h.Z f0
      cases rest with
      | nil => cases hl
      | cons g rest' =>
        rw [List.getLast?_cons_cons, List.getLast?_cons_cons]
        exact hl

/-- **One micro-step of a sequential method keeps the structural invariant.** -/
theorem seqInv_stepGen (p : Prog) (hseq : sequential p = true) (s : St) (st : List Frame) (h : SeqInv p s st) :
    SeqInv p (stepGen p s st).1 (stepGen p s st).2.1 := by
  cases st with
  | nil => exact h
  | cons f below =>
    unfold stepGen
    simp only []
    cases hst : stepFrame p s f below with
    | next s' top sig =>
      simp only []
      apply seqInv_replace p hseq s s' f below top h
      apply stepFrame_spec p hseq s f below s' top sig hst
      · intro n inx b e; exact h.K n inx b (by rw [e]; simp)
      · intro c e; exact h.H c (by rw [e]; rfl)
    | raise s' =>
      simp only []
      rcases raise_only_body p s f below s' hst with ⟨n, pc, e, hb⟩ | ⟨n, e', e, hs⟩
      · subst e
        have hk := seq_kind p hseq n
        have h1 := fun k => stepBody_hasRecord p s n pc below k hk
        have h2 := fun k => stepBody_ci_other p s n pc below k hk
        have h3 := stepBody_ci_own p s n pc below hk
        rw [hb] at h1 h2 h3
        simp only [outState] at h1 h2 h3
        exact seqInv_raise p s s' _ below n h rfl h1 h2 h3
      · subst e hs
        exact seqInv_raise p s' s' _ below n h rfl (fun _ => rfl) (fun _ _ => rfl) (Or.inl rfl)

end OPM.InterpC02
