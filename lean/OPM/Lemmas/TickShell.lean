import OPM.Model.TickShell
/-!
Lemmas about the tick shell (`OPM.Model.TickShell`), general in the phase table: the theorems of C13 are
these lemmas instantiated with the regenerated table, whose well-formedness is `decide`d there.
-/
namespace OPM.TickShell
open OPM.Gen.TickTable

/-! ## plans whose faults are all caught -/

/-- the `try` around the phase catches the fault and its handler is one the model knows -/
def guardedFault (p : Phase) (k : Fault) : Bool :=
  covers k p.catches && (p.handler == .setError || p.handler == .setErrorIfNone)

/-- every fault of the plan hits a phase that catches it (phases `ps`, the first has index `n`) -/
def guardedFrom (pl : Plan) : Nat → List Phase → Bool
  | _, [] => true
  | n, p :: ps => (match pl.at n with
                   | none => true
                   | some k => guardedFault p k) && guardedFrom pl (n + 1) ps

/-- the plan injects faults only where the source has a handler for them, and `set_error_state` works -/
def Plan.Guarded (pl : Plan) (ps : List Phase) : Prop := pl.hf = .none ∧ guardedFrom pl 0 ps = true

instance (pl : Plan) (ps : List Phase) : Decidable (pl.Guarded ps) := by
  unfold Plan.Guarded; exact inferInstance

theorem runHandler_none_noraise (h : Handler) (s : Shell) : (runHandler h .none s).2 = false := by
  cases h <;> simp only [runHandler, setErrorState] <;> (try split) <;> rfl

theorem stepPhase_noraise (pl : Plan) (acc : Acc) (n : Nat) (p : Phase) (hf : pl.hf = .none)
    (hg : ∀ k, pl.at n = some k → guardedFault p k = true) (hr : acc.raised = false) :
    (stepPhase pl acc n p).raised = false := by
  unfold stepPhase
  rw [hr]
  simp only [Bool.false_eq_true, if_false]
  split
  · exact hr
  · split
    · exact hr
    · split
      · exact hr
      · next k hk =>
        have := hg k hk
        simp only [guardedFault, Bool.and_eq_true] at this
        rw [if_pos this.1, hf]
        exact runHandler_none_noraise _ _

theorem tickFrom_noraise (pl : Plan) (hf : pl.hf = .none) :
    ∀ (ps : List Phase) (n : Nat) (acc : Acc), guardedFrom pl n ps = true → acc.raised = false →
      (tickFrom pl n ps acc).raised = false := by
  intro ps
  induction ps with
  | nil => intro n acc _ hr; exact hr
  | cons p ps ih =>
    intro n acc hg hr
    simp only [guardedFrom, Bool.and_eq_true] at hg
    simp only [tickFrom]
    apply ih _ _ hg.2
    apply stepPhase_noraise pl acc n p hf _ hr
    intro k hk
    have := hg.1
    rw [hk] at this
    exact this

end OPM.TickShell
