import OPM.Model.TickShell
/-!
Lemmas about the tick shell (`OPM.Model.TickShell`), general in the phase table: the theorems of C13 are
these lemmas instantiated with the regenerated table, whose well-formedness is `decide`d there.
-/
namespace OPM.TickShell
open OPM.Gen.TickTable

/-! ## plans whose faults are all caught -/

/-- the `try` around the phase catches the fault and its handler is one the model knows -/
def guardedFault (p : Phase) (k : Fault) : Bool :=
  covers k p.catches && (p.handler == .setError || p.handler == .setErrorIfNone)

/-- every fault of the plan hits a phase that catches it (phases `ps`, the first has index `n`) -/
def guardedFrom (pl : Plan) : Nat → List Phase → Bool
  | _, [] => true
  | n, p :: ps => (match pl.at n with
                   | none => true
                   | some k => guardedFault p k) && guardedFrom pl (n + 1) ps

/-- the plan injects faults only where the source has a handler for them, and `set_error_state` works -/
def Plan.Guarded (pl : Plan) (ps : List Phase) : Prop := pl.hf = .none ∧ guardedFrom pl 0 ps = true

instance (pl : Plan) (ps : List Phase) : Decidable (pl.Guarded ps) := by
  unfold Plan.Guarded; exact inferInstance

theorem runHandler_none_noraise (h : Handler) (s : Shell) : (runHandler h .none s).2 = false := by
  cases h <;> simp only [runHandler, setErrorState] <;> (try split) <;> rfl

theorem stepPhase_noraise (pl : Plan) (acc : Acc) (n : Nat) (p : Phase) (hf : pl.hf = .none)
    (hg : ∀ k, pl.at n = some k → guardedFault p k = true) (hr : acc.raised = false) :
    (stepPhase pl acc n p).raised = false := by
  unfold stepPhase
  rw [hr]
  simp only [Bool.false_eq_true, if_false]
  split
  · exact hr
  · split
    · rfl
    · split
      · rfl
      · next k hk =>
        have := hg k hk
        simp only [guardedFault, Bool.and_eq_true] at this
        rw [if_pos this.1, hf]
        exact runHandler_none_noraise _ _

theorem tickFrom_noraise (pl : Plan) (hf : pl.hf = .none) :
    ∀ (ps : List Phase) (n : Nat) (acc : Acc), guardedFrom pl n ps = true → acc.raised = false →
      (tickFrom pl n ps acc).raised = false := by
  intro ps
  induction ps with
  | nil => intro n acc _ hr; exact hr
  | cons p ps ih =>
    intro n acc hg hr
    simp only [guardedFrom, Bool.and_eq_true] at hg
    simp only [tickFrom]
    apply ih _ _ hg.2
    apply stepPhase_noraise pl acc n p hf _ hr
    intro k hk
    have := hg.1
    rw [hk] at this
    exact this


/-! ## predicates kept by everything a tick does besides the command phase -/

/-- Method Status Error, `_last_error` set, paused, System State Paused -/
def ErrorState (s : Shell) : Prop :=
  s.lastErr = true ∧ s.methodErr = true ∧ s.paused = true ∧ s.sys = .paused

/-- no command request pending or in progress -/
def Idle (s : Shell) : Prop := s.queue = [] ∧ s.executing = []

instance (s : Shell) : Decidable (ErrorState s) := by unfold ErrorState; exact inferInstance
instance (s : Shell) : Decidable (Idle s) := by unfold Idle; exact inferInstance

theorem cmdPhase_idle (s : Shell) (h : Idle s) : cmdPhase s = s := by
  obtain ⟨h1, h2⟩ := h
  cases s
  simp only at h1 h2
  subst h1 h2
  rfl

/-! ### `set_error_state`: always reports (Method Status, `_last_error`); pauses only a run -/

theorem setErr_lastErr (s : Shell) : (setErr s).lastErr = true := by unfold setErr; split <;> rfl
theorem setErr_methodErr (s : Shell) : (setErr s).methodErr = true := by unfold setErr; split <;> rfl
theorem setErr_started (s : Shell) : (setErr s).started = s.started := by unfold setErr; split <;> rfl
theorem setErr_queue (s : Shell) : (setErr s).queue = s.queue := by unfold setErr; split <;> rfl
theorem setErr_executing (s : Shell) : (setErr s).executing = s.executing := by unfold setErr; split <;> rfl
theorem setErr_stopInst (s : Shell) : (setErr s).stopInst = s.stopInst := by unfold setErr; split <;> rfl
theorem setErr_holding (s : Shell) : (setErr s).holding = s.holding := by unfold setErr; split <;> rfl
theorem setErr_stopping (s : Shell) : (setErr s).stopping = s.stopping := by unfold setErr; split <;> rfl

/-- a run is paused by the error -/
theorem setErr_run (s : Shell) (h : s.started = true) :
    (setErr s).paused = true ∧ (setErr s).sys = .paused := by
  unfold setErr; rw [if_pos h]; exact ⟨rfl, rfl⟩

/-- with no run active the run flags and System State are left alone -/
theorem setErr_idle (s : Shell) (h : s.started = false) :
    (setErr s).paused = s.paused ∧ (setErr s).sys = s.sys := by
  unfold setErr; rw [h]; exact ⟨rfl, rfl⟩

theorem setErr_errorState (s : Shell) (h : ErrorState s ∨ s.started = true) : ErrorState (setErr s) := by
  refine ⟨setErr_lastErr s, setErr_methodErr s, ?_⟩
  cases hs : s.started with
  | true => exact setErr_run s hs
  | false =>
    rcases h with h | h
    · rw [(setErr_idle s hs).1, (setErr_idle s hs).2]; exact ⟨h.2.2.1, h.2.2.2⟩
    · rw [hs] at h; exact absurd h (by simp)

theorem setErr_idleQ (s : Shell) (h : Idle s) : Idle (setErr s) := by
  unfold Idle; rw [setErr_queue, setErr_executing]; exact h

theorem runnable_started (s : Shell) (h : condHolds .runnable s = true) : s.started = true := by
  simp only [condHolds, Bool.and_eq_true] at h
  exact h.1.1.1

structure Pres (P : Shell → Prop) : Prop where
  err : ∀ s, P s → P (setErr s)
  prog : ∀ s, P s → P { s with progStarted := true }

theorem runHandler_pres {P : Shell → Prop} (hP : Pres P) (p : Phase) (k : Fault) (s : Shell)
    (hg : guardedFault p k = true) (h : P s) : P (runHandler p.handler .none s).1 := by
  simp only [guardedFault, Bool.and_eq_true, Bool.or_eq_true, beq_iff_eq] at hg
  rcases hg.2 with h1 | h1 <;> rw [h1] <;> simp only [runHandler, setErrorState]
  · exact hP.err s h
  · split
    · exact h
    · exact hP.err s h

/-- one phase keeps `P` when the plan is guarded there and the phase's own effect keeps `P` -/
theorem stepPhase_pres {P : Shell → Prop} (hP : Pres P) (pl : Plan) (hf : pl.hf = .none) (acc : Acc) (n : Nat)
    (p : Phase) (hg : ∀ k, pl.at n = some k → guardedFault p k = true)
    (he : pl.at n = none → ∀ s, P s → P (effect p.callee s)) (h : P acc.s) :
    P (stepPhase pl acc n p).s := by
  unfold stepPhase
  split
  · exact h
  · split
    · exact h
    · split
      · exact h
      · split
        · next hk => exact he hk _ h
        · next k hk =>
          have hgk := hg k hk
          have hc : covers k p.catches = true := by
            simp only [guardedFault, Bool.and_eq_true] at hgk; exact hgk.1
          rw [if_pos hc, hf]
          exact runHandler_pres hP p k _ hgk h

theorem stepPhase_skip (pl : Plan) (acc : Acc) (n : Nat) (p : Phase) (f : String)
    (hs : acc.skip ≠ some f) (hr : p.handlerReturns = true → p.fn ≠ f) :
    (stepPhase pl acc n p).skip ≠ some f := by
  unfold stepPhase
  split
  · exact hs
  · split
    · exact hs
    · split
      · simp
      · split
        · simp
        · split
          · simp only []
            split
            · next h => intro h2; exact hr h (Option.some.inj h2)
            · simp
          · simp

/-- `P` survives the rest of a tick if the command phase, where it runs, keeps it -/
theorem tickFrom_pres {P : Shell → Prop} (hP : Pres P) (pl : Plan) (hf : pl.hf = .none)
    (hcmd : ∀ s, P s → P (cmdPhase s)) :
    ∀ (ps : List Phase) (n : Nat) (acc : Acc), guardedFrom pl n ps = true → P acc.s →
      P (tickFrom pl n ps acc).s := by
  intro ps
  induction ps with
  | nil => intro n acc _ h; exact h
  | cons p ps ih =>
    intro n acc hg h
    simp only [guardedFrom, Bool.and_eq_true] at hg
    simp only [tickFrom]
    apply ih _ _ hg.2
    apply stepPhase_pres hP pl hf acc n p _ _ h
    · intro k hk
      have := hg.1
      rw [hk] at this
      exact this
    · intro _ s hs
      unfold effect
      split
      · exact hcmd s hs
      · split
        · exact hP.prog s hs
        · exact hs

/-! ## a failing instruction: the interpreter phase raises -/

/-- `ErrorState ∧ Idle` -/
def ErrIdle (s : Shell) : Prop := ErrorState s ∧ Idle s

/-- before the interpreter phase: idle, and either already in the error state or still runnable -/
def PreInterp (s : Shell) : Prop := Idle s ∧ (ErrorState s ∨ condHolds .runnable s = true)

theorem errIdle_pres : Pres ErrIdle where
  err := by
    intro s h
    exact ⟨setErr_errorState s (Or.inl h.1), setErr_idleQ s h.2⟩
  prog := by
    intro s h
    exact ⟨h.1, h.2⟩

theorem errIdle_cmd (s : Shell) (h : ErrIdle s) : ErrIdle (cmdPhase s) := by
  rw [cmdPhase_idle s h.2]; exact h

theorem preInterp_pres : Pres PreInterp where
  err := by
    intro s h
    refine ⟨setErr_idleQ s h.1, Or.inl (setErr_errorState s ?_)⟩
    rcases h.2 with h2 | h2
    · exact Or.inl h2
    · exact Or.inr (runnable_started s h2)
  prog := by
    intro s h
    exact ⟨h.1, h.2⟩

theorem preInterp_cmd (s : Shell) (h : PreInterp s) : PreInterp (cmdPhase s) := by
  rw [cmdPhase_idle s h.1]; exact h

/-- the phase is the guarded interpreter tick -/
def isInterp (p : Phase) : Bool :=
  p.callee == interpCallee && p.cond == .runnable && p.handler == .setError && p.fn == "tick"

/-- the plan makes an interpreter phase raise -/
def hitsInterp (pl : Plan) : Nat → List Phase → Bool
  | _, [] => false
  | n, p :: ps => (isInterp p && (pl.at n).isSome) || hitsInterp pl (n + 1) ps

/-- no handler of the tick's own body `return`s -/
def noTickReturn (ps : List Phase) : Bool := ps.all (fun p => !p.handlerReturns || p.fn != "tick")

theorem stepPhase_hit (pl : Plan) (hf : pl.hf = .none) (acc : Acc) (n : Nat) (p : Phase) (k : Fault)
    (hi : isInterp p = true) (hk : pl.at n = some k) (hg : guardedFault p k = true)
    (hr : acc.raised = false) (hs : acc.skip ≠ some "tick") (h : PreInterp acc.s) :
    ErrIdle (stepPhase pl acc n p).s := by
  simp only [isInterp, Bool.and_eq_true, beq_iff_eq] at hi
  obtain ⟨⟨⟨_, hcond⟩, hh⟩, hfn⟩ := hi
  have hc : covers k p.catches = true := by
    simp only [guardedFault, Bool.and_eq_true] at hg; exact hg.1
  unfold stepPhase
  rw [hr, hfn, hcond]
  simp only [Bool.false_eq_true, if_false, if_neg hs]
  by_cases hrun : condHolds .runnable acc.s = true
  · rw [hrun]
    simp only [Bool.not_true, Bool.false_eq_true, if_false, hk, if_pos hc, hf, hh, runHandler, setErrorState]
    exact ⟨setErr_errorState _ (Or.inr (runnable_started _ hrun)), setErr_idleQ _ h.1⟩
  · have hE : ErrorState acc.s := by
      rcases h.2 with h2 | h2
      · exact h2
      · exact absurd h2 hrun
    simp only [Bool.not_eq_true] at hrun
    rw [hrun]
    simp only [Bool.not_false, if_true]
    exact ⟨hE, h.1⟩

theorem tickFrom_interp_fault (pl : Plan) (hf : pl.hf = .none) :
    ∀ (ps : List Phase) (n : Nat) (acc : Acc), guardedFrom pl n ps = true → noTickReturn ps = true →
      hitsInterp pl n ps = true → acc.raised = false → acc.skip ≠ some "tick" → PreInterp acc.s →
      ErrIdle (tickFrom pl n ps acc).s := by
  intro ps
  induction ps with
  | nil => intro n acc _ _ hh; simp [hitsInterp] at hh
  | cons p ps ih =>
    intro n acc hg hn hh hr hs h
    simp only [guardedFrom, Bool.and_eq_true] at hg
    simp only [noTickReturn, List.all_cons, Bool.and_eq_true] at hn
    simp only [tickFrom]
    have hgn : ∀ k, pl.at n = some k → guardedFault p k = true := by
      intro k hk
      have := hg.1
      rw [hk] at this
      exact this
    by_cases hit : (isInterp p && (pl.at n).isSome) = true
    · simp only [Bool.and_eq_true] at hit
      obtain ⟨k, hk⟩ := Option.isSome_iff_exists.mp hit.2
      apply tickFrom_pres errIdle_pres pl hf errIdle_cmd _ _ _ hg.2
      exact stepPhase_hit pl hf acc n p k hit.1 hk (hgn k hk) hr hs h
    · simp only [hitsInterp, Bool.or_eq_true] at hh
      have hh' : hitsInterp pl (n + 1) ps = true := by
        rcases hh with h1 | h1
        · exact absurd h1 hit
        · exact h1
      apply ih _ _ hg.2 hn.2 hh'
      · exact stepPhase_noraise pl acc n p hf hgn hr
      · apply stepPhase_skip pl acc n p "tick" hs
        intro hret
        have := hn.1
        simp only [hret, Bool.not_true, Bool.false_or, bne_iff_ne, ne_eq] at this
        exact this
      · apply stepPhase_pres preInterp_pres pl hf acc n p hgn _ h
        intro _ s hs
        unfold effect
        split
        · exact preInterp_cmd s hs
        · split
          · exact preInterp_pres.prog s hs
          · exact hs


/-! ## Stop -/

/-- the command phase is the phase with index `c` (and only that one), it runs unconditionally in the
    tick's own body -/
def wfCmdFrom (c : Nat) : Nat → List Phase → Bool
  | _, [] => true
  | n, p :: ps => ((p.callee == cmdCallee) == (n == c)) &&
                  (!(p.callee == cmdCallee) || (p.cond == .always && p.fn == "tick")) && wfCmdFrom c (n + 1) ps

theorem runHandler_keep {P : Shell → Prop} (herr : ∀ s, P s → P (setErr s)) (p : Phase) (k : Fault) (s : Shell)
    (hg : guardedFault p k = true) (h : P s) : P (runHandler p.handler .none s).1 := by
  simp only [guardedFault, Bool.and_eq_true, Bool.or_eq_true, beq_iff_eq] at hg
  rcases hg.2 with h1 | h1 <;> rw [h1] <;> simp only [runHandler, setErrorState]
  · exact herr s h
  · split
    · exact h
    · exact herr s h

theorem stepPhase_keep {P : Shell → Prop} (pl : Plan) (hf : pl.hf = .none) (acc : Acc) (n : Nat)
    (p : Phase) (hg : ∀ k, pl.at n = some k → guardedFault p k = true)
    (herr : ∀ k, pl.at n = some k → ∀ s, P s → P (setErr s))
    (he : pl.at n = none → ∀ s, P s → P (effect p.callee s)) (h : P acc.s) :
    P (stepPhase pl acc n p).s := by
  unfold stepPhase
  split
  · exact h
  · split
    · exact h
    · split
      · exact h
      · split
        · next hk => exact he hk _ h
        · next k hk =>
          have hgk := hg k hk
          have hc : covers k p.catches = true := by
            simp only [guardedFault, Bool.and_eq_true] at hgk; exact hgk.1
          rw [if_pos hc, hf]
          exact runHandler_keep (herr k hk) p k _ hgk h

theorem effect_other {P : Shell → Prop} (hp : ∀ s, P s → P { s with progStarted := true }) (callee : String)
    (hne : callee ≠ cmdCallee) (s : Shell) (h : P s) : P (effect callee s) := by
  unfold effect
  rw [if_neg hne]
  split
  · exact hp s h
  · exact h

theorem at_nil (pl : Plan) (h : pl.faults = []) (n : Nat) : pl.at n = none := by
  simp [Plan.at, h]

/-- `A` up to (and including) position `c`, `B` after it -/
def Stg (A B : Shell → Prop) (c n : Nat) (s : Shell) : Prop := (n ≤ c → A s) ∧ (c < n → B s)

/-- a tick whose command phase (index `c`) is not made to fail takes `A` before it to `B` after it -/
theorem tickFrom_stage {A B : Shell → Prop} (pl : Plan) (hf : pl.hf = .none) (c : Nat)
    (hpA : ∀ s, A s → A { s with progStarted := true }) (hpB : ∀ s, B s → B { s with progStarted := true })
    (hE : pl.faults = [] ∨ ((∀ s, A s → A (setErr s)) ∧ (∀ s, B s → B (setErr s))))
    (hAB : ∀ s, A s → B (cmdPhase s)) (hc : pl.at c = none) :
    ∀ (ps : List Phase) (n : Nat) (acc : Acc), guardedFrom pl n ps = true → noTickReturn ps = true →
      wfCmdFrom c n ps = true → acc.raised = false → acc.skip ≠ some "tick" →
      Stg A B c n acc.s → Stg A B c (n + ps.length) (tickFrom pl n ps acc).s := by
  intro ps
  induction ps with
  | nil => intro n acc _ _ _ _ _ h; simpa [tickFrom] using h
  | cons p ps ih =>
    intro n acc hg hn hw hr hs h
    simp only [guardedFrom, Bool.and_eq_true] at hg
    simp only [noTickReturn, List.all_cons, Bool.and_eq_true] at hn
    simp only [wfCmdFrom, Bool.and_eq_true] at hw
    simp only [tickFrom, List.length_cons]
    have hgn : ∀ k, pl.at n = some k → guardedFault p k = true := by
      intro k hk
      have := hg.1
      rw [hk] at this
      exact this
    have hlen : n + (ps.length + 1) = (n + 1) + ps.length := by omega
    rw [hlen]
    apply ih (n + 1) _ hg.2 hn.2 hw.2
    · exact stepPhase_noraise pl acc n p hf hgn hr
    · apply stepPhase_skip pl acc n p "tick" hs
      intro hret
      have := hn.1
      simp only [hret, Bool.not_true, Bool.false_or, bne_iff_ne, ne_eq] at this
      exact this
    · by_cases hcal : p.callee = cmdCallee
      · -- the command phase itself
        have h1 := hw.1.1
        have h2 := hw.1.2
        simp only [hcal, beq_self_eq_true, Bool.true_eq, beq_iff_eq] at h1
        simp only [hcal, beq_self_eq_true, Bool.not_true, Bool.false_or, Bool.and_eq_true, beq_iff_eq] at h2
        subst h1
        have hA : A acc.s := h.1 (Nat.le_refl _)
        have hstep : (stepPhase pl acc n p).s = cmdPhase acc.s := by
          unfold stepPhase
          rw [hr, h2.1, h2.2, hc]
          simp only [Bool.false_eq_true, if_false, if_neg hs, condHolds, Bool.not_true]
          simp only [effect, hcal, if_true]
        rw [hstep]
        exact ⟨fun hle => absurd hle (by omega), fun _ => hAB _ hA⟩
      · have h1 := hw.1.1
        have hnc : n ≠ c := by
          intro heq
          have hb : (p.callee == cmdCallee) = false := by simpa using hcal
          rw [hb, heq] at h1
          simp at h1
        constructor
        · intro hle
          have hA : A acc.s := h.1 (by omega)
          apply stepPhase_keep pl hf acc n p hgn _ _ hA
          · intro k hk
            rcases hE with hE | hE
            · rw [at_nil pl hE n] at hk; exact absurd hk (by simp)
            · exact hE.1
          · intro _ s hs'
            exact effect_other hpA _ hcal s hs'
        · intro hlt
          have hB : B acc.s := h.2 (by omega)
          apply stepPhase_keep pl hf acc n p hgn _ _ hB
          · intro k hk
            rcases hE with hE | hE
            · rw [at_nil pl hE n] at hk; exact absurd hk (by simp)
            · exact hE.2
          · intro _ s hs'
            exact effect_other hpB _ hcal s hs'

/-- a tick whose command phase is made to fail keeps everything the handlers and the interpreter keep -/
theorem tickFrom_keep_faulted {P : Shell → Prop} (pl : Plan) (hf : pl.hf = .none) (c : Nat)
    (hp : ∀ s, P s → P { s with progStarted := true }) (herr : ∀ s, P s → P (setErr s))
    (hc : pl.at c ≠ none) :
    ∀ (ps : List Phase) (n : Nat) (acc : Acc), guardedFrom pl n ps = true → wfCmdFrom c n ps = true →
      P acc.s → P (tickFrom pl n ps acc).s := by
  intro ps
  induction ps with
  | nil => intro n acc _ _ h; exact h
  | cons p ps ih =>
    intro n acc hg hw h
    simp only [guardedFrom, Bool.and_eq_true] at hg
    simp only [wfCmdFrom, Bool.and_eq_true] at hw
    simp only [tickFrom]
    apply ih _ _ hg.2 hw.2
    apply stepPhase_keep pl hf acc n p _ (fun _ _ => herr) _ h
    · intro k hk
      have := hg.1
      rw [hk] at this
      exact this
    · intro hk s hs
      by_cases hcal : p.callee = cmdCallee
      · have h1 := hw.1.1
        simp only [hcal, beq_self_eq_true, Bool.true_eq, beq_iff_eq] at h1
        subst h1
        exact absurd hk hc
      · exact effect_other hp _ hcal s hs

/-- an accepted Stop is waiting in the queue, nothing else is pending -/
def StopQueued (s : Shell) : Prop :=
  s.queue = [.stop] ∧ s.executing = [] ∧ s.stopInst = false ∧ s.sys ≠ .stopped

/-- the Stop command is suspended at its `yield` -/
def StopYielded (s : Shell) : Prop :=
  s.queue = [] ∧ s.executing = [.stop] ∧ s.stopInst = true

/-- the run is stopped, nothing pending -/
def Stopped (s : Shell) : Prop :=
  s.queue = [] ∧ s.executing = [] ∧ s.stopInst = false ∧ s.started = false

/-- …and nothing touched the state since Stop completed -/
def StoppedClean (s : Shell) : Prop := Stopped s ∧ s.sys = .stopped ∧ s.methodErr = false

instance (s : Shell) : Decidable (StopQueued s) := by unfold StopQueued; exact inferInstance
instance (s : Shell) : Decidable (StopYielded s) := by unfold StopYielded; exact inferInstance
instance (s : Shell) : Decidable (Stopped s) := by unfold Stopped; exact inferInstance
instance (s : Shell) : Decidable (StoppedClean s) := by unfold StoppedClean; exact inferInstance

theorem cmdPhase_queued (s : Shell) (h : StopQueued s) : StopYielded (cmdPhase s) := by
  obtain ⟨h1, h2, h3, h4⟩ := h
  obtain ⟨running, started, paused, holding, stopping, sys, methodErr, lastErr, progStarted, queue, executing,
    stopInst⟩ := s
  simp only at h1 h2 h3 h4
  subst h1 h2 h3
  cases sys
  case stopped => exact absurd rfl h4
  all_goals (cases started <;> exact ⟨rfl, rfl, rfl⟩)

theorem cmdPhase_yielded (s : Shell) (h : StopYielded s) : StoppedClean (cmdPhase s) := by
  obtain ⟨h1, h2, h3⟩ := h
  obtain ⟨running, started, paused, holding, stopping, sys, methodErr, lastErr, progStarted, queue, executing,
    stopInst⟩ := s
  simp only at h1 h2 h3
  subst h1 h2 h3
  cases started <;> exact ⟨⟨rfl, rfl, rfl, rfl⟩, rfl, rfl⟩

theorem cmdPhase_stopped (s : Shell) (h : Stopped s) : Stopped (cmdPhase s) := by
  rw [cmdPhase_idle s ⟨h.1, h.2.1⟩]; exact h


/-- the phase table has its command phase at index `c`, unconditional, and no handler of the tick's own body
    returns -/
def TableWF (ps : List Phase) (c : Nat) : Prop :=
  noTickReturn ps = true ∧ wfCmdFrom c 0 ps = true ∧ c < ps.length

instance (ps : List Phase) (c : Nat) : Decidable (TableWF ps c) := by
  unfold TableWF; exact inferInstance

/-- a tick in which the command phase runs (is not made to fail): `A` before, `B` after -/
theorem tick_stage {A B : Shell → Prop} (ps : List Phase) (c : Nat) (wf : TableWF ps c) (pl : Plan)
    (hg : pl.Guarded ps) (hc : pl.at c = none)
    (hpA : ∀ s, A s → A { s with progStarted := true }) (hpB : ∀ s, B s → B { s with progStarted := true })
    (hE : pl.faults = [] ∨ ((∀ s, A s → A (setErr s)) ∧ (∀ s, B s → B (setErr s))))
    (hAB : ∀ s, A s → B (cmdPhase s)) (s : Shell) (h : A s) : B (tick ps pl s).1 := by
  have := tickFrom_stage (A := A) (B := B) pl hg.1 c hpA hpB hE hAB hc ps 0 { s := s } hg.2 wf.1 wf.2.1 rfl
    (by simp) ⟨fun _ => h, fun hlt => absurd hlt (by omega)⟩
  exact this.2 (by have := wf.2.2; omega)

/-- a tick in which the command phase is made to fail -/
theorem tick_keep_faulted {P : Shell → Prop} (ps : List Phase) (c : Nat) (wf : TableWF ps c) (pl : Plan)
    (hg : pl.Guarded ps) (hc : pl.at c ≠ none)
    (hp : ∀ s, P s → P { s with progStarted := true }) (herr : ∀ s, P s → P (setErr s))
    (s : Shell) (h : P s) : P (tick ps pl s).1 :=
  tickFrom_keep_faulted pl hg.1 c hp herr hc ps 0 { s := s } hg.2 wf.2.1 h

/-- progress of an accepted Stop: 0 = queued, 1 = suspended at its yield, ≥ 2 = the run is stopped -/
def Stage : Nat → Shell → Prop
  | 0 => StopQueued
  | 1 => StopYielded
  | _ => Stopped

theorem stage_prog (k : Nat) (s : Shell) (h : Stage k s) : Stage k { s with progStarted := true } := by
  match k with
  | 0 => exact h
  | 1 => exact h
  | _ + 2 => exact h

theorem stage_err (k : Nat) (s : Shell) (h : Stage k s) : Stage k (setErr s) := by
  match k with
  | 0 =>
    refine ⟨by rw [setErr_queue]; exact h.1, by rw [setErr_executing]; exact h.2.1,
            by rw [setErr_stopInst]; exact h.2.2.1, ?_⟩
    cases hs : s.started with
    | true => rw [(setErr_run s hs).2]; simp
    | false => rw [(setErr_idle s hs).2]; exact h.2.2.2
  | 1 => exact ⟨by rw [setErr_queue]; exact h.1, by rw [setErr_executing]; exact h.2.1,
                by rw [setErr_stopInst]; exact h.2.2⟩
  | _ + 2 => exact ⟨by rw [setErr_queue]; exact h.1, by rw [setErr_executing]; exact h.2.1,
                    by rw [setErr_stopInst]; exact h.2.2.1, by rw [setErr_started]; exact h.2.2.2⟩

theorem stage_cmd (k : Nat) (s : Shell) (h : Stage k s) : Stage (k + 1) (cmdPhase s) := by
  match k with
  | 0 => exact cmdPhase_queued s h
  | 1 => exact (cmdPhase_yielded s h).1
  | _ + 2 => exact cmdPhase_stopped s h

theorem tick_stage_ok (ps : List Phase) (c : Nat) (wf : TableWF ps c) (pl : Plan) (hg : pl.Guarded ps)
    (hc : pl.at c = none) (k : Nat) (s : Shell) (h : Stage k s) : Stage (k + 1) (tick ps pl s).1 :=
  tick_stage ps c wf pl hg hc (stage_prog k) (stage_prog (k + 1)) (Or.inr ⟨stage_err k, stage_err (k + 1)⟩)
    (stage_cmd k) s h

theorem tick_stage_faulted (ps : List Phase) (c : Nat) (wf : TableWF ps c) (pl : Plan) (hg : pl.Guarded ps)
    (hc : pl.at c ≠ none) (k : Nat) (s : Shell) (h : Stage k s) : Stage k (tick ps pl s).1 :=
  tick_keep_faulted ps c wf pl hg hc (stage_prog k) (stage_err k) s h

theorem stage_mono (k : Nat) (hk : 2 ≤ k) (s : Shell) (h : Stage k s) : Stopped s := by
  match k, hk with
  | _ + 2, _ => exact h

/-- the second command phase of a Stop with no fault anywhere in that tick: stopped, System State Stopped,
    Method Status OK -/
theorem tick_stop_clean (ps : List Phase) (c : Nat) (wf : TableWF ps c) (pl : Plan) (hg : pl.Guarded ps)
    (hn : pl.faults = []) (s : Shell) (h : StopYielded s) : StoppedClean (tick ps pl s).1 :=
  tick_stage ps c wf pl hg (at_nil pl hn c) (fun _ h => h) (fun _ h => h) (Or.inl hn) cmdPhase_yielded s h

/-- number of ticks of the list whose command phase is not made to fail -/
def okTicks (c : Nat) : List Plan → Nat
  | [] => 0
  | pl :: pls => (if pl.at c = none then 1 else 0) + okTicks c pls

theorem run_stage (ps : List Phase) (c : Nat) (wf : TableWF ps c) :
    ∀ (pls : List Plan) (k : Nat) (s : Shell), (∀ pl ∈ pls, pl.Guarded ps) → Stage k s →
      Stage (k + okTicks c pls) (run ps pls s) := by
  intro pls
  induction pls with
  | nil => intro k s _ h; exact h
  | cons pl pls ih =>
    intro k s hg h
    simp only [run, okTicks]
    have hgpl := hg pl (List.mem_cons_self)
    have hgr : ∀ pl' ∈ pls, pl'.Guarded ps := fun pl' hm => hg pl' (List.mem_cons_of_mem _ hm)
    by_cases hc : pl.at c = none
    · rw [if_pos hc]
      have := ih (k + 1) _ hgr (tick_stage_ok ps c wf pl hgpl hc k s h)
      have e : k + 1 + okTicks c pls = k + (1 + okTicks c pls) := by omega
      rw [e] at this
      exact this
    · rw [if_neg hc]
      have := ih k _ hgr (tick_stage_faulted ps c wf pl hgpl hc k s h)
      simpa using this

/-! ## `_last_error` is only cleared by a merged method -/

theorem execOne_lastErr (l : Loop) (c : Cmd) : (execOne l c).s.lastErr = l.s.lastErr := by
  unfold execOne
  simp only []
  split
  · rfl
  · cases c <;> simp only [] <;> (repeat' split) <;> rfl

theorem foldl_execOne_lastErr (cs : List Cmd) (l : Loop) : (cs.foldl execOne l).s.lastErr = l.s.lastErr := by
  induction cs generalizing l with
  | nil => rfl
  | cons c cs ih => simp only [List.foldl]; rw [ih, execOne_lastErr]

theorem cmdPhase_lastErr (s : Shell) : (cmdPhase s).lastErr = s.lastErr := by
  unfold cmdPhase
  simp only []
  split <;> simp only [foldl_execOne_lastErr]

theorem tick_keeps_lastErr (ps : List Phase) (pl : Plan) (hg : pl.Guarded ps) (s : Shell)
    (h : s.lastErr = true) : (tick ps pl s).1.lastErr = true :=
  tickFrom_pres (P := fun s => s.lastErr = true) ⟨fun s _ => setErr_lastErr s, fun _ h => h⟩ pl hg.1
    (fun s h => by rw [cmdPhase_lastErr]; exact h) ps 0 { s := s } hg.2 h


/-! ## an error while no run is active -/

/-- no run: not started, not paused, System State Stopped, no request pending -/
def NoRun (s : Shell) : Prop := s.started = false ∧ s.paused = false ∧ s.sys = .stopped ∧ Idle s

/-- …with the error reported: Method Status Error, `_last_error` set -/
def NoRunErr (s : Shell) : Prop := NoRun s ∧ s.methodErr = true ∧ s.lastErr = true

instance (s : Shell) : Decidable (NoRun s) := by unfold NoRun; exact inferInstance
instance (s : Shell) : Decidable (NoRunErr s) := by unfold NoRunErr; exact inferInstance

theorem setErr_noRun (s : Shell) (h : NoRun s) : NoRunErr (setErr s) := by
  obtain ⟨h1, h2, h3, h4⟩ := h
  refine ⟨⟨by rw [setErr_started]; exact h1, ?_, ?_, setErr_idleQ s h4⟩, setErr_methodErr s, setErr_lastErr s⟩
  · rw [(setErr_idle s h1).1]; exact h2
  · rw [(setErr_idle s h1).2]; exact h3

theorem noRun_pres : Pres NoRun where
  err := fun s h => (setErr_noRun s h).1
  prog := fun _ h => h

theorem noRunErr_pres : Pres NoRunErr where
  err := fun s h => setErr_noRun s h.1
  prog := fun _ h => h

theorem noRun_cmd (s : Shell) (h : NoRun s) : NoRun (cmdPhase s) := by
  rw [cmdPhase_idle s h.2.2.2]; exact h

theorem noRunErr_cmd (s : Shell) (h : NoRunErr s) : NoRunErr (cmdPhase s) := by
  rw [cmdPhase_idle s h.1.2.2.2]; exact h

/-- a phase of the tick's own body that runs unconditionally inside `try … except Exception: set_error_state` -/
def isAlwaysGuarded (p : Phase) : Bool := p.cond == .always && p.handler == .setError && p.fn == "tick"

/-- the plan makes such a phase raise -/
def hitsAlways (pl : Plan) : Nat → List Phase → Bool
  | _, [] => false
  | n, p :: ps => (isAlwaysGuarded p && (pl.at n).isSome) || hitsAlways pl (n + 1) ps

theorem stepPhase_hit_idle (pl : Plan) (hf : pl.hf = .none) (acc : Acc) (n : Nat) (p : Phase) (k : Fault)
    (hi : isAlwaysGuarded p = true) (hk : pl.at n = some k) (hg : guardedFault p k = true)
    (hr : acc.raised = false) (hs : acc.skip ≠ some "tick") (h : NoRun acc.s) :
    NoRunErr (stepPhase pl acc n p).s := by
  simp only [isAlwaysGuarded, Bool.and_eq_true, beq_iff_eq] at hi
  obtain ⟨⟨hcond, hh⟩, hfn⟩ := hi
  have hc : covers k p.catches = true := by
    simp only [guardedFault, Bool.and_eq_true] at hg; exact hg.1
  unfold stepPhase
  rw [hr, hfn, hcond]
  simp only [Bool.false_eq_true, if_false, if_neg hs, condHolds, Bool.not_true, hk, if_pos hc, hf, hh, runHandler,
    setErrorState]
  exact setErr_noRun _ h

theorem tickFrom_idle_fault (pl : Plan) (hf : pl.hf = .none) :
    ∀ (ps : List Phase) (n : Nat) (acc : Acc), guardedFrom pl n ps = true → noTickReturn ps = true →
      hitsAlways pl n ps = true → acc.raised = false → acc.skip ≠ some "tick" → NoRun acc.s →
      NoRunErr (tickFrom pl n ps acc).s := by
  intro ps
  induction ps with
  | nil => intro n acc _ _ hh; simp [hitsAlways] at hh
  | cons p ps ih =>
    intro n acc hg hn hh hr hs h
    simp only [guardedFrom, Bool.and_eq_true] at hg
    simp only [noTickReturn, List.all_cons, Bool.and_eq_true] at hn
    simp only [tickFrom]
    have hgn : ∀ k, pl.at n = some k → guardedFault p k = true := by
      intro k hk
      have := hg.1
      rw [hk] at this
      exact this
    by_cases hit : (isAlwaysGuarded p && (pl.at n).isSome) = true
    · simp only [Bool.and_eq_true] at hit
      obtain ⟨k, hk⟩ := Option.isSome_iff_exists.mp hit.2
      apply tickFrom_pres noRunErr_pres pl hf noRunErr_cmd _ _ _ hg.2
      exact stepPhase_hit_idle pl hf acc n p k hit.1 hk (hgn k hk) hr hs h
    · simp only [hitsAlways, Bool.or_eq_true] at hh
      have hh' : hitsAlways pl (n + 1) ps = true := by
        rcases hh with h1 | h1
        · exact absurd h1 hit
        · exact h1
      apply ih _ _ hg.2 hn.2 hh'
      · exact stepPhase_noraise pl acc n p hf hgn hr
      · apply stepPhase_skip pl acc n p "tick" hs
        intro hret
        have := hn.1
        simp only [hret, Bool.not_true, Bool.false_or, bne_iff_ne, ne_eq] at this
        exact this
      · apply stepPhase_pres noRun_pres pl hf acc n p hgn _ h
        intro _ s hs
        unfold effect
        split
        · exact noRun_cmd s hs
        · split
          · exact hs
          · exact hs

/-- whatever guarded faults occur while no run is active: still no run, System State Stopped -/
theorem tick_noRun (ps : List Phase) (pl : Plan) (hg : pl.Guarded ps) (s : Shell) (h : NoRun s) :
    NoRun (tick ps pl s).1 :=
  tickFrom_pres noRun_pres pl hg.1 noRun_cmd ps 0 { s := s } hg.2 h

/-- Start after that: accepted (System State is Stopped), and the next tick starts the run with Method Status OK -/
def StartQueued (s : Shell) : Prop :=
  s.queue = [.start] ∧ s.executing = [] ∧ s.started = false

def RunStarted (s : Shell) : Prop :=
  s.started = true ∧ s.paused = false ∧ s.sys = .running ∧ s.methodErr = false ∧ Idle s

instance (s : Shell) : Decidable (StartQueued s) := by unfold StartQueued; exact inferInstance
instance (s : Shell) : Decidable (RunStarted s) := by unfold RunStarted; exact inferInstance

theorem cmdPhase_startQueued (s : Shell) (h : StartQueued s) : RunStarted (cmdPhase s) := by
  obtain ⟨h1, h2, h3⟩ := h
  obtain ⟨running, started, paused, holding, stopping, sys, methodErr, lastErr, progStarted, queue, executing,
    stopInst⟩ := s
  simp only at h1 h2 h3
  subst h1 h2 h3
  exact ⟨rfl, rfl, rfl, rfl, rfl, rfl⟩

theorem tick_start (ps : List Phase) (c : Nat) (wf : TableWF ps c) (pl : Plan) (hg : pl.Guarded ps)
    (hn : pl.faults = []) (s : Shell) (h : StartQueued s) : RunStarted (tick ps pl s).1 :=
  tick_stage ps c wf pl hg (at_nil pl hn c) (fun _ h => h) (fun _ h => h) (Or.inl hn) cmdPhase_startQueued s h

end OPM.TickShell
