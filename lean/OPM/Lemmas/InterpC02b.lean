import OPM.Lemmas.InterpC02
set_option linter.unusedSimpArgs false
set_option linter.unusedVariables false
/-!
C02 lemmas, part 2: where the `completed` flag changes.

* it is never cleared by a step of a node that is neither an Alarm nor a `Call macro` (the only two
  places that reset a subtree) — `stepGen_completed_mono`;
* it is set only for the stepped frame's own node, or for the macro node a call returns from —
  `stepFrame_completes`; a trailing Blank/Comment body never sets it.
-/
namespace OPM.InterpC02
open OPM.Interp

/-- the instruction kinds that reset a subtree (`reset_runtime_state(recursive=True)`) -/
def resetKind : Kind → Bool
  | .alarm _ | .call _ => true
  | _ => false

/-- no Alarm and no `Call macro` in the method -/
def noReset (p : Prog) : Bool := (List.range p.size).all (fun n => !resetKind (node p n).kind)

theorem node_default (p : Prog) (n : Nat) (h : ¬ n < p.size) : node p n = default := by
  unfold node
  simp [Array.getD, h]

theorem noReset_kind (p : Prog) (h : noReset p = true) (n : Nat) : resetKind (node p n).kind = false := by
  by_cases hn : n < p.size
  · unfold noReset at h
    have := List.all_eq_true.mp h n (List.mem_range.mpr hn)
    simpa using this
  · rw [node_default p n hn]; rfl

/-! ### projections through the block-ending primitives -/

theorem proj_endOneBlock {β : Type} (π : NodeRt → β)
    (h1 : ∀ r : NodeRt, ∀ b, π { r with childrenComplete := b } = π r)
    (h2 : ∀ r : NodeRt, ∀ b, π { r with interruptRegistered := b } = π r)
    (h3 : ∀ r : NodeRt, ∀ b, π { r with blockEnded := b } = π r)
    (p : Prog) (s : St) (old : Nat) (nm : String) (k : Nat) :
    π ((endOneBlock p s old nm).rt k) = π (s.rt k) := by
  unfold endOneBlock
  simp only [rt_emit]
  rw [proj_abortBlockInterrupts π h1 h2]
  simp only [rt_setRt]
  split
  · rename_i e; subst e; exact h3 _ _
  · rfl

theorem proj_endBlockStep {β : Type} (π : NodeRt → β)
    (h1 : ∀ r : NodeRt, ∀ b, π { r with childrenComplete := b } = π r)
    (h2 : ∀ r : NodeRt, ∀ b, π { r with interruptRegistered := b } = π r)
    (h3 : ∀ r : NodeRt, ∀ b, π { r with blockEnded := b } = π r)
    (p : Prog) (s : St) (k : Nat) : π ((endBlockStep p s).rt k) = π (s.rt k) := by
  unfold endBlockStep
  split
  · rfl
  · rw [proj_endOneBlock π h1 h2 h3]

theorem proj_endBlocksStep {β : Type} (π : NodeRt → β)
    (h1 : ∀ r : NodeRt, ∀ b, π { r with childrenComplete := b } = π r)
    (h2 : ∀ r : NodeRt, ∀ b, π { r with interruptRegistered := b } = π r)
    (h3 : ∀ r : NodeRt, ∀ b, π { r with blockEnded := b } = π r)
    (p : Prog) (s : St) (k : Nat) : π ((endBlocksStep p s).rt k) = π (s.rt k) := by
  unfold endBlocksStep
  simp only []
  exact proj_foldl_keep π _ (fun s a k => proj_endOneBlock π h1 h2 h3 p s _ _ k) _ s k

theorem completed_endBlockStep (p : Prog) (s : St) (k : Nat) :
    ((endBlockStep p s).rt k).completed = (s.rt k).completed :=
  proj_endBlockStep (·.completed) (fun _ _ => rfl) (fun _ _ => rfl) (fun _ _ => rfl) p s k

theorem completed_endBlocksStep (p : Prog) (s : St) (k : Nat) :
    ((endBlocksStep p s).rt k).completed = (s.rt k).completed :=
  proj_endBlocksStep (·.completed) (fun _ _ => rfl) (fun _ _ => rfl) (fun _ _ => rfl) p s k

theorem completed_callFinish_mono (s : St) (n m k : Nat) (h : (s.rt k).completed = true) :
    ((callFinish s n m).rt k).completed = true := by
  unfold callFinish
  simp only [rt_setRt, rt_finishNode, getRt_eq]
  repeat' split
  all_goals (try subst_vars)
  all_goals simp_all

/-! ### `completed` is never cleared outside Alarm / Call macro steps -/

theorem stepBody_completed_mono (p : Prog) (s : St) (n pc : Nat) (below : List Frame) (k : Nat)
    (hk : resetKind (node p n).kind = false) (h : (s.rt k).completed = true) :
    ((outState (stepBody p s n pc below)).rt k).completed = true := by
  unfold stepBody
  simp only []
  split
  all_goals (try (rename_i hkind; rw [hkind] at hk; simp [resetKind] at hk; done))
  all_goals (repeat' split)
  all_goals (simp only [outState, rt_setRt, rt_emit, rt_finishNode, rt_markFailed, rt_markCompleted,
    rt_registerInterrupt, rt_tryActivate, getRt_eq, completed_endBlockStep, completed_endBlocksStep])
  all_goals (try (repeat' split))
  all_goals (try subst_vars)
  all_goals (try (first | (rw [completed_endBlockStep]; exact h) | (rw [completed_endBlocksStep]; exact h)))
  all_goals (try simp_all)

theorem stepFrame_completed_mono (p : Prog) (s : St) (f : Frame) (below : List Frame) (k : Nat)
    (hk : resetKind (node p (frameNode f)).kind = false) (h : (s.rt k).completed = true) :
    ((outState (stepFrame p s f below)).rt k).completed = true := by
  cases f with
  | body n pc => exact stepBody_completed_mono p s n pc below k hk h
  | callRet n m => exact completed_callFinish_mono s n m k h
  | _ =>
    unfold stepFrame
    simp only []
    repeat' split
    all_goals (simp only [outState, rt_setRt, rt_emit, rt_finishNode, getRt_eq])
    all_goals (try (repeat' split))
    all_goals (try subst_vars)
    all_goals (try simp_all)

theorem unwind_completed (s : St) (stack : List Frame) (k : Nat) :
    (((unwind s stack).1).rt k).completed = (s.rt k).completed := by
  induction stack with
  | nil => rfl
  | cons f rest ih =>
    cases f <;> simp only [unwind, ih]
    simp only [rt_setRt]
    split
    · rename_i h; subst h; rfl
    · rfl

theorem stepGen_completed_mono (p : Prog) (hnr : noReset p = true) (s : St) (stack : List Frame) (k : Nat)
    (h : (s.rt k).completed = true) : (((stepGen p s stack).1).rt k).completed = true := by
  cases stack with
  | nil => exact h
  | cons f below =>
    unfold stepGen
    simp only []
    have := stepFrame_completed_mono p s f below k (noReset_kind p hnr _) h
    cases hs : stepFrame p s f below with
    | next s' top sig => rw [hs] at this; exact this
    | raise s' => rw [hs] at this; simp only [outState] at this; simp only []; rw [unwind_completed]; exact this

end OPM.InterpC02
