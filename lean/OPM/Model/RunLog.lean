/-
M3 (tracking part) + run-log projection: `openpectus/lang/exec/runlog.py` and `openpectus/lang/exec/tracking.py`.

Part 1 — `RuntimeInfo.get_runlog` (`records_filtered`, `_get_record_runlog_items`, `_split_states_by_instance_id`,
`_check_record_states_ordered(raise_if_unordered=True)`, the item life cycle of `RunLogItem`, the final
`items.sort(key=start)`).  `getRunlog : List Rec → Except Err (List Item)` has the control flow of the code:
records of class `NullNode` are filtered, records of the four excluded classes / without a name / named `Stop`
give no items, the states of a record are split by instance id (dict insertion order = order of first
occurrence), every invocation is first checked for tick/time order (the `assert`s raise), the first state of an
invocation creates the item, every state copies its four flags, conclusive states (Completed, Failed, Cancelled)
set the end time and clear cancellable/forcible, the item is appended at a conclusive or at the last state unless
its state is AwaitingThreshold (Unknown cannot occur), a state that follows the appended item raises the
`AssertionError("Error generating runlog")`; the result is stably sorted by start.

Part 2 — the state-appending API of `Tracking` with the two maps of `RuntimeInfo`
(`_node_record_map`, `_instance_record_map`), `RuntimeRecord._add_state` (duplicate suppression) and
`silently_skip`.  `step : TS → Op → Except TErr TS`; an op that raises leaves the state unchanged (every raise of
these functions happens before the first mutation).

The model follows the code WITH the repair `fixes/C15-no-state-after-conclusive.diff`
(`RuntimeRecord._add_state` refuses a state for an invocation that already has a conclusive state) when
`TS.guard` is set, and the unchanged code when it is not (used for the counter-example theorem and as the mutant
of the harness self-test).

Abstractions
* times are integers: the unit is 1/8 s (the harness only produces tick times that are multiples of 1/8 s);
  ticks are integers.
* node ids and instance ids (uuid4 strings) are ordinals; `uuid4()` returns `nextInst`, which is then advanced.
* tag value snapshots (`start_values`, `end_values`) and `progress` are not modelled (they do not influence
  which items exist, their order, ids, times, states or flags).
* what `Tracking` reads from the AST node at the moment of the call is an input of the op (`NodeEnv`):
  whether `get_known_node_by_id` finds the node, whether it is the `NullNode` of Start/Restart/Stop,
  `runlog_name`, and the four flags `update_from_node` copies (read after `node.cancel()` / `node.force()`);
  `updOk` is the result of `node.cancel()` / `node.force()`.
* `state.command` is reduced to its kind: none / a `UodCommand` / another `EngineCommand`.
-/
namespace OPM.RunLog

/-! ## Part 1: records → run log -/

/-- `RuntimeRecordStateEnum`. -/
inductive StName where
  | created | uodCommandSet | internalCommandSet | awaitingThreshold | awaitingCondition
  | started | cancelled | forced | completed | failed
deriving DecidableEq, Repr, Inhabited

/-- `is_conclusive_state`. -/
def StName.conclusive : StName → Bool
  | .completed | .failed | .cancelled => true
  | _ => false

inductive CmdKind where
  | none | uod | other
deriving DecidableEq, Repr, Inhabited

structure Flags where
  cancellable : Bool := false
  cancelled : Bool := false
  forcible : Bool := false
  forced : Bool := false
deriving DecidableEq, Repr, Inhabited

/-- `RuntimeRecordState` (fields that `get_runlog` reads). -/
structure St where
  inst : Nat
  name : StName
  time : Int
  tick : Int
  label : String := ""
  fl : Flags := {}
  cmd : CmdKind := .none
deriving DecidableEq, Repr, Inhabited

/-- `RuntimeRecord`. -/
structure Rec where
  nodeId : Nat
  cls : String
  name : Option String
  states : List St := []
deriving DecidableEq, Repr, Inhabited

/-- `RunLogItemState`. -/
inductive ItemState where
  | unknown | awaitingThreshold | started | cancelled | forced | completed | failed
deriving DecidableEq, Repr, Inhabited

def ItemState.conclusive : ItemState → Bool
  | .completed | .failed | .cancelled => true
  | _ => false

/-- `RunLogItem` (`stop` is the field `end`). -/
structure Item where
  id : Nat
  name : String
  state : ItemState
  start : Int
  stop : Option Int := none
  cancellable : Bool := false
  cancelled : Bool := false
  forcible : Bool := false
  forced : Bool := false
  failed : Bool := false
deriving DecidableEq, Repr, Inhabited

inductive Err where
  | instMismatch   -- ValueError of `_check_record_states_ordered`
  | orderTick      -- AssertionError "State tick out of order"
  | orderTime      -- AssertionError "State time out of order"
  | itemNone       -- AssertionError "Error generating runlog"
deriving DecidableEq, Repr

def excludedClasses : List String := ["ProgramNode", "BlankNode", "CommentNode", "InjectedNode"]

/-- The early `return []`s of `_get_record_runlog_items`. -/
def Rec.rendered (r : Rec) : Bool :=
  !(excludedClasses.contains r.cls) &&
  (match r.name with
   | none => false
   | some n => n != "Stop")

/-- `records_filtered` ∧ rendered. -/
def Rec.visible (r : Rec) : Bool := r.cls != "NullNode" && r.rendered

/-- Keys of the dict built by `_split_states_by_instance_id`, in insertion order. -/
def dedup : List Nat → List Nat
  | [] => []
  | x :: xs => x :: (dedup xs).filter (fun y => y != x)

def group (sts : List St) (i : Nat) : List St := sts.filter (fun st => st.inst == i)

/-- `_split_states_by_instance_id`. -/
def split (sts : List St) : List (List St) :=
  (dedup (sts.map (·.inst))).map (group sts)

/-- `_check_record_states_ordered(states, raise_if_unordered=True)`. -/
def checkOrdered : List St → Except Err Unit
  | a :: b :: rest =>
    if a.inst != b.inst then .error .instMismatch
    else if ¬ (a.tick ≤ b.tick) then .error .orderTick
    else if ¬ (a.time ≤ b.time) then .error .orderTime
    else checkOrdered (b :: rest)
  | _ => .ok ()

/-- `item = RunLogItem()` of the start state. -/
def newItem (st : St) : Item :=
  { id := st.inst, name := st.label, state := .started, start := st.time }

/-- Body of the state loop between `if item is not None` and the append decision. -/
def applyState (it : Item) (cmd : CmdKind) (st : St) : Item × CmdKind :=
  let it := { it with cancellable := st.fl.cancellable, cancelled := st.fl.cancelled,
                      forcible := st.fl.forcible, forced := st.fl.forced }
  let (it, cmd) : Item × CmdKind :=
    match st.name with
    | .completed => ({ it with state := .completed }, cmd)
    | .failed => ({ it with state := .failed, failed := true }, cmd)
    | .cancelled => ({ it with state := .cancelled }, cmd)
    | .forced => ({ it with state := .forced }, cmd)
    | .uodCommandSet => (it, st.cmd)
    | .internalCommandSet => (it, st.cmd)
    | .awaitingThreshold => ({ it with state := .awaitingThreshold }, cmd)
    | _ => (it, cmd)
  if st.name.conclusive then
    ({ it with stop := some st.time, cancellable := false, forcible := false }, cmd)
  else
    ((if cmd = .uod then { it with cancellable := true } else it), cmd)

/-- `item.state not in [Unknown, AwaitingThreshold]`. -/
def ItemState.shown : ItemState → Bool
  | .unknown | .awaitingThreshold => false
  | _ => true

/-- The state loop of one invocation; `cur` is the local `item` (None after the item was appended). -/
def loop : Option Item → CmdKind → List St → Except Err (List Item)
  | _, _, [] => .ok []
  | none, _, _ :: _ => .error .itemNone
  | some it, cmd, st :: rest =>
    let r := applyState it cmd st
    if (rest.isEmpty || st.name.conclusive) && r.1.state.shown then
      match loop none .none rest with
      | .error e => .error e
      | .ok out => .ok (r.1 :: out)
    else loop (some r.1) r.2 rest

def invocationItems : List St → Except Err (List Item)
  | [] => .ok []
  | st :: rest => loop (some (newItem st)) .none (st :: rest)

def groupItems (g : List St) : Except Err (List Item) :=
  match checkOrdered g with
  | .error e => .error e
  | .ok () => invocationItems g

/-- Run `f` over the list in order, concatenate; the first error wins (Python exception propagation). -/
def collect {α : Type} (f : α → Except Err (List Item)) : List α → Except Err (List Item)
  | [] => .ok []
  | x :: xs =>
    match f x with
    | .error e => .error e
    | .ok a =>
      match collect f xs with
      | .error e => .error e
      | .ok b => .ok (a ++ b)

/-- `_get_record_runlog_items`. -/
def recordItems (r : Rec) : Except Err (List Item) :=
  if r.rendered then collect groupItems (split r.states) else .ok []

def startLe (a b : Item) : Bool := decide (a.start ≤ b.start)

/-- `RuntimeInfo.get_runlog` (`list.sort` is stable, and so is `mergeSort`). -/
def getRunlog (rs : List Rec) : Except Err (List Item) :=
  match collect recordItems (rs.filter (fun r => r.cls != "NullNode")) with
  | .error e => .error e
  | .ok items => .ok (items.mergeSort startLe)

/-! ## Part 2: the tracking API -/

structure NodeEnv where
  known : Bool := true
  skipName : Bool := false
  label : String := ""
  fl : Flags := {}
deriving DecidableEq, Repr, Inhabited

/-- `RuntimeInfo` + `Tracking`. -/
structure TS where
  records : List Rec := []
  nodeMap : Nat → Option Nat := fun _ => none
  instMap : Nat → Option Nat := fun _ => none
  time : Int := 0
  tick : Int := 0
  nextInst : Nat := 0
  enabled : Bool := false
  /-- repair `fixes/C15-no-state-after-conclusive.diff` present -/
  guard : Bool := true

def TS.init (enabled : Bool) (guard : Bool := true) : TS := { enabled := enabled, guard := guard }

inductive TErr where
  | valueError | assertionError | keyError
deriving DecidableEq, Repr

/-- `silently_skip` given whether the command name is Start/Restart/Stop. -/
def TS.skip (s : TS) (skipName : Bool) : Bool := skipName || !s.enabled

def mkState (s : TS) (inst : Nat) (nm : StName) (env : NodeEnv) (cmd : CmdKind) : St :=
  { inst := inst, name := nm, time := s.time, tick := s.tick, label := env.label, fl := env.fl, cmd := cmd }

/-- The refusal test of `RuntimeRecord._add_state`: duplicate state; with the repair also "invocation concluded". -/
def blocked (guard : Bool) (sts : List St) (inst : Nat) (nm : StName) : Bool :=
  sts.any (fun st => st.inst == inst && (st.name == nm || (guard && st.name.conclusive)))

def appendState (r : Rec) (st : St) : Rec := { r with states := r.states ++ [st] }

/-- `Tracking._add_record_state(instance_id, record, state, command)` for the record at index `idx`. -/
def addState (s : TS) (idx inst : Nat) (nm : StName) (env : NodeEnv) (cmd : CmdKind) : Except TErr TS :=
  match s.records[idx]? with
  | none => .error .keyError          -- callers only pass indices of existing records
  | some r =>
    if !env.known then .error .valueError
    else if s.skip env.skipName then .ok s
    else
      match s.nodeMap r.nodeId with
      | none => .error .keyError
      | some latest =>
        let recs := if blocked s.guard r.states inst nm then s.records
                    else s.records.modify idx (fun r => appendState r (mkState s inst nm env cmd))
        let im := if (s.instMap inst).isSome then s.instMap
                  else fun k => if k = inst then some latest else s.instMap k
        .ok { s with records := recs, instMap := im }

/-- `RuntimeInfo._add_record` (from `begin_visit`, `create_instance_id`, `create_injected_node_records`). -/
def addRecord (s : TS) (node : Nat) (cls : String) (name : Option String) : TS :=
  { s with records := s.records ++ [{ nodeId := node, cls := cls, name := name }],
           nodeMap := fun k => if k = node then some s.records.length else s.nodeMap k }

/-- `Tracking.create_node_instance_id(node)`; returns the state and the new id. -/
def createNodeInst (s : TS) (node : Nat) (env : NodeEnv) : Except TErr (TS × Nat) :=
  let id := s.nextInst
  let s1 := { s with nextInst := s.nextInst + 1 }
  match s.nodeMap node with
  | none => .ok (s1, id)               -- "Failed to create instance id because no record was found"
  | some idx =>
    match addState s1 idx id .created env .none with
    | .error e => .error e
    | .ok s2 => .ok (s2, id)

/-- Who a `mark_*` call is about. -/
inductive Target where
  | node (n : Nat)                       -- a `p.Node`
  | cmd (inst : Nat) (skipName : Bool)   -- a `CommandRequest` / `EngineCommand` (its name is Start/Restart/Stop?)
deriving DecidableEq, Repr

def Target.skipName (env : NodeEnv) : Target → Bool
  | .node _ => env.skipName
  | .cmd _ b => b

/-- `Tracking.get_record_by_instance(instance)` → record index. -/
def lookup (s : TS) : Target → Option Nat
  | .node n => s.nodeMap n
  | .cmd i _ => match s.instMap i with
                | some idx => if idx < s.records.length then some idx else none
                | none => none

inductive MarkKind where
  | started | completed | cancelled | forced | awaitingCondition | awaitingThreshold
deriving DecidableEq, Repr

def MarkKind.stName : MarkKind → StName
  | .started => .started
  | .completed => .completed
  | .cancelled => .cancelled
  | .forced => .forced
  | .awaitingCondition => .awaitingCondition
  | .awaitingThreshold => .awaitingThreshold

def lastInst (r : Rec) : Option Nat := r.states.getLast?.map (·.inst)

/-- `mark_started / mark_completed / mark_cancelled / mark_forced / mark_awaiting_*`:
    skip test, record lookup, node lookup, (cancel/force: `node.cancel()` / `node.force()` must succeed),
    `record.last_instance_id or create_node_instance_id(node)`, `_add_record_state`. -/
def mark (s : TS) (k : MarkKind) (tgt : Target) (env : NodeEnv) (updOk : Bool) : Except TErr TS :=
  if s.skip (tgt.skipName env) then .ok s
  else
    match lookup s tgt with
    | none => .error .valueError
    | some idx =>
      match s.records[idx]? with
      | none => .error .valueError
      | some r =>
        if !env.known then .error .valueError
        else if (k = .cancelled || k = .forced) && !updOk then .error .valueError
        else
          match lastInst r with
          | some i => addState s idx i k.stName env .none
          | none =>
            match createNodeInst s r.nodeId env with
            | .error e => .error e
            | .ok (s1, i) => addState s1 idx i k.stName env .none

/-- `mark_failed`. -/
def markFailed (s : TS) (tgt : Target) (env : NodeEnv) : Except TErr TS :=
  if s.skip (tgt.skipName env) then .ok s
  else
    match tgt with
    | .cmd i _ =>
      match lookup s tgt with
      | none => .error .valueError
      | some idx => if !env.known then .error .assertionError else addState s idx i .failed env .none
    | .node _ =>
      match lookup s tgt with
      | none => .error .valueError
      | some idx =>
        match s.records[idx]? with
        | none => .error .valueError
        | some r =>
          match lastInst r with
          | none => .error .valueError
          | some i => if !env.known then .error .assertionError else addState s idx i .failed env .none

/-- `mark_uod_command_started` (`uod = true`) / `mark_internal_command_started`. -/
def cmdStarted (s : TS) (uod : Bool) (inst : Nat) (skipName : Bool) (env : NodeEnv) : Except TErr TS :=
  if s.skip skipName then .ok s
  else
    match lookup s (.cmd inst skipName) with
    | none => .error .valueError
    | some idx =>
      match addState s idx inst .started env .none with
      | .error e => .error e
      | .ok s1 =>
        if uod then addState s1 idx inst .uodCommandSet env .uod
        else addState s1 idx inst .internalCommandSet env .other

inductive Op where
  | tick (t n : Int)
  | setEnabled (b : Bool)
  | addRecord (node : Nat) (cls : String) (name : Option String)
  | createNodeInst (node : Nat) (env : NodeEnv)
  | mark (k : MarkKind) (tgt : Target) (env : NodeEnv) (updOk : Bool)
  | markFailed (tgt : Target) (env : NodeEnv)
  | cmdStarted (uod : Bool) (inst : Nat) (skipName : Bool) (env : NodeEnv)

def step (s : TS) : Op → Except TErr TS
  | .tick t n => .ok { s with time := t, tick := n }
  | .setEnabled b => .ok { s with enabled := b }
  | .addRecord node cls name => .ok (addRecord s node cls name)
  | .createNodeInst node env => (createNodeInst s node env).map (·.1)
  | .mark k tgt env updOk => mark s k tgt env updOk
  | .markFailed tgt env => markFailed s tgt env
  | .cmdStarted uod inst skipName env => cmdStarted s uod inst skipName env

/-- A raising call leaves `RuntimeInfo` as it was. -/
def step' (s : TS) (op : Op) : TS :=
  match step s op with
  | .ok s' => s'
  | .error _ => s

def run (s : TS) (ops : List Op) : TS := ops.foldl step' s

/-- The engine's clock never runs backwards (the only assumption about the callers). -/
def Op.clockOk (s : TS) : Op → Prop
  | .tick t n => s.time ≤ t ∧ s.tick ≤ n
  | _ => True

end OPM.RunLog
