/-
M13 (part): `openpectus/aggregator/csv_generator.py` — the data part of the CSV export of a plot log.

Python functions modelled (after the repair proposed in /verif/fixes/C34-csv-sample-and-hold.diff):

* `_write_header_row`  : `entry.values.sort(key=lambda e: e.tick_time)` for every entry — a *stable* sort by
                         time (`sortSamples`, insertion sort that keeps the recording order of equal times);
* `_get_tick_times`    : `sorted(set(all tick times))` (`tickTimes`, insertion into a strictly increasing list);
* `_write_data_rows`   : for every tick time, for every entry: drop leading values **while** the next value's time
                         is `<=` the row time (`adv`), then write nothing if the entry is empty or its first value
                         is still in the future, else the first value (`emit`).  The per-entry value lists are
                         mutated across rows; the model threads them through `rows` exactly like the code.

The code before the repair popped at most one value per row and wrote the first value even when its time was
after the row time: `advOld` / `emitOld` / `exportRowsOld` (kept for the regression witness and the harness self-test).

Abstractions: a tick time is an `Int` (the harness feeds `k/8` as a float, so the float order is the integer
order); a value is a `Nat` id (the harness maps ids to Python values; only the rendering of the chosen value
matters); metadata rows and the header text are not modelled (the harness checks the header names directly).
-/
namespace OPM.CsvExport

/-- One recorded value of a tag: (tick time, value id). -/
abbrev Sample := Int × Nat

/-- A plot log: one list of recorded values per tag, in recording (database) order, in column order. -/
abbrev PlotLog := List (List Sample)

/-- Insert `x` in front of the first element whose time is not smaller (so earlier-recorded equal times stay first). -/
def insSample (x : Sample) : List Sample → List Sample
  | [] => [x]
  | a :: l => if a.1 < x.1 then a :: insSample x l else x :: a :: l

/-- `list.sort(key=tick_time)`: stable. -/
def sortSamples (l : List Sample) : List Sample := l.foldr insSample []

/-- Insert a time into a strictly increasing list unless present (`set` + `sort`). -/
def insTime (t : Int) : List Int → List Int
  | [] => [t]
  | a :: l => if a < t then a :: insTime t l else if a = t then a :: l else t :: a :: l

def allTimes (log : PlotLog) : List Int := (log.flatMap id).map (·.1)

/-- `_get_tick_times`. -/
def tickTimes (log : PlotLog) : List Int := (allTimes log).foldr insTime []

/-- `while len(values) >= 2 and tick_time >= values[1].tick_time: values.pop(0)` -/
def adv (t : Int) : List Sample → List Sample
  | a :: b :: rest => if b.1 ≤ t then adv t (b :: rest) else a :: b :: rest
  | l => l

/-- `None if len(values) == 0 or tick_time < values[0].tick_time else values[0].value` -/
def emit (t : Int) : List Sample → Option Nat
  | [] => none
  | a :: _ => if t < a.1 then none else some a.2

structure Row where
  time : Int
  cells : List (Option Nat)
deriving Repr, DecidableEq

/-- `_write_data_rows`: the remaining value lists `st` are carried from row to row. -/
def rows : List Int → List (List Sample) → List Row
  | [], _ => []
  | t :: ts, st =>
    let st' := st.map (adv t)
    ⟨t, st'.map (emit t)⟩ :: rows ts st'

/-- Header row (sorts), tick times, data rows. -/
def exportRows (log : PlotLog) : List Row :=
  rows (tickTimes log) (log.map sortSamples)

/-! The code before the repair. -/

/-- `elif len(values) >= 2 and tick_time >= values[1].tick_time: values.pop(0)` — at most one pop. -/
def advOld (t : Int) : List Sample → List Sample
  | a :: b :: rest => if b.1 ≤ t then b :: rest else a :: b :: rest
  | l => l

/-- `None if len(values) == 0 else values[0].value` -/
def emitOld (_t : Int) : List Sample → Option Nat
  | [] => none
  | a :: _ => some a.2

def rowsOld : List Int → List (List Sample) → List Row
  | [], _ => []
  | t :: ts, st =>
    let st' := st.map (advOld t)
    ⟨t, st'.map (emitOld t)⟩ :: rowsOld ts st'

def exportRowsOld (log : PlotLog) : List Row :=
  rowsOld (tickTimes log) (log.map sortSamples)

end OPM.CsvExport
