/-
M8 Units — model of `openpectus/lang/exec/units.py`:
  `get_unit_quantity_name`, `get_compatible_unit_names`, `are_comparable`, `compare_values`, `as_decimal`,
and of the part of `pint` (0.25, `UnitRegistry(non_int_type=Decimal)`) that `compare_values` runs through:
`Quantity.to`, `Quantity.to_root_units`, `Quantity.__eq__/__ne__/compare`, the offset converters, and Python's
`decimal` arithmetic (context precision 28, ROUND_HALF_EVEN).

The unit table (`UnitSys`) is *data*: it is regenerated from the source by
`harness/translators/unit_table.py` into `OPM/Gen/UnitTable.lean` on every run.

`areComparable` / `compareValues` model the code **with the proposed repair**
(`fixes/C21-operator-consistency-and-symmetry.diff`): comparability is tested in both directions, and the second
operand is converted to the unit of the first one *once*, before the operator is looked at.
`areComparableOld` / `compareValuesOld` model the code as it is at /repo HEAD (each operator takes its own
conversion path inside pint); they are kept as regression witnesses and as the mutant of the harness self-test.

Abstractions
  * Decimal values are their rational values (`Rat`); rounding to 28 significant digits is a function of the
    value only (`roundSig`).  Exponent limits (Emax = 999999) are not modelled.
  * `NaN`, `Infinity`, non-ASCII digits are outside the model (`Parsed.special` ⇒ `Err.unmodelled`).
  * Error *messages* are reduced to an enum (`Err`).
  * Branches of `get_compatible_unit_names` that are dead for every table the translator has produced
    (quantity names in brackets; a `QUANTITY_PINT_MAP` hit for `quantity_name[1:-2]`) answer `Err.unmodelled`;
    `UnitSys.WF` states they are dead and is checked on the regenerated table.
Core Lean only.
-/
namespace OPM.Units

/-- What the Decimal pint registry makes of a unit name. -/
structure PintUnit where
  /-- id of the pint `UnitsContainer` (two names with the same id are the same pint unit) -/
  canon : Nat
  /-- id of the pint dimensionality -/
  dim : Nat
  /-- `OffsetConverter(scale, offset)` of a non-multiplicative unit (values of the Decimals) -/
  offs : Option (Rat × Rat)
  /-- container after replacing the offset unit by its reference unit (= `canon` for multiplicative units) -/
  ref : Nat
  /-- root-unit container (`_get_root_units`) -/
  root : Nat
deriving Repr, DecidableEq

structure UnitRow where
  name : String
  quantity : String
  /-- exact physical definition: `value in root units = v * scale + offset` (reference data, exact registry) -/
  scale : Rat
  offset : Rat
  /-- `none`: pint cannot parse the name (`UndefinedUnitError`), e.g. `CV` -/
  pint : Option PintUnit
deriving Repr

structure UnitSys where
  /-- `QUANTITY_UNIT_MAP`, flattened in insertion order -/
  rows : List UnitRow
  /-- keys of `QUANTITY_PINT_MAP` -/
  pintKeys : List String
  /-- Decimal conversion factors pint multiplies with, per (source container, destination container) -/
  factors : List ((Nat × Nat) × Rat)

inductive Err where
  /-- `ValueError("Invalid unit: …")` from `get_unit_quantity_name` -/
  | invalidUnit
  /-- `ValueError("Cannot compare values with incompatible units …")` -/
  | incompatible
  /-- `ValueError("Cannot compare values, first value is missing or not numeric")` -/
  | firstNotNumeric
  | secondNotNumeric
  /-- `ValueError("Invalid operator: …")` -/
  | invalidOperator
  /-- `ValueError("Conversion error")` (pint's `DimensionalityError` is a `TypeError`) -/
  | conversion
  /-- `NotImplementedError` (different units of a quantity without pint mapping) -/
  | notImplemented
  /-- `pint.UndefinedUnitError` -/
  | undefinedUnit
  /-- `TypeError: unsupported operand type(s) for *: 'float' and 'decimal.Decimal'` (a float magnitude in the
      Decimal registry) -/
  | floatDecimal
  /-- a branch this model does not cover (never a default answer) -/
  | unmodelled
deriving DecidableEq, Repr

/-- errors of `compare_values` that are about the values or the operator, not about units or names -/
def Err.isValueError : Err → Bool
  | .firstNotNumeric | .secondNotNumeric | .invalidOperator | .unmodelled => true
  | _ => false

instance instDecidableEqExcept {ε α : Type} [DecidableEq ε] [DecidableEq α] : DecidableEq (Except ε α)
  | .ok a, .ok b => if h : a = b then isTrue (by rw [h]) else isFalse (by intro h'; cases h'; exact h rfl)
  | .error a, .error b => if h : a = b then isTrue (by rw [h]) else isFalse (by intro h'; cases h'; exact h rfl)
  | .ok _, .error _ => isFalse (by intro h; cases h)
  | .error _, .ok _ => isFalse (by intro h; cases h)

/-! ### Unit names, quantities, comparability -/

def findRow (T : UnitSys) (u : String) : Option UnitRow := T.rows.find? (fun r => r.name == u)

/-- `get_unit_quantity_name` -/
def quantityOf (T : UnitSys) (u : String) : Except Err String :=
  match findRow T u with
  | some r => .ok r.quantity
  | none => .error .invalidUnit

/-- `QUANTITY_UNIT_MAP[q]` -/
def unitsOf (T : UnitSys) (q : String) : List String :=
  (T.rows.filter (fun r => r.quantity == q)).map (·.name)

/-- Python `s[1:-2]` -/
def pySlice (s : String) : String :=
  let l := s.toList
  String.ofList ((l.drop 1).take (l.length - 3))

def bracketed (q : String) : Bool := q.startsWith "[" && q.endsWith "]"

def pctSpecial : List String := ["vol%", "wt%", "mol%"]

/-- `get_compatible_unit_names` -/
def compatibleNames (T : UnitSys) : Option String → Except Err (List String)
  | none => .ok [""]
  | some u =>
    if pctSpecial.contains u then .ok [u] else
    match quantityOf T u with
    | .error e => .error e
    | .ok q =>
      if bracketed q then .error .unmodelled
      else if T.pintKeys.contains (pySlice q) then .error .unmodelled
      else .ok (unitsOf T q)

/-- `are_comparable` at /repo HEAD: only the compatible names of the *first* unit are consulted. -/
def areComparableOld (T : UnitSys) (a b : Option String) : Except Err Bool :=
  if a = b then .ok true else
  match a, b with
  | some ua, some ub =>
    match quantityOf T ua with
    | .error e => .error e
    | .ok qa =>
      match quantityOf T ub with
      | .error e => .error e
      | .ok qb =>
        if qa != qb then .ok false else
        match compatibleNames T (some ua) with
        | .error e => .error e
        | .ok ca => .ok (ca.contains ub)
  | _, _ => .ok false

/-- `are_comparable` with the repair: `unit_b in compat(unit_a) or unit_a in compat(unit_b)`. -/
def areComparable (T : UnitSys) (a b : Option String) : Except Err Bool :=
  if a = b then .ok true else
  match a, b with
  | some ua, some ub =>
    match quantityOf T ua with
    | .error e => .error e
    | .ok qa =>
      match quantityOf T ub with
      | .error e => .error e
      | .ok qb =>
        if qa != qb then .ok false else
        match compatibleNames T (some ua) with
        | .error e => .error e
        | .ok ca =>
          if ca.contains ub then .ok true else
          match compatibleNames T (some ub) with
          | .error e => .error e
          | .ok cb => .ok (cb.contains ua)
  | _, _ => .ok false

/-- The branches of `get_compatible_unit_names` the model does not cover are dead for this table, and the
    exact scales are positive (a unit conversion never reverses an order). -/
def UnitSys.WF (T : UnitSys) : Bool :=
  T.rows.all (fun r => !bracketed r.quantity && !T.pintKeys.contains (pySlice r.quantity) && decide (0 < r.scale))

/-! ### `decimal.Decimal(str)` -/

inductive Parsed where
  | num (r : Rat)
  /-- `Decimal` raises: the string is not numeric (`as_decimal` returns `None`) -/
  | notNumeric
  /-- accepted by `Decimal` but outside the model: NaN, Infinity, non-ASCII digits -/
  | special
deriving Repr, DecidableEq

def isDigit (c : Char) : Bool := '0' ≤ c && c ≤ '9'

def digitsVal (cs : List Char) : Nat := cs.foldl (fun a c => a * 10 + (c.toNat - 48)) 0

/-- characters removed by Python's `str.strip()` -/
def isPyWhitespace (c : Char) : Bool :=
  let n := c.toNat
  (9 ≤ n && n ≤ 13) || (28 ≤ n && n ≤ 32) || n = 0x85 || n = 0xA0 || n = 0x1680 || (0x2000 ≤ n && n ≤ 0x200A)
  || n = 0x2028 || n = 0x2029 || n = 0x202F || n = 0x205F || n = 0x3000

def pyStrip (cs : List Char) : List Char :=
  ((cs.dropWhile isPyWhitespace).reverse.dropWhile isPyWhitespace).reverse

def pow10 (n : Nat) : Rat := ((10 ^ n : Nat) : Rat)

def scale10 (m : Rat) (e : Int) : Rat :=
  if 0 ≤ e then m * pow10 e.toNat else m / pow10 (-e).toNat

def isSpecialWord (cs : List Char) : Bool :=
  let w := String.ofList (cs.map Char.toLower)
  w = "inf" || w = "infinity" || w = "nan" || w = "snan" ||
  ((w.startsWith "nan" && (w.toList.drop 3).all isDigit) || (w.startsWith "snan" && (w.toList.drop 4).all isDigit))

/-- `[digits][.digits][(e|E)[sign]digits]` with at least one mantissa digit -/
def parseUnsigned (cs : List Char) : Parsed :=
  let ip := cs.takeWhile isDigit
  let r1 := cs.dropWhile isDigit
  let (fp, r2) : List Char × List Char := match r1 with
    | '.' :: r => (r.takeWhile isDigit, r.dropWhile isDigit)
    | _ => ([], r1)
  if ip.isEmpty && fp.isEmpty then .notNumeric else
  let m : Rat := ((digitsVal (ip ++ fp) : Nat) : Rat)
  match r2 with
  | [] => .num (scale10 m (-(fp.length : Int)))
  | e :: r =>
    if e = 'e' || e = 'E' then
      let (eneg, r) : Bool × List Char := match r with
        | '-' :: t => (true, t)
        | '+' :: t => (false, t)
        | _ => (false, r)
      if r.isEmpty || !r.all isDigit then .notNumeric else
      let ev : Int := (digitsVal r : Nat)
      .num (scale10 m ((if eneg then -ev else ev) - (fp.length : Int)))
    else .notNumeric

/-- `as_decimal`: `decimal.Decimal(value)` (strip, drop underscores, sign, number) -/
def parseDec (s : String) : Parsed :=
  let cs := (pyStrip s.toList).filter (· ≠ '_')
  if cs.any (fun c => c.toNat ≥ 128) then .special else
  let (neg, body) : Bool × List Char := match cs with
    | '-' :: r => (true, r)
    | '+' :: r => (false, r)
    | _ => (false, cs)
  if isSpecialWord body then .special else
  match parseUnsigned body with
  | .num r => .num (if neg then -r else r)
  | p => p

/-! ### Decimal arithmetic: rounding to `p` significant digits, half even -/

/-- number of decimal digits (`0 ↦ 0`); structural in the fuel so that the kernel can evaluate it -/
def numDigitsAux : Nat → Nat → Nat
  | 0, _ => 0
  | fuel + 1, n => if n = 0 then 0 else numDigitsAux fuel (n / 10) + 1

def numDigits (n : Nat) : Nat := numDigitsAux n n

def roundHalfEven (n d : Nat) : Nat :=
  let q := n / d
  let r := n % d
  if 2 * r < d then q else if d < 2 * r then q + 1 else if q % 2 = 0 then q else q + 1

/-- correctly rounded (half even) value of `x` with `p` significant decimal digits -/
def roundSig (p : Nat) (x : Rat) : Rat :=
  if x = 0 then 0 else
  let n := x.num.natAbs
  let d := x.den
  let e0 : Int := (numDigits n : Int) - (numDigits d : Int) - (p : Int)
  -- `n/d · 10^(-e0)` lies in `(10^(p-1), 10^(p+1))`
  let sc : Int → Nat × Nat := fun e => if 0 ≤ e then (n, d * 10 ^ e.toNat) else (n * 10 ^ (-e).toNat, d)
  let e : Int := if (sc e0).2 * 10 ^ p ≤ (sc e0).1 then e0 + 1 else e0
  let q := roundHalfEven (sc e).1 (sc e).2
  let v : Rat := scale10 ((q : Nat) : Rat) e
  if x.num < 0 then -v else v

/-- the `decimal` context of the process: `prec = 28` -/
def rnd (x : Rat) : Rat := roundSig 28 x

/-! ### pint conversions (Decimal registry) -/

def lookupFactor (T : UnitSys) (i j : Nat) : Option Rat :=
  (T.factors.find? (fun e => e.1 == (i, j))).map (·.2)

/-- `registry.convert(value, src, dst)` -/
def convertP (T : UnitSys) (v : Rat) (s d : PintUnit) : Except Err Rat :=
  if s.canon = d.canon then .ok v            -- `if src == dst: return value`
  else if s.dim ≠ d.dim then .error .conversion   -- DimensionalityError
  else if s.offs.isNone && d.offs.isNone then
    match lookupFactor T s.canon d.canon with
    | some f => .ok (rnd (v * f))
    | none => .error .unmodelled
  else
    -- OffsetConverter.to_reference:  value * scale + offset
    let v1 := match s.offs with
      | some (sc, off) => rnd (rnd (v * sc) + off)
      | none => v
    match lookupFactor T s.ref d.ref with
    | none => .error .unmodelled
    | some f =>
      let v2 := rnd (v1 * f)
      -- OffsetConverter.from_reference:  (value - offset) / scale
      .ok (match d.offs with
        | some (sc, off) => rnd (rnd (v2 - off) / sc)
        | none => v2)

/-- `ureg.Quantity(value, name)`: the name has to be known to pint -/
def pintUnit (T : UnitSys) (u : String) : Except Err PintUnit :=
  match findRow T u with
  | some r => match r.pint with
    | some p => .ok p
    | none => .error .undefinedUnit
  | none => .error .undefinedUnit

/-- `Quantity.to_root_units().magnitude` -/
def toRoot (T : UnitSys) (v : Rat) (s : PintUnit) : Except Err Rat :=
  convertP T v s ⟨s.root, s.dim, none, s.root, s.root⟩

/-! ### `compare_values` -/

inductive Val where
  | num (r : Rat)
  | str (s : String)
deriving Repr, DecidableEq

def cmpNum (op : String) (x y : Rat) : Except Err Bool :=
  if op = "<" then .ok (decide (x < y))
  else if op = "<=" then .ok (decide (x ≤ y))
  else if op = "=" || op = "==" then .ok (decide (x = y))
  else if op = ">" then .ok (decide (y < x))
  else if op = ">=" then .ok (decide (y ≤ x))
  else if op = "!=" then .ok (!decide (x = y))
  else .error .invalidOperator

def cmpStr (op : String) (a b : String) : Except Err Bool :=
  if op = "=" || op = "==" then .ok (a == b)
  else if op = "!=" then .ok (a != b)
  else .error .invalidOperator

def applyOp (op : String) : Val → Val → Except Err Bool
  | .num x, .num y => cmpNum op x y
  | .str a, .str b => cmpStr op a b
  | _, _ => .error .unmodelled

def isOrderOp (op : String) : Bool := op = "<" || op = "<=" || op = ">" || op = ">="

/-- `is_pint()` of `compare_values` -/
def isPint (T : UnitSys) (ua ub : Option String) : Except Err Bool :=
  match ua with
  | none => .ok false
  | some a =>
    if ua = ub then .ok false else
    match quantityOf T a with
    | .error e => .error e
    | .ok q => if T.pintKeys.contains q then .ok true else .error .notImplemented

/-- both values as Decimals (`fval_a`, `fval_b` and their `None` checks) -/
def bothNumeric (va vb : String) : Except Err (Rat × Rat) :=
  match parseDec va with
  | .special => .error .unmodelled
  | .notNumeric => .error .firstNotNumeric
  | .num x =>
    match parseDec vb with
    | .special => .error .unmodelled
    | .notNumeric => .error .secondNotNumeric
    | .num y => .ok (x, y)

/-- operands of the non-pint path (units equal or both absent) -/
def plainOperands (ordered : Bool) (va vb : String) : Except Err (Val × Val) :=
  if ordered then
    match bothNumeric va vb with
    | .error e => .error e
    | .ok (x, y) => .ok (.num x, .num y)
  else
    match parseDec va, parseDec vb with
    | .num x, .num y => .ok (.num x, .num y)
    | .special, _ => .error .unmodelled
    | _, .special => .error .unmodelled
    | _, _ => .ok (.str va, .str vb)

/-- Repaired code: the two things every operator compares. -/
def operands (T : UnitSys) (ordered : Bool) (va : String) (ua : Option String) (vb : String)
    (ub : Option String) : Except Err (Val × Val) :=
  match areComparable T ua ub with
  | .error e => .error e
  | .ok false => .error .incompatible
  | .ok true =>
    match isPint T ua ub with
    | .error e => .error e
    | .ok false => plainOperands ordered va vb
    | .ok true =>
      match bothNumeric va vb with
      | .error e => .error e
      | .ok (x, y) =>
        match ua, ub with
        | some a, some b =>
          match pintUnit T a with
          | .error e => .error e
          | .ok pa =>
            match pintUnit T b with
            | .error e => .error e
            | .ok pb =>
              -- quantity_b = quantity_b.to(quantity_a.units)
              match convertP T y pb pa with
              | .error e => .error e
              | .ok y' => .ok (.num x, .num y')
        | _, _ => .error .unmodelled

/-- `compare_values(op, value_a, unit_a, value_b, unit_b)` with the repair. -/
def compareValues (T : UnitSys) (op va : String) (ua : Option String) (vb : String)
    (ub : Option String) : Except Err Bool :=
  match operands T (isOrderOp op) va ua vb ub with
  | .error e => .error e
  | .ok (a, b) => applyOp op a b

/-- `compare_values` at /repo HEAD: `<,<=,>,>=` go through pint's `compare` (both sides to root units),
    `=`/`==` convert the second operand to the unit of the first, `!=` is pint's `__ne__` (first operand
    converted to the unit of the second; a `DimensionalityError` counts as "not equal"). -/
def compareValuesOld (T : UnitSys) (op va : String) (ua : Option String) (vb : String)
    (ub : Option String) : Except Err Bool :=
  match areComparableOld T ua ub with
  | .error e => .error e
  | .ok false => .error .incompatible
  | .ok true =>
    match isPint T ua ub with
    | .error e => .error e
    | .ok false =>
      (match plainOperands (isOrderOp op) va vb with
      | .error e => .error e
      | .ok (a, b) => applyOp op a b)
    | .ok true =>
      match bothNumeric va vb with
      | .error e => .error e
      | .ok (x, y) =>
        match ua, ub with
        | some a, some b =>
          match pintUnit T a with
          | .error e => .error e
          | .ok pa =>
            match pintUnit T b with
            | .error e => .error e
            | .ok pb =>
              if isOrderOp op then
                -- PlainQuantity.compare
                if pa.canon = pb.canon then cmpNum op x y
                else if pa.dim ≠ pb.dim then .error .conversion
                else
                  match toRoot T x pa with
                  | .error e => .error e
                  | .ok rx =>
                    match toRoot T y pb with
                    | .error e => .error e
                    | .ok ry => cmpNum op rx ry
              else if op = "=" || op = "==" then
                match convertP T y pb pa with
                | .error e => .error e
                | .ok y' => .ok (decide (x = y'))
              else if op = "!=" then
                -- PlainQuantity.__ne__ = not __eq__
                if x = 0 && y = 0 then .ok (!decide (pa.dim = pb.dim))
                else if pa.canon = pb.canon then .ok (!decide (x = y))
                else
                  match convertP T x pa pb with
                  | .error .conversion => .ok true
                  | .error e => .error e
                  | .ok x' => .ok (!decide (x' = y))
              else .error .invalidOperator
        | _, _ => .error .unmodelled

/-! ### `convert_value_to_unit` (used by `Tag.simulate_value_and_unit`, i.e. by the Simulate instruction) -/

/-- Does `registry.convert(value, src, dst)` succeed?  (It does not depend on the value.) -/
def convOk (T : UnitSys) (s d : PintUnit) : Bool :=
  s.canon == d.canon ||
  (s.dim == d.dim &&
    (if s.offs.isNone && d.offs.isNone then (lookupFactor T s.canon d.canon).isSome
     else (lookupFactor T s.ref d.ref).isSome))

/-- `convert_value_to_unit(value, source, target)` with the repair of `fixes/C20-…units….diff`: equal unit names
    need no pint at all, and the value enters pint as `Decimal(str(value))`.  Only success / the kind of failure is
    modelled (`DimensionalityError` is turned into `ValueError("Cannot convert between units …")`). -/
def convertValueOk (T : UnitSys) (src dst : String) : Except Err Unit :=
  if src = dst then .ok () else
  match pintUnit T src with
  | .error e => .error e
  | .ok ps =>
    match pintUnit T dst with
    | .error e => .error e
    | .ok pd =>
      if ps.canon = pd.canon then .ok ()
      else if ps.dim ≠ pd.dim then .error .conversion
      else if convOk T ps pd then .ok () else .error .unmodelled

/-- `convert_value_to_unit` at the commit the C20 check was built on: the value is the `float` the parser
    produced; every conversion that multiplies (anything but identical pint units) raises `TypeError`, and there is
    no shortcut for equal names, so `CV` (unknown to pint) fails as well. -/
def convertValueOkOld (T : UnitSys) (src dst : String) : Except Err Unit :=
  match pintUnit T src with
  | .error e => .error e
  | .ok ps =>
    match pintUnit T dst with
    | .error e => .error e
    | .ok pd =>
      if ps.canon = pd.canon then .ok ()
      else if ps.dim ≠ pd.dim then .error .conversion
      else .error .floatDecimal

/-- Every two different units of one quantity can be converted into each other by pint (the quantity has a pint
    mapping, pint knows both names, the dimensionalities agree and the factors are there).  Checked on the
    regenerated table; it is what `%` vs `mol%` violated before `mol%` was made a plain percentage. -/
def UnitSys.Convertible (T : UnitSys) : Bool :=
  T.rows.all fun ra => T.rows.all fun rb =>
    !(ra.quantity == rb.quantity) || ra.name == rb.name ||
    (T.pintKeys.contains ra.quantity &&
      match ra.pint, rb.pint with
      | some pa, some pb => convOk T pa pb
      | _, _ => false)

/-! ### Reference semantics (exact) -/

/-- the physical quantity in root units, exactly -/
def toBase (r : UnitRow) (v : Rat) : Rat := v * r.scale + r.offset

/-- `v` (in unit `s`) expressed in unit `d`, exactly -/
def exactConvert (s d : UnitRow) (v : Rat) : Rat := (toBase s v - d.offset) / d.scale

end OPM.Units
