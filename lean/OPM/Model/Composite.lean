/-
M10 (part 2): `openpectus/engine/composite_hardware.py` — `Composite_Hardware.read`, `read_batch`,
`write`, `write_batch`.

A register belongs to the hardware layer named in `r.options["hardware"]` (`Cfg.layerOf`; `none` = the
option is missing ⇒ `KeyError`).  The layers are the environment: layer `l` keeps a register memory
`mem l`, answers `read_batch(rs)` with `[mem l r | r ∈ rs]`, executes `write_batch(vs, rs)` as the
sequence of single writes, and raises `HardwareLayerException` on every call while `Cfg.failing l`.
`Out.calls` is the log of the batch calls the composite makes to the layers (layer, registers, values),
in order — what a fake layer observes.

`read_batch`: group the registers by layer in first-appearance order (dict keyed by layer, insertion
ordered), one `read_batch` per layer, collect `read_by_register[r] = value` (dict, last wins), answer
`[read_by_register[r] for r in registers]`.
`write_batch`: same grouping over `zip(values, registers)`, `write_value_by_register[r] = v` (last
wins), one `write_batch([write_value_by_register[r] for r in group], group)` per layer.

The value type `V` is arbitrary.  One `Register` object per register id (dicts keyed by `Register`).
-/
namespace OPM.Composite

abbrev RegId := Nat
abbrev Layer := Nat

structure Cfg where
  layerOf : RegId → Option Layer
  failing : Layer → Bool

abbrev Mem (V : Type) := Layer → RegId → V

def setMem {V : Type} (m : Mem V) (l : Layer) (r : RegId) (v : V) : Mem V :=
  fun l' r' => if l' = l ∧ r' = r then v else m l' r'

inductive Res (V : Type) where
  | unit
  | vals (vs : List V)
  | raiseHw
  | raiseKey
deriving Repr, DecidableEq

structure Call (V : Type) where
  layer : Layer
  regs : List RegId
  vals : List V
deriving Repr

structure Out (V : Type) where
  res : Res V
  calls : List (Call V)
  mem : Mem V

/-- `registers_by_hardware[hw].append(r)` / `= [r]` -/
def groupAdd : List (Layer × List RegId) → Layer → RegId → List (Layer × List RegId)
  | [], l, r => [(l, [r])]
  | (l', rs) :: rest, l, r =>
    if l' = l then (l', rs ++ [r]) :: rest else (l', rs) :: groupAdd rest l r

/-- the grouping loop; `none` = a register without the `hardware` option (`KeyError`) -/
def groupsFrom (cfg : Cfg) : List (Layer × List RegId) → List RegId → Option (List (Layer × List RegId))
  | acc, [] => some acc
  | acc, r :: rs =>
    match cfg.layerOf r with
    | none => none
    | some l => groupsFrom cfg (groupAdd acc l r) rs

def dset {V : Type} (d : RegId → Option V) (r : RegId) (v : V) : RegId → Option V :=
  fun k => if k = r then some v else d k

/-- all elements present -/
def sequence {V : Type} : List (Option V) → Option (List V)
  | [] => some []
  | none :: _ => none
  | some v :: rest => (sequence rest).map (v :: ·)

/-- second loop of `read_batch`; `none` = a layer raised -/
def readGo {V : Type} (cfg : Cfg) (m : Mem V) :
    List (Layer × List RegId) → (RegId → Option V) → List (Call V) → Option (RegId → Option V) × List (Call V)
  | [], d, cs => (some d, cs)
  | (l, rs) :: rest, d, cs =>
    if cfg.failing l then (none, cs ++ [⟨l, rs, []⟩])
    else readGo cfg m rest (rs.foldl (fun d r => dset d r (m l r)) d) (cs ++ [⟨l, rs, []⟩])

def readBatch {V : Type} (cfg : Cfg) (m : Mem V) (regs : List RegId) : Out V :=
  match groupsFrom cfg [] regs with
  | none => ⟨.raiseKey, [], m⟩
  | some gs =>
    match readGo cfg m gs (fun _ => none) [] with
    | (none, cs) => ⟨.raiseHw, cs, m⟩
    | (some d, cs) =>
      match sequence (regs.map d) with
      | some vs => ⟨.vals vs, cs, m⟩
      | none => ⟨.raiseKey, cs, m⟩

def read {V : Type} (cfg : Cfg) (m : Mem V) (r : RegId) : Out V :=
  match cfg.layerOf r with
  | none => ⟨.raiseKey, [], m⟩
  | some l => if cfg.failing l then ⟨.raiseHw, [⟨l, [r], []⟩], m⟩ else ⟨.vals [m l r], [⟨l, [r], []⟩], m⟩

/-- a layer executing `write_batch(vs, rs)`: sequential single writes -/
def layerWrite {V : Type} (m : Mem V) (l : Layer) (rv : List (RegId × V)) : Mem V :=
  rv.foldl (fun m e => setMem m l e.1 e.2) m

/-- second loop of `write_batch`; the Bool says whether a layer raised -/
def writeGo {V : Type} (cfg : Cfg) (wv : RegId → Option V) :
    List (Layer × List RegId) → Mem V → List (Call V) → Bool × Mem V × List (Call V)
  | [], m, cs => (false, m, cs)
  | (l, rs) :: rest, m, cs =>
    -- `[write_value_by_register[r] for r in group]`: every r of a group has a value
    let vs := rs.filterMap wv
    if cfg.failing l then (true, m, cs ++ [⟨l, rs, vs⟩])
    else writeGo cfg wv rest (layerWrite m l (rs.zip vs)) (cs ++ [⟨l, rs, vs⟩])

/-- `zip(values, registers)` -/
def pairs {V : Type} (vals : List V) (regs : List RegId) : List (RegId × V) := (vals.zip regs).map (fun e => (e.2, e.1))

def writeBatch {V : Type} (cfg : Cfg) (m : Mem V) (vals : List V) (regs : List RegId) : Out V :=
  let ps := pairs vals regs
  match groupsFrom cfg [] (ps.map (·.1)) with
  | none => ⟨.raiseKey, [], m⟩
  | some gs =>
    let wv := ps.foldl (fun d e => dset d e.1 e.2) (fun _ => none)
    match writeGo cfg wv gs m [] with
    | (true, m', cs) => ⟨.raiseHw, cs, m'⟩
    | (false, m', cs) => ⟨.unit, cs, m'⟩

def write {V : Type} (cfg : Cfg) (m : Mem V) (v : V) (r : RegId) : Out V :=
  match cfg.layerOf r with
  | none => ⟨.raiseKey, [], m⟩
  | some l =>
    if cfg.failing l then ⟨.raiseHw, [⟨l, [r], [v]⟩], m⟩ else ⟨.unit, [⟨l, [r], [v]⟩], setMem m l r v⟩

end OPM.Composite
