import OPM.Model.Units
/-
M7 Analyze — decision logic of `openpectus/lang/exec/analyzer.py`
  `ConditionCheckAnalyzer.analyze_condition`, `SimulateCheckAnalyzer.visit_SimulateNode / visit_SimulateOffNode`,
  `CommandCheckAnalyzer.check_command_node`, the sequencing of `SemanticCheckAnalyzer.analyze`,
and of the exception wrapper of `openpectus/lsp/lsp_analysis.py: lint`.

Input of the model = what the parser hands to the analyzers: the nodes of the program in visiting order
(pre-order = line order) with the fields the analyzers read.  The parser itself is *not* modelled here (the
harness runs the real parser and transmits the fields).

Parameters (taken from the implementation per case, never defaulted):
  * `similar a b`   ⇔ `Levenshtein.ratio(a, b) > 0.7`      (only this comparison is used by the code)
  * `argsValid`     =  `command.validate_args(node.arguments)` (the UOD's validator regex)
  * the unit functions are the model `OPM.Units` over the regenerated unit table.

`repaired = true` models the code with `fixes/C19-undefined-tag-falls-through.diff` (an undefined tag without
a similar name gets the generic "Undefined tag" item and the analysis of that node stops);
`repaired = false` models /repo HEAD, where that case falls through: to `tags.get` (ValueError) in the
condition and Simulate analyzers, and to *no item at all* in `visit_SimulateOffNode`.

Abstractions: item ranges/messages are reduced to (analyzer, id, line, severity, has-fix); the other six
analyzers of `SemanticCheckAnalyzer` are outside this model.  Core Lean only.
-/
namespace OPM.Analyzer
open OPM.Units

inductive Kind where
  | watch | alarm | simulate | simulateOff
  /-- InterpreterCommandNode, EngineCommandNode, UodCommandNode (`errorNode = false`), ErrorInstructionNode -/
  | command (errorNode : Bool)
  | other
deriving Repr, DecidableEq

/-- `TagOperatorValue`, the fields the analyzers read -/
structure Cond where
  tagName : Option String
  op : String
  rhs : String
  tagValue : Option String
  tagUnit : Option String
deriving Repr, DecidableEq

structure Node where
  line : Nat
  kind : Kind
  /-- `node.tag_operator_value` (Watch, Alarm, Simulate) -/
  cond : Option Cond
  /-- `node.instruction_name` -/
  instrName : String
  /-- `ErrorInstructionNode.line` -/
  lineText : String
  /-- `node.arguments` -/
  arguments : String
  hasArgument : Bool
  /-- parameter: `command.validate_args(node.arguments)` -/
  argsValid : Bool
deriving Repr, DecidableEq

structure TagDef where
  name : String
  unit : Option String
deriving Repr, DecidableEq

structure CmdDef where
  name : String
  /-- `command.arg_parser` is set and its regex is `ArgSpec.NoArgsInstance.regex` -/
  noArgs : Bool
deriving Repr, DecidableEq

structure Env where
  tags : List TagDef
  cmds : List CmdDef
  /-- `Levenshtein.ratio(query, candidate) > 0.7` -/
  similar : String → String → Bool
  units : UnitSys

inductive An where
  | condition | simulate | command
deriving Repr, DecidableEq

structure Item where
  an : An
  id : String
  line : Nat
  /-- `AnalyzerItemType.ERROR` -/
  isError : Bool
  /-- `data = {type: "fix-typo", fix: …}` -/
  hasFix : Bool
deriving Repr, DecidableEq

/-- exceptions that escape an analyzer -/
inductive AErr where
  /-- `ValueError("tag_name is None or empty")` from `TagValueCollection.has/get` -/
  | tagBlank
  /-- `ValueError("Tag name … not found")` from `TagValueCollection.get` -/
  | tagNotFound
  /-- `ValueError("cmd_name is None or empty")` -/
  | cmdBlank
  /-- `ValueError("Command name … not found")` -/
  | cmdNotFound
  /-- `ValueError("Invalid unit: …")` from `get_compatible_unit_names(tag.unit)` (tag with unsupported unit) -/
  | tagUnitInvalid
  | unmodelled
deriving Repr, DecidableEq

/-- `s.strip() == ''` -/
def isBlank (s : String) : Bool := (pyStrip s.toList).isEmpty

def strip (s : String) : String := String.ofList (pyStrip s.toList)

def tagsHas (E : Env) (n : String) : Except AErr Bool :=
  if isBlank n then .error .tagBlank else .ok (E.tags.any (fun t => t.name == n))

def tagsGet (E : Env) (n : String) : Except AErr TagDef :=
  if isBlank n then .error .tagBlank else
  match E.tags.find? (fun t => t.name == n) with
  | some t => .ok t
  | none => .error .tagNotFound

def cmdsHas (E : Env) (n : String) : Except AErr Bool :=
  if isBlank n then .error .cmdBlank else .ok (E.cmds.any (fun c => c.name == n))

def cmdsGet (E : Env) (n : String) : Except AErr CmdDef :=
  if isBlank n then .error .cmdBlank else
  match E.cmds.find? (fun c => c.name == n) with
  | some c => .ok c
  | none => .error .cmdNotFound

def err (an : An) (id : String) (line : Nat) : Item := ⟨an, id, line, true, false⟩

/-- The `if not self.tags.has(tag_name):` block.  `some i`: item added, analysis of the node ends.
    `none`: nothing added and control falls through (only at /repo HEAD). -/
def undefinedTag (E : Env) (repaired : Bool) (an : An) (line : Nat) (name : String) : Option Item :=
  if name.length > 2 && !E.tags.isEmpty then
    if E.tags.any (fun t => E.similar name t.name) then some ⟨an, "UndefinedTag", line, true, true⟩
    else if repaired then some (err an "UndefinedTag" line) else none
  else some (err an "UndefinedTag" line)

/-- Everything after the tag has been looked up: operator, value, unit checks.
    `simulate = true`: the operator has to be `=`. -/
def afterTag (E : Env) (an : An) (simulate : Bool) (line : Nat) (c : Cond) (name : String) :
    Except AErr (List Item) :=
  if (if simulate then c.op != "=" else c.op == "") then .ok [err an "MissingOperator" line]
  else if c.rhs == "" || c.tagValue == some "" then .ok [err an "MissingValue" line]
  else
    match tagsGet E name with
    | .error e => .error e
    | .ok tag =>
      if tag.unit.isNone && c.tagUnit.isSome then .ok [err an "UnexpectedUnit" line]
      else
        match compatibleNames E.units tag.unit with
        | .error .invalidUnit => .error .tagUnitInvalid
        | .error _ => .error .unmodelled
        | .ok valid =>
          if tag.unit.isSome && c.rhs != "" && valid.contains (strip c.rhs) && c.tagUnit.isNone then
            .ok [err an "MissingValue" line]
          else if tag.unit.isSome && c.tagUnit.isNone then .ok [err an "MissingUnit" line]
          else if tag.unit.isSome then
            match areComparable E.units tag.unit c.tagUnit with
            | .error .invalidUnit => .ok [err an "InvalidUnit" line]
            | .error _ => .error .unmodelled
            | .ok false => .ok [err an "IncompatibleUnits" line]
            | .ok true => .ok []
          else .ok []

/-- `analyze_condition` (Watch, Alarm) and `visit_SimulateNode` share this shape. -/
def analyzeTov (E : Env) (repaired : Bool) (an : An) (simulate : Bool) (n : Node) : Except AErr (List Item) :=
  match n.cond with
  | none => .ok [err an (if simulate then "AssignmentMissing" else "ConditionMissing") n.line]
  | some c =>
    match c.tagName with
    | none => .ok [err an "MissingTag" n.line]
    | some name =>
      if isBlank name then .ok [err an "MissingTag" n.line] else
      match tagsHas E name with
      | .error e => .error e
      | .ok true => afterTag E an simulate n.line c name
      | .ok false =>
        match undefinedTag E repaired an n.line name with
        | some i => .ok [i]
        | none => afterTag E an simulate n.line c name

/-- `SimulateCheckAnalyzer.visit_SimulateOffNode` -/
def analyzeSimulateOff (E : Env) (repaired : Bool) (n : Node) : Except AErr (List Item) :=
  if n.arguments == "" then .ok [err .simulate "MissingTag" n.line] else
  match tagsHas E n.arguments with
  | .error e => .error e
  | .ok true => .ok []
  | .ok false =>
    match undefinedTag E repaired .simulate n.line n.arguments with
    | some i => .ok [i]
    | none => .ok []

/-- `name` of `check_command_node` -/
def cmdName (n : Node) : String :=
  match n.kind with
  | .command true => if n.instrName == "" then n.lineText else n.instrName
  | _ => n.instrName

/-- `CommandCheckAnalyzer.check_command_node` -/
def checkCommand (E : Env) (n : Node) : Except AErr (List Item) :=
  let name := cmdName n
  match cmdsHas E name with
  | .error e => .error e
  | .ok false =>
    if name.length > 2 && !E.cmds.isEmpty && E.cmds.any (fun c => E.similar name c.name) then
      .ok [⟨.command, "UndefinedCommand", n.line, true, true⟩]
    else .ok [err .command "UndefinedCommand" n.line]
  | .ok true =>
    match cmdsGet E name with
    | .error e => .error e
    | .ok cmd =>
      if cmd.noArgs && n.hasArgument then .ok [err .command "CommandNoArguments" n.line]
      else if !n.argsValid then .ok [err .command "CommandArgsInvalid" n.line]
      else .ok []

def condItems (E : Env) (repaired : Bool) (n : Node) : Except AErr (List Item) :=
  match n.kind with
  | .watch => analyzeTov E repaired .condition false n
  | .alarm => analyzeTov E repaired .condition false n
  | _ => .ok []

def simItems (E : Env) (repaired : Bool) (n : Node) : Except AErr (List Item) :=
  match n.kind with
  | .simulate => analyzeTov E repaired .simulate true n
  | .simulateOff => analyzeSimulateOff E repaired n
  | _ => .ok []

def cmdItems (E : Env) (n : Node) : Except AErr (List Item) :=
  match n.kind with
  | .command _ => checkCommand E n
  | _ => .ok []

/-- one analyzer over the whole program: the first exception aborts it -/
def collect (f : Node → Except AErr (List Item)) : List Node → Except AErr (List Item)
  | [] => .ok []
  | n :: ns =>
    match f n with
    | .error e => .error e
    | .ok is =>
      match collect f ns with
      | .error e => .error e
      | .ok js => .ok (is ++ js)

/-- `SemanticCheckAnalyzer.analyze`, restricted to the three modelled analyzers (in the order they run) -/
def analyze (E : Env) (repaired : Bool) (nodes : List Node) : Except AErr (List Item) :=
  match collect (condItems E repaired) nodes with
  | .error e => .error e
  | .ok c =>
    match collect (simItems E repaired) nodes with
    | .error e => .error e
    | .ok s =>
      match collect (cmdItems E) nodes with
      | .error e => .error e
      | .ok m => .ok (c ++ s ++ m)

inductive Diag where
  /-- the single `code="Parse error"` diagnostic at line 0 that replaces everything -/
  | generic
  | ofItem (i : Item)
deriving Repr, DecidableEq

/-- `lsp_analysis.lint`: any exception of the analysis becomes one generic diagnostic. -/
def lint (E : Env) (repaired : Bool) (nodes : List Node) : List Diag :=
  match analyze E repaired nodes with
  | .error _ => [.generic]
  | .ok items => items.map .ofItem

/-! ### Well-formedness of the inputs (facts established outside the analyzers) -/

/-- Hypotheses on the environment: the unit table is well-formed and every tag unit is a supported unit or
    `None` (enforced when a UOD is built). -/
def EnvWF (E : Env) : Prop :=
  E.units.WF = true ∧ ∀ t ∈ E.tags, ∀ u, t.unit = some u → ∃ q, quantityOf E.units u = .ok q

/-- parser guarantees about a node: the name a command node is looked up by is not blank, and the argument of
    `Simulate off` is stripped (blank ⇒ empty) -/
def NodeWF (n : Node) : Prop :=
  (∀ b, n.kind = .command b → isBlank (cmdName n) = false) ∧
  (n.kind = .simulateOff → isBlank n.arguments = true → n.arguments = "")

end OPM.Analyzer
