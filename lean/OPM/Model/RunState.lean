/-
M1 "RunState": the run-state machine of the engine.

Models (Python, /repo/openpectus):
* engine/engine.py — the run flags `_runstate_started/_paused/_holding/_stopping`, the System State,
  Method Status and Run Id tags, `_prev_state`, `_validate_control_command`,
  `execute_control_command_from_user`, `schedule_execution`, `set_error_state`, `_apply_safe_state`,
  `_apply_state`, `write_process_image`, `update_calculated_tags`, `set_run_id/clear_run_id`, and the
  order of the phases of `Engine.tick` (read → interpreter (gated) → clocks → commands → write).
* engine/internal_commands_impl.py — Start/Stop/Pause/Unpause/Hold/Unhold/Restart, including the timed
  variants (generator `_run()` with its `yield`s as an explicit phase counter) and `cancel()`.
* engine/internal_commands.py — `InternalEngineCommand.tick()` and the registry (one resident instance
  per command *name*).
* engine/command_manager.py — the internal-command half: `schedule`, `execute_commands` (queue drained
  to the *front* of `cmd_executing`, loop over the snapshot skipping the done-set, commit afterwards),
  `_execute_internal_command`, `_cancel_command`, `_finalize_command`, `cancel_commands`; the
  replacement of the CommandManager by `on_interpreter_reset` (Stop/Restart) while the loop of the old
  manager is still running, with `restart_request_pending`.
* lang/exec/tags_impl.py — `BlockTimeTag`/`ScopeTimeTag`: timers, `_paused` flag, `get_value()`.
* lang/exec/tracking.py — only what decides control flow: `silently_skip`, and `mark_cancelled`
  raising for nodes that are not cancellable (user requests; untimed method requests).

Abstractions:
* time is an `Int` number of 1/8 s (the harness feeds dyadic floats only, DESIGN §3);
* run ids (uuid4) are allocation ordinals; request instance ids are ordinals;
* the interpreter is *environment*: a tick carries what the interpreter did in its phase of that tick
  (block/scope events, `schedule_execution` calls, whether it raised); the model decides whether the
  interpreter phase runs at all (the gate) and ignores + flags items supplied while it is gated;
* UOD commands, `cancel_instruction`/`force_instruction`, method edits are not in this model;
  `node._cancelled` of a method node is not tracked (a node is cancelled at most once: after a
  successful cancel its request is finalized);
* output tags are integers, one per write register; `safes[i]` is the register's `safe_value` if any.

`Cfg` selects between the code as it is and three small proposed repairs
(/verif/fixes/C06-*.diff, C07-*.diff, C09-*.diff):
* `guard`   — `_execute_internal_command` drops Pause/Unpause/Hold/Unhold requests while no run is active;
* `clocks`  — Block Time/Scope Time are paused whenever System State ≠ Running (set in
              `update_calculated_tags`), and Restart zeroes Process Time/Run Time like Start;
* `prevFix` — `set_run_id`/`clear_run_id` clear `_prev_state`.
Further switches (all default off = code as it was when the model was first written; /repo HEAD has the first six
`cancel2` and `scopeReset`):
* `startWrite`, `pauseGate`, `errSafe` — the three C08 repairs (fixes/C08-*.diff);
* `pauseOnce` — a Pause body that runs while already paused keeps the snapshot of the pause onset
                (fixes/C09-double-pause-capture.diff);
* `idleErr`  — `set_error_state` with no run active only reports the error, System State stays Stopped
                (fixes/C06-error-while-idle-stays-stopped.diff);
* `scopeReset` — Start and Restart (`emit_on_start`) clear the Scope Time timers and stack (/repo 29706dcf);
* `cancel2`  — Stop and Restart cancel all commands once more in their second phase, so that a user UOD
                command that started inside the stop window does not survive (/repo 90a68ba6,
                fixes/C10-dispose-instances-on-stop.diff).
The checks probe the tree under test (harness/runstate.py `probe`) and use the matching variant.
Fields `lastCap`, `capRun`, `capLive`, `onsetCap`, `touched`, `touchedRun`, `restartGap` of `Core` are history (ghost)
variables: written, never read.
Core Lean only.
-/
namespace OPM.RunState

inductive Cmd where
  | start | stop | pause | unpause | hold | unhold | restart
deriving DecidableEq, Repr, Inhabited

inductive Sys where
  | running | paused | holding | stopped | restarting
deriving DecidableEq, Repr, Inhabited

/-- The argument string of a request, as far as the internal commands distinguish it. -/
inductive Arg where
  | none            -- ""
  | dur (d : Int)   -- a duration (REGEX_DURATION_OPTIONAL matched), in 1/8 s
  | bad             -- anything else
deriving DecidableEq, Repr, Inhabited

structure Cfg where
  safes : List (Option Int)
  guard : Bool
  clocks : Bool
  prevFix : Bool
  /-- C08 repair: `engine.run()` really writes the safe process image -/
  startWrite : Bool := false
  /-- C08 repair: interpreter-sourced UOD commands are not executed while paused -/
  pauseGate : Bool := false
  /-- C08 repair: `set_error_state` during a run applies the safe state like Pause (Unpause restores) -/
  errSafe : Bool := false
  /-- C09 repair (double Pause): a Pause body that runs while already paused keeps the snapshot of the onset -/
  pauseOnce : Bool := false
  /-- C06 repair (error while idle): `set_error_state` with no run active only reports the error
      (Method Status); System State stays Stopped and the paused flag is not set -/
  idleErr : Bool := false
  /-- /repo 90a68ba6 (fixes/C10-dispose-instances-on-stop.diff): Stop and Restart call
      `cancel_all_commands` a second time, in the phase after their first `yield` -/
  cancel2 : Bool := false
  /-- /repo 29706dcf: `ScopeTimeTag.on_start` clears its timers and its stack (a run starts with no open scope,
      as `BlockTimeTag.on_start` clears its stack) -/
  scopeReset : Bool := false
deriving Repr

/-- Events of the interpreter that the clock tags listen to. -/
inductive Ev where
  | blockStart | blockEnd | scopeActivate (k : Nat) | scopeEnd (k : Nat)
deriving DecidableEq, Repr

/-! ## Output values: `_apply_safe_state`, `_apply_state` -/

/-- New tag values: the safe value where the register has one. -/
def applySafe : List (Option Int) → List Int → List Int
  | _, [] => []
  | [], os => os
  | sf :: sfs, o :: os => sf.getD o :: applySafe sfs os

/-- The `TagValueCollection` returned by `_apply_safe_state`: current values of the registers that have
    a safe value (`none` = tag not in the collection). -/
def capture : List (Option Int) → List Int → List (Option Int)
  | _, [] => []
  | [], os => os.map (fun _ => none)
  | sf :: sfs, o :: os => (if sf.isSome then some o else none) :: capture sfs os

/-- `_apply_state(prev)`: every tag present in the collection gets the stored value. -/
def overlay : List (Option Int) → List Int → List Int
  | _, [] => []
  | [], os => os
  | p :: ps, o :: os => p.getD o :: overlay ps os

/-! ## Engine fields -/

/-- one `write_batch` call at the hardware boundary -/
structure WriteRec where
  /-- `_runstate_started` when it was made -/
  active : Bool
  /-- `_runstate_paused` when it was made -/
  paused : Bool
  vals : List Int
  /-- (history) outputs for which a user request was accepted since the pause began -/
  touched : List Nat
  /-- (history) outputs a user-sourced command wrote since the pause began -/
  touchedRun : List Nat
deriving Repr, DecidableEq

structure Core where
  started : Bool := false
  paused : Bool := false
  holding : Bool := false
  stopping : Bool := false
  sys : Sys := .stopped
  /-- Method Status tag = ERROR -/
  methodErr : Bool := false
  /-- `_last_error is not None` -/
  lastErr : Bool := false
  runId : Option Nat := none
  nextRunId : Nat := 0
  pt : Int := 0
  rt : Int := 0
  /-- `_paused` of BlockTimeTag and ScopeTimeTag (they receive the same events) -/
  clkPaused : Bool := false
  /-- BlockTimeTag._stack values, top = last -/
  blocks : List Int := []
  /-- ScopeTimeTag._timers -/
  scopeT : List (Nat × Int) := []
  /-- ScopeTimeTag._stack, top = last -/
  scopeS : List Nat := []
  outs : List Int := []
  prev : Option (List (Option Int)) := none
  /-- last value written per register -/
  hw : List Int := []
  /-- every `write_batch` so far -/
  writes : List WriteRec := []
  /-- (history) outputs the user explicitly commanded since the current pause began: a user request for that
      output was *accepted* while paused (or the harness' `set` op, which stands for such a command) -/
  touched : List Nat := []
  /-- (history) outputs written by a user-sourced command since the current pause began, whenever it was
      requested -/
  touchedRun : List Nat := []
  -- history variables
  /-- what the most recent Pause captured -/
  lastCap : Option (List (Option Int)) := none
  /-- the run id at the most recent Pause -/
  capRun : Option Nat := none
  /-- no Unpause since the most recent Pause -/
  capLive : Bool := false
  /-- (history) what was captured when the current / most recent pause *began* (`paused` went from false to
      true); not overwritten by a Pause body that runs while already paused -/
  onsetCap : Option (List (Option Int)) := none
  /-- (history) the run was ended by the first half of a Restart (which, unlike Stop, writes nothing) and no
      run has started since -/
  restartGap : Bool := false
deriving Repr

namespace Core

/-- `set_error_state`; with the C08 repair an error that pauses a running, not yet paused run applies the safe
    state exactly like Pause does -/
def setError (cfg : Cfg) (c : Core) : Core :=
  if cfg.idleErr && !c.started then { c with methodErr := true, lastErr := true }
  else if cfg.errSafe && c.started && !c.paused then
    { c with methodErr := true, sys := .paused, lastErr := true, paused := true,
             prev := some (capture cfg.safes c.outs), outs := applySafe cfg.safes c.outs,
             touched := [], touchedRun := [],
             lastCap := some (capture cfg.safes c.outs), capRun := c.runId, capLive := true,
             onsetCap := some (capture cfg.safes c.outs) }
  else
    { c with methodErr := true, sys := .paused, lastErr := true, paused := true,
             touched := if c.paused then c.touched else [],
             touchedRun := if c.paused then c.touchedRun else [],
             onsetCap := if c.paused then c.onsetCap else none }

def clearPrev (cfg : Cfg) (c : Core) : Option (List (Option Int)) :=
  if cfg.prevFix then none else c.prev

/-- body of `StartEngineCommand._run` when not started (incl. `emit_on_start` on the clock tags) -/
def startRun (cfg : Cfg) (c : Core) : Core :=
  { c with started := true, paused := false, holding := false,
           runId := some c.nextRunId, nextRunId := c.nextRunId + 1,
           sys := .running, methodErr := false, rt := 0, pt := 0,
           blocks := [], prev := c.clearPrev cfg, restartGap := false,
           scopeT := if cfg.scopeReset then [] else c.scopeT, scopeS := if cfg.scopeReset then [] else c.scopeS }

def pause (cfg : Cfg) (c : Core) : Core :=
  if cfg.pauseOnce && c.paused then { c with sys := .paused, clkPaused := true }
  else
  { c with paused := true, sys := .paused,
           prev := some (capture cfg.safes c.outs), outs := applySafe cfg.safes c.outs,
           clkPaused := true,
           touched := if c.paused then c.touched else [],
           touchedRun := if c.paused then c.touchedRun else [],
           lastCap := some (capture cfg.safes c.outs), capRun := c.runId, capLive := true,
           onsetCap := if c.paused then c.onsetCap else some (capture cfg.safes c.outs) }

/-- `UnpauseEngineCommand._run` -/
def unpause (c : Core) : Core :=
  { c with paused := false, sys := if c.holding then .holding else .running,
           outs := match c.prev with
             | some p => overlay p c.outs
             | none => c.outs,
           prev := none, clkPaused := false, capLive := false }

def hold (c : Core) : Core :=
  { c with holding := true, sys := if c.paused then c.sys else .holding }

def unhold (c : Core) : Core :=
  { c with holding := false, sys := if c.paused then c.sys else .running }

def stopBegin (c : Core) : Core := { c with stopping := true }

def writeImage (c : Core) : Core :=
  if c.started then
    { c with hw := c.outs, writes := c.writes ++ [⟨true, c.paused, c.outs, c.touched, c.touchedRun⟩] }
  else c

/-- second phase of Stop -/
def stopFinish (cfg : Cfg) (c : Core) : Core :=
  let c1 := { c with outs := applySafe cfg.safes c.outs, paused := false, holding := false,
                     stopping := false, methodErr := false, sys := .stopped, runId := none,
                     prev := c.clearPrev cfg }
  { c1.writeImage with started := false }

def restartBegin (c : Core) : Core := { c with sys := .restarting, stopping := true }

def restartMid (cfg : Cfg) (c : Core) : Core :=
  { c with started := false, paused := false, holding := false, stopping := false,
           sys := .stopped, runId := none, prev := c.clearPrev cfg, restartGap := true }

def restartFinish (cfg : Cfg) (c : Core) : Core :=
  { c with started := true, paused := false, holding := false,
           runId := some c.nextRunId, nextRunId := c.nextRunId + 1,
           rt := if cfg.clocks then 0 else c.rt, pt := if cfg.clocks then 0 else c.pt,
           blocks := [], sys := .running, prev := c.clearPrev cfg, restartGap := false,
           scopeT := if cfg.scopeReset then [] else c.scopeT, scopeS := if cfg.scopeReset then [] else c.scopeS }

/-- `update_calculated_tags` (only called while started) incl. `on_tick` of the two clock tags -/
def clock (cfg : Cfg) (inc : Int) (c : Core) : Core :=
  if !c.started then c else
  let cp := if cfg.clocks then c.sys != .running else c.clkPaused
  let d : Int := if cp then 0 else inc
  { c with pt := if c.sys = .running then c.pt + inc else c.pt,
           rt := if c.sys ≠ .stopped ∧ c.sys ≠ .restarting then c.rt + inc else c.rt,
           clkPaused := cp,
           blocks := c.blocks.map (· + d),
           scopeT := c.scopeT.map (fun kv => (kv.1, kv.2 + d)) }

def upsert (k : Nat) (v : Int) : List (Nat × Int) → List (Nat × Int)
  | [] => [(k, v)]
  | kv :: rest => if kv.1 = k then (k, v) :: rest else kv :: upsert k v rest

def event (e : Ev) (c : Core) : Core :=
  match e with
  | .blockStart => { c with blocks := c.blocks ++ [0] }
  | .blockEnd => { c with blocks := c.blocks.dropLast }
  | .scopeActivate k => { c with scopeT := upsert k 0 c.scopeT, scopeS := c.scopeS ++ [k] }
  | .scopeEnd k =>
    if c.scopeT.any (fun kv => kv.1 == k) then
      { c with scopeT := c.scopeT.filter (fun kv => kv.1 != k), scopeS := c.scopeS.erase k }
    else c

/-- mark output `i` as commanded by the user -/
def touch (i : Nat) (l : List Nat) : List Nat := i :: l

/-- the harness' `set` operation: the effect of a user-sourced command on an output tag -/
def setOut (i : Nat) (v : Int) (c : Core) : Core :=
  { c with outs := c.outs.set i v, touched := touch i c.touched, touchedRun := touch i c.touchedRun }

/-- one iteration of a UOD command writing `v` to output `i` -/
def uwrite (i : Nat) (v : Int) (user : Bool) (c : Core) : Core :=
  { c with outs := c.outs.set i v, touchedRun := if user then touch i c.touchedRun else c.touchedRun }

/-- (history only) a user request for output `i` is accepted -/
def userRequest (i : Nat) (c : Core) : Core :=
  if c.paused then { c with touched := touch i c.touched } else c

/-- `Block Time`.get_value() -/
def blockObs (c : Core) : Int := c.blocks.getLast?.getD 0

/-- `Scope Time`.get_value() -/
def scopeObs (c : Core) : Int :=
  match c.scopeS.getLast? with
  | none => 0
  | some k => ((c.scopeT.find? (fun kv => kv.1 == k)).map (·.2)).getD 0

/-- the gate of the interpreter phase in `Engine.tick` -/
def gate (c : Core) : Bool := c.started && !c.paused && !c.holding && !c.stopping

/-- `_validate_control_command`: reads the System State *tag* and the paused/holding *flags* -/
def valid (c : Core) : Cmd → Bool
  | .start => c.sys == .stopped
  | .stop | .restart => c.sys != .stopped && c.sys != .restarting
  | .pause => c.sys != .stopped && c.sys != .restarting && !c.paused
  | .unpause => c.sys != .stopped && c.sys != .restarting && c.paused
  | .hold => c.sys != .stopped && c.sys != .restarting && !c.holding
  | .unhold => c.sys != .stopped && c.sys != .restarting && c.holding

end Core

/-! ## Requests, command instances, registry, command manager -/

structure Req where
  id : Nat
  cmd : Cmd
  user : Bool
  arg : Arg
  /-- was `tracking.enabled` when the instance id of the request was created (otherwise the id is not
      registered in the runtime records and `mark_*` raise ValueError once tracking is enabled) -/
  tracked : Bool
deriving DecidableEq, Repr

/-- A resident `InternalEngineCommand`. Finalized instances are disposed, so they are not here. -/
structure Inst where
  /-- position of the generator: 0 = `_run` body not entered yet, n = stopped at its n-th `yield` -/
  phase : Nat := 0
  /-- validated duration argument (`kvargs`) -/
  dur : Option Int := none
  /-- `duration_end_time` -/
  endT : Option Int := none
  cancelled : Bool := false
  complete : Bool := false
deriving DecidableEq, Repr

/-- `InternalCommandsRegistry._command_instances` -/
structure Reg where
  start : Option Inst := none
  stop : Option Inst := none
  pause : Option Inst := none
  unpause : Option Inst := none
  hold : Option Inst := none
  unhold : Option Inst := none
  restart : Option Inst := none
deriving DecidableEq, Repr

def Reg.get (r : Reg) : Cmd → Option Inst
  | .start => r.start | .stop => r.stop | .pause => r.pause | .unpause => r.unpause
  | .hold => r.hold | .unhold => r.unhold | .restart => r.restart

def Reg.set (r : Reg) (c : Cmd) (v : Option Inst) : Reg :=
  match c with
  | .start => { r with start := v } | .stop => { r with stop := v }
  | .pause => { r with pause := v } | .unpause => { r with unpause := v }
  | .hold => { r with hold := v } | .unhold => { r with unhold := v }
  | .restart => { r with restart := v }

/-- One `CommandManager` together with the `Tracking` of the same interpreter generation. -/
structure Mgr where
  queue : List Req := []
  exec : List Req := []
  /-- ids in `cmd_executing_done` -/
  done : List Nat := []
  pendingRestart : Option Req := none
  /-- `tracking.enabled` -/
  tracking : Bool := false
deriving Repr

structure State where
  core : Core
  reg : Reg := {}
  /-- the manager whose `execute_commands` loop is running; outside a loop: `engine._command_manager` -/
  mgr : Mgr := {}
  /-- `engine._command_manager` when it was replaced while the loop of `mgr` is still running -/
  next : Option Mgr := none
  now : Int := 0
  nextReq : Nat := 0
  /-- did the interpreter phase run in the last tick -/
  lastInterp : Bool := false
  /-- protocol violation of the environment: interpreter items supplied while the interpreter is gated -/
  gateViolation : Bool := false
  /-- number of `cancel_commands` calls so far (lets the UOD layer see that Stop/Restart cancelled everything) -/
  cancels : Nat := 0
deriving Repr

/-- `engine.run()`: safe values applied to the output tags, nothing written (not started). -/
def init (cfg : Cfg) (outs : List Int) : State :=
  let so := applySafe cfg.safes outs
  if cfg.startWrite then
    { core := { outs := so, hw := so, writes := [⟨false, false, so, [], []⟩] } }
  else
    { core := { outs := so, hw := outs.map (fun _ => 0) } }

namespace State

/-- `engine._command_manager` -/
def emgr (s : State) : Mgr := s.next.getD s.mgr

def setEmgr (s : State) (m : Mgr) : State :=
  match s.next with
  | some _ => { s with next := some m }
  | none => { s with mgr := m }

def setTracking (s : State) (b : Bool) : State := s.setEmgr { s.emgr with tracking := b }

/-- `method_manager.reset_interpreter()` → `on_interpreter_reset`: a new manager that inherits the
    pending Restart request. -/
def swapMgr (s : State) : State :=
  { s with next := some { exec := s.emgr.pendingRestart.toList } }

def dispose (s : State) (c : Cmd) : State := { s with reg := s.reg.set c none }

/-- `_executing_command_done` on the manager of the running loop -/
def markDone (s : State) (r : Req) : State :=
  if s.mgr.exec.any (·.id == r.id) then { s with mgr := { s.mgr with done := r.id :: s.mgr.done } } else s

/-- `_executing_command_done` on `engine._command_manager` -/
def markDoneE (s : State) (r : Req) : State :=
  if s.emgr.exec.any (·.id == r.id) then s.setEmgr { s.emgr with done := r.id :: s.emgr.done } else s

end State

/-- does `tracking.mark_cancelled(request)` return normally (`true`) or raise ValueError -/
def markCancelOk (tracking : Bool) (r : Req) : Bool :=
  r.cmd == .start || r.cmd == .restart || r.cmd == .stop || !tracking ||
  (!r.user && (r.cmd == .pause || r.cmd == .hold) && r.arg != .none)

/-- `command.cancel()` -/
def instCancel (s : State) (c : Cmd) (i : Inst) : State :=
  match c with
  | .pause =>
    { s with reg := s.reg.set c (some { i with cancelled := true, complete := true }),
             core := s.core.unpause }
  | .hold =>
    { s with reg := s.reg.set c (some { i with cancelled := true, complete := true }),
             core := s.core.unhold }
  | _ => { s with reg := s.reg.set c (some { i with cancelled := true }) }

/-- `_cancel_command(request, finalize=True)` on `engine._command_manager` -/
def cancelOne (s : State) (r : Req) : State :=
  match s.reg.get r.cmd with
  | none => s
  | some i =>
    if i.complete then (s.dispose r.cmd).markDoneE r
    else
      let s1 := instCancel s r.cmd i
      if markCancelOk s1.emgr.tracking r then (s1.dispose r.cmd).markDoneE r else s1

def cancelList (src : Cmd) : List Req → State → State
  | [], s => s
  | r :: rs, s => cancelList src rs (if r.cmd = src then s else cancelOne s r)

/-- `engine.cancel_all_commands(source)` = `cancel_commands(source, finalize=True)` -/
def cancelAll (src : Cmd) (s : State) : State :=
  { cancelList src s.emgr.exec s with cancels := s.cancels + 1 }

inductive Res where
  | resident | finalized | failed
deriving DecidableEq, Repr

/-- May the timed Pause/Hold go on waiting. -/
def waiting (now : Int) : Option Int → Bool
  | some e => now < e
  | none => false

/-- `InternalEngineCommand.tick()` of the resident instance `i` of command `c` -/
def instTick (cfg : Cfg) (s : State) (c : Cmd) (i : Inst) : State × Res :=
  if i.cancelled then (s, .resident)
  else if i.complete then (s.dispose c, .finalized)
  else
  match c with
  | .start =>
    if s.core.started then (s.dispose c, .failed)
    else (({ s with core := s.core.startRun cfg }.setTracking true).dispose c, .finalized)
  | .unpause => ({ s with core := s.core.unpause }.dispose c, .finalized)
  | .unhold => ({ s with core := s.core.unhold }.dispose c, .finalized)
  | .pause =>
    if i.phase = 0 then
      match i.dur with
      | none => ({ s with core := s.core.pause cfg }.dispose c, .finalized)
      | some d =>
        if s.now < s.now + d then
          ({ s with core := s.core.pause cfg,
                    reg := s.reg.set c (some { i with phase := 1, endT := some (s.now + d) }) }, .resident)
        else ({ s with core := (s.core.pause cfg).unpause }.dispose c, .finalized)
    else if waiting s.now i.endT then (s, .resident)
    else ({ s with core := s.core.unpause }.dispose c, .finalized)
  | .hold =>
    if i.phase = 0 then
      match i.dur with
      | none => ({ s with core := s.core.hold }.dispose c, .finalized)
      | some d =>
        if s.now < s.now + d then
          ({ s with core := s.core.hold,
                    reg := s.reg.set c (some { i with phase := 1, endT := some (s.now + d) }) }, .resident)
        else ({ s with core := s.core.hold.unhold }.dispose c, .finalized)
    else if waiting s.now i.endT then (s, .resident)
    else ({ s with core := s.core.unhold }.dispose c, .finalized)
  | .stop =>
    if i.phase = 0 then
      if s.core.sys = .stopped ∨ s.core.sys = .restarting then (s.dispose c, .failed)
      else
        (cancelAll .stop { s with core := s.core.stopBegin, reg := s.reg.set c (some { i with phase := 1 }) },
         .resident)
    else
      let s0 := if cfg.cancel2 then cancelAll .stop s else s
      ((({ s0 with core := s0.core.stopFinish cfg }.setTracking false).swapMgr).dispose c, .finalized)
  | .restart =>
    if i.phase = 0 then
      if s.core.sys = .stopped ∨ s.core.sys = .restarting then (s.dispose c, .failed)
      else
        (cancelAll .restart
          { s with core := s.core.restartBegin, reg := s.reg.set c (some { i with phase := 1 }) },
         .resident)
    else if i.phase = 1 then
      let s0 := if cfg.cancel2 then cancelAll .restart s else s
      let s1 := ({ s0 with core := s0.core.restartMid cfg }.setTracking false).swapMgr
      ({ s1 with reg := s1.reg.set c (some { i with phase := 2 }) }, .resident)
    else
      (({ s with core := s.core.restartFinish cfg }.setTracking true).dispose c, .finalized)

/-- does the command's ArgSpec accept the argument -/
def argValid : Cmd → Arg → Bool
  | .pause, .none | .pause, .dur _ | .hold, .none | .hold, .dur _ => true
  | _, .none => true
  | _, _ => false

def needsRun : Cmd → Bool
  | .pause | .unpause | .hold | .unhold => true
  | _ => false

/-- `Tracking.silently_skip` by name -/
def skipName : Cmd → Bool
  | .start | .stop | .restart => true
  | _ => false

/-- do `tracking.mark_internal_command_started / mark_completed / mark_failed` of the running loop's
    manager raise ValueError ("No record found") for this request -/
def trkRaise (s : State) (r : Req) : Bool := s.mgr.tracking && !r.tracked && !skipName r.cmd

/-- validated `kvargs` of a new instance -/
def durOf : Cmd → Arg → Option Int
  | .pause, .dur d => some d
  | .hold, .dur d => some d
  | _, _ => none

def freshInst (c : Cmd) (a : Arg) : Inst := { dur := durOf c a }

/-- what `_execute_internal_command` does with the request after `command.tick()`:
    finalized or failed ⇒ request done, then `mark_completed`/`mark_failed` (which may raise) -/
def afterTick (r : Req) (p : State × Res) : State × Bool :=
  match p with
  | (s1, .resident) => (s1, false)
  | (s1, _) => (s1.markDone r, trkRaise s1 r)

/-- `_execute_internal_command(request)` in the running loop; `true` = it raised
    (EngineError for a rejected argument, ValueError from tracking for an unregistered instance id). -/
def execReq (cfg : Cfg) (s : State) (r : Req) : State × Bool :=
  if cfg.guard && !s.core.started && needsRun r.cmd then (s.markDone r, false)
  else
  match s.reg.get r.cmd with
  | some i =>
    if i.cancelled then
      let s1 := (s.dispose r.cmd).markDone r
      (s1, trkRaise s1 r)
    else afterTick r (instTick cfg s r.cmd i)
  | none =>
    let i := freshInst r.cmd r.arg
    let s0 := { s with reg := s.reg.set r.cmd (some i) }
    if !argValid r.cmd r.arg then (s0, true)
    else
      let s0 := if r.cmd = .restart then { s0 with mgr := { s0.mgr with pendingRestart := some r } } else s0
      if trkRaise s0 r then (s0, true)
      else afterTick r (instTick cfg s0 r.cmd i)

/-- the loop of `execute_commands` over the snapshot of `cmd_executing` -/
def cmdLoop (cfg : Cfg) : List Req → State → State × Bool
  | [], s => (s, false)
  | r :: rs, s =>
    if s.mgr.done.contains r.id then cmdLoop cfg rs s
    else
      match execReq cfg s r with
      | (s1, true) => (s1, true)
      | (s1, false) => cmdLoop cfg rs s1

/-- `_commit_commands_done` -/
def Mgr.commit (m : Mgr) : Mgr :=
  { m with exec := m.exec.filter (fun r => !m.done.contains r.id), done := [] }

/-- after the loop: `_commit_commands_done` on the loop's manager; the engine goes on with the manager
    that `on_interpreter_reset` installed, if any -/
def adopt (s : State) : State :=
  match s.next with
  | some nm => { s with mgr := nm, next := none }
  | none => { s with mgr := s.mgr.commit }

/-- queue → front of `cmd_executing` (each `insert(0, …)`), done-set cleared -/
def drain (s : State) : State :=
  { s with mgr := { s.mgr with exec := s.mgr.queue.reverse ++ s.mgr.exec, queue := [], done := [] } }

/-- `command_manager.tick` inside `Engine.tick`, with the `except → set_error_state` around it -/
def cmdPhase (cfg : Cfg) (s : State) : State :=
  let p := cmdLoop cfg (drain s).mgr.exec (drain s)
  let s3 := adopt p.1
  if p.2 then { s3 with core := s3.core.setError cfg } else s3

/-! ## Operations -/

/-- What the interpreter did in its phase of a tick. -/
inductive Item where
  | ev (e : Ev)
  | cmd (c : Cmd) (a : Arg)
deriving Repr

structure TickIn where
  /-- tick_time − previous tick_time -/
  adv : Int
  /-- increment_time -/
  inc : Int
  /-- `read_batch` raises HardwareLayerException -/
  readFail : Bool := false
  /-- `interpreter.tick` raises -/
  interpFail : Bool := false
  items : List Item := []
deriving Repr

inductive Op where
  | user (c : Cmd)
  /-- a name that is neither an engine command nor a UOD command -/
  | userUnknown
  /-- an empty or whitespace-only name (`uod.has_command_name` raises ValueError) -/
  | userBlank
  | tick (t : TickIn)
  /-- a command effect on an output tag between ticks -/
  | setOut (i : Nat) (v : Int)
  /-- `set_error_state` from `inject_code`/`set_method` failure between ticks -/
  | errApi
deriving Repr

inductive Out where
  | none | accepted | rejected | unknown
deriving DecidableEq, Repr

/-- `schedule_execution` / `execute_control_command_from_user` after validation -/
def enqueue (s : State) (c : Cmd) (user : Bool) (a : Arg) : State :=
  let r : Req := { id := s.nextReq, cmd := c, user := user, arg := a, tracked := s.emgr.tracking }
  { s.setEmgr { s.emgr with queue := s.emgr.queue ++ [r] } with nextReq := s.nextReq + 1 }

def interpItem (s : State) : Item → State
  | .ev e => { s with core := s.core.event e }
  | .cmd c a => enqueue s c false a

/-- `Engine.tick` up to (excluding) `update_calculated_tags` -/
def tickPre (cfg : Cfg) (s : State) (t : TickIn) : State :=
  let s := { s with now := s.now + t.adv }
  let s := if t.readFail && !s.core.lastErr then { s with core := s.core.setError cfg } else s
  if s.core.gate then
    let s := t.items.foldl interpItem s
    let s := if t.interpFail then { s with core := s.core.setError cfg } else s
    { s with lastInterp := true }
  else
    { s with lastInterp := false,
             gateViolation := s.gateViolation || !t.items.isEmpty || t.interpFail }

def tickClock (cfg : Cfg) (inc : Int) (s : State) : State := { s with core := s.core.clock cfg inc }

/-- command phase and `write_process_image` -/
def tickPost (cfg : Cfg) (s : State) : State :=
  let s := cmdPhase cfg s
  { s with core := s.core.writeImage }

def tick (cfg : Cfg) (s : State) (t : TickIn) : State :=
  tickPost cfg (tickClock cfg t.inc (tickPre cfg s t))

def step (cfg : Cfg) (s : State) : Op → State × Out
  | .user c => if s.core.valid c then (enqueue s c true .none, .accepted) else (s, .rejected)
  | .userUnknown => (s, .unknown)
  | .userBlank => (s, .rejected)
  | .tick t => (tick cfg s t, .none)
  | .setOut i v => ({ s with core := s.core.setOut i v }, .none)
  | .errApi => ({ s with core := s.core.setError cfg }, .none)

def run (cfg : Cfg) (s : State) (ops : List Op) : State := ops.foldl (fun s o => (step cfg s o).1) s

/-! The code as it is, and with the three repairs; `safes` as in the harness UOD. -/
def asIs (safes : List (Option Int)) : Cfg := { safes, guard := false, clocks := false, prevFix := false }
def repaired (safes : List (Option Int)) : Cfg := { safes, guard := true, clocks := true, prevFix := true }
/-- … and with the three C08 repairs and the second cancel of Stop/Restart as well (= /repo 90a68ba6) -/
def repaired8 (safes : List (Option Int)) : Cfg :=
  { safes, guard := true, clocks := true, prevFix := true, startWrite := true, pauseGate := true, errSafe := true,
    cancel2 := true, scopeReset := true }
/-- … and with the double-Pause and error-while-idle repairs -/
def repaired10 (safes : List (Option Int)) : Cfg :=
  { repaired8 safes with pauseOnce := true, idleErr := true }

end OPM.RunState
