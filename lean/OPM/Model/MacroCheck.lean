import OPM.Model.Interp
/-
MacroCheck — model of `MacroNode.macro_calling_macro(macros, name)` (openpectus/lang/model/ast.py), the
check `visit_CallMacroNode` and `MacroCheckAnalyzer` use to decide whether calling a macro "will call
the macro itself".

Two versions:

* `asIs` — the function as it stands in the unchanged repository: scans the *direct* children only,
  follows the first `Call macro` child that is the name itself or a defined macro and returns; no
  visited set (`none` = Python's RecursionError).  It is the function `OPM.Interp.macroCallingMacro`
  of the interpreter model, repeated here so that the witnesses of what it misses stay checkable.
* `cascade` — the repaired function (fixes/C41-macro-recursion-check.diff): depth-first search over
  *all* `Call macro` instructions a call of the macro can reach (also inside Watch / Alarm / Block
  bodies, not inside nested macro definitions, whose bodies do not run), with a visited list that is
  shared by the whole search (a Python list passed by reference: threaded through here).

Programs are `OPM.Interp.Prog`; `macros` is `program.macros` (name ↦ node, Python dict order).
Core Lean only.
-/
namespace OPM.MacroCheck
open OPM.Interp



/-! ### the function as it stands (unchanged repository) -/

def asIsScan (p : Prog) (macros : List (String × Nat)) (name : String)
    (rec : Nat → Option (List String)) : List Nat → Option (List String)
  | [] => some []
  | c :: cs =>
    match (node p c).kind with
    | .call cn =>
      if cn = name then some [cn]
      else match macros.lookup cn with
        | some m' => (rec m').map (fun l => cn :: l)
        | none => asIsScan p macros name rec cs
    | _ => asIsScan p macros name rec cs

def asIs (p : Prog) (macros : List (String × Nat)) (name : String) : Nat → Nat → Option (List String)
  | 0, _ => none
  | fuel + 1, m => asIsScan p macros name (asIs p macros name fuel) (node p m).children

end OPM.MacroCheck
