/-
M13 (part): one engine's run across engine reconnects and aggregator restarts.

Python (openpectus/aggregator):
  aggregator_message_handlers.py  handle_RegisterEngineMsg (+ handle_UodInfoMsg), validate_msg, handle_EngineDisconnected,
                                  handle_RunStartedMsg, handle_RunStoppedMsg, handle_TagsUpdatedMsg
  aggregator.py                   FromEngine.register_engine_data, _try_restore_reconnected_engine_data,
                                  engine_disconnected, run_started, run_stopped, tag_values_changed,
                                  _persist_tag_values; Aggregator.shutdown
  data/repository.py              RecentEngineRepository.store_recent_engine / get_recent_engine_by_engine_id,
                                  PlotLogRepository.create_plot_log / get_plot_log_entries / store_tag_values,
                                  RecentRunRepository.store_recent_run

In-memory state = the engine's `EngineData` in `_engine_data_map` (absent when not registered).  The database is modelled
as row lists with exactly the queries used:
  recentEngine = the RecentEngines row of this engine id (unique): none = no row, some x = row with run_id = x;
                 recentEngineState = its system_state column (none = "")
  plotLogs     = PlotLogs.run_id, insertion order           recentRuns = RecentRuns.run_id, insertion order
  values       = PlotLogEntryValues rows as (index of the PlotLogs row they hang on, tick_time), insertion order
`restart` = graceful aggregator restart: `Aggregator.shutdown()` (stores every registered engine as recent engine),
then a new `Aggregator` on the same database (in-memory state dropped).  `crash` = the aggregator process dies and is
started again: no shutdown hook runs, the in-memory state is dropped, the database is what it was.

`Cfg` says whether `create_plot_log` / `store_recent_run` do nothing when a row for the run id already exists (the code
with fixes/C30-one-record-per-run.diff: both true; the code before it: both false), whether `run_started` /
`run_stopped` write the RecentEngines row at once (`persistRunEvents`: the code with fixes/C28-persist-active-run.diff;
without it the row is written on disconnect and shutdown only), and the `data_log_interval_seconds` the engine
reports.  The harness measures the flags on the real code on every run and varies the interval.

Abstractions: one engine id; `register` = accepted RegisterEngineMsg followed by the UodInfoMsg the engine always sends
next (one reading "X", data_log_interval_seconds = `Cfg.interval`); messages of other engines are no-ops here (the
harness interleaves them and checks that they are); a tags message carries one value of tag "X" with an integer
tick time and optionally, at the same tick time, a value of the tag "System State" (0 = Stopped, 1 = Running,
2 = Paused) — the engine's state as the aggregator sees it lags or leads the run messages, so every combination of
state value and run message order is a history; "System State" is not a reading, so it has no plot-log entry; run log,
method, contributors, error log are not modelled; database writes succeed.  Run ids are naturals.
Core Lean only.
-/
namespace OPM.Reconnect

structure Mem where
  run : Option Nat := none             -- run_data.run_id            (has_run() = run.isSome)
  lastPersisted : Option Nat := none   -- run_data.latest_persisted_tick_time
  tagTime : Option Nat := none         -- tags_info["X"].tick_time   (none = tag not seen since registration)
  sysState : Option Nat := none        -- tags_info["System State"].value (none = not seen since registration)
  sysTime : Option Nat := none         -- tags_info["System State"].tick_time
deriving Repr, DecidableEq

structure State where
  mem : Option Mem := none
  recentEngine : Option (Option Nat) := none
  recentEngineState : Option Nat := none
  plotLogs : List Nat := []
  values : List (Nat × Nat) := []
  recentRuns : List Nat := []
deriving Repr, DecidableEq

inductive Op where
  | register
  | disconnect
  | restart
  | start (runId : Nat)                       -- RunStartedMsg
  | stop (runId : Nat)                        -- RunStoppedMsg
  | crash
  | tags (msgRun : Option Nat) (t : Nat) (st : Option Nat)
      -- TagsUpdatedMsg(run_id = msgRun, tags = [X @ t] or [X @ t, System State = st @ t])
deriving Repr, DecidableEq

inductive Reply where
  | ok
  | notRegistered   -- validate_msg: ErrorMessage "No engine registered under id …"
deriving Repr, DecidableEq

/-- which of the two repository writes skip a run id that already has a row -/
structure Cfg where
  plotGuarded : Bool := false
  recentGuarded : Bool := false
  persistRunEvents : Bool := false
  interval : Nat := 0
deriving Repr, DecidableEq

def init : State := {}

/-- `PlotLogRepository.create_plot_log(engine_data, run_id)` -/
def createPlotLog (c : Cfg) (s : State) (r : Nat) : State :=
  if c.plotGuarded && s.plotLogs.contains r then s else { s with plotLogs := s.plotLogs ++ [r] }

/-- `RecentRunRepository.store_recent_run(engine_data)` for the current run `r` -/
def storeRecentRun (c : Cfg) (s : State) (r : Nat) : State :=
  if c.recentGuarded && s.recentRuns.contains r then s else { s with recentRuns := s.recentRuns ++ [r] }

/-- `store_recent_engine(engine_data)`: upsert of the row; run_id = the active run or None — whatever the last
System State value received from the engine is; that value only goes into the system_state column -/
def storeRecentEngine (s : State) (m : Mem) : State :=
  { s with recentEngine := some m.run, recentEngineState := m.sysState }

/-- `run_started` / `run_stopped` of the code with fixes/C28-persist-active-run.diff: `store_recent_engine` right away -/
def persistRow (c : Cfg) (s : State) : State :=
  if c.persistRunEvents then
    match s.mem with
    | some m => storeRecentEngine s m
    | none => s
  else s

/-- `_try_restore_reconnected_engine_data` on a fresh `EngineData` -/
def restored (s : State) : Mem :=
  match s.recentEngine with
  | some (some r) => { run := some r }
  | _ => {}

/-- `latest_tag_tick_time - latest_persisted_tick_time > data_log_interval_seconds`, or nothing persisted yet -/
def thresholdExceeded (interval : Nat) (lastPersisted : Option Nat) (t : Nat) : Bool :=
  match lastPersisted with
  | none => true
  | some lp => decide (lp + interval < t)

/-- `store_tag_values(engine_id, run_id, [X @ t])`: a row on the first plot-log entry named X of that run id, if any -/
def valueRows (s : State) (r t : Nat) : List (Nat × Nat) :=
  match s.plotLogs.idxOf? r with
  | some i => [(i, t)]
  | none => []

/-- `max(tag.tick_time for tag in tags_info)` over the tags seen since registration (X is always among them here) -/
def latestTime (m : Mem) (t : Nat) : Nat :=
  match m.sysTime with
  | some u => max t u
  | none => t

/-- `_persist_tag_values` (the tag X of `m` is at tick time `t`): when the newest tick time of any tag exceeds the last
persisted one, the tags newer than the last persisted time are written with that newest tick time; only X has a
plot-log entry. -/
def persist (c : Cfg) (s : State) (m : Mem) (t : Nat) : State :=
  match m.run with
  | none => { s with mem := some m }                             -- no run: nothing stored
  | some r =>
    if thresholdExceeded c.interval m.lastPersisted (latestTime m t) then
      { s with mem := some { m with lastPersisted := some (latestTime m t) },
               values := s.values ++ (if thresholdExceeded 0 m.lastPersisted t then valueRows s r (latestTime m t) else []) }
    else { s with mem := some m }

/-- `tags_info.upsert` of the message's tags -/
def upsertTags (m : Mem) (t : Nat) (st : Option Nat) : Mem :=
  match st with
  | none => { m with tagTime := some t }
  | some v => { m with tagTime := some t, sysState := some v, sysTime := some t }

/-- `tag_values_changed` for one value of tag X (and optionally of System State) at tick time `t` -/
def tagsChanged (c : Cfg) (s : State) (m : Mem) (msgRun : Option Nat) (t : Nat) (st : Option Nat) : State :=
  if (m.run.isNone && msgRun.isSome) || (m.run.isSome && msgRun.isNone) then s   -- "Skipping tag update message"
  else persist c s (upsertTags m t st) t                           -- tags_info.upsert, then _persist_tag_values

/-- `run_started` up to (not including) `create_plot_log`: start the run, unless it is the current one already; a
different current run is stored as recent run first -/
def startRun (c : Cfg) (s : State) (m : Mem) (r : Nat) : State :=
  match m.run with
  | none => { s with mem := some { m with run := some r, lastPersisted := none } }
  | some q =>
    if q = r then s                                          -- "be idempotent and just accept this duplicate"
    else { storeRecentRun c s q with mem := some { m with run := some r, lastPersisted := none } }

def step (c : Cfg) (s : State) : Op → State × Reply
  | .register =>
    match s.mem with
    | some _ => (s, .ok)                                           -- `if not has_registered_engine_id(...)`
    | none => ({ s with mem := some (restored s) }, .ok)
  | .disconnect =>
    match s.mem with
    | some m => ({ storeRecentEngine s m with mem := none }, .ok)
    | none => (s, .ok)                                             -- "No data to save for engine"
  | .restart =>
    match s.mem with
    | some m => ({ storeRecentEngine s m with mem := none }, .ok)  -- shutdown() stores it; the new process starts empty
    | none => (s, .ok)
  | .crash => ({ s with mem := none }, .ok)                         -- nothing is stored
  | .start r =>
    match s.mem with
    | none => (s, .notRegistered)
    | some m => (persistRow c (createPlotLog c (startRun c s m r) r), .ok)   -- (fixed code) the row is written at once
  | .stop _ =>
    match s.mem with
    | none => (s, .notRegistered)
    | some m =>
      match m.run with
      | none => (s, .ok)                                           -- "No engine run_data available on run_stopped"
      | some q =>                                                  -- matching and mismatching id: store, then reset_run
        (persistRow c { storeRecentRun c s q with mem := some { m with run := none, lastPersisted := none } }, .ok)
  | .tags msgRun t st =>
    match s.mem with
    | none => (s, .notRegistered)
    | some m => (tagsChanged c s m msgRun t st, .ok)

def run (c : Cfg) (s : State) (ops : List Op) : State :=
  ops.foldl (fun s op => (step c s op).1) s

end OPM.Reconnect
