/-
M13 (part): one engine's run across engine reconnects and aggregator restarts.

Python (openpectus/aggregator):
  aggregator_message_handlers.py  handle_RegisterEngineMsg (+ handle_UodInfoMsg), validate_msg, handle_EngineDisconnected,
                                  handle_RunStartedMsg, handle_RunStoppedMsg, handle_TagsUpdatedMsg
  aggregator.py                   FromEngine.register_engine_data, _try_restore_reconnected_engine_data,
                                  engine_disconnected, run_started, run_stopped, tag_values_changed,
                                  _persist_tag_values; Aggregator.shutdown
  data/repository.py              RecentEngineRepository.store_recent_engine / get_recent_engine_by_engine_id,
                                  PlotLogRepository.create_plot_log / get_plot_log_entries / store_tag_values,
                                  RecentRunRepository.store_recent_run

In-memory state = the engine's `EngineData` in `_engine_data_map` (absent when not registered).  The database is modelled
as row lists with exactly the queries used:
  recentEngine = the RecentEngines row of this engine id (unique): none = no row, some x = row with run_id = x
  plotLogs     = PlotLogs.run_id, insertion order           recentRuns = RecentRuns.run_id, insertion order
  values       = PlotLogEntryValues rows as (index of the PlotLogs row they hang on, tick_time), insertion order
`restart` = graceful aggregator restart: `Aggregator.shutdown()` (stores every registered engine as recent engine),
then a new `Aggregator` on the same database (in-memory state dropped).

`Cfg` says whether `create_plot_log` / `store_recent_run` do nothing when a row for the run id already exists (the code
with fixes/C30-one-record-per-run.diff: both true; the code before it: both false).  The harness measures the two flags
on the real repositories on every run; the theorems of C28 hold for every `Cfg`.

Abstractions: one engine id; `register` = accepted RegisterEngineMsg followed by the UodInfoMsg the engine always sends
next (one reading "X", data_log_interval_seconds = 0); a tags message carries one value of tag "X" with an integer
tick time; run log, method, contributors, error log are not modelled; database writes succeed.  Run ids are naturals.
Core Lean only.
-/
namespace OPM.Reconnect

structure Mem where
  run : Option Nat := none             -- run_data.run_id            (has_run() = run.isSome)
  lastPersisted : Option Nat := none   -- run_data.latest_persisted_tick_time
  tagTime : Option Nat := none         -- tags_info["X"].tick_time   (none = tag not seen since registration)
deriving Repr, DecidableEq

structure State where
  mem : Option Mem := none
  recentEngine : Option (Option Nat) := none
  plotLogs : List Nat := []
  values : List (Nat × Nat) := []
  recentRuns : List Nat := []
deriving Repr, DecidableEq

inductive Op where
  | register
  | disconnect
  | restart
  | start (runId : Nat)                       -- RunStartedMsg
  | stop (runId : Nat)                        -- RunStoppedMsg
  | tags (msgRun : Option Nat) (t : Nat)      -- TagsUpdatedMsg(run_id = msgRun, tags = [X @ t])
deriving Repr, DecidableEq

inductive Reply where
  | ok
  | notRegistered   -- validate_msg: ErrorMessage "No engine registered under id …"
deriving Repr, DecidableEq

/-- which of the two repository writes skip a run id that already has a row -/
structure Cfg where
  plotGuarded : Bool := false
  recentGuarded : Bool := false
deriving Repr, DecidableEq

def init : State := {}

/-- `PlotLogRepository.create_plot_log(engine_data, run_id)` -/
def createPlotLog (c : Cfg) (s : State) (r : Nat) : State :=
  if c.plotGuarded && s.plotLogs.contains r then s else { s with plotLogs := s.plotLogs ++ [r] }

/-- `RecentRunRepository.store_recent_run(engine_data)` for the current run `r` -/
def storeRecentRun (c : Cfg) (s : State) (r : Nat) : State :=
  if c.recentGuarded && s.recentRuns.contains r then s else { s with recentRuns := s.recentRuns ++ [r] }

/-- `store_recent_engine(engine_data)`: upsert of the row; run_id = the active run or None -/
def storeRecentEngine (s : State) (m : Mem) : State := { s with recentEngine := some m.run }

/-- `_try_restore_reconnected_engine_data` on a fresh `EngineData` -/
def restored (s : State) : Mem :=
  match s.recentEngine with
  | some (some r) => { run := some r }
  | _ => {}

/-- `latest_tag_tick_time - latest_persisted_tick_time > data_log_interval_seconds` (= 0), or nothing persisted yet -/
def thresholdExceeded (lastPersisted : Option Nat) (t : Nat) : Bool :=
  match lastPersisted with
  | none => true
  | some lp => decide (lp < t)

/-- `store_tag_values(engine_id, run_id, [X @ t])`: a row on the first plot-log entry named X of that run id, if any -/
def valueRows (s : State) (r t : Nat) : List (Nat × Nat) :=
  match s.plotLogs.idxOf? r with
  | some i => [(i, t)]
  | none => []

/-- `_persist_tag_values` (the tag X of `m` is at tick time `t`) -/
def persist (s : State) (m : Mem) (t : Nat) : State :=
  match m.run with
  | none => { s with mem := some m }                             -- no run: nothing stored
  | some r =>
    if thresholdExceeded m.lastPersisted t then
      { s with mem := some { m with lastPersisted := some t }, values := s.values ++ valueRows s r t }
    else { s with mem := some m }

/-- `tag_values_changed` for one value of tag X at tick time `t` -/
def tagsChanged (s : State) (m : Mem) (msgRun : Option Nat) (t : Nat) : State :=
  if (m.run.isNone && msgRun.isSome) || (m.run.isSome && msgRun.isNone) then s   -- "Skipping tag update message"
  else persist s { m with tagTime := some t } t                  -- tags_info.upsert, then _persist_tag_values

def step (c : Cfg) (s : State) : Op → State × Reply
  | .register =>
    match s.mem with
    | some _ => (s, .ok)                                           -- `if not has_registered_engine_id(...)`
    | none => ({ s with mem := some (restored s) }, .ok)
  | .disconnect =>
    match s.mem with
    | some m => ({ storeRecentEngine s m with mem := none }, .ok)
    | none => (s, .ok)                                             -- "No data to save for engine"
  | .restart =>
    match s.mem with
    | some m => ({ storeRecentEngine s m with mem := none }, .ok)  -- shutdown() stores it; the new process starts empty
    | none => (s, .ok)
  | .start r =>
    match s.mem with
    | none => (s, .notRegistered)
    | some m =>
      let s₁ : State := match m.run with
        | none => { s with mem := some { m with run := some r, lastPersisted := none } }
        | some q =>
          if q = r then s                                          -- "be idempotent and just accept this duplicate"
          else { storeRecentRun c s q with mem := some { m with run := some r, lastPersisted := none } }
      (createPlotLog c s₁ r, .ok)
  | .stop _ =>
    match s.mem with
    | none => (s, .notRegistered)
    | some m =>
      match m.run with
      | none => (s, .ok)                                           -- "No engine run_data available on run_stopped"
      | some q =>                                                  -- matching and mismatching id: store, then reset_run
        ({ storeRecentRun c s q with mem := some { m with run := none, lastPersisted := none } }, .ok)
  | .tags msgRun t =>
    match s.mem with
    | none => (s, .notRegistered)
    | some m => (tagsChanged s m msgRun t, .ok)

def run (c : Cfg) (s : State) (ops : List Op) : State :=
  ops.foldl (fun s op => (step c s op).1) s

end OPM.Reconnect
