import OPM.Model.ParseLine
import OPM.Model.ParseIndent
/-
M6  `PcodeParser.parse_pcode(text)` = `ParserMethod.from_pcode` (`str.splitlines`, ids `id_1`, `id_2`, …)
+ `_parse_line` per line (M6a) + the indentation pass (M6b).
-/
namespace OPM.ParseText
open OPM.Gen.ParseTables OPM.ParseLine OPM.ParseIndent

def isBreak (c : Char) : Bool := pyLineBreaks.contains c.toNat

/-- `str.splitlines()`: `cur` is the current line, reversed -/
def splitAux (cur : List Char) : List Char → List (List Char)
  | [] => if cur.isEmpty then [] else [cur.reverse]
  | '\r' :: '\n' :: t => cur.reverse :: splitAux [] t
  | c :: t => if isBreak c then cur.reverse :: splitAux [] t else splitAux (c :: cur) t

def splitLines (text : List Char) : List (List Char) := splitAux [] text

/-- what the indentation pass reads from a node -/
def infoOf (nd : Node) : LineInfo :=
  { char := nd.char, perr := nd.indentError,
    kind := if nd.ws then .ws else if nd.opener then .opener else .leaf }

def nodesOf (fx fe : Bool) (uod : List String) (text : List Char) : List Node :=
  (splitLines text).map (parseLineE fx fe uod)

/-- the parsed program of `text` in pre-order: (line number, parent line number, indent_error, …).
    `fxLine`/`fxIndent`: with the C18 / C17 repair; `fe`: with the error-line repair. -/
def parseText (fxLine fe fxIndent : Bool) (uod : List String) (text : List Char) : List Row :=
  parseRows fxIndent ((nodesOf fxLine fe uod text).map infoOf)

/-! ### vocabulary of C17 on the TEXT -/

/-- indentation of a line of text: its leading white space, whether or not the rest parses -/
def srcIndent (cs : List Char) : Nat := (cs.takeWhile isSpace).length

/-- what the indentation discipline reads from a line of text: the indentation of the TEXT (not the column the
    parser assigned), "not a multiple of four" for instruction lines, and the kind of the node -/
def srcInfoOf (nd : Node) (cs : List Char) : LineInfo :=
  { char := srcIndent cs, kind := (infoOf nd).kind, perr := !nd.ws && srcIndent cs % 4 != 0 }

def srcInfos (fx fe : Bool) (uod : List String) (text : List Char) : List LineInfo :=
  (splitLines text).map (fun cs => srcInfoOf (parseLineE fx fe uod cs) cs)

/-- the line is blank, a comment, or matches the instruction pattern -/
def scannable (cs : List Char) : Bool :=
  match strip cs with
  | [] => true
  | c :: _ => c == '#' || (scanLine cs).isSome

def AllScannable (text : List Char) : Prop := ∀ cs ∈ splitLines text, scannable cs = true

instance (text : List Char) : Decidable (AllScannable text) := by unfold AllScannable; infer_instance

end OPM.ParseText
