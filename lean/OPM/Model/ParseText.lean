import OPM.Model.ParseLine
import OPM.Model.ParseIndent
/-
M6  `PcodeParser.parse_pcode(text)` = `ParserMethod.from_pcode` (`str.splitlines`, ids `id_1`, `id_2`, …)
+ `_parse_line` per line (M6a) + the indentation pass (M6b).
-/
namespace OPM.ParseText
open OPM.Gen.ParseTables OPM.ParseLine OPM.ParseIndent

def isBreak (c : Char) : Bool := pyLineBreaks.contains c.toNat

/-- `str.splitlines()`: `cur` is the current line, reversed -/
def splitAux (cur : List Char) : List Char → List (List Char)
  | [] => if cur.isEmpty then [] else [cur.reverse]
  | '\r' :: '\n' :: t => cur.reverse :: splitAux [] t
  | c :: t => if isBreak c then cur.reverse :: splitAux [] t else splitAux (c :: cur) t

def splitLines (text : List Char) : List (List Char) := splitAux [] text

/-- what the indentation pass reads from a node -/
def infoOf (nd : Node) : LineInfo :=
  { char := nd.char, perr := nd.indentError,
    kind := if nd.ws then .ws else if nd.opener then .opener else .leaf }

def nodesOf (fx : Bool) (uod : List String) (text : List Char) : List Node :=
  (splitLines text).map (parseLine fx uod)

/-- the parsed program of `text` in pre-order: (line number, parent line number, indent_error, …).
    `fxLine`/`fxIndent`: with the C18 / C17 repair. -/
def parseText (fxLine fxIndent : Bool) (uod : List String) (text : List Char) : List Row :=
  parseRows fxIndent ((nodesOf fxLine uod text).map infoOf)

end OPM.ParseText
