import OPM.Model.InterpBase
import OPM.Model.MacroCascade
/-
M3 Interp — the interpreter machine proper (runtime helpers, micro-steps, tick, requests).
Types and static helpers: OPM.Model.InterpBase; repaired macro recursion check: OPM.Model.MacroCascade.
-/
namespace OPM.Interp

/-! ### runtime helpers -/

def getRt (s : St) (n : Nat) : NodeRt := s.rt n

def setRt (s : St) (n : Nat) (f : NodeRt → NodeRt) : St :=
  { s with rt := fun k => if k = n then f (s.rt n) else s.rt k }

/-- Extensionally the identity: re-tabulates the runtime map (used by the driver between ticks so
    that chains of function updates stay short). -/
def compact (size : Nat) (s : St) : St :=
  let a : Array NodeRt := (Array.range size).map s.rt
  { s with rt := fun k => if k < size then a.getD k {} else s.rt k }

def emit (s : St) (e : Event) : St := { s with events := e :: s.events }

/-- `Node.reset_runtime_state(recursive=False)` for one node (keeps `failed`, macro counters, `isRegistered`, `runCount`). -/
def resetOne (r : NodeRt) : NodeRt :=
  { r with started := false, completed := false, cancelled := false, forced := false,
           childIndex := 0, childrenComplete := false, interruptRegistered := false,
           activated := false, blockEnded := false, lockAcquired := false, waitStart := none }

def resetSubtree (p : Prog) (s : St) (n : Nat) : St :=
  (n :: descendants p n).foldl (fun s k => setRt s k resetOne) s

/-- Python `str.__lt__` on the code-point lists. -/
def ltCodes : List Nat → List Nat → Bool
  | [], [] => false
  | [], _ :: _ => true
  | _ :: _, [] => false
  | a :: as, b :: bs => if a < b then true else if b < a then false else ltCodes as bs

def insertDesc (p : Prog) (x : Nat) : List Nat → List Nat
  | [] => [x]
  | y :: ys => if ltCodes (node p y).keyPath (node p x).keyPath then x :: y :: ys else y :: insertDesc p x ys

/-- `ProgramNode.get_locked_blocks()`: program blocks with the lock, sorted by key path, reversed. -/
def lockedBlocks (p : Prog) (s : St) : List Nat :=
  let bs := (List.range p.size).filter (fun n => (node p n).inProgram && isBlock p n && (getRt s n).lockAcquired)
  bs.foldl (fun acc x => insertDesc p x acc) []

/-- dict assignment `d[k] = v` (keeps the position of an existing key). -/
def dictSet {α β : Type} [DecidableEq α] (d : List (α × β)) (k : α) (v : β) : List (α × β) :=
  if d.any (fun e => e.1 = k) then d.map (fun e => if e.1 = k then (k, v) else e) else d ++ [(k, v)]

def dictDel {α β : Type} [DecidableEq α] (d : List (α × β)) (k : α) : List (α × β) :=
  d.filter (fun e => e.1 ≠ k)

def evalCond (s : St) (c : Cond) : Bool :=
  match s.tags[c.tag]? with
  | none => false
  | some v =>
    match c.op with
    | .lt => v < c.val | .le => v ≤ c.val | .eq => v = c.val
    | .ne => v ≠ c.val | .gt => v > c.val | .ge => v ≥ c.val

/-- `_is_awaiting_threshold`. -/
def awaitingThreshold (p : Prog) (s : St) (n : Nat) : Bool :=
  let r := getRt s n
  if r.completed then false else
  match (node p n).threshold with
  | none => false
  | some t =>
    if r.forced then false else
    let inBlock := match s.blockTag with | none => false | some b => b ≠ ""
    let clock := if inBlock then s.blockClock else s.scopeClock
    clock < t * s.baseFactor

def frameNode : Frame → Nat
  | .wrapEnter n | .wrapThr n | .wrapDispatch n | .wrapAfter n | .children n _ _ | .body n _
  | .callRet n _ | .waitLoop n _ => n

/-- Nodes on the structural execution path of a generator stack (`sep.node_ids()`), including the
    macro node while a call is visiting it. -/
def sepNodes (stack : List Frame) : List Nat :=
  stack.flatMap (fun f =>
    match f with
    | .wrapDispatch n | .wrapAfter n => [n]
    | .children n _ true => [n]
    | .callRet _ m => [m]
    | _ => [])

def endedBlockAbove (p : Prog) (s : St) (n : Nat) : Bool :=
  (ancestors p n).any (fun a => isBlock p a && (getRt s a).blockEnded)

/-- `_is_in_ended_block(node)` evaluated in a generator whose frames *below* the current one are `below`. -/
def inEndedBlock (p : Prog) (s : St) (below : List Frame) (n : Nat) : Bool :=
  endedBlockAbove p s n ||
  (sepNodes below).any (fun k =>
    (node p k).inProgram &&
      ((isBlock p k && (getRt s k).blockEnded) || endedBlockAbove p s k))

/-- `_register_interrupt`. -/
def registerInterrupt (p : Prog) (s : St) (n : Nat) : St :=
  let g : Gen := { gid := s.nextGid, node := n, stack := [.wrapEnter n] }
  let s := { s with gens := s.gens ++ [g], imap := dictSet s.imap n s.nextGid, nextGid := s.nextGid + 1 }
  let s := setRt s n (fun r => { r with interruptRegistered := true })
  let s := emit s (.register n)
  match (node p n).kind with
  | .watch _ | .alarm _ => emit s (.scopeStart n)
  | _ => s

/-- `_unregister_interrupt`. -/
def unregisterInterrupt (s : St) (n : Nat) : St :=
  let s := setRt s n (fun r => { r with interruptRegistered := false })
  emit { s with imap := dictDel s.imap n } (.unregister n)

/-- `_abort_block_interrupts(block)`. -/
def abortBlockInterrupts (p : Prog) (s : St) (b : Nat) : St :=
  let desc := descendants p b
  s.imap.foldl (fun s e =>
    if desc.contains e.1 then
      unregisterInterrupt (setRt s e.1 (fun r => { r with childrenComplete := true })) e.1
    else s) s

/-- `_try_activate_node`. -/
def tryActivate (s : St) (n : Nat) (c : Cond) : St :=
  let r := getRt s n
  if r.cancelled then s
  else if r.forced || evalCond s c then setRt s n (fun r => { r with activated := true })
  else s

/-- `MacroNode.macro_calling_macro(macros, name)` as written: follows the first `Call macro` child
    that is the name itself or a defined macro; no visited set.  `none` = Python's RecursionError. -/
def macroCallingMacro (p : Prog) (macros : List (String × Nat)) (name : String) : Nat → Nat → Option (List String)
  | 0, _ => none
  | fuel + 1, m =>
    let rec scan : List Nat → Option (List String)
      | [] => some []
      | c :: cs =>
        match (node p c).kind with
        | .call cn =>
          if cn = name then some [cn]
          else match macros.lookup cn with
            | some m' => (macroCallingMacro p macros name fuel m').map (fun l => cn :: l)
            | none => scan cs
        | _ => scan cs
    scan (node p m).children

def recursionLimit : Nat := 900

/-- tracking.mark_completed(node): sets `completed` unless the node failed. -/
def markCompleted (s : St) (n : Nat) : St :=
  let s := if (getRt s n).failed then s else setRt s n (fun r => { r with completed := true })
  emit s (.complete n)

/-- `tracking.mark_completed(node); node.completed = True` (the flag is set even if the node failed before). -/
def finishNode (s : St) (n : Nat) : St :=
  setRt (markCompleted s n) n (fun r => { r with completed := true })

def markFailed (s : St) (n : Nat) : St :=
  emit (setRt s n (fun r => { r with failed := true })) (.fail n)

/-- One block ended by `End block` / `End blocks`. -/
def endOneBlock (p : Prog) (s : St) (old : Nat) (newName : String) : St :=
  let s := emit s (.blockEnd (blockName p old) newName)
  let s := setRt s old (fun r => { r with blockEnded := true })
  let s := abortBlockInterrupts p s old
  emit s (.scopeEnd old)

/-- The state change of `visit_EndBlockNode` (before the node itself is marked completed). -/
def endBlockStep (p : Prog) (s : St) : St :=
  match lockedBlocks p s with
  | [] => s
  | old :: rest =>
    let newName : Option String := rest.head?.map (blockName p)
    endOneBlock p { s with blockTag := newName } old (newName.getD "")

/-- The state change of `visit_EndBlocksNode`. -/
def endBlocksStep (p : Prog) (s : St) : St :=
  let locked := lockedBlocks p s
  let s := locked.zipIdx.foldl (fun s (old, i) =>
    let newName := if i + 1 < locked.length - 1 then (locked[i + 1]?.map (blockName p)).getD "" else ""
    endOneBlock p s old newName) s
  { s with blockTag := none }

/-- Completion of an Alarm body: count, unregister, reset the subtree, register again. -/
def alarmRearm (p : Prog) (s : St) (n : Nat) : St :=
  let s := emit (markCompleted s n) (.scopeEnd n)
  let s := setRt s n (fun r => { r with runCount := r.runCount + 1 })
  let s := unregisterInterrupt s n
  let s := resetSubtree p s n
  registerInterrupt p s n

/-- `visit_CallMacroNode` "prepare invoke". -/
def callPrepare (p : Prog) (s : St) (m : Nat) : St :=
  let mr := getRt s m
  if mr.runStarted ≤ mr.runCompleted then
    setRt (resetSubtree p s m) m (fun r => { r with runStarted := r.runStarted + 1 })
  else s

/-- `visit_CallMacroNode` after the macro body returned. -/
def callFinish (s : St) (n m : Nat) : St :=
  let s := setRt s m (fun r => { r with runCompleted := r.runCompleted + 1 })
  let s := finishNode s n
  let s := setRt s m (fun r => { r with completed := true })
  setRt s n (fun r => { r with completed := true })

/-! ### one micro-step of a generator

`stepFrame p s f below` executes the top frame `f` (with the rest of the stack `below`) up to its
next yield / call / return and gives the new state, the frames replacing `f`, and a signal.
`none` for the frame list means the body raised: the frame is dropped and the enclosing wrapper
records the failure. -/

inductive Out where
  | next (s : St) (top : List Frame) (sig : Signal)
  | raise (s : St)

def stepBody (p : Prog) (s : St) (n pc : Nat) (below : List Frame) : Out :=
  let nd := node p n
  let r := getRt s n
  match nd.kind with
  | .program =>
    match pc with
    | 0 =>
      let s := emit (emit (emit s (.blockStart "root")) (.scopeStart n)) (.scopeActivate n)
      .next s [.children n 0 false, .body n 1] .cont
    | 1 => .next (emit s .methodEnd) [.body n 2] .endTick
    | _ => .next s [.body n 2] .endTick
  | .blank trailing =>
    if trailing then .next (setRt s n (fun r => { r with started := false })) [.body n 0] .endTick
    else .next (setRt s n (fun r => { r with started := true, completed := true })) [] .cont
  | .mark name =>
    match pc with
    | 0 =>
      -- `assert not node.completed` (two generators can reach the same Mark: Watch inside Alarm)
      if r.completed then .raise s else
      let s := { s with marks := s.marks ++ [name] }
      let s := emit s (.effect n ("mark:" ++ name))
      .next (finishNode s n) [.body n 1] .endTick
    | _ => .next s [] .cont
  | .simple label =>
    match pc with
    | 0 => .next (finishNode (emit s (.effect n label)) n) [.body n 1] .endTick
    | _ => .next s [] .cont
  | .base factor unit =>
    match pc with
    | 0 =>
      let s := { s with baseFactor := factor, baseUnit := unit }
      .next (finishNode (emit s (.effect n ("base:" ++ unit))) n) [.body n 1] .endTick
    | _ => .next s [] .cont
  | .failing _ => .raise (markFailed s n)
  | .macro name =>
    match pc with
    | 0 =>
      let s := if r.isRegistered then s else
        setRt { s with macros := dictSet s.macros name n } n (fun r => { r with isRegistered := true })
      .next (finishNode s n) [.body n 1] .endTick
    | _ => .next s [] .cont
  | .call name =>
    match pc with
    | 0 =>
      match s.macros.lookup name with
      | none => .raise (markFailed s n)
      | some m =>
        match OPM.MacroCheck.cascade p s.macros name m with
        | none => .raise s     -- unreachable: the repaired check always answers (C41.recursion_check_total)
        | some cascade =>
          if cascade.contains name then .raise (markFailed s n)
          else
            .next (emit (callPrepare p s m) (.bodyStart n)) [.children m 0 false, .callRet n m] .cont
    | _ => .next s [] .cont
  | .block name =>
    -- release: `lock_acquired = False; children_complete = True; child_index = len; completed = True`
    let release : Out :=
      let s := setRt s n (fun r => { r with lockAcquired := false, childrenComplete := true,
                                            childIndex := nd.children.length, completed := true })
      .next (finishNode s n) [] .cont
    match pc with
    | 0 =>
      if r.completed then .next (setRt s n (fun r => { r with lockAcquired := false })) [] .cont
      else if r.blockEnded then release
      else .next s [.body n 1] .cont
    | 1 =>
      if r.lockAcquired then .next s [.children n 0 false, .body n 3] .cont
      else
        let anc := ancestors p n
        if (lockedBlocks p s).all (fun b => anc.contains b) then
          let s := setRt s n (fun r => { r with lockAcquired := true })
          let s := { s with blockTag := some name }
          let s := emit (emit (emit s (.blockStart name)) (.scopeStart n)) (.scopeActivate n)
          let s := emit s (.bodyStart n)
          .next s [.children n 0 false, .body n 3] .cont
        else .next s [.body n 1] .endTick
    | 3 =>
      if r.blockEnded then release else .next s [.body n 3] .endTick
    | _ => .next s [] .cont
  | .endBlock =>
    match pc with
    | 0 => .next (finishNode (endBlockStep p s) n) [.body n 1] .endTick
    | _ => .next s [] .cont
  | .endBlocks =>
    match pc with
    | 0 => .next (finishNode (endBlocksStep p s) n) [.body n 1] .endTick
    | _ => .next s [] .cont
  | .wait d =>
    match pc with
    | 0 =>
      let ws := r.waitStart.getD s.tickTime
      let s := setRt s n (fun r => { r with waitStart := some ws })
      if d - 1/10 < 0 then .next s [] .cont      -- returns without completing
      else .next s [.waitLoop n (ws + d - 1/10)] .cont
    | _ => .next s [] .cont
  | .watch c =>
    match pc with
    | 0 =>
      if !r.interruptRegistered then .next (registerInterrupt p s n) [.body n 9] .endTick
      else if !s.inInterrupt then .next s [.body n 9] .endTick
      else if r.cancelled then .next s [] .cont
      else if !r.activated then .next s [.body n 1] .cont
      else .next s [.body n 2] .cont
    | 1 =>
      if r.activated then .next s [.body n 2] .cont
      else if r.cancelled then .next s [] .cont
      else .next (tryActivate s n c) [.body n 1] .endTick
    | 2 =>
      let s := emit (emit s (.scopeActivate n)) (.bodyStart n)
      .next s [.children n 0 false, .body n 3] .cont
    | 3 => .next (emit (finishNode s n) (.scopeEnd n)) [] .cont
    | _ => .next s [] .cont
  | .alarm c =>
    match pc with
    | 0 =>
      if !r.interruptRegistered then .next (registerInterrupt p s n) [.body n 9] .endTick
      else if !s.inInterrupt then .next s [.body n 9] .endTick
      else if !r.activated then .next s [.body n 1] .cont
      else .next s [.body n 2] .cont
    | 1 =>
      if r.activated then .next s [.body n 2] .cont
      else .next (tryActivate s n c) [.body n 1] .endTick
    | 2 =>
      let s := emit (emit s (.scopeActivate n)) (.bodyStart n)
      .next s [.children n 0 false, .body n 3] .cont
    | 3 =>
      .next (alarmRearm p s n) [.body n 4] .endTick
    | _ => .next s [] .cont
  | .cmd name fails =>
    match pc with
    | 0 =>
      if fails then .raise (markFailed s n)
      else .next (emit s (.effect n ("cmd:" ++ name))) [.body n 1] .endTick
    | _ => .next s [] .cont
  | .injected =>
    match pc with
    | 0 => .next (emit s (.bodyStart n)) [.children n 0 false, .body n 1] .cont
    | 1 => .next (finishNode s n) [.body n 2] .endTick
    | _ => .next s [] .cont

def stepFrame (p : Prog) (s : St) (f : Frame) (below : List Frame) : Out :=
  match f with
  | .wrapEnter n =>
    let r := getRt s n
    if r.completed then .next s [] .cont
    else .next (setRt s n (fun r => { r with hasRecord := true })) [.wrapThr n] .cont
  | .wrapThr n =>
    let r := getRt s n
    if !r.started && !r.completed && awaitingThreshold p s n then
      if inEndedBlock p s below n then .next s [] .cont
      else .next s [.wrapThr n] .endTick
    else
      let s := setRt s n (fun r => { r with started := true })
      .next (emit s (.start n)) [.wrapDispatch n] .endTick
  | .wrapDispatch n => .next s [.body n 0, .wrapAfter n] .cont
  | .wrapAfter _ => .next s [] .cont
  | .children n inx inChild =>
    let r := getRt s n
    if inChild then
      .next (setRt s n (fun r => { r with childIndex := r.childIndex + 1 })) [.children n (inx + 1) false] .cont
    else if inx = 0 && (r.completed || r.childrenComplete) then .next s [] .cont
    else
      let kids := (node p n).children
      let finish := .next (setRt s n (fun r => { r with childrenComplete := true })) [] .cont
      match kids[inx]? with
      | none => finish
      | some c =>
        if r.childrenComplete || r.completed then finish
        else if inx < r.childIndex then .next s [.children n (inx + 1) false] .cont
        else if inEndedBlock p s (f :: below) c then finish
        else .next s [.wrapEnter c, .children n inx true] .cont
  | .body n pc => stepBody p s n pc below
  | .callRet n m => .next (callFinish s n m) [.body n 2] .endTick
  | .waitLoop n endT =>
    if s.tickTime < endT && !(getRt s n).forced then
      -- progress = (tick_time - node.wait_start_time) / duration: TypeError once a reset cleared the start time
      let dpos := match (node p n).kind with | .wait d => decide (0 < d - 1/10) | _ => false
      if dpos && (getRt s n).waitStart.isNone then .raise s
      else .next s [.waitLoop n endT] .endTick
    else .next (finishNode s n) [.body n 2] .endTick

/-- Unwind after a raise in a body: drop frames up to and including the nearest `wrapAfter`,
    record the failure (`node.failed = True; _last_error = ex, node`). -/
def unwind (s : St) : List Frame → St × List Frame
  | [] => ({ s with lastError := s.lastError <|> some 0 }, [])
  | .wrapAfter n :: rest =>
    ({ (setRt s n (fun r => { r with failed := true })) with lastError := some n }, rest)
  | _ :: rest => unwind s rest

/-- One micro-step of the generator with the given stack. -/
def stepGen (p : Prog) (s : St) (stack : List Frame) : St × List Frame × Signal :=
  match stack with
  | [] => (s, [], .done)
  | f :: below =>
    match stepFrame p s f below with
    | .next s top sig => (s, top ++ below, sig)
    | .raise s =>
      let (s, rest) := unwind s below
      (s, rest, .cont)

/-- Run a generator to its next `EndTick` (or exhaustion); `fuel` bounds the micro-steps. -/
def runGen (p : Prog) : Nat → St → List Frame → St × List Frame × Bool
  | 0, s, stack => (s, stack, false)
  | fuel + 1, s, stack =>
    match stepGen p s stack with
    | (s, stack, .cont) => runGen p fuel s stack
    | (s, stack, _) => (s, stack, true)

def getGen (s : St) (gid : Nat) : Option Gen := s.gens.find? (fun g => g.gid = gid)

def setGenStack (s : St) (gid : Nat) (stack : List Frame) : St :=
  { s with gens := s.gens.map (fun g => if g.gid = gid then { g with stack := stack } else g) }

def runGid (p : Prog) (fuel : Nat) (s : St) (gid : Nat) : St × Bool :=
  match getGen s gid with
  | none => (s, true)
  | some g =>
    let (s, stack, ok) := runGen p fuel s g.stack
    (setGenStack s gid stack, ok)

structure TickIn where
  time : Rat
  scopeClock : Rat
  blockClock : Rat
  tags : List Int

def microFuel : Nat := 100000

/-- `PInterpreter.tick`: main generator, then every interrupt of a snapshot of the map. Returns the
    new state and `false` if the micro-step budget ran out (reported, never defaulted). -/
def tick (p : Prog) (s : St) (i : TickIn) : St × Bool :=
  let s := { s with tickTime := i.time, scopeClock := i.scopeClock, blockClock := i.blockClock,
                    tags := i.tags, events := [], inInterrupt := false }
  let (s, ok) := runGid p microFuel s 0
  let snapshot := s.imap.map (·.2)
  let (s, ok) := snapshot.foldl (fun (acc : St × Bool) gid =>
      let (s, ok1) := runGid p microFuel { acc.1 with inInterrupt := true } gid
      ({ s with inInterrupt := false }, acc.2 && ok1)) (s, ok)
  -- generators that are no longer registered can never run again
  let live := s.imap.map (·.2)
  ({ s with gens := s.gens.filter (fun g => g.gid = 0 || live.contains g.gid) }, ok)

def init (_p : Prog) : St :=
  { gens := [{ gid := 0, node := 0, stack := [.wrapEnter 0] }] }

/-! ### requests between ticks -/

/-- `SupportCancelForce.cancellable` with the per-class overrides of ast.py. -/
def cancellable (p : Prog) (s : St) (n : Nat) : Bool :=
  let r := getRt s n
  match (node p n).kind with
  | .watch _ | .alarm _ => !r.cancelled && !r.forced && !r.activated
  | .cmd _ _ => !r.cancelled && !r.forced        -- UOD command (`_cancellable = True`)
  | _ => false

def forcible (p : Prog) (s : St) (n : Nat) : Bool :=
  let r := getRt s n
  match (node p n).kind with
  | .watch _ | .alarm _ => !r.cancelled && !r.forced && !r.activated
  | .mark _ | .macro _ | .call _ => false
  | _ => !r.forced && !r.cancelled

def cancel (p : Prog) (s : St) (n : Nat) : Option St :=
  if (getRt s n).hasRecord && cancellable p s n then some (setRt s n (fun r => { r with cancelled := true })) else none

def force (p : Prog) (s : St) (n : Nat) : Option St :=
  if (getRt s n).hasRecord && forcible p s n then some (setRt s n (fun r => { r with forced := true })) else none

/-- The command manager reports completion of a command node (`tracking.mark_completed(request)`). -/
def completeCmd (s : St) (n : Nat) : St :=
  if (getRt s n).failed then s else setRt s n (fun r => { r with completed := true })

/-- `inject_node`: the injected subtree's nodes have been appended to the program (`inProgram = false`). -/
def inject (p : Prog) (s : St) (n : Nat) : St :=
  -- `create_injected_node_records`: every injected node gets a record at once
  let s := (n :: descendants p n).foldl (fun s k => setRt s k (fun r => { r with hasRecord := true })) s
  registerInterrupt p s n

end OPM.Interp
