/-
TrailingWs — model of `WhitespaceCheckAnalyzer` (openpectus/lang/exec/analyzer.py), which computes
`has_only_trailing_whitespace` for Blank / Comment nodes: the bit the interpreter reads to decide that a
whitespace line must not be passed (`visit_BlankNode`, `visit_CommentNode`).

`visit_NodeWithChildren` (Program, Block, Watch, Alarm, Macro): `_last_non_ws_line` := position line of the
last non-whitespace direct child (0 if there is none).  `analyze`: a whitespace node is flagged iff its
line is greater than the `_last_non_ws_line` of every ancestor (the running maximum starts at -1).
The tree is given as an array of (parent, line, isWhitespace) in the parser's node order.
Core Lean only.
-/
namespace OPM.TrailingWs

structure WNode where
  parent : Option Nat
  line : Nat
  ws : Bool
deriving Repr, Inhabited

abbrev Tree := Array WNode

def nd (t : Tree) (n : Nat) : WNode := t.getD n default

/-- `_last_non_ws_line` of node `n` -/
def lastNonWs (t : Tree) (n : Nat) : Nat :=
  (List.range t.size).foldl
    (fun acc c => if (nd t c).parent = some n && !(nd t c).ws then (nd t c).line else acc) 0

def ancestorsAux (t : Tree) : Nat → Nat → List Nat
  | 0, _ => []
  | fuel + 1, n =>
    match (nd t n).parent with
    | none => []
    | some q => q :: ancestorsAux t fuel q

def ancestors (t : Tree) (n : Nat) : List Nat := ancestorsAux t t.size n

/-- `has_only_trailing_whitespace` after `WhitespaceCheckAnalyzer.analyze` -/
def flag (t : Tree) (n : Nat) : Bool :=
  (nd t n).ws && (ancestors t n).all (fun a => decide (lastNonWs t a < (nd t n).line))

end OPM.TrailingWs
