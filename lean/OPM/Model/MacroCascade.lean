import OPM.Model.InterpBase
/-
The repaired `MacroNode.macro_calling_macro(macros, name, visited)` (openpectus/lang/model/ast.py, after
"fix: macro recursion check …"): depth-first search over all `Call macro` instructions a call of the
macro can reach, with a visited list shared by the whole search.  Used by the interpreter model
(`OPM.Interp.stepBody`, Call macro) and by the C41 theorems (`OPM.Model.MacroCheck`).  Core Lean only.
-/
namespace OPM.MacroCheck
open OPM.Interp

/-- `isinstance(child, NodeWithChildren) and not isinstance(child, MacroNode)`. -/
def isContainer (p : Prog) (n : Nat) : Bool :=
  match (node p n).kind with
  | .program | .block _ | .watch _ | .alarm _ | .injected => true
  | _ => false

def callName (p : Prog) (n : Nat) : Option String :=
  match (node p n).kind with
  | .call nm => some nm
  | _ => none

/-- The work list of the repaired function: the `Call macro` instructions below the given nodes in
    source (pre-)order, descending into Watch / Alarm / Block bodies but not into macro definitions.
    `fuel` bounds the depth (the program size suffices). -/
def callsOf (p : Prog) : Nat → List Nat → List String
  | 0, _ => []
  | fuel + 1, ns =>
    ns.flatMap (fun c =>
      match callName p c with
      | some nm => [nm]
      | none => if isContainer p c then callsOf p fuel (node p c).children else [])

/-- Names called when the body of macro node `m` runs. -/
def execCalls (p : Prog) (m : Nat) : List String := callsOf p p.size (node p m).children

/-- The loop over the calls of one macro body.  `rec m' visited` is the recursive search of a callee.
    Result: (chain of names ending in `name`, or `[]`; visited list afterwards); `none` = out of fuel. -/
def scan (macros : List (String × Nat)) (name : String)
    (rec : Nat → List Nat → Option (List String × List Nat)) :
    List String → List Nat → Option (List String × List Nat)
  | [], v => some ([], v)
  | cn :: cs, v =>
    if cn = name then some ([cn], v)
    else match macros.lookup cn with
      | none => scan macros name rec cs v
      | some m' =>
        if v.contains m' then scan macros name rec cs v
        else match rec m' v with
          | none => none
          | some (path, v') => if path.isEmpty then scan macros name rec cs v' else some (cn :: path, v')

/-- The repaired `macro_calling_macro(macros, name, visited)` for macro node `m`. -/
def cascadeAux (p : Prog) (macros : List (String × Nat)) (name : String) :
    Nat → Nat → List Nat → Option (List String × List Nat)
  | 0, _, _ => none
  | fuel + 1, m, v => scan macros name (cascadeAux p macros name fuel) (execCalls p m) (m :: v)

/-- Every recursive call visits a macro node of the table that was not visited before. -/
def cascadeFuel (macros : List (String × Nat)) : Nat := macros.length + 2

/-- `macro_node.macro_calling_macro(macros)` as called by `visit_CallMacroNode` (fresh visited list). -/
def cascade (p : Prog) (macros : List (String × Nat)) (name : String) (m : Nat) : Option (List String) :=
  (cascadeAux p macros name (cascadeFuel macros) m []).map (·.1)

/-- `cascade and macro_name in cascade`: the call is refused. -/
def refuses (p : Prog) (macros : List (String × Nat)) (name : String) (m : Nat) : Option Bool :=
  (cascade p macros name m).map (fun l => l.contains name)

end OPM.MacroCheck
