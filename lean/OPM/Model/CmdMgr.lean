/-
M2 "CmdMgr": the UOD half of `openpectus/engine/command_manager.py` (`CommandManager.schedule`, `tick` /
`execute_commands`, `_execute_uod_command`, `_cancel_command`, `_finalize_command`, `_executing_command_done`,
`_commit_commands_done`, `cancel_instruction`, `force_instruction`, `cancel_commands(finalize=True)`),
`engine/commands.py` (`EngineCommand` flags), `lang/exec/uod.py` (`create_command`, `get_command`,
`dispose_command`, `UodCommand.initialize/execute/cancel/finalize`), the marks of `lang/exec/tracking.py`
(`mark_uod_command_started`, `mark_completed`, `mark_failed`, `mark_cancelled`, `mark_forced`, suppression of
duplicate states and of states after a conclusive one in `RuntimeRecord._add_state`, `silently_skip` while tracking is disabled), the node flags of
`SupportCancelForce` for `UodCommandNode`, the run-log item flags of `RuntimeInfo._get_record_runlog_items`, and
of `internal_commands_impl.py` what C10/C12 need: Start, Stop, Restart as resident generator commands
(`cancel_all_commands`, `tracking.disable`, `emit_on_stop` = simulations cleared + run log snapshot, run id
cleared / allocated, interpreter reset = new `CommandManager` + new `Tracking`).

The model follows the code *with the repair `fixes/C11-uod-cancel-paths.diff`* when `cfg.fixCancel` /
`cfg.fixInstr` are set, and the unchanged code when they are not (used for the counter-example theorems and as
the mutant of the harness self-test).  `cfg.fixStop` switches on the repair proposed in
`fixes/C10-dispose-instances-on-stop.diff` (an instance whose arguments are rejected is disposed at once; Stop and
Restart cancel all commands a second time in their second phase).

Abstractions
* UOD exec functions are parameters (`CmdSpec`): the command completes in the iteration in which the iteration
  count reaches `dur` (0 = never), and raises in iteration `failAt`.  Whether the argument parser accepts a
  request's arguments is a property of the request (`Req.bad`).  init / finalize functions do not raise.
* `objs` holds the instances that have had a callback (serial = order of first callback); an instance that was
  created but whose arguments were rejected before `initialize()` is an entry of `stale` until a later request
  of that name initialises it or a cancellation finalizes it.
* Command requests of UOD commands are interpreter-sourced (`UodCommandNode`, one node and one run-log item per
  request); user-button requests are the lifecycle commands Start/Stop/Restart only.  A lifecycle command is
  requested only while no other lifecycle request is in flight, and UOD requests arrive only while the
  interpreter ticks (started and not stopping): other requests answer `unmodelled` and change nothing.
* Objects of `UodCommand` are kept for ever in `objs` (Python keeps them alive through tracking states);
  `inMap` says whether the object is the entry of `uod.command_instances` under its name.
* Request and instance identifiers are ordinals.
* The paused flag of the run state (Pause / Unpause commands: model M1) is an input (op `pause`), except that an
  exception out of the command phase sets it and Start / Stop / Restart clear it, as the code does.  While it is
  set, interpreter-sourced UOD requests are not executed (`_execute_uod_command` returns at once).
-/
namespace OPM.CmdMgr

inductive Name where
  | uod (k : Nat)
  | start
  | stop
  | restart
deriving DecidableEq, Repr

structure Req where
  id : Nat
  name : Name
  /-- the request carries an argument string that the command's parser rejects (`parse_args` returns None) -/
  bad : Bool := false
deriving DecidableEq, Repr

structure CmdSpec where
  dur : Nat
  failAt : Option Nat
deriving Repr, DecidableEq

structure Cfg where
  cmds : List CmdSpec := []
  overlaps : List (List Nat) := []
  /-- `_cancel_command` repaired: an unstarted UOD request is dropped; a tracking refusal does not skip finalize. -/
  fixCancel : Bool := true
  /-- `cancel_instruction` repaired: ended commands are refused; the request is looked up by instance id. -/
  fixInstr : Bool := true
  /-- `fixes/C10-dispose-instances-on-stop.diff`: `_execute_uod_command` disposes a never-initialised instance
  when `parse_args` rejects the arguments; Stop / Restart call `cancel_all_commands` again in their second phase. -/
  fixStop : Bool := true
  /-- commands whose exec function, in its failing iteration (`failAt`), calls `set_complete()` *before* it
  raises (e.g. a final hardware write that fails) -/
  completeFirst : List Nat := []
deriving Repr, DecidableEq

/-- A `UodCommand` object. `iters` = number of `execute()` calls so far (`_exec_iterations + 1`). -/
structure Cmd where
  name : Nat
  serial : Nat
  owner : Nat
  iters : Nat := 0
  initialized : Bool := false
  cancelled : Bool := false
  complete : Bool := false
  finalized : Bool := false
  inMap : Bool := true
deriving Repr, DecidableEq

inductive Mark where
  | created | started | cmdSet | completed | failed | cancelled | forced
deriving DecidableEq, Repr

def Mark.conclusive : Mark → Bool
  | .completed | .failed | .cancelled => true
  | _ => false

/-- Runtime record + node of one UOD request. `marks` carry the node's `cancellable` (= `forcible`) flag at the
time the state was added (`RuntimeRecordState.update_from_node`). -/
structure Track where
  id : Nat
  marks : List (Mark × Bool) := []
  nCancelled : Bool := false
  nForced : Bool := false
  nCompleted : Bool := false
  nFailed : Bool := false
  /-- serial of the command stored with the `UodCommandSet` state (`Tracking.get_command`) -/
  cmd : Option Nat := none
deriving Repr, DecidableEq

inductive Ev where
  | init (serial : Nat)
  | exec (serial name iter : Nat)
  | final (serial : Nat)
deriving DecidableEq, Repr

/-- System State tag as far as `_validate_control_command` reads it: `running` = any value other than
Stopped / Restarting (Running, Paused, Holding). -/
inductive Sys where
  | running | stopped | restarting
deriving DecidableEq, Repr

structure Life where
  name : Name
  phase : Nat
deriving DecidableEq, Repr

structure State where
  cfg : Cfg := {}
  nextId : Nat := 0
  queue : List Req := []
  executing : List Req := []
  done : List Nat := []
  objs : List Cmd := []
  /-- entries of `uod.command_instances` that were created but never initialised (their first request was
  rejected by the argument parser): command name ↦ `instance_id` of the request that created them -/
  stale : List (Nat × Nat) := []
  track : List Track := []
  tracking : Bool := false
  resident : Option Life := none
  restartPending : Option Req := none
  /-- set when Stop/Restart replaced the command manager inside the running loop -/
  resetTo : Option (List Req) := none
  started : Bool := false
  stopping : Bool := false
  /-- `_runstate_paused` (Pause / Unpause / error pause: model M1; here an input, op `pause`) -/
  paused : Bool := false
  sys : Sys := .stopped
  runId : Option Nat := none
  nextRun : Nat := 0
  simulated : List Nat := []
  resets : Nat := 0
  events : List Ev := []
  /-- run-log snapshots handed to `on_stop` listeners -/
  stopLog : List (List Track) := []
deriving Repr

def init : State := {}

/-! ### uod.command_instances -/

def findLive (objs : List Cmd) (k : Nat) : Option Cmd :=
  objs.find? (fun c => c.inMap && c.name == k)

def getObj (objs : List Cmd) (ser : Nat) : Option Cmd :=
  objs.find? (fun c => c.serial == ser)

def modObj (objs : List Cmd) (ser : Nat) (f : Cmd → Cmd) : List Cmd :=
  objs.map (fun c => if c.serial == ser then f c else c)

/-- `dispose_command`: pops the entry stored under the *name*. -/
def disposeName (objs : List Cmd) (k : Nat) : List Cmd :=
  objs.map (fun c => if c.name == k then { c with inMap := false } else c)

/-! ### tracking -/

def Track.free (t : Track) : Bool := !t.nCancelled && !t.nForced

def Track.hasMark (t : Track) (m : Mark) : Bool := t.marks.any (fun p => p.1 == m)

/-- The invocation has a conclusive state (Completed, Failed, Cancelled). -/
def Track.concluded (t : Track) : Bool := t.marks.any (fun p => p.1.conclusive)

/-- `RuntimeRecord._add_state`: a state that is already present for the instance is not added again, and a
concluded invocation takes no further states. -/
def Track.addMark (t : Track) (m : Mark) : Track :=
  if t.hasMark m || t.concluded then t else { t with marks := t.marks ++ [(m, t.free)] }

def getTrack (tr : List Track) (i : Nat) : Option Track := tr.find? (fun t => t.id == i)

def modTrack (tr : List Track) (i : Nat) (f : Track → Track) : List Track :=
  tr.map (fun t => if t.id == i then f t else t)

/-- Result of a tracking call: `none` = it raised `ValueError`. -/
abbrev TR := Option State

/-- `mark_cancelled(instance, update_node)`. -/
def markCancelled (s : State) (i : Nat) (updateNode : Bool) : TR :=
  if !s.tracking then some s else
  match getTrack s.track i with
  | none => none
  | some t =>
    if updateNode && !t.free then none
    else some { s with track := modTrack s.track i (fun t =>
      (if updateNode then { t with nCancelled := true } else t).addMark .cancelled) }

def markForced (s : State) (i : Nat) : TR :=
  if !s.tracking then some s else
  match getTrack s.track i with
  | none => none
  | some t =>
    if !t.free then none
    else some { s with track := modTrack s.track i (fun t => { t with nForced := true }.addMark .forced) }

def markCompleted (s : State) (i : Nat) : TR :=
  if !s.tracking then some s else
  match getTrack s.track i with
  | none => none
  | some _ => some { s with track := modTrack s.track i (fun t =>
      (if t.nFailed then t else { t with nCompleted := true }).addMark .completed) }

def markFailed (s : State) (i : Nat) : TR :=
  if !s.tracking then some s else
  match getTrack s.track i with
  | none => none
  | some _ => some { s with track := modTrack s.track i (fun t => { t with nFailed := true }.addMark .failed) }

/-- `mark_uod_command_started(command)`: states go to the record of the command's `instance_id`. -/
def markUodStarted (s : State) (owner ser : Nat) : TR :=
  if !s.tracking then some s else
  match getTrack s.track owner with
  | none => none
  | some _ => some { s with track := modTrack s.track owner (fun t =>
      let t' := t.addMark .started
      -- the command is stored with the `UodCommandSet` state, if that state is added
      if t'.hasMark .cmdSet || t'.concluded then t' else { t'.addMark .cmdSet with cmd := some ser }) }

/-- Run-log item flags `(cancellable, forcible)` of a record as `_get_record_runlog_items` computes them;
`none` = the function raises ("Error generating runlog": a state follows a conclusive one). -/
def projGo : List (Mark × Bool) → Bool → Option (Bool × Bool)
  | [], _ => some (false, false)
  | [(m, free)], cmd =>
    if m.conclusive then some (false, false) else some (free || cmd || m == .cmdSet, free)
  | (m, _) :: rest, cmd => if m.conclusive then none else projGo rest (cmd || m == .cmdSet)

def Track.item (t : Track) : Option (Bool × Bool) := projGo t.marks false

/-! ### requests -/

def isDone (s : State) (r : Req) : Bool := s.done.contains r.id

/-- `_executing_command_done` -/
def markDone (s : State) (r : Req) : State :=
  if s.executing.any (fun x => x.id == r.id) then
    (if s.done.contains r.id then s else { s with done := r.id :: s.done })
  else s

/-- `_commit_commands_done` -/
def commit (s : State) : State :=
  { s with executing := s.executing.filter (fun r => !s.done.contains r.id), done := [] }

/-- `cmd.finalize()`: flag, finalize callback, dispose. -/
def finalizeObj (s : State) (c : Cmd) : State :=
  { s with objs := disposeName (modObj s.objs c.serial (fun o => { o with finalized := true })) c.name,
           events := s.events ++ [.final c.serial] }

/-- `_finalize_command` (an already finalized command is finalized again: the code only logs). -/
def finalizeCommand (s : State) (r : Req) (c : Cmd) : State :=
  markDone (finalizeObj s c) r

/-- The tracking call of `_cancel_command`. Unchanged code: `tracking.mark_cancelled(cmd_request)`.
Repaired code (`_mark_uod_cancelled`): when the node refuses (forced, already cancelled) the state is recorded
without touching the node. `none` = `ValueError`. -/
def markReqCancelled (s : State) (i : Nat) : TR :=
  match markCancelled s i true with
  | some s' => some s'
  | none => if s.cfg.fixCancel then markCancelled s i false else none

def staleOwner (st : List (Nat × Nat)) (k : Nat) : Option Nat := (st.find? (fun e => e.1 == k)).map (·.2)

def dropStale (st : List (Nat × Nat)) (k : Nat) : List (Nat × Nat) := st.filter (fun e => e.1 != k)

/-- `cancel()` + `finalize()` of an instance that was never initialised: its only callback is `final`; it is
released.  (It gets its serial number — order of first callback — now.) -/
def tomb (s : State) (k ow : Nat) : State :=
  let c : Cmd := { name := k, serial := s.objs.length, owner := ow, cancelled := true, finalized := true, inMap := false }
  { s with objs := s.objs ++ [c], events := s.events ++ [.final s.objs.length], stale := dropStale s.stale k }

/-- `_cancel_command(cmd_request, finalize=True)` for a UOD request. Never raises (exceptions are logged). -/
def cancelCommand (s : State) (r : Req) : State :=
  match r.name with
  | .uod k =>
    match findLive s.objs k with
    | some c =>
      if !c.complete then
        let s1 := { s with objs := modObj s.objs c.serial (fun o => { o with cancelled := true }) }
        match markReqCancelled s1 r.id with
        | some s2 => finalizeCommand s2 r c
        | none => s1      -- the exception is logged and swallowed; finalize is skipped
      else finalizeCommand s r c
    | none =>
      match staleOwner s.stale k with
      | some ow =>
        -- an instance of that name exists, never initialised: cancelled and finalized like any other
        match markReqCancelled s r.id with
        | some s2 => markDone (tomb s2 k ow) r
        | none => s     -- (unchanged code only; the cancelled flag of the uninitialised instance is not modelled)
      | none =>
        -- repaired code only: a UOD request that has not started yet is dropped
        if s.cfg.fixCancel && !isDone s r then
          let s1 := markDone s r
          (markReqCancelled s1 r.id).getD s1
        else s
  | _ => s     -- no other lifecycle request is in flight (see header)

def conflictLists (cfg : Cfg) (a b : Nat) : List (List Nat) :=
  cfg.overlaps.filter (fun l => l.contains a && l.contains b)

/-- first loop of `_execute_uod_command`: same name -/
def cancelSame (r : Req) (k : Nat) : List Req → State → State
  | [], s => s
  | c :: rest, s =>
    let s' := if !isDone s c && c.name == .uod k && c.id != r.id then cancelCommand s c else s
    cancelSame r k rest s'

/-- second loop. The code calls `_cancel_command(c)` once per overlap list that contains both names; the second
and later calls find the request done / the instance gone and do nothing, so the model cancels once
(lists that share a pair are part of the generated configurations). -/
def cancelOverlap (r : Req) (k : Nat) : List Req → State → State
  | [], s => s
  | c :: rest, s =>
    let s' :=
      if !isDone s c && c.id != r.id then
        match c.name with
        | .uod j => if (conflictLists s.cfg j k).isEmpty then s else cancelCommand s c
        | _ => s
      else s
    cancelOverlap r k rest s'

def specOf (cfg : Cfg) (k : Nat) : CmdSpec := cfg.cmds.getD k ⟨0, none⟩

/-- Does this call of the exec function raise? -/
def execFails (s : State) (c : Cmd) : Bool := (specOf s.cfg c.name).failAt == some c.iters

/-- Does this call of the exec function call `set_complete()`?  (In its last iteration — or, for a command of
`cfg.completeFirst`, in the failing one, before the exception.) -/
def execCompletes (s : State) (c : Cmd) : Bool :=
  if execFails s c then s.cfg.completeFirst.contains c.name
  else (specOf s.cfg c.name).dur != 0 && decide (c.iters + 1 ≥ (specOf s.cfg c.name).dur)

/-- `UodCommand.execute`: returns the new state and whether the exec function raised. -/
def execObj (s : State) (c : Cmd) : State × Bool :=
  ({ s with objs := modObj s.objs c.serial (fun o =>
              { o with iters := c.iters + 1, complete := o.complete || execCompletes s c }),
            events := s.events ++ [.exec c.serial c.name c.iters] }, execFails s c)

/-- the `except` arm of `_execute_uod_command` followed by the one of `_execute_command` -/
def execFailed (s : State) (r : Req) (k : Nat) (ser : Nat) : State :=
  let cancelled := match getObj s.objs ser with | some o => o.cancelled | none => true
  let s1 := if !cancelled then cancelCommand s r else s
  let _ := k
  (markFailed s1 r.id).getD s1

/-- after a successful iteration: "if uod_command.is_execution_complete() and not uod_command.is_finalized()" -/
def finishCmd (s : State) (r : Req) (k : Nat) (ser : Nat) : State × Bool :=
  match getObj s.objs ser with
  | some o =>
    if o.complete && !o.finalized then
      match markCompleted s r.id with
      | none => (execFailed s r k ser, true)
      | some s => (finalizeCommand s r o, false)
    else (s, false)
  | none => (s, false)

/-- what follows a call of `uod_command.execute`: the clean-up of the `except` arm, or the completion check -/
def afterExec (p : State × Bool) (r : Req) (k ser : Nat) : State × Bool :=
  match p with
  | (s, true) => (execFailed s r k ser, true)
  | (s, false) => finishCmd s r k ser

/-- "execute command state flow" of `_execute_uod_command` for the (initialised) instance `c` -/
def runCmd (s : State) (r : Req) (k : Nat) (c : Cmd) : State × Bool :=
  if c.cancelled then
    (if !c.finalized then finalizeCommand s r c else s, false)
  else if c.iters == 0 then
    match markUodStarted s c.owner c.serial with
    | none => (execFailed s r k c.serial, true)
    | some s' => afterExec (execObj s' c) r k c.serial
  else if !c.complete then afterExec (execObj s c) r k c.serial
  else finishCmd s r k c.serial

/-- `parse_args` returned None: "Invalid arguments for command": the request is done, `ValueError`; the handler
of `_execute_command` marks it failed. -/
def failParse (s : State) (r : Req) : State :=
  (markFailed (markDone s r) r.id).getD (markDone s r)

/-- `create_command` followed by a rejected `parse_args`: the (new or older) uninitialised instance stays in
`uod.command_instances`. -/
def keepStale (s : State) (k i : Nat) : State :=
  { s with stale := if (staleOwner s.stale k).isSome then s.stale else s.stale ++ [(k, i)] }

/-- What becomes of the uninitialised instance when `parse_args` rejects the arguments: the repaired code
disposes it ("if not uod_command.is_initialized(): self.uod.dispose_command(uod_command)"), the unchanged code
leaves it in the map. -/
def rejectInst (s : State) (k i : Nat) : State :=
  if s.cfg.fixStop then { s with stale := dropStale s.stale k } else keepStale s k i

/-- `create_command` (or the older, never initialised instance), `parse_args` accepted, `initialize()`: the
instance's first callback. -/
def initNew (s : State) (k i : Nat) : State × Cmd :=
  let c : Cmd := { name := k, serial := s.objs.length, owner := (staleOwner s.stale k).getD i, initialized := true }
  ({ s with objs := s.objs ++ [c], stale := dropStale s.stale k, events := s.events ++ [.init c.serial] }, c)

/-- `_execute_uod_command` (+ the handler of `_execute_command`); `true` = an exception leaves the loop. -/
def executeUod (s : State) (r : Req) (k : Nat) : State × Bool :=
  -- "Pause inhibits execution of the method's instructions; only commands from the user run while paused"
  if s.paused then (s, false) else
  let s1 := cancelSame r k s.executing s
  let s2 := cancelOverlap r k s1.executing s1
  -- "create or get command instance", then `parse_args`
  match findLive s2.objs k with
  | some c => if r.bad then (failParse s2 r, true) else runCmd s2 r k c
  | none =>
    if r.bad then (failParse (rejectInst s2 k r.id) r, true)
    else runCmd (initNew s2 k r.id).1 r k (initNew s2 k r.id).2

/-! ### Start / Stop / Restart -/

/-- `cancel_commands(source, finalize=True)` -/
def cancelAll (src : Name) : List Req → State → State
  | [], s => s
  | c :: rest, s => cancelAll src rest (if c.name == src then s else cancelCommand s c)

/-- `emit_on_stop` (tags stop simulating, the run log of the run is reported), `clear_run_id`,
`_stop_interpreter` (new interpreter, tracking and command manager). -/
def endRun (s : State) (carry : List Req) : State :=
  { s with tracking := false, stopLog := s.stopLog ++ [s.track], simulated := [], sys := .stopped,
           runId := none, started := false, stopping := false, paused := false, track := [],
           resets := s.resets + 1,
           resetTo := some carry }

def beginRun (s : State) : State :=
  { s with started := true, paused := false, runId := some s.nextRun, nextRun := s.nextRun + 1, tracking := true,
           sys := .running }

/-- The resident command finished: `finalize()` disposes it, the request is done. -/
def lifeDone (s : State) (r : Req) : State := markDone { s with resident := none } r

/-- `StartEngineCommand._run` (no yield: the command ends in its first tick). -/
def lifeStart (s : State) (r : Req) : State :=
  if s.started then lifeDone s r else lifeDone (beginRun s) r

/-- `StopEngineCommand._run` up to its `yield`: `_runstate_stopping`, `cancel_all_commands`. -/
def lifeStop0 (s : State) (r : Req) : State :=
  if s.sys != .running then lifeDone s r
  else { cancelAll .stop s.executing { s with stopping := true } with resident := some ⟨.stop, 1⟩ }

/-- Repaired code: the second phase of Stop / Restart starts with another `cancel_all_commands` (a command
from the user's command buttons may have started since the first phase). -/
def lastCancel (src : Name) (s : State) : State :=
  if s.cfg.fixStop then cancelAll src s.executing s else s

/-- …and after it. -/
def lifeStop1 (s : State) (r : Req) : State := lifeDone (endRun (lastCancel .stop s) []) r

/-- `RestartEngineCommand._run`, first part. -/
def lifeRestart0 (s : State) (r : Req) : State :=
  if s.sys != .running then lifeDone s r
  else { cancelAll .restart s.executing { s with stopping := true, sys := .restarting }
         with resident := some ⟨.restart, 1⟩ }

/-- second part: the run ends; the new command manager inherits the Restart request. -/
def lifeRestart1 (s : State) : State :=
  { endRun (lastCancel .restart s) (match s.restartPending with | some p => [p] | none => [])
    with resident := some ⟨.restart, 2⟩ }

/-- third part: the new run begins. -/
def lifeRestart2 (s : State) (r : Req) : State := lifeDone (beginRun s) r

/-- `command.tick()` of the resident lifecycle command. -/
def tickLife (s : State) (r : Req) (l : Life) : State :=
  match l.name, l.phase with
  | .start, _ => lifeStart s r
  | .stop, 0 => lifeStop0 s r
  | .stop, _ => lifeStop1 s r
  | .restart, 0 => lifeRestart0 s r
  | .restart, 1 => lifeRestart1 s
  | .restart, _ => lifeRestart2 s r
  | .uod _, _ => s

/-- "no engine command is running - start one" -/
def startLife (s : State) (r : Req) : Name → State
  | .start => lifeStart { s with resident := some ⟨.start, 0⟩ } r
  | .stop => lifeStop0 { s with resident := some ⟨.stop, 0⟩ } r
  | .restart => lifeRestart0 { s with restartPending := some r, resident := some ⟨.restart, 0⟩ } r
  | .uod _ => s

/-- `_execute_internal_command` for the three lifecycle commands. -/
def executeLife (s : State) (r : Req) : State :=
  match s.resident with
  | some l => if l.name == r.name then tickLife s r l else s
  | none => startLife s r r.name

def executeReq (s : State) (r : Req) : State × Bool :=
  match r.name with
  | .uod k => executeUod s r k
  | _ => (executeLife s r, false)

/-- The loop of `execute_commands` over a snapshot of `cmd_executing`. -/
def loop : List Req → State → State × Bool
  | [], s => (s, false)
  | r :: rest, s =>
    if isDone s r then loop rest s
    else
      match executeReq s r with
      | (s', true) => (s', true)
      | (s', false) => loop rest s'

/-- The state in which `execute_commands` starts its loop: the queue is drained to the front of
`cmd_executing` (newest first), `cmd_executing_done` is cleared. -/
def merged (s : State) : State :=
  { s with executing := s.queue.reverse ++ s.executing, queue := [], done := [], resetTo := none }

/-- The end of the tick: the new manager after Stop/Restart replaced it, else `_commit_commands_done`;
`Engine.tick`: an exception out of the command phase → `set_error_state` (System State := Paused, paused). -/
def finish (s : State) (raised : Bool) : State :=
  let s := match s.resetTo with
    | some l => { s with executing := l, done := [], queue := [], resetTo := none, restartPending := none }
    | none => commit s
  if raised then { s with sys := .running, paused := true } else s

/-- `CommandManager.tick`: drain the queue, run the loop over a snapshot of `cmd_executing`, commit. -/
def tick (s : State) : State × Bool :=
  let r := loop (merged s).executing (merged s)
  (finish r.1 r.2, r.2)

/-! ### requests from outside -/

inductive Reply where
  | ok | err | unmodelled | id (n : Nat) | raised
deriving DecidableEq, Repr

def lifeInFlight (s : State) : Bool :=
  (s.queue ++ s.executing).any (fun r => match r.name with | .uod _ => false | _ => true)

/-- `visit_UodCommandNode`: `create_node_instance_id` + `schedule_execution`. -/
def request (s : State) (k : Nat) (bad : Bool := false) : State × Reply :=
  if !(s.started && !s.stopping) || k ≥ s.cfg.cmds.length then (s, .unmodelled)
  else
    let t : Track := { id := s.nextId }
    let t := if s.tracking then t.addMark .created else t
    ({ s with nextId := s.nextId + 1, queue := s.queue ++ [⟨s.nextId, .uod k, bad⟩], track := s.track ++ [t] },
     .id s.nextId)

/-- `execute_control_command_from_user` for Start / Stop / Restart. -/
def user (s : State) (n : Name) : State × Reply :=
  match n with
  | .uod _ => (s, .unmodelled)
  | _ =>
    if lifeInFlight s then (s, .unmodelled)
    else
      let valid := match n with
        | .start => s.sys == .stopped
        | _ => s.sys == .running
      if !valid then (s, .err)
      else ({ s with nextId := s.nextId + 1, queue := s.queue ++ [⟨s.nextId, n, false⟩] }, .ok)

/-- `Tracking.get_command(instance_id)`: the command object stored with the record, if it has started. -/
def trackObj (s : State) (t : Track) : Option Cmd :=
  match t.cmd with
  | some ser => getObj s.objs ser
  | none => none

/-- `cancel_instruction` for an id whose record holds the command `o`. -/
def cancelStarted (s : State) (i : Nat) (o : Cmd) : State × Reply :=
  if s.cfg.fixInstr && o.finalized then (s, .err)
  else
    let req := if s.cfg.fixInstr then s.executing.find? (fun r => r.id == i)
               else s.executing.find? (fun r => !isDone s r && r.name == .uod o.name)
    match req with
    | some r => (commit (cancelCommand s r), .ok)
    | none =>
      -- best effort clean-up when the request is gone
      let s1 := { s with objs := modObj s.objs o.serial (fun o => { o with cancelled := true }) }
      match markCancelled s1 o.owner true with
      | none => (s1, .err)
      | some s2 => (commit (if !o.finalized then finalizeObj s2 { o with cancelled := true } else s2), .ok)

/-- `cancel_instruction`. -/
def cancel (s : State) (i : Nat) : State × Reply :=
  match getTrack s.track i with
  | none => (s, .err)
  | some t =>
    match trackObj s t with
    | some o => cancelStarted s i o
    | none =>
      match t.cmd with
      | some _ => (s, .err)
      | none =>
        match markCancelled s i true with
        | none => (s, .err)
        | some s' => (commit s', .ok)

/-- `force_instruction` (`UodCommand.force()` does nothing). -/
def force (s : State) (i : Nat) : State × Reply :=
  match getTrack s.track i with
  | none => (commit s, .ok)       -- unknown id: logged, answered with success
  | some t =>
    let o := trackObj s t
    let ended := match o with | some o => o.finalized | none => false
    let target := match o with | some o => o.owner | none => i
    if s.cfg.fixInstr && ended then (s, .err)
    else
      match markForced s target with
      | none => (s, .err)
      | some s' => (commit s', .ok)

def simulate (s : State) (j : Nat) : State :=
  if s.simulated.contains j then s else { s with simulated := s.simulated ++ [j] }

inductive Op where
  | req (k : Nat) (bad : Bool := false)
  | user (n : Name)
  | tick
  | cancel (i : Nat)
  | force (i : Nat)
  | sim (j : Nat)
  | pause (b : Bool)
deriving DecidableEq, Repr

def step (s : State) : Op → State × Reply
  | .req k bad => request s k bad
  | .user n => user s n
  | .tick => let (s', raised) := tick s; (s', if raised then .raised else .ok)
  | .cancel i => cancel s i
  | .force i => force s i
  | .sim j => (simulate s j, .ok)
  | .pause b => ({ s with paused := b }, .ok)

def run (s : State) (ops : List Op) : State := ops.foldl (fun s o => (step s o).1) s

end OPM.CmdMgr
