import OPM.Model.Runner
/-!
Decidable step predicates that delimit the partial theorems of C27 (`OPM.Properties.C27`): which steps of the
runner model (M12) are excluded.  In a Model file because the trace-validation driver evaluates them on the
traces of the real runner (evidence: how many real traces are inside the theorems' hypotheses).  Core Lean only.
-/
namespace OPM.Runner

/-- Steps excluded by the partial theorem of the ORDER clause:
    (b) a stop notification sent directly while catching up,
    (c) a failure hitting a message that had been buffered (a fault during a catch-up re-send),
    (d) a stop notification entering the buffer between a batch take and the posts of that batch,
    (e) a failure handler overwriting the reference to a live buffer task. -/
def calmOrder (s : State) : Ev → Bool
  | .send id _ => !(decide (s.st = .catchingUp) && isStop s id)
  | .fail id => !s.everBuf.contains id
  | .buf id _ => !(isStop s id && !s.batch.isEmpty)
  | .bufTask id _ => !(isStop s id && !s.batch.isEmpty)
  | .taskClear false => !(decide (s.stask = some .buffering) && decide (s.st ≠ .reconnected) && decide (s.st ≠ .connected))
  | _ => true

/-- Steps excluded by the partial theorem of the LOSS / DELIVERY clause:
    (a) the state task clearing `_state_task` itself (swallowed self-cancellation),
    (f) a cancelled send hitting a message that carries evidence of a disconnect (its send had failed, or it
        was created while disconnected). -/
def calmLoss (s : State) : Ev → Bool
  | .taskClear true => false
  | .cancel id => !(s.fails.contains id || s.discProd.contains id)
  | _ => true

def calmStep (s : State) (e : Ev) : Bool := calmOrder s e && calmLoss s e

def alongFrom (p : State → Ev → Bool) (s : State) : List Ev → Bool
  | [] => true
  | e :: es => p s e && (match next s e with | some s' => alongFrom p s' es | none => true)

def calmFrom (s : State) (tr : List Ev) : Bool := alongFrom calmStep s tr

end OPM.Runner
