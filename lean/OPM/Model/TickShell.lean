import OPM.Gen.TickTable
/-!
# The try/except shell of `Engine.tick`  (model for C13)

Models (Python, /repo/openpectus/engine):
* `engine.py` — `Engine.tick` as the list of its calls in source order (`OPM.Gen.TickTable.tickPhases`,
  regenerated from the source on every run, `read_process_image`/`write_process_image` inlined): every
  phase runs under its guard (`if not self._running`, `if self._runstate_started …`), may raise according
  to a *fault plan*, and a raise is either caught by the enclosing `try` (then the handler runs:
  `set_error_state`, or `if not self.has_error_state(): set_error_state`, possibly followed by `return`)
  or escapes the tick.  `set_error_state` itself may raise (`HF`): at its first call, before any state was
  changed, or at its last call (`emit_on_method_error`), after all of it was changed.  Also
  `_validate_control_command` / `execute_control_command_from_user`, `clear_error_state` via the
  merge branch of `_set_method`.
* `command_manager.py` / `internal_commands_impl.py` — what `CommandManager.tick` does with the user's
  argument-less Start/Stop/Pause/Unpause/Hold/Unhold requests: queue drained to the *front* of
  `cmd_executing`, one pass over it, `Stop` as a generator with one `yield` (a resident command instance
  while suspended; a second Stop request resumes the same instance), the CommandManager replaced when Stop
  completes (`_stop_interpreter` → `on_interpreter_reset`).

Abstractions: what the phases compute (tag values, clocks, the interpreter) is not modelled — only whether
a phase raises (the fault plan) and the run flags / System State / Method Status / `_last_error` they
leave; the interpreter phase only records that the program has started (`program_is_started`, which
selects merge vs. set in `_set_method`).  Restart, command arguments and UOD commands are not in this model
(M1 `RunState` has them).  One register per direction (the per-register loops run once).
Core Lean only.
-/
namespace OPM.TickShell
open OPM.Gen.TickTable

inductive Sys where
  | running | paused | holding | stopped
deriving DecidableEq, Repr

inductive Cmd where
  | start | stop | pause | unpause | hold | unhold
deriving DecidableEq, Repr

structure Shell where
  /-- `Engine._running` -/
  running : Bool := true
  started : Bool := false
  paused : Bool := false
  holding : Bool := false
  stopping : Bool := false
  sys : Sys := .stopped
  /-- Method Status tag = Error -/
  methodErr : Bool := false
  /-- `_last_error is not None` -/
  lastErr : Bool := false
  /-- `method_manager.program_is_started` -/
  progStarted : Bool := false
  /-- `cmd_queue` (oldest first) -/
  queue : List Cmd := []
  /-- `cmd_executing` -/
  executing : List Cmd := []
  /-- a Stop command instance is suspended at its `yield` -/
  stopInst : Bool := false
deriving DecidableEq, Repr

/-! ## `set_error_state` and the handlers -/

/-- the state changes of `set_error_state` -/
def setErr (s : Shell) : Shell :=
  if s.started then { s with methodErr := true, sys := .paused, lastErr := true, paused := true }
  else { s with methodErr := true, lastErr := true }   -- no run active: reported, state stays Stopped (repair 560eee15)

/-- fault inside `set_error_state`: none / at its first call (nothing changed yet, except that the error may already
    be recorded in `_last_error` when that assignment precedes the call: `errorRecordedFirst`, regenerated from the
    source — the order of the two is otherwise immaterial) / at its last call
    (`emit_on_method_error`; everything already changed) -/
inductive HF where
  | none | first | last
deriving DecidableEq, Repr

/-- `set_error_state` under a handler fault: new state and whether it raised -/
def setErrorState (hf : HF) (s : Shell) : Shell × Bool :=
  match hf with
  | .none => (setErr s, false)
  | .first => ((if errorRecordedFirst then { s with lastErr := true } else s), true)
  | .last => (setErr s, true)

/-- body of the `except` clause -/
def runHandler (h : Handler) (hf : HF) (s : Shell) : Shell × Bool :=
  match h with
  | .setError => setErrorState hf s
  | .setErrorIfNone => if s.lastErr then (s, false) else setErrorState hf s
  | .none => (s, false)
  | .other => (s, false)

/-! ## faults -/

/-- what a faulting phase raises: a `HardwareLayerException`, or some other `Exception` -/
inductive Fault where
  | hw | other
deriving DecidableEq, Repr

def covers : Fault → List String → Bool
  | .hw, cs => cs.contains "HardwareLayerException" || cs.contains "Exception" || cs.contains "BaseException"
  | .other, cs => cs.contains "Exception" || cs.contains "BaseException"

structure Plan where
  /-- phase index ↦ what it raises (first entry for an index counts) -/
  faults : List (Nat × Fault) := []
  hf : HF := .none
deriving Repr

def Plan.at (pl : Plan) (i : Nat) : Option Fault := pl.faults.lookup i

/-! ## the command phase -/

def accepts (s : Shell) : Cmd → Bool
  | .start => s.sys == .stopped
  | .stop => s.sys != .stopped
  | .pause => s.sys != .stopped && !s.paused
  | .unpause => s.sys != .stopped && s.paused
  | .hold => s.sys != .stopped && !s.holding
  | .unhold => s.sys != .stopped && s.holding

/-- `execute_control_command_from_user` -/
def user (s : Shell) (c : Cmd) : Shell × Bool :=
  if accepts s c then ({ s with queue := s.queue ++ [c] }, true) else (s, false)

/-- second half of `StopEngineCommand._run` (after the `yield`) -/
def stopFinish (s : Shell) : Shell :=
  { s with paused := false, holding := false, stopping := false, methodErr := false, sys := .stopped,
           started := false, progStarted := false, stopInst := false }

/-- state of the loop of `execute_commands` -/
structure Loop where
  s : Shell
  /-- requests that were not marked done -/
  keep : List Cmd := []
  /-- `engine._command_manager` was replaced during the loop -/
  replaced : Bool := false

/-- `_execute_command` for one request (argument-less internal commands).
    Result: the state, and whether the request is done. -/
def execOne (l : Loop) (c : Cmd) : Loop :=
  let s := l.s
  let done (s : Shell) : Loop := { l with s := s }
  if !s.started && (c == .pause || c == .unpause || c == .hold || c == .unhold) then done s
  else match c with
  | .start =>
    if s.started then done s
    else done { s with started := true, paused := false, holding := false, sys := .running, methodErr := false }
  | .pause => done { s with paused := true, sys := .paused }
  | .unpause => done { s with paused := false, sys := if s.holding then .holding else .running }
  | .hold => done { s with holding := true, sys := if s.paused then s.sys else .holding }
  | .unhold => done { s with holding := false, sys := if s.paused then s.sys else .running }
  | .stop =>
    if s.stopInst then { l with s := stopFinish s, replaced := true }     -- resume the suspended instance
    else if s.sys == .stopped then done s                                 -- a new instance fails at once
    else { l with s := { s with stopping := true, stopInst := true }, keep := l.keep ++ [c] }

/-- `CommandManager.tick` -/
def cmdPhase (s : Shell) : Shell :=
  let reqs := s.queue.reverse ++ s.executing
  let l := reqs.foldl execOne { s := { s with queue := [] } }
  if l.replaced then { l.s with queue := [], executing := [] } else { l.s with executing := l.keep }

def cmdCallee : String := "self._command_manager.tick"
def interpCallee : String := "self.interpreter.tick"

/-- what a phase that returns normally leaves in the shell -/
def effect (callee : String) (s : Shell) : Shell :=
  if callee = cmdCallee then cmdPhase s
  else if callee = interpCallee then { s with progStarted := true }
  else s

/-! ## one tick -/

def condHolds : Cond → Shell → Bool
  | .always, _ => true
  | .notRunning, s => !s.running
  | .started, s => s.started
  | .runnable, s => s.started && !s.paused && !s.holding && !s.stopping
  | .unknown, _ => false

structure Acc where
  s : Shell
  /-- an exception escaped the tick -/
  raised : Bool := false
  /-- a handler `return`ed: the remaining phases of this function are skipped -/
  skip : Option String := none
deriving Repr

def stepPhase (pl : Plan) (acc : Acc) (i : Nat) (p : Phase) : Acc :=
  if acc.raised then acc
  else if acc.skip = some p.fn then acc
  else if !condHolds p.cond acc.s then { acc with skip := none }
  else match pl.at i with
    | none => { acc with s := effect p.callee acc.s, skip := none }
    | some k =>
      if covers k p.catches then
        let r := runHandler p.handler pl.hf acc.s
        { s := r.1, raised := r.2, skip := if p.handlerReturns then some p.fn else none }
      else { acc with raised := true, skip := none }

/-- the phases `ps`, the first of which has index `i` -/
def tickFrom (pl : Plan) : Nat → List Phase → Acc → Acc
  | _, [], acc => acc
  | i, p :: ps, acc => tickFrom pl (i + 1) ps (stepPhase pl acc i p)

/-- `Engine.tick` over the phase table `ps`: the state afterwards and whether the tick raised -/
def tick (ps : List Phase) (pl : Plan) (s : Shell) : Shell × Bool :=
  let a := tickFrom pl 0 ps { s := s }
  (a.s, a.raised)

/-- several ticks -/
def run (ps : List Phase) : List Plan → Shell → Shell
  | [], s => s
  | pl :: pls, s => run ps pls (tick ps pl s).1

/-- Number of command phases (`CommandManager.tick` calls that return normally) an accepted Stop needs
    until the run is stopped: one up to the `yield` of `StopEngineCommand._run`, one for the rest
    (theorem `OPM.C13.stop_completes`). The oracle of C13 takes its bound from here. -/
def stopTicks : Nat := 2

/-! ## a corrected method: `_set_method` -/

/-- `Engine.set_method` with a method the merge accepts: the merge branch clears the error state.
    Both branches install a new interpreter, and `on_interpreter_reset` replaces the CommandManager by an
    empty one: requests that were accepted but not yet executed (`cmd_queue`) and requests in progress
    (`cmd_executing`, e.g. a Stop at its `yield`) are dropped; the suspended Stop *instance* stays in the
    registry.
    (The interpreter created by the merge has a program that is not started — the transplant of the
    run state is empty, see the findings of C01 — so `program_is_started` is false until the interpreter
    phase runs again.) -/
def fix (s : Shell) : Shell × Bool :=
  if s.started && s.progStarted then
    ((if s.lastErr then { s with lastErr := false, methodErr := false, progStarted := false, queue := [], executing := [] }
      else { s with progStarted := false, queue := [], executing := [] }), true)
  else ({ s with queue := [], executing := [] }, false)

end OPM.TickShell
