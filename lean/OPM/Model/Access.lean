/-
M14 Access: `openpectus/aggregator/routers/auth.py` (`has_access`), the two role guards
`process_unit.get_registered_engine_data_or_fail` / `recent_runs.get_recent_run_or_fail`, the listings
(`get_units`, `get_all_process_values_of_all_available_engines`, `get_recent_runs`) and the shape of every
endpoint as far as access is concerned: which object it takes, whether it calls a guard before it touches
the object's data, whether it forwards something to the unit.

Python:
    has_access(x, user_roles) = len(set(x.required_roles)) == 0 or len(set(x.required_roles) & user_roles) > 0
    guard(id, user_roles)     = 404 if the object does not exist, 403 {'missing_roles': …} unless has_access,
                                otherwise the object; the handler body runs only after the guard returned.
An endpoint without guard that touches the data (the LSP router) looks the object up and proceeds.
What the handler body does after the guard is abstracted to `pass` ("the request went through").
Role sets are lists (order/multiplicity irrelevant: only membership is used). Core Lean only.
-/
namespace OPM.Access

inductive Target where
  | unit              -- path parameter `unit_id` / `engine_id`, or the LSP `engineId` option
  | run               -- path parameter `run_id`
  | unitsWithRecent   -- listing: registered units, then recent engines from the database
  | unitsOnline       -- listing: registered units only
  | runs              -- listing: recent runs
  | none
deriving DecidableEq, Repr

inductive Guard where
  | unitOrFail | runOrFail | filter | none
  | unknown            -- the translator could not tell whether a listing is filtered
deriving DecidableEq, Repr

structure Route where
  path : String
  method : String
  handler : String
  router : String
  target : Target
  guard : Guard
  touches : Bool      -- the handler reads unit/run data or forwards a request to the unit
  command : Bool      -- POST: commands, method edits, cancels, forces, user registration
deriving DecidableEq, Repr

def hasAccess (required user : List String) : Bool :=
  required.isEmpty || required.any (fun r => user.contains r)

/-! `has_access` as it is written in the source, translated by the route translator (`Gen.Routes.hasAccessExpr`);
`Properties/C32.lean` proves that it evaluates to `hasAccess` for all role lists. -/

/-- the sets `has_access` speaks about -/
inductive SetExpr where
  | req                        -- set(engine_or_run.required_roles)
  | user                       -- user_roles
  | both                       -- their intersection, however it is written (a & b, b & a, set.intersection …)
deriving DecidableEq, Repr

inductive AccExpr where
  | isEmpty (s : SetExpr)      -- len(s) == 0, s.isdisjoint(…) for `both`
  | nonEmpty (s : SetExpr)     -- len(s) > 0, bool(s), truthiness of s, any(r in … for r in …) for `both`
  | const (b : Bool)
  | or (a b : AccExpr)
  | and (a b : AccExpr)
  | not (a : AccExpr)
  | unknown (src : String)     -- outside the translated fragment
deriving DecidableEq, Repr

def SetExpr.eval (required user : List String) : SetExpr → List String
  | .req => required
  | .user => user
  | .both => required.filter (fun x => user.contains x)

/-- `none`: the source contains something that is not modelled -/
def AccExpr.eval (required user : List String) : AccExpr → Option Bool
  | .isEmpty s => some (s.eval required user).isEmpty
  | .nonEmpty s => some (!(s.eval required user).isEmpty)
  | .const b => some b
  | .or a b => do some ((← a.eval required user) || (← b.eval required user))
  | .and a b => do some ((← a.eval required user) && (← b.eval required user))
  | .not a => do some (!(← a.eval required user))
  | .unknown _ => none

/-- The same evaluation over the three facts an expression can observe: `required` empty, `user` empty,
the intersection non-empty. -/
def SetExpr.emptyAbs (er eu n : Bool) : SetExpr → Bool
  | .req => er
  | .user => eu
  | .both => !n

def AccExpr.evalAbs (er eu n : Bool) : AccExpr → Option Bool
  | .isEmpty s => some (s.emptyAbs er eu n)
  | .nonEmpty s => some (!(s.emptyAbs er eu n))
  | .const b => some b
  | .or a b => do some ((← a.evalAbs er eu n) || (← b.evalAbs er eu n))
  | .and a b => do some ((← a.evalAbs er eu n) && (← b.evalAbs er eu n))
  | .not a => do some (!(← a.evalAbs er eu n))
  | .unknown _ => none

/-- a process unit, recent engine or recent run: id and required roles -/
structure Res where
  id : String
  required : List String
deriving DecidableEq, Repr

structure World where
  units : List Res     -- registered (online) units, registration order
  recent : List Res    -- recent engines in the database
  runs : List Res      -- recent runs in the database
deriving Repr

inductive Resp where
  | notFound
  | forbidden (missing : List String)
  | pass                       -- the handler body ran (data returned / request forwarded)
  | list (ids : List String)
  | illFormed                  -- target/guard combination that no endpoint has
deriving DecidableEq, Repr

def find : List Res → String → Option Res
  | [], _ => none
  | r :: rest, id => if r.id = id then some r else find rest id

def guarded (l : List Res) (id : String) (user : List String) : Resp :=
  match find l id with
  | none => .notFound
  | some r => if hasAccess r.required user then .pass else .forbidden r.required

def unguarded (l : List Res) (id : String) : Resp :=
  match find l id with
  | none => .notFound
  | some _ => .pass

def visible (user : List String) (l : List Res) : List Res := l.filter (fun r => hasAccess r.required user)

def unitListing (w : World) (user : List String) (withRecent : Bool) : List String :=
  (visible user w.units).map (·.id) ++
    (if withRecent then
      ((visible user w.recent).filter (fun r => !(w.units.map (·.id)).contains r.id)).map (·.id)
     else [])

def unitListingUnfiltered (w : World) (withRecent : Bool) : List String :=
  w.units.map (·.id) ++
    (if withRecent then (w.recent.filter (fun r => !(w.units.map (·.id)).contains r.id)).map (·.id) else [])

/-- What the endpoint answers to a request for object `id` by a user with roles `user`. -/
def respond (r : Route) (w : World) (id : String) (user : List String) : Resp :=
  match r.target, r.guard with
  | .unit, .unitOrFail => guarded w.units id user
  | .run, .runOrFail => guarded w.runs id user
  | .unit, .none => if r.touches then unguarded w.units id else .pass
  | .run, .none => if r.touches then unguarded w.runs id else .pass
  | .unitsWithRecent, .filter => .list (unitListing w user true)
  | .unitsOnline, .filter => .list (unitListing w user false)
  | .runs, .filter => .list ((visible user w.runs).map (·.id))
  | .unitsWithRecent, .none => .list (unitListingUnfiltered w true)
  | .unitsOnline, .none => .list (unitListingUnfiltered w false)
  | .runs, .none => .list (w.runs.map (·.id))
  | .none, _ => .pass
  | _, _ => .illFormed

/-- Does the request reach the unit's data / the unit itself (dispatcher)? -/
def reaches (r : Route) (w : World) (id : String) (user : List String) : Bool :=
  r.touches && respond r w id user = .pass

def Route.takesObject (r : Route) : Bool := r.target = .unit || r.target = .run
def Route.isListing (r : Route) : Bool :=
  r.target = .unitsWithRecent || r.target = .unitsOnline || r.target = .runs

/-- the object a request names -/
def lookupTarget (r : Route) (w : World) (id : String) : Option Res :=
  match r.target with
  | .unit => find w.units id
  | .run => find w.runs id
  | _ => none

/-- table predicate: an endpoint that takes a unit/run and touches its data calls the matching guard first;
a listing filters by `has_access` -/
def Route.guardedOk (r : Route) : Bool :=
  match r.target with
  | .unit => !r.touches || r.guard = .unitOrFail
  | .run => !r.touches || r.guard = .runOrFail
  | .unitsWithRecent | .unitsOnline | .runs => r.guard = .filter
  | .none => true

/-! ## Histories: how the aggregator's picture of a unit's required roles comes about

`AggregatorMessageHandlers` / `FromEngine`: `handle_RegisterEngineMsg` + `handle_UodInfoMsg` (one `connect`
event: the engine sends its UodInfo right after registering), a later `UodInfoMsg`, `RunStartedMsg`,
`RunStoppedMsg` (`run_started`, `run_stopped`, `EngineData.reset_run`, `store_recent_run`) and
`handle_EngineDisconnected` (`store_recent_engine`, removal from the engine map). Required roles are a
property of the unit that only a UodInfo sets; run events copy them into the stored recent run and (since the
"active run survives an aggregator restart" repair) into the recent-engine row, which `run_started` /
`run_stopped` now write right away (`store_recent_engine`: roles, active run id); a disconnect writes that row too. -/

structure UnitSt where
  id : String
  roles : List String
  run : Option String          -- run id of the active run
deriving DecidableEq, Repr

structure RecentRow where
  id : String
  roles : List String
  run : Option String          -- the run that was active when the engine disconnected
deriving DecidableEq, Repr

structure AState where
  online : List UnitSt         -- `_engine_data_map`, insertion order
  recent : List RecentRow      -- table RecentEngines
  runs : List Res              -- table RecentRuns
deriving Repr

def AState.init : AState := ⟨[], [], []⟩

inductive Event where
  | connect (u : String) (roles : List String)    -- RegisterEngineMsg, then UodInfoMsg(required_roles)
  | uodInfo (u : String) (roles : List String)
  | runStarted (u : String) (run : String)
  | runStopped (u : String) (run : String)
  | disconnect (u : String)
deriving DecidableEq, Repr

def findU : List UnitSt → String → Option UnitSt
  | [], _ => none
  | x :: rest, u => if x.id = u then some x else findU rest u

def setRoles (u : String) (roles : List String) (l : List UnitSt) : List UnitSt :=
  l.map (fun x => if x.id = u then { x with roles := roles } else x)

def setRun (u : String) (run : Option String) (l : List UnitSt) : List UnitSt :=
  l.map (fun x => if x.id = u then { x with run := run } else x)

def upsertRecent (row : RecentRow) (l : List RecentRow) : List RecentRow :=
  if l.any (fun x => x.id = row.id) then l.map (fun x => if x.id = row.id then row else x) else l ++ [row]

def step (s : AState) : Event → AState
  | .connect u roles =>
    match findU s.online u with
    | some _ => { s with online := setRoles u roles s.online }   -- still registered: only the UodInfo acts
    | none =>
      let restored := match s.recent.find? (fun r => r.id = u) with
        | some row => row.run
        | none => none
      { s with online := s.online ++ [⟨u, roles, restored⟩] }
  | .uodInfo u roles => { s with online := setRoles u roles s.online }
  | .runStarted u r =>
    match findU s.online u with
    | none => s
    | some x =>
      -- the row of the unit is (re)written right away with the unit's current roles and the run now active
      let recent' := upsertRecent ⟨u, x.roles, some r⟩ s.recent
      match x.run with
      | none => { s with online := setRun u (some r) s.online, recent := recent' }
      | some cur =>
        if cur = r then { s with recent := recent' }
        else { s with runs := s.runs ++ [⟨cur, x.roles⟩], online := setRun u (some r) s.online, recent := recent' }
  | .runStopped u _ =>
    match findU s.online u with
    | none => s
    | some x =>
      match x.run with
      | none => s
      | some cur => { s with runs := s.runs ++ [⟨cur, x.roles⟩], online := setRun u none s.online,
                             recent := upsertRecent ⟨u, x.roles, none⟩ s.recent }
  | .disconnect u =>
    match findU s.online u with
    | none => s
    | some x => { s with recent := upsertRecent ⟨u, x.roles, x.run⟩ s.recent,
                         online := s.online.filter (fun y => y.id ≠ u) }

def runHistory (h : List Event) : AState := h.foldl step AState.init

/-- what the routers see -/
def worldOf (s : AState) : World :=
  ⟨s.online.map (fun x => ⟨x.id, x.roles⟩), s.recent.map (fun x => ⟨x.id, x.roles⟩), s.runs⟩

/-- Specification of a unit's required roles: what its last UodInfo said, while it is connected. Run events
do not appear in it. -/
def specStep (m : String → Option (List String)) : Event → String → Option (List String)
  | .connect u roles => fun v => if v = u then some roles else m v
  | .uodInfo u roles => fun v => if v = u then (if (m u).isSome then some roles else none) else m v
  | .disconnect u => fun v => if v = u then none else m v
  | .runStarted _ _ => m
  | .runStopped _ _ => m

def specRoles (h : List Event) : String → Option (List String) := h.foldl specStep (fun _ => none)

end OPM.Access
