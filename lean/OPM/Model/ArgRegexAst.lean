import OPM.Model.ArgRegex
/-
M9 ArgRegex, second half (C22): the regular expressions that `RegexNumber` / `RegexNumberOptional` /
`RegexCategorical` emit, as abstract syntax.

On every run the harness parses the pattern text the Python builder returned with CPython's own regex parser
(`re._parser.parse`), normalises the parse tree (see `props/C22.py: translate`) and sends it here; the driver decides
*structural equality* with `astNumber` / `astNumberOptional` / `astCategorical` for the units / options / flags read
off the pattern.  `OPM.Properties.C22` proves that the language of these ASTs (declarative semantics `Lang` in
Lemmas/ArgRegexLang.lean) is exactly the documented language, i.e. the language of the acceptors of
`OPM.Model.ArgRegex`.

Documented normalisation (all language preserving): the anchors `^ … $` around the pattern are taken off (a pattern
ending in `\s*` matches before a final line feed iff it matches at the end: theorem `dollar_is_end`); unnamed
capturing groups are transparent, named groups are kept; lazy and greedy repetition are the same; `[.]` is the
character `.`; a group that stands for a finite list of literal alternatives (`U1|U2|…`, which CPython's parser
factors by common prefix) is given as the list of its literal strings in pattern order; `x+` is `x x*`, `x?` is `x|ε`;
a sequence / alternation of one element is that element.  Core Lean only.
-/
namespace OPM.ArgRegex

inductive Cls where
  | space   -- `\s`
  | digit   -- `[0-9]`
deriving DecidableEq, Repr

inductive Re where
  | eps
  | never                      -- `(?!)`
  | chr (c : Char)
  | cls (k : Cls)
  | seq (a b : Re)
  | alt (a b : Re)
  | star (a : Re)
  | grp (name : Str) (a : Re)   -- `(?P<name>…)`
deriving DecidableEq, Repr

namespace Re
def plus (a : Re) : Re := .seq a (.star a)
def opt (a : Re) : Re := .alt a .eps
end Re

def seqL : List Re → Re
  | [] => .eps
  | a :: l => .seq a (seqL l)

def altL : List Re → Re
  | [] => .never
  | a :: l => .alt a (altL l)

/-- A sequence of one element is that element. -/
def mkSeq : List Re → Re
  | [a] => a
  | l => seqL l

/-- An alternation of one element is that element. -/
def mkAlt : List Re → Re
  | [a] => a
  | l => altL l

/-- A literal string. -/
def lit (x : Str) : Re := mkSeq (x.map .chr)

def nameNumber : Str := ['n', 'u', 'm', 'b', 'e', 'r']

/-- The alternatives inside `(?P<number>…)`. -/
def astNumAlts (nonNeg intOnly : Bool) : Re :=
  let sign : List Re := if nonNeg then [] else [Re.opt (.chr '-')]
  let d : Re := .cls .digit
  if intOnly then mkAlt [mkSeq (sign ++ [d.plus]), mkSeq (sign ++ [d.plus])]
  else mkAlt [mkSeq (sign ++ [d.plus, .chr '.', .star d]), mkSeq (sign ++ [.chr '.', d.plus]), mkSeq (sign ++ [d.plus])]

/-- `RegexNumber(units, non_negative, int_only)` without its anchors. -/
def astNumber (units : List Str) (nonNeg intOnly : Bool) : Re :=
  let sp : Re := .star (.cls .space)
  mkSeq ([sp, .grp nameNumber (astNumAlts nonNeg intOnly), sp] ++
    (if units.isEmpty then [] else [Re.opt (.chr ' '), .grp nameUnit (mkAlt (units.map lit))]) ++ [sp])

/-- `RegexNumberOptional(…)`: `(^…$)|^\s*$`. -/
def astNumberOptional (units : List Str) (nonNeg intOnly : Bool) : Re :=
  mkAlt [astNumber units nonNeg intOnly, .star (.cls .space)]

/-- `RegexCategorical(ex, ad)` without its anchors: `(?P<option>(E1|…|(A1|…)(\+(A1|…))*))\s*`. -/
def astCategorical (ex ad : List Str) : Re :=
  let a : Re := mkAlt (ad.map lit)
  let addPart : Re := mkSeq [a, .star (mkSeq [.chr '+', a])]
  let e : List Re := if ex.isEmpty then [.never] else ex.map lit
  mkSeq [.grp nameOption (mkAlt (e ++ [addPart])), .star (.cls .space)]

/-! ### wire format (prefix notation, tokens separated by spaces)
`E` ε · `N` never · `C<code point>` · `S` · `D` · `*` x · `p` x (plus) · `o` x (optional) · `g<name as code points, _-separated>` x ·
`q<k>` x₁…x_k (sequence) · `a<k>` x₁…x_k (alternation) -/

def decodeName (s : String) : Option Str :=
  if s.isEmpty then some [] else (s.splitOn "_").mapM (fun p => p.toNat?.map Char.ofNat)

mutual
  /-- One expression from the token list; `fuel` bounds the recursion. -/
  def decodeRe : Nat → List String → Option (Re × List String)
    | 0, _ => none
    | _, [] => none
    | fuel + 1, t :: ts =>
      if t = "E" then some (.eps, ts)
      else if t = "N" then some (.never, ts)
      else if t = "S" then some (.cls .space, ts)
      else if t = "D" then some (.cls .digit, ts)
      else if t = "*" then (decodeRe fuel ts).map (fun p => (.star p.1, p.2))
      else if t = "p" then (decodeRe fuel ts).map (fun p => (p.1.plus, p.2))
      else if t = "o" then (decodeRe fuel ts).map (fun p => (p.1.opt, p.2))
      else match t.toList with
        | 'C' :: r => (String.ofList r).toNat?.map (fun n => (.chr (Char.ofNat n), ts))
        | 'g' :: r =>
          match decodeName (String.ofList r), decodeRe fuel ts with
          | some name, some p => some (.grp name p.1, p.2)
          | _, _ => none
        | 'q' :: r =>
          match (String.ofList r).toNat? with
          | some k => (decodeList fuel k ts).map (fun p => (mkSeq p.1, p.2))
          | none => none
        | 'a' :: r =>
          match (String.ofList r).toNat? with
          | some k => (decodeList fuel k ts).map (fun p => (mkAlt p.1, p.2))
          | none => none
        | _ => none
  def decodeList : Nat → Nat → List String → Option (List Re × List String)
    | 0, _, _ => none
    | _, 0, ts => some ([], ts)
    | fuel + 1, k + 1, ts =>
      match decodeRe fuel ts with
      | none => none
      | some (a, ts') =>
        match decodeList fuel k ts' with
        | none => none
        | some (l, ts'') => some (a :: l, ts'')
end

def decodeAst (s : String) : Option Re :=
  let ts := (s.splitOn " ").filter (· ≠ "")
  match decodeRe (2 * ts.length + 2) ts with
  | some (r, []) => some r
  | _ => none

end OPM.ArgRegex
