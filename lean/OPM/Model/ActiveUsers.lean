/-
M13 (part): active-user tracking of `openpectus/aggregator/aggregator.py` (`FromFrontend`):

* `user_subscribed_pubsub(subscriber_id, topics)` — for every topic that starts with `dead_man_switch`, in order,
  `topic.split("/")[1]` is recorded as a user of the connection (`IndexError` at a topic without `/`; what was
  recorded before it stays);
* `on_ws_disconnect(subscriber_id)` — the connection's entry is removed from `dead_man_switch_user_ids`; every
  user it carried who has no other entry is popped from `active_users` of every unit;
* `register_active_user(engine_id, user_id, name)` / `unregister_active_user(engine_id, user_id)`.

This is the code *with* the repair of /verif/fixes/C37-prune-dead-man-switch-map.diff (connection → set of users,
entry pruned on disconnect, unknown connection tolerated).  The code before the repair kept one user per
connection, never removed an entry and raised `KeyError` for a connection without entry: `stepOld`.

Abstractions: connection, user and unit ids are `Nat` (the harness maps them to strings); `dms` is the set of
(connection, user) pairs of `dead_man_switch_user_ids`; `active` the set of (unit, user) pairs over all
`engine_data.active_users`; units are `0 … nUnits-1`, all registered at the start; `FromEngine.engine_disconnected`
/ `register_engine_data` take a unit out of `_engine_data_map` / put a fresh `EngineData` in (`down` = units that are
away; their lists are gone with the object, requests for them answer False); the user *name* and
the `publish_active_users_changed` notifications are not modelled.
-/
namespace OPM.ActiveUsers

inductive Topic where
  | dms (u : Nat)   -- "dead_man_switch/<u>"
  | other           -- any topic that does not start with "dead_man_switch"
  | bad             -- starts with "dead_man_switch" but has no "/": `split("/")[1]` raises IndexError
deriving Repr, DecidableEq

inductive Op where
  | subscribe (c : Nat) (topics : List Topic)
  | disconnect (c : Nat)
  | register (e u : Nat)
  | unregister (e u : Nat)
  | engineDown (e : Nat)   -- FromEngine.engine_disconnected(e): the unit's EngineData leaves the map
  | engineUp (e : Nat)     -- FromEngine.register_engine_data(fresh EngineData for e)
deriving Repr, DecidableEq

inductive Out where
  | ok | indexError | keyError | true | false
deriving Repr, DecidableEq

structure State where
  dms : List (Nat × Nat)      -- (connection, user)
  active : List (Nat × Nat)   -- (unit, user)
  down : List Nat := []       -- units (< nUnits) whose engine is currently away: not in `_engine_data_map`
deriving Repr, DecidableEq

def init : State := ⟨[], [], []⟩

/-- Users named by the dead-man-switch topics that are processed before the first malformed one. -/
def subscribedUsers : List Topic → List Nat
  | [] => []
  | .dms u :: ts => u :: subscribedUsers ts
  | .other :: ts => subscribedUsers ts
  | .bad :: _ => []

def hasBad : List Topic → Bool
  | [] => false
  | .dms _ :: ts => hasBad ts
  | .other :: ts => hasBad ts
  | .bad :: _ => true

def addPair (p : Nat × Nat) (l : List (Nat × Nat)) : List (Nat × Nat) := if p ∈ l then l else p :: l

/-- Pop from every unit each user of `us` that has no entry left in `dms`. -/
def dropUsers (dms : List (Nat × Nat)) (us : List Nat) (active : List (Nat × Nat)) : List (Nat × Nat) :=
  active.filter (fun p => !(us.contains p.2 && !(dms.any (fun q => q.2 == p.2))))

def step (nUnits : Nat) (s : State) : Op → State × Out
  | .subscribe c ts =>
    ({ s with dms := (subscribedUsers ts).foldl (fun d u => addPair (c, u) d) s.dms },
     if hasBad ts then .indexError else .ok)
  | .disconnect c =>
    let us := (s.dms.filter (fun q => q.1 == c)).map (·.2)
    let dms' := s.dms.filter (fun q => q.1 != c)
    ({ s with dms := dms', active := dropUsers dms' us s.active }, .ok)
  | .register e u =>
    if e < nUnits ∧ e ∉ s.down then ({ s with active := addPair (e, u) s.active }, .true) else (s, .false)
  | .unregister e u =>
    if (e < nUnits ∧ e ∉ s.down) ∧ (e, u) ∈ s.active then
      ({ s with active := s.active.filter (fun p => p != (e, u)) }, .true)
    else (s, .false)
  | .engineDown e =>
    -- the EngineData object (and its active_users) is dropped from the map; nothing if the unit is not in the map
    if e < nUnits ∧ e ∉ s.down then ({ s with active := s.active.filter (fun p => p.1 != e), down := e :: s.down }, .ok)
    else (s, .ok)
  | .engineUp e =>
    -- a fresh EngineData (empty active_users) replaces whatever was in the map under that id
    if e < nUnits then ({ s with active := s.active.filter (fun p => p.1 != e),
                                 down := s.down.filter (fun d => d != e) }, .ok)
    else (s, .ok)

def run (nUnits : Nat) (h : List Op) : State := h.foldl (fun s op => (step nUnits s op).1) init

/-! The code before the repair: one user per connection (last one wins), entries never removed. -/

def setConn (c u : Nat) (l : List (Nat × Nat)) : List (Nat × Nat) := (c, u) :: l.filter (fun q => q.1 != c)

def stepOld (nUnits : Nat) (s : State) : Op → State × Out
  | .subscribe c ts =>
    ({ s with dms := (subscribedUsers ts).foldl (fun d u => setConn c u d) s.dms },
     if hasBad ts then .indexError else .ok)
  | .disconnect c =>
    match s.dms.find? (fun q => q.1 == c) with
    | none => (s, .keyError)
    | some (_, u) =>
      if (s.dms.filter (fun q => q.2 == u)).length > 1 then (s, .ok)
      else ({ s with active := s.active.filter (fun p => p.2 != u) }, .ok)
  | op => step nUnits s op

def runOld (nUnits : Nat) (h : List Op) : State := h.foldl (fun s op => (stepOld nUnits s op).1) init

end OPM.ActiveUsers
