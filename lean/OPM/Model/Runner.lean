/-
M12 Runner — `openpectus/engine/engine_runner.py` (EngineRunner: recovery states, `_post_async`,
`_buffer_message`, `_send_buffered_batch`, `_set_state`, the steady-state / buffer tasks as message
producers) and `EngineDispatcher.assign_sequence_number` / `send_async` of
`openpectus/protocol/engine_dispatcher.py` as an ordered, fallible channel.

A labelled transition system at await-point granularity.  A label (`Ev`) is one atomic step of the real
code (the code between two awaits that touches the message flow); which label comes next is the
nondeterminism (asyncio scheduling, network outcomes, engine events).  `next s e = some s'` iff the step
`e` is possible in `s`; `Step` is the same as an inductive relation; `accepts` runs a whole trace and is
what the trace validation executes on traces logged from the real `EngineRunner`.

Where a message can be (each produced message is in exactly one of these — theorem `conservation`):
  fresh      created by the message builder, its `_post_async` / `_buffer_message` has not run yet
  inflight   `send_async` awaits the answer; FIFO like the websocket RPC channel
  pending    the send failed (ProtocolNetworkException), the handler in `_post_async` has not buffered it yet
  waiting    … and that handler sits in `_set_state("Failed")` at `await self._state_task`
  stuck      … and the state task it waits for swallowed its own cancellation and never ends
  (`orphans` counts buffer_messages tasks that are alive but no longer referenced by `_state_task`: nothing
   cancels them, their loop condition looks at whatever `_state_task` refers to now, so they go on buffering
   every 5 s — also while the runner is Connected / Reconnected)
  batch      copied out of the buffer by `_send_buffered_batch`, `gather` has not started the posts yet
  buffer     `_message_buffer`
  delivered  answered ok (order of answers = order of sends: ordered channel)
  cancelled  the in-flight send was cancelled together with the state task that awaited it un-shielded
  rejected   `_post_async` in state Started ("invalid state")

Abstracted: ticks, timers and the connection hand-shake are not modelled — `connect`, `disconnect` and
`setState` are free labels constrained only by the guards below; message payloads are reduced to
(run data of run r | run-stopped of run r | other); shutdown (`Stopped`) is outside the property.
Timing assumption built into one guard: the handler of a failed send buffers the message while the state is
still Failed or Disconnected (it waits at most two loop iterations for the cancelled task; a reconnect needs
≥ 0.5 s).
Bookkeeping fields for the theorems (no influence on the guards): `everBuf`, `sends`, `fails`, `wire`
(every attempt with the sequence number on the wire), `discProd` (created while Failed / Disconnected /
Reconnecting), `owed` / `orderViol` (order clause).
Core Lean only.
-/
namespace OPM.Runner

inductive RState where
  | started | connected | failed | disconnected | reconnecting | catchingUp | reconnected
  deriving DecidableEq, Repr, Inhabited

inductive Kind where
  | data (run : Nat)
  | stop (run : Nat)
  | other
  deriving DecidableEq, Repr, Inhabited

abbrev Id := Nat

inductive TaskKind where
  | steady | buffering
  deriving DecidableEq, Repr

inductive Ev where
  | produce (id : Id) (k : Kind)          -- N  message builder creates a message
  | send (id : Id) (seq : Nat)            -- S  `_post_async` → `send_async` (state allows posting)
  | buf (id : Id) (seq : Nat)             -- B  `_post_async` → `_buffer_message`
  | bufTask (id : Id) (seq : Nat)         -- Q  `buffer_messages` task → `_buffer_message`
  | reject (id : Id)                      -- X  `_post_async` in state Started
  | ok (id : Id)                          -- K  head of the channel answered
  | fail (id : Id)                        -- F  head of the channel failed (ProtocolNetworkException)
  | cancel (id : Id)                      -- Z  in-flight send cancelled
  | setState (st : RState)                -- T  `self._state = …`
  | take (n : Nat)                        -- G  `_send_buffered_batch`: copy + clear
  | postBatch (sent : Bool) (seqs : List Nat)  -- A  the gathered `_post_async` calls of the batch
  | connect (okay : Bool)                 -- C1 / C0
  | disconnect                            -- D
  | wait (id : Id) (self : Bool)          -- W  failure handler starts waiting for the cancelled state task
  | waitOther                             -- W0 a non-handler (`_set_state` from tick / transmit task) waits
  | taskSet (k : TaskKind)                -- Us / Ub
  | taskClear (self : Bool)               -- U0 / U0!  (`!`: cleared by the state task itself)
  deriving DecidableEq, Repr

structure State where
  st        : RState := .started
  kinds     : List Kind := []             -- kind of message id = kinds[id-1]; ids are 1, 2, 3, …
  seqs      : List (Id × Nat) := []       -- sequence numbers assigned so far
  ctr       : Nat := 1                    -- `EngineDispatcher._sequence_number`
  fresh     : List Id := []
  inflight  : List Id := []
  pending   : List Id := []
  waiting   : List Id := []
  stuck     : List Id := []
  batch     : List Id := []
  buffer    : List Id := []
  delivered : List Id := []
  cancelled : List Id := []
  rejected  : List Id := []
  everBuf   : List Id := []               -- every message that has been in the buffer
  sends     : List Id := []               -- log of send attempts
  fails     : List Id := []               -- log of failed attempts
  discProd  : List Id := []               -- messages created while the runner was Failed / Disconnected / Reconnecting
  wire      : List (Id × Nat) := []       -- every attempt as it goes over the wire: (message, sequence number)
  owed      : List (Id × Id) := []        -- (d, s): d was buffered run data of s's run, undelivered when s was posted
  orderViol : Bool := false               -- some s was delivered while an owed d was not
  connRes   : Option Bool := none         -- outcome of the last connect attempt
  disc      : Bool := false               -- `disconnect_async` ran, `Disconnected` not yet set
  stask     : Option TaskKind := none
  orphans   : Nat := 0                    -- buffer tasks whose reference was overwritten while they were alive
  deriving Repr

def init : State := {}

def kindOf (s : State) (id : Id) : Option Kind :=
  if id = 0 then none else s.kinds[id - 1]?

def seqOf (s : State) (id : Id) : Option Nat := s.seqs.lookup id

def canPost (st : RState) : Bool :=
  st = .connected || st = .reconnected || st = .catchingUp

def mustBuffer (st : RState) : Bool :=
  st = .failed || st = .disconnected || st = .reconnecting

/-- `assign_sequence_number`: a number is assigned only when the message has none yet
    (`if message.sequence_number == -1`).  `seqFor` = the number the message carries afterwards. -/
def seqFor (s : State) (id : Id) : Nat :=
  match seqOf s id with
  | some q => q
  | none => s.ctr + 1

def ctrAfter (s : State) (id : Id) : Nat :=
  match seqOf s id with
  | some _ => s.ctr
  | none => s.ctr + 1

def seqsAfter (s : State) (id : Id) : List (Id × Nat) :=
  match seqOf s id with
  | some _ => s.seqs
  | none => (id, s.ctr + 1) :: s.seqs

def isData (s : State) (run : Nat) (d : Id) : Bool := kindOf s d = some (.data run)

def isStop (s : State) (id : Id) : Bool :=
  match kindOf s id with
  | some (.stop _) => true
  | _ => false

/-- Run data of the run of stop message `sid` that has been buffered and is not delivered yet
    (computed when `sid` is first posted). -/
def owedFor (s : State) (sid : Id) : List (Id × Id) :=
  match kindOf s sid with
  | some (.stop r) => (s.everBuf.filter (fun d => isData s r d && !s.delivered.contains d)).map (fun d => (d, sid))
  | _ => []

def violates (s : State) (sid : Id) : Bool :=
  s.owed.any (fun p => p.2 == sid && !s.delivered.contains p.1)

def next (s : State) : Ev → Option State
  | .produce id k =>
    if id = s.kinds.length + 1 then
      some { s with kinds := s.kinds ++ [k], fresh := s.fresh ++ [id],
                    discProd := if mustBuffer s.st then s.discProd ++ [id] else s.discProd }
    else none
  | .send id q =>
    if id ∈ s.fresh ∧ canPost s.st = true ∧ q = seqFor s id then
      some { s with fresh := s.fresh.erase id, inflight := s.inflight ++ [id], sends := s.sends ++ [id],
                    wire := s.wire ++ [(id, q)], owed := s.owed ++ owedFor s id, ctr := ctrAfter s id, seqs := seqsAfter s id }
    else none
  | .buf id q =>
    if id ∈ s.fresh ∧ mustBuffer s.st = true ∧ q = seqFor s id then
      some { s with fresh := s.fresh.erase id, buffer := s.buffer ++ [id], everBuf := s.everBuf ++ [id],
                    owed := s.owed ++ owedFor s id, ctr := ctrAfter s id, seqs := seqsAfter s id }
    else if id ∈ s.pending ∧ (s.st = .failed ∨ s.st = .disconnected) ∧ q = seqFor s id then
      some { s with pending := s.pending.erase id, buffer := s.buffer ++ [id], everBuf := s.everBuf ++ [id],
                    ctr := ctrAfter s id, seqs := seqsAfter s id }
    else if id ∈ s.waiting ∧ (s.st = .failed ∨ s.st = .disconnected) ∧ q = seqFor s id then
      some { s with waiting := s.waiting.erase id, buffer := s.buffer ++ [id], everBuf := s.everBuf ++ [id],
                    ctr := ctrAfter s id, seqs := seqsAfter s id }
    else none
  | .bufTask id q =>
    if id ∈ s.fresh ∧ (mustBuffer s.st = true ∨ s.st = .catchingUp ∨ 0 < s.orphans) ∧ q = seqFor s id then
      some { s with fresh := s.fresh.erase id, buffer := s.buffer ++ [id], everBuf := s.everBuf ++ [id],
                    owed := s.owed ++ owedFor s id, ctr := ctrAfter s id, seqs := seqsAfter s id }
    else none
  | .reject id =>
    if id ∈ s.fresh ∧ s.st = .started then
      some { s with fresh := s.fresh.erase id, rejected := s.rejected ++ [id] }
    else none
  | .ok id =>
    match s.inflight with
    | h :: rest =>
      if h = id then
        some { s with inflight := rest, delivered := s.delivered ++ [id],
                      orderViol := s.orderViol || violates s id }
      else none
    | [] => none
  | .fail id =>
    match s.inflight with
    | h :: rest =>
      if h = id then some { s with inflight := rest, pending := s.pending ++ [id], fails := s.fails ++ [id] }
      else none
    | [] => none
  | .cancel id =>
    if id ∈ s.everBuf ∨ kindOf s id ≠ some .other then none
    else if id ∈ s.inflight then
      some { s with inflight := s.inflight.erase id, cancelled := s.cancelled ++ [id] }
    else if id ∈ s.pending then
      some { s with pending := s.pending.erase id, cancelled := s.cancelled ++ [id] }
    else none
  | .setState .started => none
  | .setState .connected =>
    if s.st = .started ∧ s.connRes = some true then some { s with st := .connected, connRes := none } else none
  | .setState .failed =>
    if s.connRes = some false then some { s with st := .failed, connRes := none }
    else if s.pending ≠ [] then some { s with st := .failed }
    else none
  | .setState .disconnected => if s.disc = true then some { s with st := .disconnected, disc := false } else none
  | .setState .reconnecting =>
    if s.st = .disconnected ∧ s.connRes = some true then some { s with st := .reconnecting, connRes := none }
    else none
  | .setState .catchingUp => if s.st = .reconnecting then some { s with st := .catchingUp } else none
  | .setState .reconnected =>
    if s.st = .catchingUp ∧ s.buffer = [] ∧ s.batch = [] then some { s with st := .reconnected } else none
  | .take n =>
    if n = s.buffer.length ∧ 0 < n ∧ s.batch = [] then some { s with batch := s.buffer, buffer := [] }
    else none
  | .postBatch true qs =>
    if s.batch ≠ [] ∧ s.batch.map (seqOf s) = qs.map some ∧ canPost s.st = true then
      some { s with batch := [], inflight := s.inflight ++ s.batch, sends := s.sends ++ s.batch,
                    wire := s.wire ++ s.batch.zip qs }
    else none
  | .postBatch false qs =>
    if s.batch ≠ [] ∧ s.batch.map (seqOf s) = qs.map some ∧ mustBuffer s.st = true then
      some { s with batch := [], buffer := s.buffer ++ s.batch }
    else none
  | .connect b =>
    if s.st = .started ∨ s.st = .disconnected ∨ s.st = .failed then some { s with connRes := some b } else none
  | .disconnect => some { s with disc := true }
  | .wait id true => if id ∈ s.pending ∧ s.stask = some .steady then some s else none
  | .wait id false =>
    if id ∈ s.pending ∧ s.stask = some .steady then
      some { s with pending := s.pending.erase id, waiting := s.waiting ++ [id] }
    else none
  | .waitOther => if s.stask.isSome = true then some s else none
  | .taskSet k => some { s with stask := some k }
  | .taskClear true =>
    if s.stask = some .steady then some { s with stask := none, stuck := s.stuck ++ s.waiting, waiting := [] }
    else none
  | .taskClear false =>
    -- a second failure handler wakes up and executes `self._state_task = None` although `_on_failed` of the
    -- first one has already stored the new buffer task there: that task is never cancelled any more
    if s.stask = some .buffering ∧ s.st ≠ .reconnected ∧ s.st ≠ .connected then
      some { s with stask := none, orphans := s.orphans + 1 }
    else some { s with stask := none }

/-- The same transition system as a relation. -/
inductive Step : State → Ev → State → Prop where
  | mk (s : State) (e : Ev) (s' : State) (h : next s e = some s') : Step s e s'

def run (s : State) : List Ev → Option State
  | [] => some s
  | e :: es => match next s e with
    | some s' => run s' es
    | none => none

/-- Reachability by a trace. -/
inductive Steps : State → List Ev → State → Prop where
  | nil (s : State) : Steps s [] s
  | cons {s s' s'' : State} {e : Ev} {es : List Ev} : Step s e s' → Steps s' es s'' → Steps s (e :: es) s''

/-- The acceptor the trace validation runs: index of the first impossible step, or the final state. -/
def acceptFrom (s : State) (k : Nat) : List Ev → Except Nat State
  | [] => .ok s
  | e :: es => match next s e with
    | some s' => acceptFrom s' (k + 1) es
    | none => .error k

def accepts (tr : List Ev) : Bool := (run init tr).isSome

/-- Mutant for the harness self-test: the runner one might expect — nothing is sent directly while
    CatchingUp.  Real traces (which do send in CatchingUp) must be rejected by it. -/
def nextMutant (s : State) : Ev → Option State
  | .send id q => if s.st = .catchingUp then none else next s (.send id q)
  | e => next s e

def acceptMutantFrom (s : State) (k : Nat) : List Ev → Except Nat State
  | [] => .ok s
  | e :: es => match nextMutant s e with
    | some s' => acceptMutantFrom s' (k + 1) es
    | none => .error k

end OPM.Runner
