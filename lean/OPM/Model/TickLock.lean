/-
M1–M4 (concurrency part): the ticking thread and the request thread of the engine under `Engine._lock`.

Python:
  openpectus/engine/engine.py           Engine.tick (prologue, hwl.tick, read_process_image outside the lock; tracking.tick,
                                        interpreter.tick, update_calculated_tags, command_manager.tick, notify_tag_updates,
                                        write_process_image inside `with self._lock`), and the request entry points
                                        set_method, inject_code, execute_control_command_from_user, cancel_instruction,
                                        force_instruction
  openpectus/engine/engine_message_handlers.py   the callers of the entry points (asyncio thread of the runner)
  openpectus/lang/exec/timer.py         OneThreadTimer: the thread that calls Engine.tick

Two parts.

(1) `Seg`, `buildTick`, `buildReqs`, `simulate`, `classify`: the scheduling semantics at the instrumented yield points.
A thread is a list of segments (the code between two yield points, named by the label of the yield point it starts
at); a segment may begin by taking the lock (`acq`) and may end by releasing it.  Which segments of the tick are under
the lock and which entry points take it comes from the regenerated table (`OPM.Gen.LockTable`), not from the run; yield
points nested inside a sub-call (a UOD command's exec function, the hardware read / write) inherit its flag.  A
schedule is a list of thread choices; a thread whose next segment needs the lock while the other holds it is not
enabled.  `classify` says for each request whether all of its effect ran before the tick took the lock (`before`),
after the tick released it (`after`), or neither (`torn`).  The driver replays the schedules the harness ran on the
real engine with two real threads and compares the traces.

(2) `Abs`: the same machine over arbitrary state transformers (a tick = segments outside the lock followed by a
critical section; a request = a body that is, or is not, a critical section of the same lock), used by the theorems
of C40.

Abstractions: thread switches happen only at the instrumented yield points (call boundaries of the sub-calls of
`Engine.tick` and of the request entry points); the request thread issues its requests one after the other.
Core Lean only.
-/
namespace OPM.TickLock

/-- One request entry point of `Engine` as read from the source. -/
structure Entry where
  name : String
  bodyLocked : Bool               -- the whole body is `with self._lock:`
  touchesOutside : List String    -- attributes of `self` touched outside the lock
deriving Repr, DecidableEq

inductive Tid where
  | T   -- the ticking thread
  | R   -- the request thread
deriving Repr, DecidableEq

structure Seg where
  label : String
  acquires : Bool := false   -- the segment starts by taking the lock
  releases : Bool := false   -- the segment ends by releasing it
  req : Nat := 0             -- 0: not part of a request; j+1: part of the j-th request
  effect : Bool := false     -- part of that request's effect window
deriving Repr, DecidableEq

def setLastReleases : List Seg → List Seg
  | [] => []
  | [s] => [{ s with releases := true }]
  | s :: rest => s :: setLastReleases rest

/-- Lock flag of a yield label of the ticking thread: a sub-call of `Engine.tick` has the flag of the table; a yield
point nested inside a sub-call (`nested`: inner label ↦ enclosing sub-call, e.g. a UOD command's exec function inside
`command_manager.tick`, the hardware write inside `write_process_image`) has the flag of that sub-call. -/
def tickFlag (tickCalls : List (String × Bool)) (nested : List (String × String)) (l : String) : Option Bool :=
  match tickCalls.lookup l with
  | some b => some b
  | none =>
    match nested.lookup l with
    | some outer => tickCalls.lookup outer
    | none => none

/-- The tick thread: `<start>` (prologue), then the yield points seen in the run; the lock is taken in front of the
first one the table places under the lock and released at the end of the last one of that stretch (a later stretch
takes it again).  `none`: a label the table does not know. -/
def buildTick (tickCalls : List (String × Bool)) (nested : List (String × String)) (labels : List String) :
    Option (List Seg) :=
  let rec go (ls : List String) (inside : Bool) (acc : List Seg) : Option (List Seg × Bool) :=
    match ls with
    | [] => some (acc, inside)
    | l :: rest =>
      match tickFlag tickCalls nested l with
      | none => none
      | some true =>
        if inside then go rest true (acc ++ [{ label := l }])
        else go rest true (acc ++ [{ label := "acq", acquires := true }, { label := l }])
      | some false =>
        if inside then go rest false (setLastReleases acc ++ [{ label := l }])
        else go rest false (acc ++ [{ label := l }])
  match go labels false [{ label := "<start>" }] with
  | none => none
  | some (segs, inside) => some (if inside then setLastReleases segs else segs)

/-- One request: its entry segment, the lock acquisition if the table says its body is locked, its inner yield points. -/
def buildReq (entries : List Entry) (j : Nat) (name : String) (inner : List String) : Option (List Seg) :=
  match entries.find? (·.name == name) with
  | none => none
  | some e =>
    let enter : Seg := { label := "enter:" ++ name, req := j + 1, effect := !e.bodyLocked }
    let body : List Seg := inner.map (fun l => { label := l, req := j + 1, effect := true })
    if e.bodyLocked then
      some (enter :: setLastReleases ({ label := "acq", acquires := true, req := j + 1, effect := true } :: body))
    else some (enter :: body)

def buildReqs (entries : List Entry) : Nat → List (String × List String) → Option (List Seg)
  | _, [] => some []
  | j, (name, inner) :: rest =>
    match buildReq entries j name inner, buildReqs entries (j + 1) rest with
    | some a, some b => some (a ++ b)
    | _, _ => none

structure Sim where
  pcT : Nat := 0
  pcR : Nat := 0
  owner : Option Tid := none
  trace : List (Tid × Seg) := []
deriving Repr

/-- One scheduling step: the chosen thread runs its next segment; `none` if it has none left or has to wait. -/
def simStep (progT progR : List Seg) (s : Sim) (c : Tid) : Option Sim :=
  let (prog, pc) := match c with | .T => (progT, s.pcT) | .R => (progR, s.pcR)
  match prog[pc]? with
  | none => none
  | some seg =>
    if seg.acquires && s.owner.isSome then none
    else
      let owner₁ := if seg.acquires then some c else s.owner
      let owner₂ := if seg.releases then none else owner₁
      some { pcT := if c = .T then s.pcT + 1 else s.pcT, pcR := if c = .R then s.pcR + 1 else s.pcR,
             owner := owner₂, trace := s.trace ++ [(c, seg)] }

def simulate (progT progR : List Seg) (choices : List Tid) : Option Sim :=
  choices.foldlM (simStep progT progR) {}

inductive Pos where
  | before | after | torn
  | prologue   -- before the tick took the lock, but after a part of the tick's unlocked prologue that had an effect
deriving Repr, DecidableEq

/-- Position of request `j` (1-based) in a trace relative to the tick's critical section: the indices of its effect
segments against the indices of the tick's lock acquisition and of the tick's last segment. -/
def classify (trace : List (Tid × Seg)) (j : Nat) (readFails : Bool := false) : Pos :=
  let idx := trace.zipIdx
  let eff := (idx.filter (fun p => p.1.1 == .R && p.1.2.req == j && p.1.2.effect)).map (·.2)
  let tAcq := (idx.filter (fun p => p.1.1 == .T && p.1.2.acquires)).map (·.2)
  let tAll := (idx.filter (fun p => p.1.1 == .T)).map (·.2)
  let tRead := (idx.filter (fun p => p.1.1 == .T && p.1.2.label == "hwl.read_batch")).map (·.2)
  match tAcq.head?, tAll.getLast? with
  | some a, some z =>
    if eff.all (· < a) then
      -- a failed hardware read puts the engine in its error state in the unlocked prologue: a request that runs
      -- after it (and before the tick takes the lock) sees that effect; the model does not say which serial order
      -- the outcome equals then (the commutation hypothesis of the theorem does not hold for this prologue)
      match tRead.head? with
      | some rd => if readFails && eff.any (· > rd) then .prologue else .before
      | none => .before
    else if eff.all (· > z) then .after else .torn
  | _, _ => if eff.isEmpty then .before else .torn

/-! ## (2) The abstract machine over state transformers -/
namespace Abs

variable {σ : Type}

/-- apply a list of state transformers from left to right -/
def ap (l : List (σ → σ)) (s : σ) : σ := l.foldl (fun s f => f s) s

/-- A tick: segments outside the lock, then the critical section (lock taken with its first segment, released with
its last).  A request: its body, and whether the body is a critical section of the same lock. -/
structure Sys (σ : Type) where
  pre : List (σ → σ)
  crit : List (σ → σ)
  body : List (σ → σ)
  locked : Bool

structure St (σ : Type) where
  preDone : List (σ → σ) := []
  preRem : List (σ → σ)
  critDone : List (σ → σ) := []
  critRem : List (σ → σ)
  bodyDone : List (σ → σ) := []
  bodyRem : List (σ → σ)
  s : σ

def start (S : Sys σ) (s₀ : σ) : St σ := { preRem := S.pre, critRem := S.crit, bodyRem := S.body, s := s₀ }

/-- the tick is inside its critical section (has taken the lock and not yet released it) -/
def insideT (st : St σ) : Prop := st.critDone ≠ [] ∧ st.critRem ≠ []
/-- the request is inside its body -/
def insideR (st : St σ) : Prop := st.bodyDone ≠ [] ∧ st.bodyRem ≠ []

/-- The transitions: the ticking thread runs its next segment (the first segment of the critical section only while
the request is not inside a locked body); the request thread runs its next segment (the first one of a locked body
only while the tick is not inside its critical section). -/
inductive Step (S : Sys σ) : St σ → St σ → Prop where
  | tickPre (st : St σ) (f : σ → σ) (rest : List (σ → σ)) : st.preRem = f :: rest →
      Step S st { st with preDone := st.preDone ++ [f], preRem := rest, s := f st.s }
  | tickCrit (st : St σ) (f : σ → σ) (rest : List (σ → σ)) : st.preRem = [] → st.critRem = f :: rest →
      (st.critDone ≠ [] ∨ S.locked = false ∨ ¬ insideR st) →
      Step S st { st with critDone := st.critDone ++ [f], critRem := rest, s := f st.s }
  | req (st : St σ) (f : σ → σ) (rest : List (σ → σ)) : st.bodyRem = f :: rest →
      (st.bodyDone ≠ [] ∨ S.locked = false ∨ ¬ insideT st) →
      Step S st { st with bodyDone := st.bodyDone ++ [f], bodyRem := rest, s := f st.s }

inductive Reach (S : Sys σ) (s₀ : σ) : St σ → Prop where
  | init : Reach S s₀ (start S s₀)
  | step {a b : St σ} : Reach S s₀ a → Step S a b → Reach S s₀ b

def finished (st : St σ) : Prop := st.preRem = [] ∧ st.critRem = [] ∧ st.bodyRem = []

def tickAll (S : Sys σ) (s : σ) : σ := ap S.crit (ap S.pre s)
def reqAll (S : Sys σ) (s : σ) : σ := ap S.body s

end Abs

end OPM.TickLock
