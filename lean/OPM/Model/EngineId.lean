/-
M13 (part): `Aggregator.create_engine_id` and the take-over guard of
`AggregatorMessageHandlers.handle_RegisterEngineMsg`.

Python (after the fix: commit in /repo):
    quote(computer_name, "").replace("_", "%5F") + "_" + quote(uod_name, "")
`urllib.parse.quote(s, "")` encodes `s` as UTF-8 and keeps exactly the bytes of
`A-Z a-z 0-9 _ . - ~`; every other byte becomes `%XX` with upper-case hex digits.
-/
namespace OPM.EngineId

def isAlnum (b : Nat) : Bool :=
  (65 ≤ b && b ≤ 90) || (97 ≤ b && b ≤ 122) || (48 ≤ b && b ≤ 57)

/-- `_ALWAYS_SAFE` of urllib: letters, digits, `_.-~`. -/
def safeQuote (b : Nat) : Bool :=
  isAlnum b || b = 95 || b = 46 || b = 45 || b = 126

/-- Safe set after additionally escaping the separator `_`. -/
def safeNoSep (b : Nat) : Bool :=
  isAlnum b || b = 46 || b = 45 || b = 126

def hexDigit (n : Nat) : Char :=
  if n < 10 then Char.ofNat (48 + n) else Char.ofNat (55 + n)

def quoteByte (safe : Nat → Bool) (b : UInt8) : List Char :=
  if safe b.toNat then [Char.ofNat b.toNat]
  else ['%', hexDigit (b.toNat / 16), hexDigit (b.toNat % 16)]

def quoteWith (safe : Nat → Bool) (bs : List UInt8) : List Char :=
  bs.flatMap (quoteByte safe)

/-- `urllib.parse.quote(s, "")` on the UTF-8 bytes. -/
def quote (bs : List UInt8) : List Char := quoteWith safeQuote bs

/-- `str.replace("_", "%5F")`. -/
def escSep (cs : List Char) : List Char :=
  cs.flatMap (fun c => if c = '_' then ['%', '5', 'F'] else [c])

/-- The engine id as the code computes it (quote, then escape the separator in the computer name). -/
def engineIdBytes (computer uod : List UInt8) : List Char :=
  escSep (quote computer) ++ '_' :: quote uod

/-- The id the *unfixed* code computed: `quote(computer + "_" + uod, "")`.
    (`quote` distributes over concatenation of byte strings.) -/
def engineIdOldBytes (computer uod : List UInt8) : List Char :=
  quote (computer ++ [95] ++ uod)

def engineId (computer uod : String) : String :=
  String.ofList (engineIdBytes computer.toUTF8.data.toList uod.toUTF8.data.toList)

def engineIdOld (computer uod : String) : String :=
  String.ofList (engineIdOldBytes computer.toUTF8.data.toList uod.toUTF8.data.toList)

/-! Registration guard (`handle_RegisterEngineMsg`), reduced to what C38 speaks about. -/

inductive RegReply where
  | secretMismatch
  | alreadyConnected (id : String)
  | versionMismatch (id : String)
  | ok (id : String)
deriving Repr, DecidableEq

structure RegMsg where
  computer : String
  uod : String
  secretOk : Bool
  versionOk : Bool
  ignoreVersion : Bool

/-- `connected` = ids that currently have a websocket (`has_connected_engine_id`). -/
def register (connected : List String) (m : RegMsg) : RegReply :=
  if !m.secretOk then .secretMismatch
  else
    let id := engineId m.computer m.uod
    if connected.contains id then .alreadyConnected id
    else if !m.versionOk && !m.ignoreVersion then .versionMismatch id
    else .ok id

/-! The websocket table of `AggregatorDispatcher` (`_engine_id_channel_map`, a Python dict: engine id ↦ channel,
insertion order) with the three events that read or change it:
`handle_RegisterEngineMsg` (REST), `_on_delayed_client_connect` (a websocket came up and reported its id),
`on_client_disconnect`. Channels are numbered. -/

structure Conns where
  map : List (String × Nat) := []
deriving Repr

inductive COp where
  | register (m : RegMsg)
  | connect (ch : Nat) (id : Option String)   -- `none`: the engine has no id to report
  | disconnect (ch : Nat)

inductive COut where
  | reg (r : RegReply)
  | connected (id : String)
  | closed                 -- the new channel was closed, table unchanged
  | disconnected (id : String)
  | unknown                -- "Unknown engine disconnected"
deriving Repr, DecidableEq

def Conns.ids (s : Conns) : List String := s.map.map (·.1)

def cstep (s : Conns) : COp → Conns × COut
  | .register m => (s, .reg (register s.ids m))
  | .connect _ none => (s, .closed)
  | .connect ch (some id) =>
    if s.ids.contains id then (s, .closed)
    else (⟨s.map ++ [(id, ch)]⟩, .connected id)
  | .disconnect ch =>
    match s.map.find? (fun e => e.2 == ch) with
    | some e => (⟨s.map.filter (fun x => x.1 != e.1)⟩, .disconnected e.1)
    | none => (s, .unknown)

def crun (s : Conns) (ops : List COp) : Conns := ops.foldl (fun s o => (cstep s o).1) s

end OPM.EngineId
