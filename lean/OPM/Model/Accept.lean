import OPM.Model.Units
import OPM.Model.Analyzer
/-
M7b Accept — the two sides property C20 relates:

  * what the engine **publishes** about itself
      `UnitOperationDefinitionBase.create_lsp_definition` (uod.py), `InternalCommandsRegistry.get_command_definitions`
      (internal_commands.py), `EngineMessageBuilder.create_uod_info`,
    and what the editor builds from it: `lsp_analysis.build_tags`, `build_commands` (the validator of a command is
    `re.search(<published regex>, arguments)`), then the analyzers of `OPM.Analyzer`;
  * what the engine **accepts** when the method runs, instruction by instruction
      `PInterpreter.visit_ErrorInstructionNode / visit_UodCommandNode / visit_EngineCommandNode /
       visit_InterpreterCommandNode / _evaluate_condition / visit_SimulateNode / visit_SimulateOffNode`,
      `Engine.schedule_execution`, `CommandManager._execute_uod_command` (`parse_args`),
      `CommandManager._execute_internal_command` (`InternalEngineCommand.validate_arguments`, `re.match`),
      `Tag.simulate_value_and_unit` → `units.convert_value_to_unit`, `units.compare_values`.

`repaired = true` follows the code with `fixes/C20-base-units-published-from-uod.diff` (the published validator of
`Base` lists the units of the uod's base-unit providers) and `fixes/C20-units-molpercent-and-simulate-conversion.diff`
(`convert_value_to_unit`); `repaired = false` the code before them (static `REGEX_BASE_ARG`; float·Decimal).

Parameters, taken from the implementation per case and never defaulted:
  `search r a`  = `re.search(r, a) is not None`      `matchP r a` = `re.match(r, a) is not None`
  `customOk name a` = the custom (non-regex) parse function of uod command `name` accepts `a`
  `intOk a` = `int(a)` succeeds                        `similar` as in `OPM.Analyzer`
The parser is not modelled: every node carries the analyzer-side parse (uod command names unknown to the parser,
as `lsp_analysis.analyze` does it) and the engine-side node class (`ekind`).
Only *static* acceptance is modelled: whether the instruction, when it is executed, fails for its name, its
argument or its units — not scheduling, timing or run state.  Core Lean only.
-/
namespace OPM.Accept
open OPM.Units OPM.Analyzer

inductive ArgParser where
  /-- `RegexNamedArgumentParser(r).parse`  (`re.search`) -/
  | regex (r : String)
  /-- `defaultArgumentParser`: passes the text on, never rejects -/
  | default
  /-- any other Python function -/
  | custom
deriving Repr, DecidableEq

structure UodCmd where
  name : String
  parser : ArgParser
deriving Repr, DecidableEq

structure Engine where
  /-- `uod.tags` followed by the system tags: what is published and what `engine.tags` knows -/
  tags : List TagDef
  /-- `uod.command_factories`, in order -/
  uodCmds : List UodCmd
  /-- names in `aggregator.command_examples.examples`, in order -/
  examples : List String
  /-- `InternalCommandsRegistry._command_spec`: name ↦ regex of its `ArgSpec` (`NoCheck` = the empty regex) -/
  specs : List (String × String)
  /-- `uod.base_unit_provider.get_units()` -/
  baseUnits : List String
  /-- keys of the parser's instruction-name map -/
  keywords : List String
  search : String → String → Bool
  matchP : String → String → Bool
  customOk : String → String → Bool
  intOk : String → Bool
  similar : String → String → Bool
  units : UnitSys

/-! ### Publication -/

structure PubCmd where
  name : String
  /-- `RNAP-v1-<regex>` without the prefix; `none` = no validator -/
  validator : Option String
deriving Repr, DecidableEq

structure Published where
  tags : List TagDef
  commands : List PubCmd
  systemCommands : List PubCmd
deriving Repr, DecidableEq

def isAsciiAlnum (c : Char) : Bool :=
  ('a' ≤ c && c ≤ 'z') || ('A' ≤ c && c ≤ 'Z') || ('0' ≤ c && c ≤ '9')

/-- characters `re.escape` (Python ≥ 3.7) puts a backslash in front of -/
def pyEscapeSpecial : List Char :=
  ['(', ')', '[', ']', '{', '}', '?', '*', '+', '-', '|', '^', '$', '\\', '.', '&', '~', '#', ' ', '\t', '\n', '\r',
   '\x0b', '\x0c']

def pyEscape (s : String) : String :=
  String.ofList (s.toList.flatMap fun c => if pyEscapeSpecial.contains c then ['\\', c] else [c])

/-- the regex the repaired registry publishes for `Base` -/
def baseRegex (units : List String) : String :=
  "^\\s*(" ++ "|".intercalate (units.map pyEscape) ++ ")\\s*$"

/-- What Python's `re.search(baseRegex units, a)` computes for the pattern `^\\s*(u1|u2|…)\\s*$` of escaped literal
    units without whitespace: the argument, stripped of the characters `\\s` matches (the ones `str.strip()` removes),
    is one of the units.  (An empty unit list gives the pattern `^\\s*()\\s*$`: whitespace only.)  Tied to the real
    `re` by the `baseprobe` queries of the correspondence, on stripped and unstripped arguments. -/
def acceptBase (units : List String) (a : String) : Bool :=
  if units.isEmpty then Analyzer.strip a == "" else units.contains (Analyzer.strip a)

/-- `create_lsp_definition` + `get_command_definitions` as assembled by `create_uod_info` -/
def publish (G : Engine) (repaired : Bool) : Published :=
  { tags := G.tags
    commands :=
      G.uodCmds.filterMap (fun c => match c.parser with
        | .regex r => some ⟨c.name, some r⟩
        | _ => none) ++
      G.uodCmds.filterMap (fun c => match c.parser with
        | .regex _ => none
        | _ => some ⟨c.name, none⟩)
    systemCommands := G.examples.map fun n =>
      if repaired && n == "Base" then ⟨n, some (baseRegex G.baseUnits)⟩ else ⟨n, G.specs.lookup n⟩ }

def Published.all (P : Published) : List PubCmd := P.commands ++ P.systemCommands

/-- `lsp_analysis.build_tags` / `build_commands` -/
def analyzerEnv (G : Engine) (P : Published) : Analyzer.Env :=
  ⟨P.tags, P.all.map (fun c => ⟨c.name, c.validator == some "^$"⟩), G.similar, G.units⟩

/-- the `validate` closure `build_commands` gives a command -/
def pubValid (G : Engine) (P : Published) (name args : String) : Bool :=
  match P.all.find? (fun c => c.name == name) with
  | some ⟨_, some r⟩ => G.search r args
  | _ => true

/-! ### Nodes: analyzer-side parse + engine-side node class -/

inductive EKind where
  | watch | alarm | simulate | simulateOff
  | uodCommand | engineCommand | interpCommand | errorInstr | other
deriving Repr, DecidableEq

structure ENode where
  /-- the node as `lsp_analysis.analyze` parses it (`argsValid` is recomputed from the published definition) -/
  a : Analyzer.Node
  ekind : EKind
  /-- `bool(tag_value_numeric)` of the engine-side node (Simulate converts only then) -/
  numTruthy : Bool
  /-- `str(tag.get_value())` of the condition's tag when it is evaluated -/
  tagValue : String
deriving Repr, DecidableEq

def toANode (G : Engine) (P : Published) (n : ENode) : Analyzer.Node :=
  { n.a with argsValid := pubValid G P (cmdName n.a) n.a.arguments }

/-- the editor's verdict (condition, Simulate and command analyzers) on the published definition -/
def analyzerItems (G : Engine) (repaired : Bool) (nodes : List ENode) : Except AErr (List Item) :=
  let P := publish G repaired
  Analyzer.analyze (analyzerEnv G P) true (nodes.map (toANode G P))

/-! ### Engine acceptance -/

inductive Fail where
  /-- "Invalid instruction" / "Unknown command" -/
  | unknownCommand
  /-- "Unknown tag …" / "Tag name … not found" -/
  | unknownTag
  /-- the command's argument parser / validator rejects the argument -/
  | badArgument
  /-- units: not comparable, not convertible, unknown to pint, float·Decimal -/
  | unitError
  /-- not about names, arguments or units (value not numeric, assertion on a malformed condition, …) -/
  | other
deriving Repr, DecidableEq

/-- the failures property C20 speaks about -/
def Fail.isC20 : Fail → Bool
  | .other => false
  | _ => true

def engineTag (G : Engine) (name : String) : Option TagDef := G.tags.find? (fun t => t.name == name)

/-- `_evaluate_condition` -/
def condFails (G : Engine) (c : Cond) (tagValue : String) : Option Fail :=
  match c.tagName with
  | none => some .other
  | some name =>
    if name == "" then some .other
    else match c.tagValue with
      | none => some .other
      | some v =>
        if v == "" then some .other else
        match engineTag G name with
        | none => some .unknownTag
        | some tag =>
          match compareValues G.units c.op tagValue tag.unit v c.tagUnit with
          | .ok _ => none
          | .error e => if e.isValueError then some .other else some .unitError

/-- `visit_SimulateNode` -/
def simulateFails (G : Engine) (repaired : Bool) (c : Cond) (numTruthy : Bool) : Option Fail :=
  match c.tagName with
  | none => some .other
  | some name =>
    if name == "" then some .other else
    match c.tagUnit with
    | some u =>
      if numTruthy then
        match engineTag G name with
        | none => some .unknownTag
        | some tag =>
          match tag.unit with
          | none => some .unitError
          | some tu =>
            match (if repaired then convertValueOk G.units u tu else convertValueOkOld G.units u tu) with
            | .ok _ => none
            | .error _ => some .unitError
      else if c.tagValue.isSome && c.tagValue != some "" then
        (match engineTag G name with | none => some .unknownTag | some _ => none)
      else none
    | none =>
      if c.tagValue.isSome && c.tagValue != some "" then
        (match engineTag G name with | none => some .unknownTag | some _ => none)
      else none

def uodCmd (G : Engine) (name : String) : Option UodCmd := G.uodCmds.find? (fun c => c.name == name)

/-- `parse_args` of a uod command -/
def uodArgOk (G : Engine) (c : UodCmd) (args : String) : Bool :=
  match c.parser with
  | .regex r => G.search r args
  | .default => true
  | .custom => G.customOk c.name args

/-- Does the engine fail on this instruction because of its name, argument or units? -/
def engineFails (G : Engine) (repaired : Bool) (n : ENode) : Option Fail :=
  match n.ekind with
  | .errorInstr => if n.a.instrName == "Noop" then none else some .unknownCommand
  | .uodCommand =>
    match uodCmd G n.a.instrName with
    | none => some .unknownCommand
    | some c => if uodArgOk G c n.a.arguments then none else some .badArgument
  | .engineCommand =>
    match G.specs.lookup n.a.instrName with
    | none => some .unknownCommand
    | some r => if r == "" || G.matchP r n.a.arguments then none else some .badArgument
  | .interpCommand =>
    if n.a.instrName == "Base" then
      if G.baseUnits.contains n.a.arguments then none else some .badArgument
    else if n.a.instrName == "Increment run counter" then none
    else if n.a.instrName == "Run counter" then
      if G.intOk n.a.arguments then none else some .badArgument
    else if n.a.instrName == "Wait" then
      match G.specs.lookup "Wait" with
      | none => some .other
      | some r => if G.matchP r n.a.arguments then none else some .badArgument
    else some .unknownCommand
  | .watch | .alarm =>
    match n.a.cond with
    | none => some .other
    | some c => condFails G c n.tagValue
  | .simulate =>
    match n.a.cond with
    | none => some .other
    | some c => simulateFails G repaired c n.numTruthy
  | .simulateOff =>
    match engineTag G n.a.arguments with
    | none => some .unknownTag
    | some _ => none
  | .other => none

/-! ### What the two parsers agree on (facts about `PcodeParser`, transmitted and checked per case) -/

def interpNames : List String := ["Base", "Increment run counter", "Run counter", "Wait"]

/-- The engine-side node class and the analyzer-side parse of the same line fit together, and the node classes
    carry the names the parser / the registry give them. -/
def parseAgree (G : Engine) (n : ENode) : Bool :=
  match n.ekind with
  | .uodCommand => n.a.kind == .command true && n.a.instrName != "" && (uodCmd G n.a.instrName).isSome
  | .errorInstr =>
    n.a.kind == .command true && (uodCmd G (cmdName n.a)).isNone && !G.keywords.contains (cmdName n.a)
  | .engineCommand =>
    n.a.kind == .command false && G.keywords.contains n.a.instrName && n.a.instrName != "Base" &&
      (G.specs.lookup n.a.instrName).isSome
  | .interpCommand =>
    -- `node.arguments` is `arguments_part.strip()`
    n.a.kind == .command false && G.keywords.contains n.a.instrName && interpNames.contains n.a.instrName &&
      (G.specs.lookup n.a.instrName).isSome && Analyzer.strip n.a.arguments == n.a.arguments
  | .watch => n.a.kind == .watch
  | .alarm => n.a.kind == .alarm
  | .simulate => n.a.kind == .simulate
  | .simulateOff => n.a.kind == .simulateOff
  | .other => n.a.kind == .other

/-! ### Hypotheses of C20 that are facts about the UOD, the parser, Python `re` and `int` -/

/-- uod command names are unique and are not instruction keywords; every published system command is a keyword -/
structure NamesOk (G : Engine) : Prop where
  unique : ∀ c ∈ G.uodCmds, ∀ c' ∈ G.uodCmds, c'.name = c.name → c' = c
  notKeyword : ∀ c ∈ G.uodCmds, G.keywords.contains c.name = false
  examplesKeyword : ∀ n ∈ G.examples, G.keywords.contains n = true

/-- Facts about Python's `re` / `int` for the patterns of this engine, each true of the real functions for **every**
    argument string: the patterns of the internal commands are anchored (`re.search` ⇒ `re.match`); on the published
    `Base` pattern `re.search` computes `acceptBase` (so " L" is accepted — the engine never sees it, arguments are
    stripped: `parseAgree`); what `REGEX_INT` accepts `int()` accepts. -/
structure OraclesOk (G : Engine) : Prop where
  anchored : ∀ n r a, G.specs.lookup n = some r → G.search r a = true → G.matchP r a = true
  baseExact : ∀ a, G.search (baseRegex G.baseUnits) a = acceptBase G.baseUnits a
  baseUnitsNonempty : G.baseUnits ≠ []
  intSound : ∀ r a, G.specs.lookup "Run counter" = some r → G.search r a = true → G.intOk a = true

end OPM.Accept
