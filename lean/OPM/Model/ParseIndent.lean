/-
M6b  The indentation pass of `PcodeParser.parse_method` (openpectus/lang/model/parser.py, second loop):
a fold over the per-line nodes that hangs every node into the tree.

Python state                      model
  parent_node (+ .parent chain)    `spine` (innermost open node first; `[]` = the ProgramNode)
  children lists                   `Frame.kids` / `St.top` (children of the ProgramNode)
  prev_indent, increment_required  `prev`, `incr`
  node.position.character          `LineInfo.char`
  node.indent_error (from          `LineInfo.perr` on entry, `Row.err` / `Tree.node _ err ..` finally
    `_parse_line`, then the pass)
  isinstance NodeWithChildren /    `LineInfo.kind = .opener` / `.ws` (everything else `.leaf`)
    WhitespaceNode

A node is identified by its line number (`MethodLineIdGenerator` maps it to the id of that method line).

The loop body is split in two:
* `decideStep` — the if/elif chain.  It reads only the control part of the state (`Ctl`: line number and
  info of the open nodes, `prev_indent`, `increment_required`) and returns a `Dec`: how many times
  `parent_node = parent_node.parent` is executed before the node is appended, the final `indent_error`,
  whether the node becomes `parent_node`, the new `prev_indent` / `increment_required`.
  (The outdent loop "pop `k` levels, error when the ProgramNode is reached first" is `min k depth` pops and
  `err = k > depth`.)
* `step` — executes the decision on the tree under construction.
`crows` runs the control part alone and lists (line, parent, indent_error); `parseRows` lists the finished
tree in pre-order with the parent of every node — the observation compared with the real parser.
Lemmas/ParseIndent.lean proves `parseRows = crows` for every input.

`fx = true` models the code with fixes/C17-empty-body-blank-lines.diff applied:
 (1) an opener whose body is still empty is closed by the next instruction line that is not deeper;
 (2) blank/comment lines no longer clear `increment_required`.
`fx = false` is the code as it was (self-test, regression witnesses in Properties/C17.lean).
-/
namespace OPM.ParseIndent

inductive Kind where
  | ws | leaf | opener
deriving DecidableEq, Repr

structure LineInfo where
  char : Nat
  kind : Kind
  perr : Bool
deriving DecidableEq, Repr

/-- one node of the finished tree: line number, parent line number (`none` = ProgramNode), indent_error -/
structure Row where
  idx : Nat
  parent : Option Nat
  err : Bool
  info : LineInfo
deriving DecidableEq, Repr

/-! ### control part -/

/-- an open node: line number and info -/
abbrev Sig := Nat × LineInfo

structure Ctl where
  sigs : List Sig      -- chain from `parent_node` (first) outwards; the ProgramNode is not listed
  prev : Nat           -- prev_indent
  incr : Bool          -- increment_required
  n : Nat              -- line number of the next node
deriving Repr

def Ctl.init : Ctl := ⟨[], 0, false, 0⟩

/-- `parent_node.position.character` (0 for the ProgramNode) -/
def pcharOf : List Sig → Nat
  | s :: _ => s.2.char
  | [] => 0

/-- line number of `parent_node` (`none` = ProgramNode) -/
def curOf : List Sig → Option Nat
  | s :: _ => some s.1
  | [] => none

structure Dec where
  pops : Nat           -- executions of `parent_node = parent_node.parent` before `append_child`
  err : Bool           -- node.indent_error afterwards
  opn : Bool           -- `parent_node = node`
  prev : Nat
  incr : Bool
deriving Repr, DecidableEq

/-- the if/elif chain; `pre` pops have already been made (by the repaired code), `sigs`/`incr` are the
    values after them -/
def decideCore (fx : Bool) (sigs : List Sig) (prev : Nat) (incr : Bool) (l : LineInfo) (pre : Nat) : Dec :=
  let isWs := l.kind == .ws
  let isOp := l.kind == .opener
  -- `if not node_error: … if not is_whitespace_node: prev_indent = node.position.character`
  let keep (e : Bool) : Nat := if !e && !isWs then l.char else prev
  if l.perr then
    ⟨pre, true, isOp, prev, if isOp then true else incr⟩
  else if l.char > prev && !incr then
    ⟨pre, true, isOp, prev, isOp⟩
  else if l.char == prev then
    ⟨pre, false, isOp, keep false, if isOp then true else if fx && isWs then incr else false⟩
  else if l.char == pcharOf sigs + 4 && !sigs.isEmpty then
    let e := !incr && !isWs
    ⟨pre, e, isOp, keep e, if isOp then true else if isWs then incr else false⟩
  else if l.char > prev + 4 then
    ⟨pre, true, false, prev, incr⟩
  else if l.char < prev then
    let k := if isWs then 0 else (prev - l.char) / 4
    let e := decide (k > sigs.length)
    ⟨pre + min k sigs.length, e, isOp, keep e, if isOp then true else if fx && isWs then incr else false⟩
  else
    ⟨pre, false, false, keep false, incr⟩

/-- repaired code only: the body opened by the previous instruction is empty and this instruction is not
    deeper, so it is not part of that body -/
def closesEmpty (fx : Bool) (c : Ctl) (l : LineInfo) : Bool :=
  fx && c.incr && l.kind != .ws && !l.perr && decide (l.char ≤ c.prev) && c.prev == pcharOf c.sigs
    && !c.sigs.isEmpty

def decideStep (fx : Bool) (c : Ctl) (l : LineInfo) : Dec :=
  if closesEmpty fx c l then decideCore fx c.sigs.tail c.prev false l 1
  else decideCore fx c.sigs c.prev c.incr l 0

def Ctl.apply (c : Ctl) (d : Dec) (l : LineInfo) : Ctl :=
  ⟨(if d.opn then [(c.n, l)] else []) ++ c.sigs.drop d.pops, d.prev, d.incr, c.n + 1⟩

/-- the node of the current line: where it is appended, its final indent_error -/
def Ctl.row (c : Ctl) (d : Dec) (l : LineInfo) : Row :=
  ⟨c.n, curOf (c.sigs.drop d.pops), d.err, l⟩

def cstep (fx : Bool) (c : Ctl) (l : LineInfo) : Ctl := c.apply (decideStep fx c l) l
def crow (fx : Bool) (c : Ctl) (l : LineInfo) : Row := c.row (decideStep fx c l) l

/-- (line, parent, indent_error) for every line, in source order -/
def crows (fx : Bool) : Ctl → List LineInfo → List Row
  | _, [] => []
  | c, l :: ls => crow fx c l :: crows fx (cstep fx c l) ls

/-! ### the tree -/

inductive Tree where
  | node (idx : Nat) (err : Bool) (info : LineInfo) (kids : List Tree)
deriving Repr

mutual
  def Tree.rows (p : Option Nat) : Tree → List Row
    | .node i e info ks => ⟨i, p, e, info⟩ :: rowsL (some i) ks
  def rowsL (p : Option Nat) : List Tree → List Row
    | [] => []
    | t :: ts => t.rows p ++ rowsL p ts
end

/-- an open node with the children it has so far -/
structure Frame where
  idx : Nat
  err : Bool
  info : LineInfo
  kids : List Tree
deriving Repr

def Frame.sig (f : Frame) : Sig := (f.idx, f.info)

structure St where
  spine : List Frame
  top : List Tree      -- children of the ProgramNode
  prev : Nat
  incr : Bool
  n : Nat
deriving Repr

def St.init : St := ⟨[], [], 0, false, 0⟩

def St.ctl (st : St) : Ctl := ⟨st.spine.map Frame.sig, st.prev, st.incr, st.n⟩

def Frame.close (f : Frame) : Tree := .node f.idx f.err f.info f.kids

/-- `parent_node.append_child(t)` -/
def St.attach (t : Tree) (st : St) : St :=
  match st.spine with
  | f :: fs => { st with spine := { f with kids := f.kids ++ [t] } :: fs }
  | [] => { st with top := st.top ++ [t] }

/-- `parent_node = parent_node.parent` (the node stays the last child of its parent) -/
def St.pop (st : St) : St :=
  match st.spine with
  | f :: fs => St.attach f.close { st with spine := fs }
  | [] => st

def St.popK : Nat → St → St
  | 0, st => st
  | k + 1, st => St.popK k st.pop

/-- append the node of the current line under `parent_node`; with `opn` it becomes `parent_node` -/
def St.add (l : LineInfo) (err : Bool) (opn : Bool) (st : St) : St :=
  if opn then { st with spine := ⟨st.n, err, l, []⟩ :: st.spine }
  else St.attach (.node st.n err l []) st

/-- one iteration of the indentation loop -/
def step (fx : Bool) (st : St) (l : LineInfo) : St :=
  let d := decideStep fx st.ctl l
  let s := (St.popK d.pops st).add l d.err d.opn
  { s with prev := d.prev, incr := d.incr, n := st.n + 1 }

def run (fx : Bool) (st : St) (ls : List LineInfo) : St := ls.foldl (step fx) st

/-- close every open node from the innermost outwards -/
def closeSpine : List Frame → Option Tree → Option Tree
  | [], acc => acc
  | f :: fs, acc => closeSpine fs (some (.node f.idx f.err f.info (f.kids ++ acc.toList)))

/-- children of the ProgramNode when the loop is over -/
def St.finish (st : St) : List Tree := st.top ++ (closeSpine st.spine none).toList

/-- `parse_method` on per-line nodes: the children of the ProgramNode -/
def parse (fx : Bool) (ls : List LineInfo) : List Tree := (run fx St.init ls).finish

/-- the parsed program in pre-order, every node with its parent -/
def parseRows (fx : Bool) (ls : List LineInfo) : List Row := rowsL none (parse fx ls)

/-! ### vocabulary of the structure law (C17) -/

/-- Indentation discipline of the instruction lines (blank and comment lines are transparent):
    every indentation is a multiple of four; a line is at most as deep as the previous instruction, or
    exactly one level deeper directly under an instruction that opens a body.
    `prev`/`opn`: indentation of the previous instruction line / it opens a body. -/
def correctFrom (prev : Nat) (opn : Bool) : List LineInfo → Bool
  | [] => true
  | l :: ls =>
    if l.kind == .ws then correctFrom prev opn ls
    else !l.perr && l.char % 4 == 0 && (decide (l.char ≤ prev) || (opn && l.char == prev + 4))
      && correctFrom l.char (l.kind == .opener) ls

def Correct (ls : List LineInfo) : Prop := correctFrom 0 false ls = true

instance (ls : List LineInfo) : Decidable (Correct ls) := by unfold Correct; infer_instance

/-- `_parse_line` flags exactly the instruction lines whose indentation is not a multiple of four -/
def WellClassified (ls : List LineInfo) : Prop :=
  ∀ l ∈ ls, l.kind ≠ .ws → (l.perr = true ↔ l.char % 4 ≠ 0)

/-- `r` hangs where the structure law says: at the top level iff it is not indented, else under an
    opener `q` one level (four spaces) shallower such that every instruction between `q` and `r` is at least
    as deep as `r` — so `q` is the nearest preceding instruction line one level shallower. -/
def Row.placed (rs : List Row) (r : Row) : Prop :=
  match r.parent with
  | none => r.info.char = 0
  | some j => ∃ q ∈ rs, q.idx = j ∧ j < r.idx ∧ q.info.kind = .opener ∧ q.info.char + 4 = r.info.char ∧
      ∀ m ∈ rs, j < m.idx → m.idx < r.idx → m.info.kind ≠ .ws → r.info.char ≤ m.info.char

/-- the nearest preceding instruction line whose indentation is exactly one level shallower than that of
    line `i` -/
def nearestShallower (ls : List LineInfo) (i : Nat) : Option Nat :=
  (List.range i).reverse.find? (fun j =>
    match ls[j]?, ls[i]? with
    | some a, some b => a.kind != .ws && a.char + 4 == b.char
    | _, _ => false)

end OPM.ParseIndent
