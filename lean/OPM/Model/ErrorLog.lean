/-
M13 (part): `AggregatedErrorLog.aggregate_with`, `AggregatedErrorLog.clear`
(openpectus/aggregator/models.py:62-96), reached from `FromEngine.error_log_changed` and
`EngineData.reset_run`.

Python:
    latest = self.entries[-1] if len(self.entries) > 0 else None
    for entry in error_log.entries:
        if latest is not None and entry.message == latest.message and entry.severity == latest.severity:
            if latest.created_time < entry.created_time:
                latest.created_time = entry.created_time; latest.occurrences += 1
            elif latest.created_time == entry.created_time:   (warning only)
            else:                                             (warning only)
        else:
            latest = AggregatedErrorLogEntry.from_entry(entry); self.entries.append(latest)

Representation: the aggregated list is kept *newest first* (`rev`), so that Python's `latest`
(= `self.entries[-1]`, mutated in place) is the head; `entries = rev.reverse`.
Abstractions: `created_time` is a finite float, modelled as `Rat` (no NaN / inf); log output is not modelled.
Core Lean only.
-/
namespace OPM.ErrorLog

/-- `ErrorLogEntry` (protocol/models.py). -/
structure Entry where
  message : String
  severity : Int
  time : Rat
deriving DecidableEq, Repr

/-- `AggregatedErrorLogEntry`. -/
structure Agg where
  message : String
  severity : Int
  time : Rat
  occurrences : Nat
deriving DecidableEq, Repr

/-- `AggregatedErrorLogEntry.from_entry`. -/
def Agg.ofEntry (e : Entry) : Agg := ⟨e.message, e.severity, e.time, 1⟩

/-- The inner branch: `latest` has the same message and severity as `e`. -/
def absorb (a : Agg) (e : Entry) : Agg :=
  if a.time < e.time then { a with time := e.time, occurrences := a.occurrences + 1 }
  else a   -- equal time ("Duplicate log entry with same created_time") or earlier time: only a warning

/-- One iteration of the `for` loop. -/
def push (rev : List Agg) (e : Entry) : List Agg :=
  match rev with
  | a :: rest =>
    if e.message = a.message ∧ e.severity = a.severity then absorb a e :: rest
    else Agg.ofEntry e :: a :: rest
  | [] => [Agg.ofEntry e]

/-- `aggregate_with(error_log)` on the newest-first representation. -/
def aggregateWith (rev : List Agg) (log : List Entry) : List Agg := log.foldl push rev

/-- `entries` in the order Python holds them (oldest first). -/
def entries (rev : List Agg) : List Agg := rev.reverse

/-- Aggregating a whole history of batches into an empty log. -/
def aggregateAll (batches : List (List Entry)) : List Agg := batches.foldl aggregateWith []

/-! Deliberately wrong variant, used only by the harness self-test: counts an equal-time
    redelivery as a new occurrence. -/
def absorbMutant (a : Agg) (e : Entry) : Agg :=
  if a.time ≤ e.time then { a with time := e.time, occurrences := a.occurrences + 1 } else a

def pushMutant (rev : List Agg) (e : Entry) : List Agg :=
  match rev with
  | a :: rest =>
    if e.message = a.message ∧ e.severity = a.severity then absorbMutant a e :: rest
    else Agg.ofEntry e :: a :: rest
  | [] => [Agg.ofEntry e]

end OPM.ErrorLog
