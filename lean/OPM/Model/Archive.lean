/-
C39 model: the engine's local run archive.

Python modelled (as it is):
* `openpectus/engine/archiver.py` — `ArchiverTag.prepare_tags_file` (header row) and
  `ArchiverTag.write_tags_row` (data row): both evaluate `[tag.archive() for tag in self.tags]`, drop the
  `None`s, and hand the row to `csv.writer(f, delimiter=',', quoting=csv.QUOTE_NONE, escapechar='\\')`.
* `openpectus/lang/exec/tags.py` — `Tag.archive` (`None → ""`, float → `"%0.5f"`, else `str(value)`; the
  simulated value when simulating), `Tag.set_value`, `simulate_value`, `stop_simulation`.
* `openpectus/lang/exec/tags_impl.py` — `MarkTag.set_value` (append with `"; "`) and the side-effecting
  `MarkTag.archive` (returns the value and resets it to `""`).
* CPython 3.12 `_csv`: the writer (`join_append_data` for QUOTE_NONE with an escapechar, lineterminator
  `\r\n`) and the reader state machine (`parse_process_char`, `Reader_iternext`) restricted to this dialect
  (QUOTE_NONE ⇒ no quoted states; `skipinitialspace = False`; `strict = False`), fed by a text file opened
  with `newline=''` (lines end at `\n`, `\r` or `\r\n`, terminators kept).  The csv module is third-party
  behaviour: it is *modelled* here and validated differentially on every run.

Abstractions: the file is a `List Char`; wall-clock time is an op argument (the harness patches `datetime`);
float values are multiples of 1/32 (for which `"%0.5f"` is exact).  Core Lean only.
-/
namespace OPM.Archive

/-! ## The csv dialect: writer -/

/-- Characters the QUOTE_NONE writer prefixes with the escapechar: delimiter, escapechar, quotechar (`"`, still
    set in the dialect) and the characters of the line terminator. -/
def needsEscape (c : Char) : Bool :=
  c == ',' || c == '\\' || c == '"' || c == '\r' || c == '\n'

def escChar (c : Char) : List Char := if needsEscape c then ['\\', c] else [c]

def escField (f : List Char) : List Char := f.flatMap escChar

/-- Fields of one record joined by the delimiter (no terminator). -/
def joinFields : List (List Char) → List Char
  | [] => []
  | [f] => escField f
  | f :: fs => escField f ++ ',' :: joinFields fs

inductive Err where
  | singleEmptyField   -- csv.Error "single empty field record must be quoted"
  | newlineInUnquoted  -- csv.Error "new-line character seen in unquoted field"
deriving Repr, DecidableEq

/-- `writer.writerow(row)`: the text appended to the file. -/
def writeRow (row : List (List Char)) : Except Err (List Char) :=
  if row = [[]] then .error .singleEmptyField
  else .ok (joinFields row ++ ['\r', '\n'])

/-- `writer.writerows(rows)` / successive `writerow` calls on a file: the text appended. -/
def writeRows : List (List (List Char)) → Except Err (List Char)
  | [] => .ok []
  | r :: rs =>
    match writeRow r with
    | .error e => .error e
    | .ok t =>
      match writeRows rs with
      | .error e => .error e
      | .ok ts => .ok (t ++ ts)

/-! ## The csv dialect: reader -/

/-- What the reader state machine is fed: the characters of each line, then an end-of-line mark per line. -/
inductive Sym where
  | ch (c : Char)
  | eol
deriving Repr, DecidableEq

/-- Iteration of a text file opened with `newline=''`: lines end after `\n`, `\r\n` or a lone `\r`; a last
    line without terminator is still a line.  Returns the stream of symbols the csv reader processes. -/
def symbols : List Char → List Sym
  | [] => []
  | [c] => [.ch c, .eol]
  | c :: d :: rest =>
    if c = '\r' ∧ d = '\n' then .ch c :: .ch d :: .eol :: symbols rest
    else if c = '\n' ∨ c = '\r' then .ch c :: .eol :: symbols (d :: rest)
    else .ch c :: symbols (d :: rest)

inductive Mode where
  | startRecord | startField | escapedChar | afterEscapedCRNL | inField | eatCRNL
deriving Repr, DecidableEq

structure RState where
  mode : Mode := .startRecord
  field : List Char := []             -- current field buffer (`field_len = field.length`)
  fields : List (List Char) := []     -- fields of the current record, in order
deriving Repr, DecidableEq

def saveField (s : RState) : RState := { s with fields := s.fields ++ [s.field], field := [] }
def addChar (s : RState) (c : Char) : RState := { s with field := s.field ++ [c] }

def isNL (c : Char) : Bool := c == '\n' || c == '\r'

/-- `IN_FIELD` handling (also the fall-through target of `AFTER_ESCAPED_CRNL`). -/
def inFieldStep (s : RState) : Sym → RState
  | .eol => { saveField s with mode := .startRecord }
  | .ch c =>
    if isNL c then { saveField s with mode := .eatCRNL }
    else if c = '\\' then { s with mode := .escapedChar }
    else if c = ',' then { saveField s with mode := .startField }
    else addChar s c

/-- `START_FIELD` handling (also the fall-through target of `START_RECORD`). -/
def startFieldStep (s : RState) : Sym → RState
  | .eol => { saveField s with mode := .startRecord }
  | .ch c =>
    if isNL c then { saveField s with mode := .eatCRNL }
    else if c = '\\' then { s with mode := .escapedChar }
    else if c = ',' then saveField s
    else { addChar s c with mode := .inField }

/-- `parse_process_char` for this dialect. -/
def step (s : RState) (x : Sym) : Except Err RState :=
  match s.mode, x with
  | .startRecord, .eol => .ok s
  | .startRecord, .ch c =>
    if isNL c then .ok { s with mode := .eatCRNL } else .ok (startFieldStep { s with mode := .startField } x)
  | .startField, _ => .ok (startFieldStep s x)
  | .escapedChar, .ch c =>
    if isNL c then .ok { addChar s c with mode := .afterEscapedCRNL }
    else .ok { addChar s c with mode := .inField }
  | .escapedChar, .eol => .ok { addChar s '\n' with mode := .inField }
  | .afterEscapedCRNL, .eol => .ok s
  | .afterEscapedCRNL, .ch _ => .ok (inFieldStep s x)
  | .inField, _ => .ok (inFieldStep s x)
  | .eatCRNL, .eol => .ok { s with mode := .startRecord }
  | .eatCRNL, .ch c => if isNL c then .ok s else .error .newlineInUnquoted

/-- `Reader_iternext` repeated until the input is exhausted: a record is returned whenever the state is
    `START_RECORD` after a line; at the end of the input a pending field is saved and the record returned. -/
def readSyms : RState → List Sym → Except Err (List (List (List Char)))
  | s, [] =>
    if s.mode = .startRecord then .ok []
    else if s.field ≠ [] then .ok [(saveField s).fields]
    else .ok []
  | s, x :: xs =>
    match step s x with
    | .error e => .error e
    | .ok s' =>
      if x = .eol ∧ s'.mode = .startRecord then
        match readSyms {} xs with
        | .error e => .error e
        | .ok rows => .ok (s'.fields :: rows)
      else readSyms s' xs

/-- `list(csv.reader(open(path, newline=''), delimiter=',', quoting=QUOTE_NONE, escapechar='\\'))`. -/
def readFile (text : List Char) : Except Err (List (List (List Char))) :=
  readSyms {} (symbols text)

/-! ## Tags and the archiver -/

/-- A tag value as far as `archive()` distinguishes it. `flt neg num den` is the float `(-1)^neg · num/den`
    exactly (`float.as_integer_ratio()`, `den` a power of two; `neg` also carries the sign of `-0.0`). -/
inductive Val where
  | none
  | flt (neg : Bool) (num den : Nat)
  | int (n : Int)
  | str (s : List Char)
deriving Repr, DecidableEq

def digits5 (n : Nat) : List Char :=
  let s := (toString n).toList
  List.replicate (5 - s.length) '0' ++ s

/-- `f"{x:0.5f}"`: the exact binary value correctly rounded to 5 decimals, ties to even (CPython formats
    floats with correctly rounded decimal conversion); the sign is kept even when the digits are all zero. -/
def fmtFloat (neg : Bool) (num den : Nat) : List Char :=
  let q := num * 100000 / den
  let r := num * 100000 % den
  let k := if 2 * r > den then q + 1 else if 2 * r = den then (if q % 2 = 0 then q else q + 1) else q
  (if neg then ['-'] else []) ++ (toString (k / 100000)).toList ++ '.' :: digits5 (k % 100000)

def renderVal : Val → List Char
  | .none => []
  | .flt neg num den => fmtFloat neg num den
  | .int n => (toString n).toList
  | .str s => s

inductive Kind where
  | plain      -- `Tag.archive`
  | mark       -- `MarkTag.archive` (returns and clears)
  | skipped    -- `ArchiverTag.archive` (always `None`: no column)
deriving Repr, DecidableEq

structure Tag where
  kind : Kind
  name : List Char
  unit : Option (List Char) := none
  value : Val := .none
  simValue : Val := .none
  simulated : Bool := false
deriving Repr, DecidableEq

/-- `tag.archive()`: the new tag state and the returned `str | None`. -/
def archive (t : Tag) : Tag × Option (List Char) :=
  match t.kind with
  | .skipped => (t, none)
  | .mark =>
    -- value = self.value; super().set_value("", now); return str(value or "")
    ({ t with value := .str [] },
     some (match t.value with
       | .str s => s
       | .int n => if n = 0 then [] else renderVal (.int n)
       | .flt neg num den => if num = 0 then [] else renderVal (.flt neg num den)   -- not produced by MarkTag.set_value
       | .none => []))
  | .plain => (t, some (renderVal (if t.simulated then t.simValue else t.value)))

/-- `[tag.archive() for tag in self.tags]`. -/
def archiveAll : List Tag → List Tag × List (Option (List Char))
  | [] => ([], [])
  | t :: ts =>
    let (t', v) := archive t
    let (ts', vs) := archiveAll ts
    (t' :: ts', v :: vs)

/-- Header cell: `f'{tag.name} [{tag.unit}]' if tag.unit is not None else tag.name`. -/
def headerCell (t : Tag) : List Char :=
  match t.unit with
  | some u => t.name ++ " [".toList ++ u ++ [']']
  | none => t.name

/-- `'Datetime (UTC)'` -/
def timeHeader : List Char :=
  ['D', 'a', 't', 'e', 't', 'i', 'm', 'e', ' ', '(', 'U', 'T', 'C', ')']

/-- Header row as `prepare_tags_file` computes it: cells of the tags whose `archive()` was not `None`. -/
def headerRow (tags : List Tag) (vals : List (Option (List Char))) : List (List Char) :=
  timeHeader :: ((tags.zip vals).filter (fun p => p.2.isSome)).map (fun p => headerCell p.1)

def dataRow (now : List Char) (vals : List (Option (List Char))) : List (List Char) :=
  now :: vals.filterMap id

structure State where
  tags : List Tag
  fileExists : Bool := false
  fileReady : Bool := false
  file : List Char := []
  /-- ghost: the rows handed to `writer.writerow` that were written (what was archived) -/
  log : List (List (List Char)) := []
  /-- archive files of the runs that were stopped, oldest first: (file text, ghost log) -/
  finished : List (List Char × List (List (List Char))) := []
  /-- text of the file `read_last_run_archive` opens after the last `on_stop` (`none`: that run has no file) -/
  lastRun : Option (List Char) := none
deriving Repr, DecidableEq

inductive Op where
  | start                              -- `on_start` → `prepare_tags_file`
  | row (now : List Char)              -- `write_tags_row`
  | set (i : Nat) (v : Val)            -- `tags[i].set_value(v, t)` on a plain tag
  | sim (i : Nat) (v : Val)            -- `tags[i].simulate_value(v, t)`
  | stopSim (i : Nat)                  -- `tags[i].stop_simulation()`
  | mark (i : Nat) (text : List Char)  -- `MarkTag.set_value(text, t)`
  | stop                               -- `on_stop`; the next start is a later second, i.e. another file name
  | startLow                           -- `on_start` with < 5 MB free: the file name is set, no file is prepared
deriving Repr, DecidableEq

/-- Python `==` between two tag values as far as the harness produces them (`2 == 2.0`). -/
def pyEq : Val → Val → Bool
  | .none, .none => true
  | .flt n1 a1 d1, .flt n2 a2 d2 => a1 * d2 == a2 * d1 && (n1 == n2 || a1 == 0)
  | .int a, .int b => a == b
  | .flt n a d, .int b => (if n then -(a : Int) else (a : Int)) == b * (d : Int)
  | .int b, .flt n a d => (if n then -(a : Int) else (a : Int)) == b * (d : Int)
  | .str a, .str b => a == b
  | _, _ => false

def markSep : List Char := "; ".toList

def updTag (tags : List Tag) (i : Nat) (f : Tag → Tag) : List Tag :=
  tags.mapIdx (fun j t => if j = i then f t else t)

/-- `MarkTag.set_value`: `value = str(get_value() or "")`, append with the separator. -/
def markSet (t : Tag) (text : List Char) : Tag :=
  let cur := match (if t.simulated then t.simValue else t.value) with
    | .str s => s
    | .none => []
    | .int n => if n = 0 then [] else renderVal (.int n)
    | .flt neg num den => if num = 0 then [] else renderVal (.flt neg num den)
  { t with value := .str (if cur = [] then text else cur ++ markSep ++ text) }

def stepOp (s : State) : Op → State
  | .start =>
    if s.fileExists then { s with fileReady := true }
    else
      let (tags', vals) := archiveAll s.tags
      let hdr := headerRow s.tags vals
      match writeRow hdr with
      | .ok txt => { s with tags := tags', fileExists := true, fileReady := true,
                            file := s.file ++ txt, log := s.log ++ [hdr] }
      | .error _ => { s with tags := tags', fileExists := true }   -- exception propagates out of on_start
  | .row now =>
    if s.fileReady then
      let (tags', vals) := archiveAll s.tags
      let r := dataRow now vals
      match writeRow r with
      | .ok txt => { s with tags := tags', file := s.file ++ txt, log := s.log ++ [r] }
      | .error _ => { s with tags := tags' }    -- logged, nothing written
    else s
  -- `Tag.set_value` / `simulate_value` assign only `if val != self.value` (so `2.0` does not replace `2`)
  | .set i v => { s with tags := updTag s.tags i (fun t => if pyEq v t.value then t else { t with value := v }) }
  | .sim i v => { s with tags := updTag s.tags i (fun t =>
      if pyEq v t.simValue then { t with simulated := true } else { t with simulated := true, simValue := v }) }
  | .stopSim i => { s with tags := updTag s.tags i (fun t => { t with simulated := false, simValue := .none }) }
  | .mark i text => { s with tags := updTag s.tags i (fun t => markSet t text) }
  | .stop =>
    { s with fileReady := false, fileExists := false, file := [], log := [],
             finished := s.finished ++ (if s.fileExists then [(s.file, s.log)] else []),
             lastRun := if s.fileExists then some s.file else none }
  -- `check_diskspace()` is false: `file_path` is assigned, `prepare_tags_file` is skipped, `file_ready` is left as
  -- it is; rows are gated on `file_ready`, so nothing observable changes
  | .startLow => s

def run (s : State) (ops : List Op) : State := ops.foldl stepOp s

end OPM.Archive
