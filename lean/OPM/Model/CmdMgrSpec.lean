import OPM.Model.CmdMgr
/-!
Decidable statements about states and ticks of the M2 model: the invariants the proofs carry and the
observation-level predicates the property theorems are stated with.  They are executable so that the driver
can evaluate them on every generated op stream (`chk` answers) before anybody tries to prove them.
Core Lean only.
-/
namespace OPM.CmdMgr

def Ev.serial : Ev → Nat
  | .init s => s
  | .exec s _ _ => s
  | .final s => s

def Req.isUod (r : Req) : Bool := match r.name with | .uod _ => true | _ => false

/-- Two command names may not execute together: same name or on a common overlap list. -/
def conflict (cfg : Cfg) (a b : Nat) : Bool := a == b || !(conflictLists cfg a b).isEmpty

/-- Events of one instance. -/
def traceOf (evs : List Ev) (ser : Nat) : List Ev := evs.filter (fun e => e.serial == ser)

/-- What the callbacks of an instance must have been, given its flags: `init`, then one `exec` per iteration,
then `final` iff it is finalized. -/
def expected (o : Cmd) : List Ev :=
  (if o.initialized then [Ev.init o.serial] else []) ++
  (List.range o.iters).map (fun i => Ev.exec o.serial o.name i) ++
  (if o.finalized then [Ev.final o.serial] else [])

/-! ### invariant (between requests of a loop and between ops) -/

def serialsOK (objs : List Cmd) : Bool :=
  (List.range objs.length).all (fun i => match objs[i]? with | some o => o.serial == i | none => false)

def liveOK (s : State) (o : Cmd) : Bool :=
  !o.finalized && o.initialized &&
  s.executing.any (fun r => r.name == .uod o.name && !r.bad && !s.done.contains r.id)

def objOK (s : State) (o : Cmd) : Bool :=
  (if o.inMap then liveOK s o else o.finalized) &&
  traceOf s.events o.serial == expected o &&
  s.objs.all (fun o' => !(o.inMap && o'.inMap && conflict s.cfg o.name o'.name) || o.serial == o'.serial)

def objsOK (s : State) : Bool :=
  serialsOK s.objs && s.objs.all (objOK s) && s.events.all (fun e => e.serial < s.objs.length)

def idsOK (s : State) : Bool :=
  decide ((s.queue ++ s.executing).map (·.id)).Nodup &&
  (s.queue ++ s.executing).all (fun r => r.id < s.nextId) &&
  decide (s.track.map (·.id)).Nodup && s.track.all (fun t => t.id < s.nextId)

/-- Records exist for the requests the manager holds while tracking is enabled. -/
def tracksOK (s : State) : Bool :=
  !s.tracking || (s.queue ++ s.executing).all (fun r => !r.isUod || (getTrack s.track r.id).isSome)

def lifeReqs (s : State) : List Req := (s.queue ++ s.executing).filter (fun r => !r.isUod)

/-- Lifecycle discipline of the engine as far as the command manager depends on it. -/
def lifeOK (s : State) : Bool :=
  (lifeReqs s).length ≤ 1 &&
  (s.started || (s.queue ++ s.executing).all (fun r => !r.isUod)) &&
  (!s.started || s.tracking) &&
  (match s.resident with
   | none => !s.stopping
   | some l =>
     l.phase != 0 && (l.name == .stop || l.name == .restart) &&
     (lifeReqs s).any (fun r => r.name == l.name) && s.queue.isEmpty &&
     (if l.phase == 1 then s.stopping && (s.queue ++ s.executing).all (fun r => !r.isUod) && s.started
      else !s.stopping && !s.started && l.name == .restart)) &&
  (s.sys != .stopped || !s.started)

/-- Marks of a record are coherent with its node and command. -/
def trackOK (s : State) (t : Track) : Bool :=
  -- the last snapshot is the node's current flag (a concluded invocation takes no further states)
  (t.concluded || match t.marks.getLast? with | some p => p.2 == t.free | none => true) &&
  (!t.hasMark .cancelled || !t.free) && (!t.hasMark .forced || t.nForced) &&
  (t.hasMark .cmdSet == t.cmd.isSome) &&
  -- (Failed without a start: the request's arguments were rejected)
  -- (Completed without a start: the request ran an instance created by an earlier, rejected request, whose
  --  record took the Started state — or refused it)
  (!t.hasMark .started || t.hasMark .cmdSet) &&
  (match t.cmd with
   | none => true
   | some ser =>
     match getObj s.objs ser with
     | none => false
     | some o => o.owner == t.id &&
       -- a conclusive mark after the start of the command: the command has ended
       (!((t.marks.dropWhile (fun p => p.1 != .cmdSet)).any (fun p => p.1.conclusive)) || o.finalized)) &&
  -- a started request without conclusive mark is still held by the manager
  (!(t.hasMark .started && !t.marks.any (fun p => p.1.conclusive)) ||
    s.executing.any (fun r => r.id == t.id && !s.done.contains r.id))

def good (s : State) : Bool :=
  objsOK s && idsOK s && tracksOK s && lifeOK s && s.track.all (trackOK s) &&
  s.objs.all (fun o => !o.inMap || !s.tracking || (getTrack s.track o.owner).isSome)

/-- Between ops. -/
def goodB (s : State) : Bool := good s && s.done.isEmpty && s.resetTo.isNone

/-! ### observation-level predicates -/

/-- `(serial, name)` of the exec callbacks in a list of events. -/
def execsOf (evs : List Ev) : List (Nat × Nat) :=
  evs.filterMap (fun e => match e with | .exec s n _ => some (s, n) | _ => none)

/-- No two different instances with the same or overlapping names execute. -/
def exclusive (cfg : Cfg) (evs : List Ev) : Bool :=
  (execsOf evs).all (fun a => (execsOf evs).all (fun b => a.1 == b.1 || !conflict cfg a.2 b.2))

/-- Events a tick adds. -/
def tickEvents (s : State) : List Ev := (tick s).1.events.drop s.events.length

def liveObjs (s : State) : List Cmd := s.objs.filter (·.inMap)

/-- Every record with a Started mark has a conclusive mark. -/
def concluded (tr : List Track) : Bool :=
  tr.all (fun t => !t.hasMark .started || t.marks.any (fun p => p.1.conclusive))

def offeredCancel (s : State) (i : Nat) : Bool :=
  match getTrack s.track i with
  | some t => (match t.item with | some (c, _) => c | none => false)
  | none => false

def offeredForce (s : State) (i : Nat) : Bool :=
  match getTrack s.track i with
  | some t => (match t.item with | some (_, f) => f | none => false)
  | none => false

end OPM.CmdMgr
