/-
M3 Interp (types and static helpers; see Interp.lean) — executable model of the P-code interpreter
(`openpectus/lang/exec/pinterpreter.py`, `visitor.py`, runtime flags of `lang/model/ast.py`).

Python generators are modelled as explicit frame stacks (a defunctionalised coroutine): every
`yield VisitResult.EndTick` of the source is a point where `stepGen` returns `Signal.endTick`;
`ContinueTick` yields are not tick boundaries and are elided.  One `Gen` per Python generator
object: the main visitor (gid 0) and one per registered interrupt (Watch / Alarm / Injected).

What is abstracted (inputs of the model, supplied by the harness per tick):
 * clocks: the scope clock and the block clock values (the tags the base unit provider names),
 * condition tags: integer tag values; a condition is `tag op const` over integers,
 * completion of engine/UOD command nodes (op `complete`), cancel / force requests,
 * whether a command name is known to the engine (`cmdFails`).
Not modelled: exceptions raised outside a node body (threshold evaluation errors), sep paths as
strings, run-log records (see Model/RunLog), the `Noop` debug instruction.
Core Lean only.
-/
namespace OPM.Interp

inductive Op where | lt | le | eq | ne | gt | ge
deriving Repr, DecidableEq, Inhabited

structure Cond where
  tag : Nat
  op : Op
  val : Int
deriving Repr, DecidableEq, Inhabited

inductive Kind where
  | program
  | blank (trailing : Bool)          -- Blank / Comment; `has_only_trailing_whitespace`
  | mark (name : String)
  | simple (label : String)          -- Batch, Notify, Simulate, Simulate off, Run counter, Increment run counter
  | base (factor : Rat) (unit : String)   -- Base: s|min|h  (factor = seconds per unit)
  | failing (label : String)         -- instruction whose body raises after mark_started (error instruction, bad Base …)
  | macro (name : String)
  | call (name : String)
  | block (name : String)
  | endBlock
  | endBlocks
  | wait (seconds : Rat)
  | watch (c : Cond)
  | alarm (c : Cond)
  | cmd (name : String) (fails : Bool)   -- Engine / UOD command: handed to the engine
  | injected
deriving Repr, Inhabited

structure Node where
  kind : Kind
  parent : Option Nat
  children : List Nat
  threshold : Option Rat
  keyPath : List Nat := []    -- code points of `Node.key_path`; used only for the sort in `get_locked_blocks`
  inProgram : Bool := true    -- false for injected nodes (not reachable from the program root)
deriving Repr, Inhabited

abbrev Prog := Array Node

structure NodeRt where
  started : Bool := false
  completed : Bool := false
  failed : Bool := false
  cancelled : Bool := false
  forced : Bool := false
  childIndex : Nat := 0
  childrenComplete : Bool := false
  interruptRegistered : Bool := false
  activated : Bool := false
  blockEnded : Bool := false
  lockAcquired : Bool := false
  runCount : Nat := 0
  runStarted : Nat := 0
  runCompleted : Nat := 0
  isRegistered : Bool := false
  waitStart : Option Rat := none
  hasRecord : Bool := false      -- a runtime record exists (`runtimeinfo.begin_visit` ran for the node)
deriving Repr, Inhabited, DecidableEq

inductive Event where
  | start (n : Nat)                 -- wrapper set `started`
  | effect (n : Nat) (what : String) -- the instruction's effect (Mark set, command scheduled, …)
  | complete (n : Nat)
  | fail (n : Nat)
  | bodyStart (n : Nat)             -- Watch / Alarm / Injected / Call macro / Block body begins
  | blockStart (name : String)
  | blockEnd (old new : String)
  | scopeStart (n : Nat)
  | scopeActivate (n : Nat)
  | scopeEnd (n : Nat)
  | methodEnd
  | register (n : Nat)
  | unregister (n : Nat)
deriving Repr, DecidableEq, Inhabited

inductive Frame where
  | wrapEnter (n : Nat)
  | wrapThr (n : Nat)
  | wrapDispatch (n : Nat)          -- after the unconditional EndTick of `visit_Node`
  | wrapAfter (n : Nat)
  | children (n : Nat) (inx : Nat) (inChild : Bool)
  | body (n : Nat) (pc : Nat)
  | callRet (n : Nat) (m : Nat)          -- `visit_CallMacroNode` after visiting macro node `m` (a local variable)
  | waitLoop (n : Nat) (endT : Rat)      -- `Wait` loop; `duration_end_time` is a local variable
deriving Repr, DecidableEq, Inhabited

structure Gen where
  gid : Nat
  node : Nat           -- interrupt node (0 = program for the main generator)
  stack : List Frame   -- head = innermost frame; [] = exhausted
deriving Repr, Inhabited

structure St where
  rt : Nat → NodeRt := fun _ => {}     -- total map node ↦ runtime record (function update; see `setRt`)
  gens : List Gen := []
  imap : List (Nat × Nat) := []        -- `_interrupts_map`: node ↦ gid, Python dict order
  nextGid : Nat := 1
  macros : List (String × Nat) := []   -- `program.macros`, Python dict order
  marks : List String := []            -- Mark tag = "; ".join
  blockTag : Option String := none
  baseFactor : Rat := 60               -- Base default "min"
  baseUnit : String := "min"
  events : List Event := []            -- newest first
  lastError : Option Nat := none
  tickTime : Rat := 0
  scopeClock : Rat := 0
  blockClock : Rat := 0
  tags : List Int := []
  inInterrupt : Bool := false
deriving Inhabited

inductive Signal where | cont | endTick | done
deriving Repr, DecidableEq

/-! ### static helpers -/

def node (p : Prog) (n : Nat) : Node := p.getD n default

/-- `Node.parents` (nearest first), bounded by the program size. -/
def ancestorsAux (p : Prog) : Nat → Nat → List Nat
  | 0, _ => []
  | fuel + 1, n =>
    match (node p n).parent with
    | none => []
    | some q => q :: ancestorsAux p fuel q

def ancestors (p : Prog) (n : Nat) : List Nat := ancestorsAux p p.size n

/-- `get_child_nodes(recursive=True)`. -/
def descendantsAux (p : Prog) : Nat → Nat → List Nat
  | 0, _ => []
  | fuel + 1, n => (node p n).children.flatMap (fun c => c :: descendantsAux p fuel c)

def descendants (p : Prog) (n : Nat) : List Nat := descendantsAux p p.size n

def isBlock (p : Prog) (n : Nat) : Bool :=
  match (node p n).kind with | .block _ => true | _ => false

def blockName (p : Prog) (n : Nat) : String :=
  match (node p n).kind with | .block nm => nm | _ => ""


end OPM.Interp
