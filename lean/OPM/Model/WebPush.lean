/-
M13 (part): targeting of push notifications.

Python modelled (the code as it is — no repair):
* `WebPushRepository.store_notifications_preferences` (upsert by `user_id`), `store_subscription` (new row, SQLite
  rowid = max id + 1), `delete_subscription`, `get_notification_preferences_for_topic`
  (`topics.contains(topic)`), `get_subscriptions(user_ids)` (`user_id IN (…)`)          — repository.py
* `WebPushPublisher._get_subscriptions_for_topic` (three scope lists, concatenated) and the loop of
  `publish_message` (not configured → nothing; timestamp older than 5 minutes → nothing; new-contributor
  notifications skip the subscriptions of the contributor)                                — webpush_publisher.py
* `has_access(unit, roles)` = no required roles, or one of them is among the user's roles — routers/auth.py

Abstractions: user, role, unit ids and topics are `Nat` (the harness maps them to strings / the enum);
`topics.contains(topic)` on the JSON column is SQL `LIKE '%topic%'` — modelled as list membership, which is what
it computes for lists of `NotificationTopic` values (no enum value matches inside the JSON text of a list that
does not contain it: checked exhaustively against the real repository by the harness on every run);
endpoint/keys of a subscription, the notification payload and the HTTP post are not modelled — a "post" is the
subscription row handed to `_post_webpush`; contributors without id (`None`) never equal a user id and are
dropped by the harness.
-/
namespace OPM.WebPush

inductive Scope where
  | access        -- PROCESS_UNITS_I_HAVE_ACCESS_TO
  | contributed   -- PROCESS_UNITS_WITH_RUNS_IVE_CONTRIBUTED_TO
  | specific      -- SPECIFIC_PROCESS_UNITS
deriving Repr, DecidableEq

/-- One row of WebPushNotificationPreferences. -/
structure Pref where
  user : Nat
  roles : List Nat
  scope : Scope
  topics : List Nat
  units : List Nat
deriving Repr, DecidableEq

/-- One row of WebPushSubscriptions. -/
structure Sub where
  id : Nat
  user : Nat
deriving Repr, DecidableEq

structure DB where
  prefs : List Pref
  subs : List Sub
deriving Repr, DecidableEq

def DB.empty : DB := ⟨[], []⟩

/-- The part of `EngineData` that targeting reads. -/
structure ProcUnit where
  id : Nat
  required : List Nat       -- required_roles
  contributors : List Nat   -- ids of the contributors of the current run
deriving Repr, DecidableEq

def hasAccess (required roles : List Nat) : Bool :=
  required.isEmpty || required.any (fun r => roles.contains r)

def storePrefs (db : DB) (p : Pref) : DB :=
  if db.prefs.any (fun q => q.user == p.user) then
    { db with prefs := db.prefs.map (fun q => if q.user == p.user then p else q) }
  else { db with prefs := db.prefs ++ [p] }

def maxId (subs : List Sub) : Nat := subs.foldl (fun m s => max m s.id) 0

def storeSub (db : DB) (user : Nat) : DB :=
  { db with subs := db.subs ++ [⟨maxId db.subs + 1, user⟩] }

def deleteSub (db : DB) (id : Nat) : DB :=
  { db with subs := db.subs.filter (fun s => s.id != id) }

inductive Op where
  | pref (p : Pref)
  | sub (user : Nat)
  | del (id : Nat)
deriving Repr, DecidableEq

def apply (db : DB) : Op → DB
  | .pref p => storePrefs db p
  | .sub u => storeSub db u
  | .del i => deleteSub db i

def run (h : List Op) : DB := h.foldl apply DB.empty

/-- `get_notification_preferences_for_topic` -/
def prefsForTopic (db : DB) (topic : Nat) : List Pref := db.prefs.filter (fun p => p.topics.contains topic)

/-- `_get_subscriptions_for_topic` -/
def subscriptionsForTopic (db : DB) (topic : Nat) (u : ProcUnit) : List Sub :=
  let nps := prefsForTopic db topic
  let access := (nps.filter (fun np => np.scope == .access && hasAccess u.required np.roles)).map (·.user)
  let contributed := (nps.filter (fun np => np.scope == .contributed && hasAccess u.required np.roles
                        && (u.contributors.filter (fun c => c == np.user)).length > 0)).map (·.user)
  let specific := (nps.filter (fun np => np.scope == .specific && hasAccess u.required np.roles
                        && np.units.contains u.id)).map (·.user)
  let ids := access ++ contributed ++ specific
  db.subs.filter (fun s => ids.contains s.user)

structure Publish where
  topic : Nat
  unit : ProcUnit
  contributorId : Option Nat   -- notification.data.contributor_id
  configured : Bool            -- `self.wp is not None`
  timestamp : Option Nat       -- notification.timestamp (ms)
  now : Nat                    -- time.time() (s)
deriving Repr, DecidableEq

/-- `notification.timestamp and (time.time()-5*60)*1000 > notification.timestamp` -/
def stale (p : Publish) : Bool :=
  match p.timestamp with
  | none => false
  | some 0 => false
  | some t => decide (((p.now : Int) - 300) * 1000 > (t : Int))

/-- `publish_message`: the subscription rows handed to `_post_webpush`.
    `nc` = the number the harness gives to `NotificationTopic.NEW_CONTRIBUTOR` (topics are numbered by their position
    in the enum of the tree under test; nothing here depends on which number it is). -/
def publish (nc : Nat) (db : DB) (p : Publish) : List Sub :=
  if !p.configured then []
  else if stale p then []
  else (subscriptionsForTopic db p.topic p.unit).filter
         (fun s => !(p.topic == nc && p.contributorId == some s.user))

/-- Mutant for the harness self-test: forgets the role check in the "specific units" scope and the contributor
    exclusion. -/
def publishMutant (_nc : Nat) (db : DB) (p : Publish) : List Sub :=
  if !p.configured then []
  else if stale p then []
  else
    let nps := prefsForTopic db p.topic
    let ids := (nps.filter (fun np =>
      (np.scope == .access && hasAccess p.unit.required np.roles) ||
      (np.scope == .contributed && hasAccess p.unit.required np.roles && p.unit.contributors.contains np.user) ||
      (np.scope == .specific && np.units.contains p.unit.id))).map (·.user)
    db.subs.filter (fun s => ids.contains s.user)

/-! ### The caller that builds the new-contributor notification (`aggregator.py`, `FromFrontend`)

`save_method`, `request_cancel`, `request_force` and `add_contributor` (used by `excute_command` and
`excute_control_button_command`) all end with

    if user not in engine_data.contributors: self.publish_new_contributor_notification(engine_id, user)
    engine_data.contributors.add(user)

and `publish_new_contributor_notification` returns without publishing for a contributor without id or when the
engine has no run; otherwise it schedules `publish_message(WebPushNotification(..., data=WebPushData(process_unit_id,
contributor_id=contributor.id)), NEW_CONTRIBUTOR, engine_data)`.  The task runs after `contributors.add`, so the
publish sees the new contributor among the unit's contributors.  The timestamp is the default `int(time.time()*1000)`. -/

/-- `Mdl.Contributor`: id (`None` for an anonymous user) and name; membership in the contributor set is by both. -/
structure Contributor where
  id : Option Nat
  name : Nat
deriving Repr, DecidableEq

/-- The part of `EngineData` that the contributor bookkeeping reads and writes. -/
structure EngineSt where
  id : Nat
  required : List Nat
  contributors : List Contributor
  hasRun : Bool
deriving Repr, DecidableEq

def EngineSt.toUnit (e : EngineSt) : ProcUnit := ⟨e.id, e.required, e.contributors.filterMap (·.id)⟩

structure Env where
  configured : Bool   -- `webpush_publisher.wp is not None`
  now : Nat           -- time.time() (s)
deriving Repr, DecidableEq

/-- `publish_new_contributor_notification`: the publish it schedules, if any. -/
def newContributorNotification (nc : Nat) (e : EngineSt) (c : Contributor) (env : Env) : Option Publish :=
  match c.id with
  | none => none
  | some uid =>
    if !e.hasRun then none
    else some ⟨nc, e.toUnit, some uid, env.configured, some (env.now * 1000), env.now⟩

/-- The common tail of the contributing requests: new engine state and the subscription rows notified. -/
def contribute (nc : Nat) (db : DB) (e : EngineSt) (c : Contributor) (env : Env) : EngineSt × List Sub :=
  if e.contributors.contains c then (e, [])
  else
    let e' := { e with contributors := e.contributors ++ [c] }
    (e', match newContributorNotification nc e' c env with
         | none => []
         | some p => publish nc db p)

/-- Mutant for the harness self-test: the notification is built without `contributor_id`. -/
def contributeMutant (nc : Nat) (db : DB) (e : EngineSt) (c : Contributor) (env : Env) : EngineSt × List Sub :=
  if e.contributors.contains c then (e, [])
  else
    let e' := { e with contributors := e.contributors ++ [c] }
    (e', match newContributorNotification nc e' c env with
         | none => []
         | some p => publish nc db { p with contributorId := none })

end OPM.WebPush
