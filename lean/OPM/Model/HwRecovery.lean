/-
M10 (part 1): `openpectus/engine/hardware_recovery.py` — `ErrorRecoveryDecorator`.

Modelled functions: `__init__` (state from `decorated.is_connected`), `success_read`,
`success_write`, `filter_write_values`, `error_read_write`, `_is_backoff_tick`, `tick`,
`_update_connection_status` + the `on_*` callbacks, `read`, `read_batch`,
`_get_last_known_good_values`, `write`, `write_batch`, `connect`, `_write_pending_values`.

The decorated hardware is the environment: every op says what the concrete hardware does with
the call(s) the decorator makes (read value / failure, write success / failure after k physical
writes, outcome of each pending-flush write, reconnect success / failure).  The fake hardware's
write memory `hw` is part of the state so that "what the registers hold" can be stated.

Abstractions (each one is a listed assumption of the checks):
* time is a natural number of 1/8 s since construction (`time.time()` is a virtual clock in the
  harness; all comparisons are exact on dyadic floats);
* register values are `None`, numbers (in 1/8 units; Python `1 == 1.0`, so int/float of equal
  value are one `Val`) or opaque strings; `math.isclose` (rel 1e-9) is abstracted to equality —
  the harness only feeds multiples of 1/8 below 2^20, where both coincide;
* one `Register` object per register name (as in `hwl.registers`), so the `Register`-keyed dict
  `pending_writes` and the name-keyed dicts are keyed alike;
* `ErrorRecoveryConfig.only_write_modified_values` is `True` (the only value used in production,
  `engine/main.py`);
* the concrete hardware raises only `HardwareLayerException`; callbacks are unset (`None`).

`Cfg.asIsPending` / `Cfg.asIsFloat` select the behaviour of the *unrepaired* code at two places
(see fixes/C24-*.diff); the repaired code is `false / false`:
* `asIsPending`: `_write_pending_values` skips — but keeps — a buffered value whose register was
  just written (repaired: the superseded buffered value is dropped);
* `asIsFloat`: `filter_write_values` drops a `float` whose last written value is not a number
  (repaired: it is written).
-/
namespace OPM.HwRecovery

inductive RState where
  | disconnected | ok | issue | reconnect | error
deriving DecidableEq, Repr, Inhabited

/-- Register values: Python `None`, a number in units of 1/8, an opaque string. -/
inductive Val where
  | none
  | num (e : Int)
  | str (c : Nat)
deriving DecidableEq, Repr, Inhabited

/-- A value as passed to `write`: the value and whether its Python type is `float`. -/
structure WVal where
  v : Val
  fl : Bool
deriving DecidableEq, Repr

inductive Dir where
  | r | w | rw
deriving DecidableEq, Repr

abbrev RegId := Nat

structure Reg where
  id : RegId
  dir : Dir
deriving DecidableEq, Repr

def Reg.canRead (r : Reg) : Bool := r.dir != .w
def Reg.canWrite (r : Reg) : Bool := r.dir != .r

structure Cfg where
  /-- `reconnect_timeout_seconds`, in 1/8 s -/
  t1 : Nat
  /-- `error_timeout_seconds`, in 1/8 s -/
  t2 : Nat
  /-- `reconnect_backoff_ticks` (non-empty, last element positive) -/
  bk : List Nat
  asIsPending : Bool := false
  asIsFloat : Bool := false
deriving Repr

abbrev Map := RegId → Option Val

def upd (m : Map) (k : RegId) (v : Val) : Map := fun j => if j = k then some v else m j

def emptyMap : Map := fun _ => Option.none

structure State where
  st : RState
  /-- the `Connection Status` tag reads "Disconnected" -/
  disc : Bool
  now : Nat
  /-- `last_success_read_write` -/
  lastSuccess : Nat
  /-- `last_state_reconnect_time` -/
  reconnEntered : Nat
  /-- `reconnect_tick + 1` -/
  rt : Nat
  /-- `last_known_good_reads` -/
  lkg : Map
  /-- `last_success_writes` -/
  lsw : Map
  /-- `pending_writes`, in dict (insertion) order -/
  pending : List (RegId × Val)
  /-- write memory of the (fake) concrete hardware -/
  hw : Map

/-- `__init__`: state OK (+ `on_ok`) when the decorated hardware is already connected.
    The tag starts as "Disconnected" (`tags.py`: `Tag(CONNECTION_STATUS, value="Disconnected")`). -/
def init (connected : Bool) : State :=
  { st := if connected then .ok else .disconnected, disc := !connected, now := 0, lastSuccess := 0,
    reconnEntered := 0, rt := 0, lkg := emptyMap, lsw := emptyMap, pending := [], hw := emptyMap }

inductive Res where
  | unit
  | vals (vs : List Val)
  | raiseHw
  | raiseKey
deriving DecidableEq, Repr

def Res.raised : Res → Bool
  | .raiseHw | .raiseKey => true
  | _ => false

structure Out where
  res : Res
  /-- the decorator called the concrete hardware's read/write(_batch): `some true` = it succeeded -/
  contact : Option Bool := Option.none
  /-- physical writes that reached the hardware memory during this op, in order -/
  writes : List (RegId × Val) := []
  /-- a reconnect was attempted: `some true` = it succeeded -/
  reconn : Option Bool := Option.none
  /-- a pending-flush write was attempted during this op and failed -/
  flushFail : Bool := false
deriving Repr

inductive Op where
  | advance (d : Nat)
  | connect (ok : Bool)
  /-- `hwv = none`: the concrete read fails -/
  | read (r : Reg) (hwv : Option Val)
  | readBatch (rs : List Reg) (hwv : Option (List Val))
  /-- `ok`: outcome of the concrete write; `fl`: outcomes of the pending-flush writes, in order
      (missing = success) -/
  | write (r : Reg) (w : WVal) (ok : Bool) (fl : List Bool)
  /-- `failAt = some k`: the concrete batch write raises after k physical writes -/
  | writeBatch (rs : List Reg) (ws : List WVal) (failAt : Option Nat) (fl : List Bool)
  | tick (ok : Bool)
deriving Repr

/-- `_update_connection_status` -/
def statusOf (st : RState) : Bool := st = .disconnected || st = .error

/-- `error_read_write` -/
def errorRW (cfg : Cfg) (s : State) : State :=
  let s := { s with lsw := emptyMap }
  match s.st with
  | .ok => { s with st := .issue, disc := statusOf .issue }
  | .issue =>
    if s.lastSuccess + cfg.t1 < s.now then
      { s with st := .reconnect, disc := statusOf .reconnect, reconnEntered := s.now }
    else s
  | .reconnect =>
    if s.reconnEntered + cfg.t2 < s.now then { s with st := .error, disc := statusOf .error } else s
  | _ => s

/-- common tail of `success_read` / `success_write` -/
def success (s : State) : State :=
  let s := { s with lastSuccess := s.now }
  if s.st = .issue then { s with st := .ok, disc := statusOf .ok } else s

/-- a missing dict entry read as Python `None` -/
def orNone : Option Val → Val
  | some v => v
  | Option.none => Val.none

/-- `_get_last_known_good_values`: `None` when the register was never read successfully. -/
def lkgVal (s : State) (r : Reg) : Val := orNone (s.lkg r.id)

/-- value is considered modified w.r.t. the last successfully written value `o` -/
def modified (cfg : Cfg) (o : Val) (w : WVal) : Bool :=
  if cfg.asIsFloat && w.fl then
    match o with
    | .num _ => w.v != o
    | _ => false
  else w.v != o

/-- one element of `filter_write_values` -/
def needsWrite (cfg : Cfg) (lsw : Map) (p : Reg × WVal) : Bool :=
  match lsw p.1.id with
  | Option.none => true
  | some o => modified cfg o p.2

/-- `pending_writes[r] = v` (dict: an existing key keeps its position) -/
def pset (p : List (RegId × Val)) (k : RegId) (v : Val) : List (RegId × Val) :=
  if p.any (fun e => e.1 = k) then p.map (fun e => if e.1 = k then (k, v) else e) else p ++ [(k, v)]

def psetMany (p : List (RegId × Val)) (kv : List (Reg × WVal)) : List (RegId × Val) :=
  kv.foldl (fun p e => pset p e.1.id e.2.v) p

def hwWrite (hw : Map) (kv : List (Reg × WVal)) : Map :=
  kv.foldl (fun m e => upd m e.1.id e.2.v) hw

def lswWrite (m : Map) (kv : List (Reg × WVal)) : Map :=
  kv.foldl (fun m e => upd m e.1.id e.2.v) m

structure FlushAcc where
  kept : List (RegId × Val)
  hw : Map
  writes : List (RegId × Val)
  /-- some attempted flush write failed -/
  failed : Bool := false

/-- loop of `_write_pending_values` over the snapshot `pending_items` -/
def flushGo (cfg : Cfg) (exc : List RegId) : List (RegId × Val) → List Bool → Map → FlushAcc
  | [], _, hw => ⟨[], hw, [], false⟩
  | (k, v) :: rest, fl, hw =>
    if exc.contains k then
      let a := flushGo cfg exc rest fl hw
      if cfg.asIsPending then { a with kept := (k, v) :: a.kept } else a
    else
      match fl with
      | false :: fl' =>
        let a := flushGo cfg exc rest fl' hw
        { a with kept := (k, v) :: a.kept, failed := true }
      | _ =>
        let a := flushGo cfg exc rest fl.tail (upd hw k v)
        { a with writes := (k, v) :: a.writes }

/-- `_write_pending_values(except_names)`; only called right after a successful write, when the
    state is OK. -/
def flush (cfg : Cfg) (s : State) (exc : List RegId) (fl : List Bool) : State × List (RegId × Val) :=
  if s.st = .ok then
    let a := flushGo cfg exc s.pending fl s.hw
    ({ s with pending := a.kept, hw := a.hw }, a.writes)
  else (s, [])

/-- some flush write attempted by `flush cfg s exc fl` failed -/
def flushFailed (cfg : Cfg) (s : State) (exc : List RegId) (fl : List Bool) : Bool :=
  if s.st = .ok then (flushGo cfg exc s.pending fl s.hw).failed else false

def isBackoff (bk : List Nat) (t : Nat) : Bool :=
  bk.contains t ||
    match bk.getLast? with
    | some last => decide (last < t) && t % last == 0
    | Option.none => false

def zipRW (rs : List Reg) (ws : List WVal) : List (Reg × WVal) := rs.zip ws

def step (cfg : Cfg) (s : State) : Op → State × Out
  | .advance d => ({ s with now := s.now + d }, { res := .unit })
  | .connect ok =>
    if ok then
      if s.st = .disconnected then ({ s with st := .ok, disc := statusOf .ok }, { res := .unit })
      else (s, { res := .unit })
    else (s, { res := .raiseHw })
  | .read r hwv =>
    if !r.canRead then (s, { res := .raiseKey })
    else match s.st with
      | .disconnected | .error => (s, { res := .raiseHw })
      | .reconnect =>
        let s := errorRW cfg s
        (s, { res := .vals [lkgVal s r] })
      | _ =>
        match hwv with
        | some v =>
          (success { s with lkg := upd s.lkg r.id v }, { res := .vals [v], contact := some true })
        | Option.none =>
          let s := errorRW cfg s
          (s, { res := .vals [lkgVal s r], contact := some false })
  | .readBatch rs hwv =>
    if rs.any (fun r => !r.canRead) then (s, { res := .raiseKey })
    else match s.st with
      | .disconnected | .error => (s, { res := .raiseHw })
      | .reconnect =>
        let s := errorRW cfg s
        (s, { res := .vals (rs.map (lkgVal s)) })
      | _ =>
        match hwv with
        | some vs =>
          let lkg := (vs.zip rs).foldl (fun m e => upd m e.2.id e.1) s.lkg
          (success { s with lkg := lkg }, { res := .vals vs, contact := some true })
        | Option.none =>
          let s := errorRW cfg s
          (s, { res := .vals (rs.map (lkgVal s)), contact := some false })
  | .write r w ok fl =>
    if !r.canWrite then (s, { res := .raiseKey })
    else match s.st with
      | .disconnected | .error => (s, { res := .raiseHw })
      | .reconnect =>
        let s := errorRW cfg s
        ({ s with pending := pset s.pending r.id w.v }, { res := .unit })
      | _ =>
        if !needsWrite cfg s.lsw (r, w) then (s, { res := .unit })
        else if ok then
          let s := success { s with hw := upd s.hw r.id w.v, lsw := upd s.lsw r.id w.v }
          let ff := flushFailed cfg s [r.id] fl
          let (s, fw) := flush cfg s [r.id] fl
          (s, { res := .unit, contact := some true, writes := (r.id, w.v) :: fw, flushFail := ff })
        else
          -- (`if self.state == Error: return` is unreachable: the state here was OK or Issue)
          let s := errorRW cfg s
          ({ s with pending := pset s.pending r.id w.v }, { res := .unit, contact := some false })
  | .writeBatch rs ws failAt fl =>
    if rs.any (fun r => !r.canWrite) then (s, { res := .raiseKey })
    else match s.st with
      | .disconnected | .error => (s, { res := .raiseHw })
      | .reconnect =>
        let s := errorRW cfg s
        ({ s with pending := psetMany s.pending (zipRW rs ws) }, { res := .unit })
      | _ =>
        let kv := (zipRW rs ws).filter (needsWrite cfg s.lsw)
        match failAt with
        | Option.none =>
          let s := success { s with hw := hwWrite s.hw kv, lsw := lswWrite s.lsw kv }
          let ff := flushFailed cfg s (kv.map (fun e => e.1.id)) fl
          let (s, fw) := flush cfg s (kv.map (fun e => e.1.id)) fl
          (s, { res := .unit, contact := some true, writes := kv.map (fun e => (e.1.id, e.2.v)) ++ fw,
                flushFail := ff })
        | some k =>
          let done := kv.take k
          let s := errorRW cfg { s with hw := hwWrite s.hw done }
          ({ s with pending := psetMany s.pending kv },
           { res := .unit, contact := some false, writes := done.map (fun e => (e.1.id, e.2.v)) })
  | .tick ok =>
    if s.st = .reconnect || s.st = .error then
      let t := s.rt
      let s := { s with rt := s.rt + 1 }
      if isBackoff cfg.bk t then
        -- on_reconnecting: status refreshed from the (unchanged) state
        let s := { s with disc := statusOf s.st }
        if ok then
          ({ s with rt := 0, st := .ok, disc := statusOf .ok }, { res := .unit, reconn := some true })
        else (s, { res := .unit, reconn := some false })
      else (s, { res := .unit })
    else (s, { res := .unit })

def run (cfg : Cfg) (s : State) (ops : List Op) : State := ops.foldl (fun s op => (step cfg s op).1) s

end OPM.HwRecovery
