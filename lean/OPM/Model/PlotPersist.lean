/-
M13 (part): how tag-update messages of one engine end up as PlotLogEntryValue rows.

Python (openpectus/aggregator):
  aggregator.py     FromEngine.tag_values_changed (184-228), FromEngine._persist_tag_values (230-261),
                    the parts of run_started / run_stopped / uod_info_changed they depend on
  models.py         TagsInfo.upsert (112), RunData.latest_persisted_tick_time (152), EngineData.reset_run
  data/repository.py PlotLogRepository.create_plot_log (entries = one per reading name),
                    store_tag_values (one row per persisted tag that has an entry with its name)

State of the model = what those functions read and write for one registered engine:
  tags      tags_info.map in insertion order (name ↦ value, tick_time); survives run start/stop
  run       (ordinal of the active run, latest_persisted_tick_time) or none
  interval  data_log_interval_seconds (none = math.inf, the default before UodInfoMsg)
  readings  tag names of engine_data.readings (create_plot_log makes one PlotLogEntry per distinct name)
  entries   names of the PlotLogEntries of the active run's plot log
Rows are returned per message (the database table is the concatenation).

Abstractions: tag values are opaque tokens (the harness prints the Python value canonically; `"s:-"` is the
empty string, needed for the Mark rule); tick_time / interval are finite floats, modelled as `Rat`; unit,
formatted value, direction, simulated flag, publisher calls, the METHOD_STATUS → interrupted_by_error rule (the
flag is not read by the persistence code; "Method Status" is a tag like any other here) and
`store_new_tag_info` (unit/type columns of the entry) are not modelled; a run is started at most once per run id
(duplicated RunStartedMsg is C30's subject).  `Row.src` is a ghost field (the tick_time the value was reported
with, before `_persist_tag_values` overwrites it with the batch time) used only in statements, never printed.

Two incidental choices of the code are parameters of the model (`Policy`), so that the theorems hold for, and the
harness can recognise, each of the variants: whether `TagsInfo.upsert` lets an older report overwrite a newer one
(as the code does) or keeps the newer one; whether the threshold test is `>` (as the code does) or `>=`.
`Op.reconnect` = `engine_disconnected` followed by the re-registration: the EngineData is deleted and a new one is
created (empty tag map, no readings, interval inf); `_try_restore_reconnected_engine_data` restores the run id from
the RecentEngines row, `latest_persisted_tick_time` starts at None again; the plot log and its entries stay.
Core Lean only.
-/
namespace OPM.PlotPersist

/-- incidental choices of the implementation (see the header); `asIs` is what /repo does -/
structure Policy where
  keepNewer : Bool := false     -- upsert ignores a report whose tick_time is older than the stored one
  strict : Bool := true         -- threshold: `latest - persisted > interval` (true) or `>=` (false)
deriving DecidableEq, Repr

def asIs : Policy := {}

structure TagVal where
  value : String
  time : Rat
deriving DecidableEq, Repr

/-- one `TagValue` of a `TagsUpdatedMsg` -/
structure Update where
  name : String
  value : String
  time : Rat
deriving DecidableEq, Repr

structure Row where
  run : Nat
  name : String
  time : Rat      -- PlotLogEntryValue.tick_time
  value : String
  src : Rat       -- ghost: reported tick_time of the value
deriving DecidableEq, Repr

structure State where
  pol : Policy := asIs
  tags : List (String × TagVal) := []
  run : Option (Nat × Option Rat) := none
  nextRun : Nat := 0
  interval : Option Rat := none
  readings : List String := []
  entries : List String := []
deriving Repr

def init : State := {}

/-- the initial state of an implementation variant -/
def initWith (pol : Policy) : State := { pol := pol }

def markName : String := "Mark"
def emptyStr : String := "s:-"

/-- `TagsInfo.upsert` (as is: value and tick_time are overwritten unconditionally; position in the dict is kept). -/
def upsert (pol : Policy) : List (String × TagVal) → Update → List (String × TagVal)
  | [], u => [(u.name, ⟨u.value, u.time⟩)]
  | (n, tv) :: rest, u =>
    if n = u.name then
      (if pol.keepNewer && u.time < tv.time then (n, tv) else (n, ⟨u.value, u.time⟩)) :: rest
    else (n, tv) :: upsert pol rest u

/-- the `for changed_tag_value in changed_tag_values` loop: a Mark reset to "" is skipped, everything else upserted -/
def applyUpdates (pol : Policy) (tags : List (String × TagVal)) (ups : List Update) : List (String × TagVal) :=
  ups.foldl (fun t u => if u.name = markName ∧ u.value = emptyStr then t else upsert pol t u) tags

/-- `max([first] + rest)` -/
def maxFrom (m : Rat) : List Rat → Rat
  | [] => m
  | t :: ts => if m < t then maxFrom t ts else maxFrom m ts

/-- `max([tag.tick_time for tag in tag_values]) if len(tag_values) > 0 else 0` -/
def latestTagTime (tags : List (String × TagVal)) : Rat :=
  match tags.map (·.2.time) with
  | [] => 0
  | t :: ts => maxFrom t ts

/-- `latest_persisted_tick_time is None or latest_tag_tick_time - latest_persisted_tick_time > interval` -/
def thresholdExceeded (pol : Policy) (interval : Option Rat) (L : Option Rat) (latest : Rat) : Bool :=
  match L with
  | none => true
  | some l =>
    match interval with
    | none => false               -- x > inf is False
    | some d => if pol.strict then d < latest - l else d ≤ latest - l

/-- tags newer than the last persisted batch -/
def toPersist (tags : List (String × TagVal)) (L : Option Rat) : List (String × TagVal) :=
  tags.filter (fun p => match L with
    | none => true
    | some l => l < p.2.time)

inductive Out where
  | skipped                 -- message ignored (run id of message and engine do not fit), or engine not in a run: no persist
  | rows (rs : List Row)    -- rows written by this message (possibly none)
  | valueError              -- `max([])` in `_persist_tag_values`
deriving DecidableEq, Repr

/-- `_persist_tag_values` for an active run `rid` with `latest_persisted_tick_time = L`.
    Returns the new `latest_persisted_tick_time` and the rows. -/
def persist (pol : Policy) (interval : Option Rat) (entries : List String) (rid : Nat)
    (tags : List (String × TagVal)) (L : Option Rat) : Option Rat × Out :=
  if thresholdExceeded pol interval L (latestTagTime tags) then
    match toPersist tags L with
    | [] => (L, .valueError)
    | p :: ps =>
      let h := maxFrom p.2.time (ps.map (·.2.time))
      let rows := (p :: ps).filterMap (fun q =>
        if entries.contains q.1 then some ⟨rid, q.1, h, q.2.value, q.2.time⟩ else none)
      (some h, .rows rows)
  else (L, .rows [])

inductive Op where
  | uod (readings : List String) (interval : Option Rat)     -- UodInfoMsg
  | newRun                                                     -- RunStartedMsg with a fresh run id
  | stopRun                                                    -- RunStoppedMsg for the active run
  | tags (msgRun : Option Nat) (ups : List Update)             -- TagsUpdatedMsg(run_id = ordinal or None)
  | reconnect                                                  -- engine_disconnected, then RegisterEngineMsg
  | dupStart                                                   -- the RunStartedMsg of the active run once more

def step (s : State) : Op → State × Out
  | .uod readings interval => ({ s with readings := readings, interval := interval }, .skipped)
  | .newRun =>
    -- run_started: (the previous run, if any, is stored and reset;) run_data = RunData.empty; create_plot_log
    ({ s with run := some (s.nextRun, none), nextRun := s.nextRun + 1, entries := s.readings }, .skipped)
  | .stopRun => ({ s with run := none }, .skipped)
  | .dupStart =>
    -- run_started, branch "same id as the current run": run_data (and with it latest_persisted_tick_time) stays,
    -- create_plot_log finds the plot log and does nothing.  (Without an active run the harness sends nothing.)
    (s, .skipped)
  | .reconnect =>
    -- a new EngineData: nothing known about tags, readings or the interval; the run id comes back from the
    -- RecentEngines row, latest_persisted_tick_time does not
    ({ s with tags := [], readings := [], interval := none, run := s.run.map (fun p => (p.1, none)) }, .skipped)
  | .tags msgRun ups =>
    match s.run, msgRun with
    | none, some _ => (s, .skipped)       -- "belongs to run … but there is no active run"
    | some _, none => (s, .skipped)       -- "… but the current run is …"
    | none, none => ({ s with tags := applyUpdates s.pol s.tags ups }, .skipped)   -- upsert only; `_persist` returns at once
    | some (rid, L), some _ =>            -- note: the two ids are not compared any further
      let tags' := applyUpdates s.pol s.tags ups
      let (L', out) := persist s.pol s.interval s.entries rid tags' L
      ({ s with tags := tags', run := some (rid, L') }, out)

/-- All rows written while handling a list of messages. -/
def rowsOf : Out → List Row
  | .rows rs => rs
  | _ => []

def runOps (s : State) : List Op → State × List Row
  | [] => (s, [])
  | op :: ops =>
    let (s₁, o) := step s op
    let (s₂, rs) := runOps s₁ ops
    (s₂, rowsOf o ++ rs)

/-! Deliberately wrong variant for the harness self-test: persists every tag, not only those newer than the
    last batch. -/
def persistMutant (interval : Option Rat) (entries : List String) (rid : Nat)
    (tags : List (String × TagVal)) (L : Option Rat) : Option Rat × Out :=
  if thresholdExceeded asIs interval L (latestTagTime tags) then
    match tags with
    | [] => (L, .valueError)
    | p :: ps =>
      let h := maxFrom p.2.time (ps.map (·.2.time))
      let rows := (p :: ps).filterMap (fun q =>
        if entries.contains q.1 then some ⟨rid, q.1, h, q.2.value, q.2.time⟩ else none)
      (some h, .rows rows)
  else (L, .rows [])

def stepMutant (s : State) : Op → State × Out
  | .tags (some m) ups =>
    match s.run with
    | some (rid, L) =>
      let tags' := applyUpdates s.pol s.tags ups
      let (L', out) := persistMutant s.interval s.entries rid tags' L
      ({ s with tags := tags', run := some (rid, L') }, out)
    | none => step s (.tags (some m) ups)
  | op => step s op

end OPM.PlotPersist
