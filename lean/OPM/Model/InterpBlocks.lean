import OPM.Model.Interp
/-
M3 Interp — the block vocabulary of C05 on top of the interpreter model (specification-level
definitions only; nothing here is executed by the interpreter machine itself):

 * `ProgWF`        well-formed method tree (what the parser / `Node.key_path` / depth-first numbering give);
 * `activeBlocks`  the blocks that hold the lock and are not ended, in `get_locked_blocks()` order;
 * `TagOk`         "the Block tag names the innermost active block, empty when none";
 * `exoticStep`    the micro-steps outside the Block-tag theorem, `calmGen`/`calmGid`/`calmTick` run along
                   `runGen`/`runGid`/`tick` and say whether one of them occurred.
Core Lean only.
-/
namespace OPM.Interp

/-- `a` is a proper prefix of `b` (code-point lists of key paths). -/
def properPrefix (a b : List Nat) : Bool := a.isPrefixOf b && decide (a.length < b.length)

/-- Well-formed method tree: every node belongs to the method (no injected nodes), a parent has a
    smaller index than its child (depth-first numbering of `get_all_nodes`) and the parent's key path
    is a proper prefix of the child's (`key_path = " > ".join(keys of the ancestors + own key)`).
    Decidable; the driver's `wf` op evaluates it on every method the real parser produced. -/
def ProgWF (p : Prog) : Bool :=
  (List.range p.size).all fun n =>
    (node p n).inProgram &&
    match (node p n).parent with
    | none => true
    | some q => decide (q < n) && properPrefix (node p q).keyPath (node p n).keyPath

/-- The active blocks, innermost first: locked (`get_locked_blocks()` order) and not ended. -/
def activeBlocks (p : Prog) (s : St) : List Nat :=
  (lockedBlocks p s).filter (fun b => !(s.rt b).blockEnded)

/-- The value of the Block tag as the engine publishes it: empty when there is no block. -/
def tagName (t : Option String) : String := t.getD ""

/-- Name of the innermost active block, empty when none. -/
def innermostName (p : Prog) (s : St) : String := tagName ((activeBlocks p s).head?.map (blockName p))

/-- **The Block tag names the innermost active block (empty when none).** -/
def TagOk (p : Prog) (s : St) : Prop := tagName s.blockTag = innermostName p s

instance (p : Prog) (s : St) : Decidable (TagOk p s) := by unfold TagOk; infer_instance

/-- The interleavings in which the Block tag can stop naming the innermost active block, as a test on
    the state and the frame about to be stepped:
    * a Block that is visited again while completed, holding the lock, not ended (the "already completed"
      path drops the lock and leaves the tag);
    * a Block that takes the lock although it is already ended;
    * `End block` while the block enclosing the first locked one is already ended (it has not given the
      lock back yet): the tag is set to the ended block's name;
    * an Alarm re-arm / a macro call that resets a subtree in which some node holds the lock
      (`reset_runtime_state` clears `lock_acquired` and leaves the tag). -/
def exoticStep (p : Prog) (s : St) : List Frame → Bool
  | .body n pc :: _ =>
    match (node p n).kind, pc with
    | .block _, 0 => (s.rt n).completed && (s.rt n).lockAcquired && !(s.rt n).blockEnded
    | .block _, 1 => !(s.rt n).lockAcquired && (s.rt n).blockEnded
    | .endBlock, 0 =>
      match lockedBlocks p s with
      | _ :: b :: _ => (s.rt b).blockEnded
      | _ => false
    | .alarm _, 3 => (n :: descendants p n).any (fun k => (s.rt k).lockAcquired)
    | .call name, 0 =>
      match s.macros.lookup name with
      | some m => (m :: descendants p m).any (fun k => (s.rt k).lockAcquired)
      | none => false
    | _, _ => false
  | _ => false

/-- No micro-step of this run of the generator (to its next EndTick) is exotic. -/
def calmGen (p : Prog) : Nat → St → List Frame → Bool
  | 0, _, _ => true
  | fuel + 1, s, stack =>
    !exoticStep p s stack &&
    match stepGen p s stack with
    | (s', stack', .cont) => calmGen p fuel s' stack'
    | _ => true

def calmGid (p : Prog) (fuel : Nat) (s : St) (gid : Nat) : Bool :=
  match getGen s gid with
  | none => true
  | some g => calmGen p fuel s g.stack

/-- The interrupt loop of `tick`, carrying "calm so far" instead of the fuel flag. -/
def calmFold (p : Prog) (l : List Nat) (acc : St × Bool) : St × Bool :=
  l.foldl (fun (acc : St × Bool) gid =>
    let s1 := { acc.1 with inInterrupt := true }
    let r := runGid p microFuel s1 gid
    ({ r.1 with inInterrupt := false }, acc.2 && calmGid p microFuel s1 gid)) acc

/-- **Calm tick**: no micro-step of the main generator or of any interrupt generator in this tick is exotic. -/
def calmTick (p : Prog) (s : St) (i : TickIn) : Bool :=
  let s0 := { s with tickTime := i.time, scopeClock := i.scopeClock, blockClock := i.blockClock,
                     tags := i.tags, events := [], inInterrupt := false }
  calmGid p microFuel s0 0 &&
  (calmFold p ((runGid p microFuel s0 0).1.imap.map (·.2)) ((runGid p microFuel s0 0).1, true)).2

end OPM.Interp
