import OPM.Model.RunState
/-
M1 + outputs ("RunStateOut"): model M1 (RunState) extended by the UOD-command half of
engine/command_manager.py as far as property C08 needs it: a UOD command request carries its *source*
(`CommandRequest.source`: user vs interpreter), the output it writes, the value and the number of iterations;
each iteration of the running command writes the value to the output *tag*; what reaches the hardware is
decided by M1 (`write_process_image`, `_apply_safe_state`, `_apply_state`).

Models (Python, /repo/openpectus/engine/command_manager.py):
* `execute_commands`: ONE list `cmd_executing` for internal and UOD requests, newest first. The list is
  always sorted by arrival (every arrival is inserted at the front), so the model keeps the two kinds in two
  lists and merges them by request id (= arrival ordinal) for the loop.
* `_execute_uod_command`: cancel the other executing requests of the same name, create or fetch the instance
  *by name* (`uod.command_instances`), a cancelled instance is finalized with the *current* request and not
  executed, `initialize`/`execute` each tick until `set_complete`, then `finalize` (dispose) and request done.
* `_cancel_command` / `cancel_commands` for UOD requests as of /repo 1eb29326: cancel + always finalize the
  instance of that name; drop a request that has not started yet.
* `uod.command_instances` survive the replacement of the CommandManager at Stop/Restart, requests do not;
  with `Cfg.cancel2` (/repo 90a68ba6) Stop and Restart cancel the UOD requests of the running loop's manager
  once more in their second phase, so an instance that a user command started inside the stop window is
  disposed before the manager is replaced.

Abstractions / limits:
* a UOD command is "write value v to output r on every iteration, complete after n iterations"; no overlap
  lists, no init/finalize effects, arguments always parse (the full command manager is model M2);
* `tracking.mark_uod_command_started / mark_completed` raising for a request whose instance id was created
  while tracking was disabled (a user UOD command requested while no run is active that is still executing
  after the next Start) is not modelled: the model sets `scopeViolation` instead (driver answers `bad-op scope`).
Core Lean only.
-/
namespace OPM.RunState

/-- A UOD command request. Command `cmd` writes output register `cmd / 2` (harness UOD: W0 L0 W1 L1 W2 L2). -/
structure UReq where
  id : Nat
  cmd : Nat
  user : Bool
  val : Int
  iters : Nat
  tracked : Bool
deriving DecidableEq, Repr

def UReq.reg (u : UReq) : Nat := u.cmd / 2

/-- A live `UodCommand` instance (`uod.command_instances[name]`). -/
structure UInst where
  /-- iterations executed -/
  execs : Nat := 0
  cancelled : Bool := false
  complete : Bool := false
deriving DecidableEq, Repr

/-- The UOD half of one CommandManager. -/
structure UMgr where
  queue : List UReq := []
  exec : List UReq := []
  done : List Nat := []
deriving Repr

structure OState where
  base : State
  /-- UOD half of the manager whose loop is running / of `engine._command_manager` outside a loop -/
  um : UMgr := {}
  /-- `uod.command_instances` -/
  uinst : List (Nat × UInst) := []
  scopeViolation : Bool := false
deriving Repr

def initO (cfg : Cfg) (outs : List Int) : OState := { base := init cfg outs }

def lookupI (k : Nat) : List (Nat × UInst) → Option UInst
  | [] => none
  | (j, i) :: rest => if j = k then some i else lookupI k rest

def eraseI (k : Nat) (l : List (Nat × UInst)) : List (Nat × UInst) := l.filter (fun p => p.1 != k)

def setI (k : Nat) (i : UInst) (l : List (Nat × UInst)) : List (Nat × UInst) := (k, i) :: eraseI k l

namespace OState

def markDone (o : OState) (u : UReq) : OState := { o with um := { o.um with done := u.id :: o.um.done } }

def dispose (o : OState) (k : Nat) : OState := { o with uinst := eraseI k o.uinst }

end OState

/-- `_cancel_command(request, finalize=True)` for a UOD request (as of /repo 1eb29326): the instance of that
    name, if any, is cancelled and always finalized (`_mark_uod_cancelled` records the cancellation even when
    the node refuses it); a request that has not started yet (no instance, not done) is dropped.
    The one case in which the tracking mark still raises — instance id unknown to an enabled tracking — is
    outside the model's scope (`scopeViolation`). -/
def cancelU (tracking : Bool) (o : OState) (u : UReq) : OState :=
  let o1 := if tracking && !u.tracked then { o with scopeViolation := true } else o
  match lookupI u.cmd o.uinst with
  | some _ => (o1.dispose u.cmd).markDone u
  | none => if o.um.done.contains u.id then o else o1.markDone u

/-- the UOD part of `cancel_commands` (Stop / Restart): every request of the list, done or not.
    `pre` is the state in which the internal command that cancels was entered: `cancel_commands` runs on
    `engine._command_manager` as it is *then* — the manager of the running loop unless it was replaced
    earlier in the same loop — and before the command disables tracking / replaces the manager. -/
def cancelUAll (pre : State) (o : OState) : OState :=
  if pre.next.isSome then o else o.um.exec.foldl (cancelU pre.mgr.tracking) o

/-- `_execute_uod_command(request)` -/
def execUod (cfg : Cfg) (o : OState) (u : UReq) : OState :=
  if cfg.pauseGate && o.base.core.paused && !u.user then o
  else
    let o1 := (o.um.exec.filter (fun c => c.cmd == u.cmd && c.id != u.id && !o.um.done.contains c.id)).foldl
      (cancelU o.base.mgr.tracking) o
    let i := (lookupI u.cmd o1.uinst).getD {}
    if i.cancelled then (o1.dispose u.cmd).markDone u
    else
      let o2 := if i.execs = 0 && o1.base.mgr.tracking && !u.tracked then { o1 with scopeViolation := true } else o1
      let core := o2.base.core.uwrite u.reg u.val u.user
      let o3 := { o2 with base := { o2.base with core := core } }
      if i.execs + 1 ≥ u.iters then
        let o4 := if o3.base.mgr.tracking && !u.tracked then { o3 with scopeViolation := true } else o3
        (o4.dispose u.cmd).markDone u
      else { o3 with uinst := setI u.cmd { i with execs := i.execs + 1 } o3.uinst }

/-- one element of the merged `cmd_executing` -/
inductive AnyReq where
  | int (r : Req)
  | uod (u : UReq)
deriving Repr

def AnyReq.id : AnyReq → Nat
  | .int r => r.id
  | .uod u => u.id

/-- merge of two lists sorted by descending id (= arrival order, newest first): before each internal
    request come the UOD requests that arrived after it -/
def mergeReqs : List Req → List UReq → List AnyReq
  | [], us => us.map .uod
  | r :: rs, us =>
    (us.takeWhile (fun u => u.id > r.id)).map .uod ++
      .int r :: mergeReqs rs (us.dropWhile (fun u => u.id > r.id))

/-- the loop of `execute_commands` over internal and UOD requests; `true` = an internal request raised -/
def cmdLoopO (cfg : Cfg) : List AnyReq → OState → OState × Bool
  | [], o => (o, false)
  | .int r :: rest, o =>
    if o.base.mgr.done.contains r.id then cmdLoopO cfg rest o
    else
      match execReq cfg o.base r with
      | (s1, raised) =>
        let o1 := { o with base := s1 }
        let o2 := if s1.cancels != o.base.cancels then cancelUAll o.base o1 else o1
        if raised then (o2, true) else cmdLoopO cfg rest o2
  | .uod u :: rest, o =>
    if o.um.done.contains u.id then cmdLoopO cfg rest o
    else cmdLoopO cfg rest (execUod cfg o u)

def UMgr.drain (m : UMgr) : UMgr := { m with exec := m.queue.reverse ++ m.exec, queue := [], done := [] }

def UMgr.commit (m : UMgr) : UMgr := { m with exec := m.exec.filter (fun u => !m.done.contains u.id), done := [] }

/-- `command_manager.tick` with both halves -/
def cmdPhaseO (cfg : Cfg) (o : OState) : OState :=
  let o0 : OState := { o with base := drain o.base, um := o.um.drain }
  let p := cmdLoopO cfg (mergeReqs o0.base.mgr.exec o0.um.exec) o0
  let swapped := p.1.base.next.isSome
  let o3 : OState := { p.1 with base := adopt p.1.base, um := if swapped then {} else p.1.um.commit }
  if p.2 then { o3 with base := { o3.base with core := o3.base.core.setError cfg } } else o3

/-- interpreter items of the extended model -/
inductive ItemO where
  | m (it : Item)
  | u (cmd : Nat) (val : Int) (iters : Nat)
deriving Repr

def enqueueU (o : OState) (cmd : Nat) (user : Bool) (val : Int) (iters : Nat) : OState :=
  let u : UReq := { id := o.base.nextReq, cmd, user, val, iters, tracked := o.base.emgr.tracking }
  { o with scopeViolation := o.scopeViolation || (!o.base.emgr.tracking && decide (iters > 1)),
           um := { o.um with queue := o.um.queue ++ [u] },
           base := { o.base with nextReq := o.base.nextReq + 1,
                                 core := if user then o.base.core.userRequest (cmd / 2) else o.base.core } }

def interpItemO (o : OState) : ItemO → OState
  | .m it => { o with base := interpItem o.base it }
  | .u c v n => enqueueU o c false v n

structure TickInO where
  adv : Int
  inc : Int
  readFail : Bool := false
  interpFail : Bool := false
  items : List ItemO := []
deriving Repr

/-- the interpreter phase (gated) -/
def tickInterpO (cfg : Cfg) (o : OState) (t : TickInO) : OState :=
  if o.base.core.gate then
    let o := t.items.foldl interpItemO o
    let o := if t.interpFail then { o with base := { o.base with core := o.base.core.setError cfg } } else o
    { o with base := { o.base with lastInterp := true } }
  else
    { o with base := { o.base with lastInterp := false,
                                   gateViolation := o.base.gateViolation || !t.items.isEmpty || t.interpFail } }

/-- read phase -/
def tickReadO (cfg : Cfg) (o : OState) (t : TickInO) : OState :=
  let s := { o.base with now := o.base.now + t.adv }
  { o with base := if t.readFail && !s.core.lastErr then { s with core := s.core.setError cfg } else s }

def tickPreO (cfg : Cfg) (o : OState) (t : TickInO) : OState := tickInterpO cfg (tickReadO cfg o t) t

def tickO (cfg : Cfg) (o : OState) (t : TickInO) : OState :=
  let o1 := tickPreO cfg o t
  let o2 := { o1 with base := tickClock cfg t.inc o1.base }
  let o3 := cmdPhaseO cfg o2
  { o3 with base := { o3.base with core := o3.base.core.writeImage } }

inductive OpO where
  | user (c : Cmd)
  /-- a user-sourced UOD command (no argument): `iters`, `val` are the command's defaults -/
  | userU (cmd : Nat) (val : Int) (iters : Nat)
  | tick (t : TickInO)
  | errApi
deriving Repr

def stepO (cfg : Cfg) (o : OState) : OpO → OState × Out
  | .user c =>
    if o.base.core.valid c then ({ o with base := enqueue o.base c true .none }, .accepted) else (o, .rejected)
  | .userU c v n => (enqueueU o c true v n, .accepted)
  | .tick t => (tickO cfg o t, .none)
  | .errApi => ({ o with base := { o.base with core := o.base.core.setError cfg } }, .none)

def runO (cfg : Cfg) (o : OState) (ops : List OpO) : OState := ops.foldl (fun o op => (stepO cfg o op).1) o

end OPM.RunState
