/-
M13 (concurrency part): `FromFrontend.save_method` (openpectus/aggregator/aggregator.py), reached from the route
`POST /process_unit/{unit_id}/method` (`routers/process_unit.py: save_method`), together with what else changes the
method version of an engine: `FromEngine.engine_disconnected` / `register_engine_data` (the engine data, and with it
the method, is dropped on disconnect and created anew on re-registration).

Python, one request (asyncio task):
    engine_data = get_registered_engine_data_or_fail(...)                       -- route: 404 if the engine is not registered
    [async with <per-engine lock>:]                      -- only in the system `locked = true`
        existing = engine_data_map[engine_id].method.version                    -- KeyError if the engine went away meanwhile
        if existing != method.version: raise AggregatorCallerException          -- the version CHECK  (→ rejected)
        new_method = copy(method); new_method.version += 1                      -- = base + 1
        response = await dispatcher.rpc_call(engine_id, MethodMsg(new_method))  -- the ROUND TRIP (suspension point)
        ErrorMessage / exception → raise                                        -- (→ failed)
        engine_data.method = new_method                                         -- the COMMIT  (version := base + 1)
        return new_method.version                                               -- (→ accepted)

asyncio runs a task without interruption between two awaits, so the atomic steps are
  `start`      : a request enters and runs until it blocks (on the lock, or in the round trip) or is refused;
  `reply`      : the engine's answer to one pending round trip arrives; the task runs to its end; with the lock, the
                 lock is released and handed to the waiters in FIFO order (`asyncio.Lock`), each of which runs until it
                 blocks in its own round trip or is refused;
  `disconnect` : the engine's connection drops: its engine data is deleted; a round trip that was in flight can no
                 longer succeed (it ends with an error, possibly after the engine is back);
  `engineMethod`: the engine sends the method it holds (`handle_MethodMsg`, part of its catch-up after a reconnect):
                 the aggregator takes over the lines and keeps its own version;
  `register`   : the engine registers again: fresh engine data.  `resetOnRegister = true`: its method is
                 `Method.empty()` at version 0 — the code before fixes/C31-version-survives-reregistration.diff;
                 `resetOnRegister = false`: the version continues one above the last version the engine had.
`precheck`: the handler refuses a save whose base is not the current version already in front of the lock (a harmless
fast path; the check under the lock is the one that counts).
Which system the code is (`Cfg`) is measured on the real handler by the harness on every run (three probes); the AST
translator harness/translators/save_lock.py independently says whether one lock spans check, round trip and commit
(`OPM.Gen.SaveLock.lockAcrossAwait`, used by the theorem `code_holds_lock`).

Abstractions: one engine id (lock and version are per engine id); a request is (id, base version, content); the
content plays no part in whether a save is accepted — in the code as in the model the decision is the version check
alone, and every accepted save raises the version by one, also one that changes nothing (`owner` = whose save
`engine_data.method` is; `content` = what it says; none = the empty method of fresh engine data); the engine answers what the schedule says (ok / error); reply and commit are one
step (a disconnect squeezed between the arrival of the answer and the commit — `engine_data is None` at the commit,
the save is answered as accepted and nothing is stored — is not modelled).  Core Lean only.
-/
namespace OPM.SaveConc

structure Req where
  id : Nat
  base : Nat          -- method.version of the posted method = the version the edit was based on
  content : Nat := 0  -- what the posted method says (a small alphabet; equal numbers = identical lines)
deriving Repr, DecidableEq

inductive Outcome where
  | accepted (v : Nat)   -- returned new version
  | rejected             -- refused before anything was sent to the engine: version mismatch, or no such engine
  | failed               -- engine answered ErrorMessage / rpc raised
deriving Repr, DecidableEq

structure Cfg where
  locked : Bool := true
  resetOnRegister : Bool := false
  precheck : Bool := false     -- an additional version check in front of the lock (fast refusal of stale saves)
  methodMsgSetsVersion : Bool := false   -- `handle_MethodMsg` takes the engine's (stale) version too, not only its lines
deriving Repr, DecidableEq

structure State where
  version : Nat                       -- engine_data.method.version (of the current or, while away, the last engine data)
  registered : Bool := true           -- engine_id ∈ _engine_data_map
  reconnects : Nat := 0               -- number of re-registrations so far
  owner : Option Nat := none          -- id of the save that engine_data.method came from (its last_author)
  content : Option Nat := some 0      -- what engine_data.method says (none = the empty method of fresh engine data)
  awaiting : List Req := []           -- requests suspended in the engine round trip
  doomed : List Nat := []             -- ids of round trips that were in flight when the connection dropped
  waiters : List Req := []            -- requests blocked on the lock, FIFO
  accepted : List Req := []           -- accepted saves, in order of acceptance
  engineLog : List Nat := []          -- version of every MethodMsg sent to the engine, in order
  results : List (Nat × Outcome) := []
deriving Repr, DecidableEq

inductive Ev where
  | start (id base : Nat) (content : Nat := 0)
  | reply (id : Nat) (ok : Bool)
  | disconnect
  | register
  | engineMethod (v content : Nat)   -- EM.MethodMsg: the method the engine holds (sent when it catches up after a reconnect)
deriving Repr, DecidableEq

def init (v0 : Nat) : State := { version := v0 }

def known (s : State) (id : Nat) : Bool :=
  s.awaiting.any (·.id == id) || s.waiters.any (·.id == id) || s.results.any (·.1 == id)

/-- The version check followed by sending the MethodMsg: refused, or suspended in the round trip. -/
def enter (s : State) (r : Req) : State :=
  if !s.registered || r.base ≠ s.version then { s with results := s.results ++ [(r.id, .rejected)] }
  else { s with awaiting := s.awaiting ++ [r], engineLog := s.engineLog ++ [r.base + 1] }

/-- Hand the free lock to the waiters in FIFO order until one of them suspends in its round trip. -/
def settle (s : State) : List Req → State
  | [] => { s with waiters := [] }
  | w :: ws =>
    if !s.registered || w.base ≠ s.version then settle { s with results := s.results ++ [(w.id, .rejected)] } ws
    else { enter s w with waiters := ws }

/-- One atomic step; `none` = the event is not enabled in this state. -/
def step (c : Cfg) (s : State) : Ev → Option State
  | .start id base content =>
    if known s id then none
    else if !s.registered then some { s with results := s.results ++ [(id, .rejected)] }   -- route: 404
    else if c.locked && !s.awaiting.isEmpty then
      if c.precheck && base ≠ s.version then some { s with results := s.results ++ [(id, .rejected)] }
      else some { s with waiters := s.waiters ++ [⟨id, base, content⟩] }
    else some (enter s ⟨id, base, content⟩)
  | .reply id ok =>
    match s.awaiting.find? (·.id == id) with
    | none => none
    | some r =>
      if ok && (s.doomed.contains id || !s.registered) then none     -- a dropped round trip cannot succeed any more
      else
        let s₁ := { s with awaiting := s.awaiting.filter (·.id != id), doomed := s.doomed.filter (· != id) }
        let s₂ : State :=
          if ok then { s₁ with version := r.base + 1, owner := some r.id, content := some r.content, accepted := s₁.accepted ++ [r],
                               results := s₁.results ++ [(r.id, .accepted (r.base + 1))] }
          else { s₁ with results := s₁.results ++ [(r.id, .failed)] }
        some (if c.locked then settle s₂ s₂.waiters else s₂)
  | .disconnect =>
    if !s.registered then none
    else some { s with registered := false, owner := none, content := none, doomed := s.doomed ++ s.awaiting.map (·.id) }
  | .register =>
    if s.registered then none
    else some { s with registered := true, reconnects := s.reconnects + 1, owner := none,
                       version := if c.resetOnRegister then 0 else s.version + 1 }

  | .engineMethod v content =>
    -- `handle_MethodMsg`: the lines of the engine's method replace the aggregator's; its version — the engine never
    -- counts re-registrations, so it is behind — is NOT taken over (`methodMsgSetsVersion = false`, the code as it is)
    if !s.registered then none
    else some { s with content := some content, version := if c.methodMsgSetsVersion then v else s.version }

/-- Run a schedule; `none` if some event of it is not enabled where it occurs. -/
def run (c : Cfg) (s : State) (evs : List Ev) : Option State := evs.foldlM (step c) s

end OPM.SaveConc
