/-
M13 (concurrency part): `FromFrontend.save_method` (openpectus/aggregator/aggregator.py), reached from the route
`POST /process_unit/{unit_id}/method` (`routers/process_unit.py: save_method`).

Python, one request (asyncio task):
    [async with <per-engine lock>:]                      -- only in the system `locked = true`
        existing = engine_data.method.version
        if existing != method.version: raise AggregatorCallerException          -- the version CHECK  (→ rejected)
        new_method = copy(method); new_method.version += 1                      -- = base + 1
        response = await dispatcher.rpc_call(engine_id, MethodMsg(new_method))  -- the ROUND TRIP (suspension point)
        ErrorMessage / exception → raise                                        -- (→ failed)
        engine_data.method = new_method                                         -- the COMMIT  (version := base + 1)
        return new_method.version                                               -- (→ accepted)

asyncio runs a task without interruption between two awaits, so the atomic steps are
  `start`  : a request enters and runs until it blocks (on the lock, or in the round trip) or is rejected;
  `reply`  : the engine's answer to one pending round trip arrives; the task runs to its end; with the lock, the lock
             is released and handed to the waiters in FIFO order (`asyncio.Lock`), each of which runs until it blocks in
             its own round trip or is rejected.
Which of the two systems the code is, is read from the source by harness/translators/save_lock.py
(`OPM.Gen.SaveLock.lockAcrossAwait`) and validated by running the real handler under every interleaving (props/C31.py).

Abstractions: one engine (the lock and the version are per engine id); a request is (id, base version) — its content
is represented by its id (`owner` = whose content is `engine_data.method`); the engine answers what the schedule
says (ok / error).  Core Lean only.
-/
namespace OPM.SaveConc

structure Req where
  id : Nat
  base : Nat          -- method.version of the posted method = the version the edit was based on
deriving Repr, DecidableEq

inductive Outcome where
  | accepted (v : Nat)   -- returned new version
  | rejected             -- AggregatorCallerException "Method version mismatch"
  | failed               -- engine answered ErrorMessage / rpc raised
deriving Repr, DecidableEq

structure State where
  version : Nat                       -- engine_data.method.version
  owner : Option Nat := none          -- id of the save whose content is engine_data.method (none = initial method)
  awaiting : List Req := []           -- requests suspended in the engine round trip
  waiters : List Req := []            -- requests blocked on the lock, FIFO
  accepted : List Req := []           -- accepted saves, in order of acceptance
  engineLog : List Nat := []          -- version of every MethodMsg sent to the engine, in order
  results : List (Nat × Outcome) := []
deriving Repr, DecidableEq

inductive Ev where
  | start (id base : Nat)
  | reply (id : Nat) (ok : Bool)
deriving Repr, DecidableEq

def init (v0 : Nat) : State := { version := v0 }

def known (s : State) (id : Nat) : Bool :=
  s.awaiting.any (·.id == id) || s.waiters.any (·.id == id) || s.results.any (·.1 == id)

/-- The version check followed by sending the MethodMsg: rejected, or suspended in the round trip. -/
def enter (s : State) (r : Req) : State :=
  if r.base ≠ s.version then { s with results := s.results ++ [(r.id, .rejected)] }
  else { s with awaiting := s.awaiting ++ [r], engineLog := s.engineLog ++ [r.base + 1] }

/-- Hand the free lock to the waiters in FIFO order until one of them suspends in its round trip. -/
def settle (s : State) : List Req → State
  | [] => { s with waiters := [] }
  | w :: ws =>
    if w.base ≠ s.version then settle { s with results := s.results ++ [(w.id, .rejected)] } ws
    else { enter s w with waiters := ws }

/-- One atomic step; `none` = the event is not enabled in this state. -/
def step (locked : Bool) (s : State) : Ev → Option State
  | .start id base =>
    if known s id then none
    else if locked && !s.awaiting.isEmpty then some { s with waiters := s.waiters ++ [⟨id, base⟩] }
    else some (enter s ⟨id, base⟩)
  | .reply id ok =>
    match s.awaiting.find? (·.id == id) with
    | none => none
    | some r =>
      let s₁ := { s with awaiting := s.awaiting.filter (·.id != id) }
      let s₂ : State :=
        if ok then { s₁ with version := r.base + 1, owner := some r.id, accepted := s₁.accepted ++ [r],
                             results := s₁.results ++ [(r.id, .accepted (r.base + 1))] }
        else { s₁ with results := s₁.results ++ [(r.id, .failed)] }
      some (if locked then settle s₂ s₂.waiters else s₂)

/-- Run a schedule; `none` if some event of it is not enabled where it occurs. -/
def run (locked : Bool) (s : State) (evs : List Ev) : Option State := evs.foldlM (step locked) s

end OPM.SaveConc
