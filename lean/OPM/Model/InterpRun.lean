import OPM.Model.Interp
/-
InterpRun — runs of the interpreter model under a schedule: the vocabulary in which the whole-run
statements of C02 / C41 are written ("for every method and every schedule of ticks and requests …").

A schedule is a list of requests: interpreter ticks with arbitrary clock / tag inputs, cancel and
force requests for arbitrary nodes (rejected ones change nothing), and completion reports of the
command manager for command nodes (`tracking.mark_completed(request)`; only Engine/UOD command nodes
are ever reported).  No live edit, no Restart.  The trace of a run is the concatenation of the event
lists of its ticks, in chronological order.
Core Lean only.
-/
namespace OPM.InterpRun
open OPM.Interp

inductive Req where
  | tick (i : TickIn)
  | cancel (n : Nat)
  | force (n : Nat)
  | complete (n : Nat)

def isCmd (p : Prog) (n : Nat) : Bool :=
  match (node p n).kind with
  | .cmd _ _ => true
  | _ => false

def applyReq (p : Prog) (s : St) : Req → St
  | .tick i => (tick p s i).1
  | .cancel n => (cancel p s n).getD s
  | .force n => (force p s n).getD s
  | .complete n => if isCmd p n then completeCmd s n else s

/-- the events a request produces, oldest first (only ticks produce events) -/
def reqEvents (p : Prog) (s : St) : Req → List Event
  | .tick i => (tick p s i).1.events.reverse
  | _ => []

def execStep (p : Prog) (acc : St × List Event) (r : Req) : St × List Event :=
  (applyReq p acc.1 r, acc.2 ++ reqEvents p acc.1 r)

/-- final state and whole trace of a run from `init` under the schedule -/
def run (p : Prog) (reqs : List Req) : St × List Event := reqs.foldl (execStep p) (init p, [])

def trace (p : Prog) (reqs : List Req) : List Event := (run p reqs).2

def final (p : Prog) (reqs : List Req) : St := (run p reqs).1

end OPM.InterpRun
