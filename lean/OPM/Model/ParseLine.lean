import OPM.Gen.ParseTables
/-
M6a  Line decomposition: `PcodeParser._parse_line` + `Grammar.full_line_re` +
`PcodeParser._parse_tag_operator_value` (openpectus/lang/model/parser.py), `str.splitlines`,
`str.strip`.

The regular expression

    (?P<indent>\s+)?((?P<threshold>\d+(\.\d+)?)\s)?(?P<instruction_name>\b[a-zA-Z_0-9][^:#]*)
    (: (?P<argument>[^#]+))?(\s*(?P<has_comment>#)\s*(?P<comment>.*$))?

is modelled by a hand-written deterministic scanner (`scanLine`).  Why backtracking never changes the
result: giving back white space of the indent leaves a white-space character where `\d` or
`[a-zA-Z_0-9]` is required; giving back digits of the threshold leaves a digit where `\.` or `\s` is
required; the threshold group as a whole is dropped exactly when the character after its `\s` cannot
start the instruction name; `\b` in front of `[a-zA-Z_0-9]` is implied because the preceding character
(if any) is white space; everything after the name is optional and not anchored.  CPython's `re` is
trusted only differentially (correspondence stream `line`).

Character classes are those of CPython (`\s` = `str.isspace`, `\d` = `str.isdecimal`), regenerated
into `OPM.Gen.ParseTables` by harness/translators/parse_tables.py.

`has_argument = ":" in line.strip().split("#")[0]` is modelled without the `strip()`: white space is neither
':' nor '#', so stripping cannot change the answer.

Typed results: `node.threshold` and `tag_value_numeric` are Python floats; the model gives the exact decimal
(`Dec10`) the text denotes, and the harness compares it with the float whenever the text has at most 15
significant digits (then decimal → double → shortest repr is the identity).

Abstractions: source ranges (`instruction_range`, `arguments_range`, …) are not modelled; lines are assumed to contain no '\n' (true for every line produced by
`str.splitlines`, see `OPM.ParseText.splitLines`), which is the only character `.` does not match.

`fx = true` models the code with fixes/C18-number-tail-as-unit.diff applied (the number in front of a
unit is matched atomically); `fx = false` models the regular expression as it was (used by the
self-test and by the regression witness in Properties/C18.lean).
-/
namespace OPM.ParseLine
open OPM.Gen.ParseTables

/-! ### character classes -/

def isSpace (c : Char) : Bool := pySpace.contains c.toNat
def isDecimal (c : Char) : Bool := pyDecimalRuns.any (fun r => r.1 ≤ c.toNat && c.toNat ≤ r.2)
def isAsciiLetter (c : Char) : Bool := ('a' ≤ c && c ≤ 'z') || ('A' ≤ c && c ≤ 'Z')
def isAsciiDigit (c : Char) : Bool := '0' ≤ c && c ≤ '9'
/-- `[a-zA-Z_0-9]` -/
def isNameStart (c : Char) : Bool := isAsciiLetter c || c == '_' || isAsciiDigit c
/-- `[^:#]` -/
def isNameChar (c : Char) : Bool := c != ':' && c != '#'
/-- `[^#]` -/
def notHash (c : Char) : Bool := c != '#'
/-- `[a-zA-Z%\/23\*]` -/
def isUnitChar (c : Char) : Bool := isAsciiLetter c || c == '%' || c == '/' || c == '2' || c == '3' || c == '*'

/-- `str.strip()` -/
def stripL (cs : List Char) : List Char := cs.dropWhile isSpace
def stripR (cs : List Char) : List Char := (cs.reverse.dropWhile isSpace).reverse
def strip (cs : List Char) : List Char := stripR (stripL cs)

/-! ### `Grammar.full_line_re` -/

/-- what the match object of `full_line_re` exposes -/
structure Scan where
  indent : Nat              -- len(group "indent")
  thr : List Char           -- group "threshold" ("" when unmatched)
  namePart : List Char      -- group "instruction_name" (not stripped)
  argPart : List Char       -- group "argument" ("" when unmatched)
  hasComment : Bool         -- group "has_comment" == "#"
  comment : List Char       -- group "comment" ("" when unmatched)
deriving DecidableEq, Repr

/-- `s` is `\s` and `n` can start the instruction name: the tail of the threshold group -/
def thrTail (t : List Char) (r : List Char) : Option (List Char × List Char) :=
  match r with
  | s :: n :: rest => if isSpace s && isNameStart n then some (t, n :: rest) else none
  | _ => none

/-- `((?P<threshold>\d+(\.\d+)?)\s)?` in front of an instruction name: threshold text and the rest
    (which starts with the name), or `none` when the group has to stay unmatched. -/
def scanThreshold (cs : List Char) : Option (List Char × List Char) :=
  let d := cs.takeWhile isDecimal
  let r := cs.dropWhile isDecimal
  if d.isEmpty then none else
  match r with
  | '.' :: r' =>
    let f := r'.takeWhile isDecimal
    if f.isEmpty then none else thrTail (d ++ '.' :: f) (r'.dropWhile isDecimal)
  | _ => thrTail d r

/-- `(: (?P<argument>[^#]+))?` at the rest after the name: argument text and the rest -/
def scanArgument (r : List Char) : List Char × List Char :=
  match r with
  | ':' :: ' ' :: a :: t =>
    if a != '#' then ((a :: t).takeWhile notHash, (a :: t).dropWhile notHash) else ([], r)
  | _ => ([], r)

/-- `(\s*(?P<has_comment>#)\s*(?P<comment>.*$))?` (the line contains no '\n') -/
def scanComment (r : List Char) : Bool × List Char :=
  match r.dropWhile isSpace with
  | '#' :: t => (true, t.dropWhile isSpace)
  | _ => (false, [])

/-- `Grammar.instruction_line_pattern.match(line)`; `none` = no match -/
def scanLine (cs : List Char) : Option Scan :=
  let ind := cs.takeWhile isSpace
  let r0 := cs.dropWhile isSpace
  let tr := match scanThreshold r0 with
    | some x => x
    | none => ([], r0)
  match tr.2 with
  | [] => none
  | c :: _ =>
    if !isNameStart c then none else
    let nm := tr.2.takeWhile isNameChar
    let ar := scanArgument (tr.2.dropWhile isNameChar)
    let cm := scanComment ar.2
    some { indent := ind.length, thr := tr.1, namePart := nm, argPart := ar.1,
           hasComment := cm.1, comment := cm.2 }

/-! ### `_parse_tag_operator_value` -/

def isPrefixB : List Char → List Char → Bool
  | [], _ => true
  | _ :: _, [] => false
  | a :: as, b :: bs => a == b && isPrefixB as bs

/-- Python `op in s` -/
def isInfixB (op : List Char) : List Char → Bool
  | [] => op.isEmpty
  | c :: cs => isPrefixB op (c :: cs) || isInfixB op cs

/-- first occurrence of `op` (non-empty) in `s`: text before it and text after it -/
def splitFirst (op : List Char) : List Char → Option (List Char × List Char)
  | [] => none
  | c :: cs =>
    if isPrefixB op (c :: cs) then some ([], (c :: cs).drop op.length)
    else match splitFirst op cs with
      | some (a, b) => some (c :: a, b)
      | none => none

/-- length of the greedy match of `[+-]?` -/
def signLen : List Char → Nat
  | c :: _ => if c == '+' || c == '-' then 1 else 0
  | [] => 0

/-- lengths of the prefixes of `u` matching `([eE][+-]?\d+)`, in the preference order of the
    backtracking matcher (longest first) -/
def expCands (u : List Char) : List Nat :=
  match u with
  | e :: r =>
    if e == 'e' || e == 'E' then
      let sg := signLen r
      let q := ((r.drop sg).takeWhile isDecimal).length
      (List.range q).reverse.map (fun j => 1 + sg + (j + 1))
    else []
  | [] => []

/-- lengths of the prefixes of `s` matching
    `float_re = [+-]?(\d+(\.\d*)?|\.\d+)([eE][+-]?\d+)?`, in the order in which the backtracking
    matcher offers them (greedy first). The head is the atomic (maximal-munch) match. -/
def floatCands (s : List Char) : List Nat :=
  let sg := signLen s
  let t := s.drop sg
  let n := (t.takeWhile isDecimal).length
  let cands : List Nat :=
    if n ≥ 1 then
      let after := t.drop n
      let full : List Nat :=
        match after with
        | '.' :: a' =>
          let p := (a'.takeWhile isDecimal).length
          -- with the `(\.\d*)?` group: all fraction digits (then an exponent is possible), then fewer
          ((expCands (a'.drop p)).map (fun e => n + 1 + p + e)) ++ [n + 1 + p]
            ++ ((List.range p).reverse.map (fun m => n + 1 + m))
            -- without the group (an exponent cannot follow: the next character is '.')
            ++ [n]
        | _ => ((expCands after).map (fun e => n + e)) ++ [n]
      full ++ ((List.range (n - 1)).reverse.map (fun k => k + 1))
    else
      match t with
      | '.' :: a' =>
        let p := (a'.takeWhile isDecimal).length
        if p ≥ 1 then
          ((expCands (a'.drop p)).map (fun e => 1 + p + e)) ++ [1 + p]
            ++ ((List.range (p - 1)).reverse.map (fun m => 1 + (m + 1)))
        else []
      | _ => []
  cands.map (fun k => sg + k)

def digitsLen (s : List Char) : Nat := (s.takeWhile isDecimal).length

/-- length of the greedy match of `([eE][+-]?\d+)?` at the head of `u` -/
def expLen (u : List Char) : Nat :=
  match u with
  | e :: r =>
    if e == 'e' || e == 'E' then
      let sg := signLen r
      let q := digitsLen (r.drop sg)
      if q ≥ 1 then 1 + sg + q else 0
    else 0
  | [] => 0

/-- length of the greedy match of `(\d+(\.\d*)?|\.\d+)` at the head of `t` -/
def mantLen (t : List Char) : Option Nat :=
  let n := digitsLen t
  if n ≥ 1 then
    match t.drop n with
    | '.' :: a' => some (n + 1 + digitsLen a')
    | _ => some n
  else
    match t with
    | '.' :: a' => if digitsLen a' ≥ 1 then some (1 + digitsLen a') else none
    | _ => none

/-- length of the atomic (greedy, no giving back) match of `float_re` at the head of `s`
    (= the head of `floatCands s`) -/
def floatMax (s : List Char) : Option Nat :=
  let sg := signLen s
  match mantLen (s.drop sg) with
  | some m => some (sg + m + expLen (s.drop (sg + m)))
  | none => none

/-! ### typed results: `float(threshold)`, `float(tag_value)` as exact decimals -/

/-- value of a decimal digit character (every run of `\d` characters counts 0‥9 repeatedly) -/
def decVal (c : Char) : Nat :=
  match pyDecimalRuns.find? (fun r => r.1 ≤ c.toNat && c.toNat ≤ r.2) with
  | some r => (c.toNat - r.1) % 10
  | none => 0

/-- positional value of a digit string -/
def digitsVal (ds : List Char) : Nat := ds.foldl (fun a c => 10 * a + decVal c) 0

/-- the exact decimal `mant × 10^exp` -/
structure Dec10 where
  mant : Int
  exp : Int
deriving DecidableEq, Repr

/-- `float(threshold)` for the text of the threshold group `\d+(\.\d+)?` -/
def thrValue (t : List Char) : Dec10 :=
  match t.dropWhile isDecimal with
  | '.' :: f => ⟨digitsVal (t.takeWhile isDecimal ++ f), -(f.length : Int)⟩
  | _ => ⟨digitsVal (t.takeWhile isDecimal), 0⟩

/-- the `([eE][+-]?\d+)?` part as a number -/
def expValue (r : List Char) : Int :=
  match r with
  | _ :: a =>
    let v : Int := digitsVal ((a.drop (signLen a)).takeWhile isDecimal)
    if a.head? == some '-' then -v else v
  | [] => 0

/-- `float(text)` for a text matched by `float_re` -/
def numValue (t : List Char) : Dec10 :=
  let u := t.drop (signLen t)
  let i := u.takeWhile isDecimal
  let r1 := u.dropWhile isDecimal
  let fr : List Char × List Char := match r1 with
    | '.' :: a => (a.takeWhile isDecimal, a.dropWhile isDecimal)
    | _ => ([], r1)
  let m : Int := digitsVal (i ++ fr.1)
  ⟨if t.head? == some '-' then -m else m, expValue fr.2 - (fr.1.length : Int)⟩

/-- `\s*(?P<unit>[a-zA-Z%\/23\*]+)$` on the rest after the number: the unit -/
def unitTail (r : List Char) : Option (List Char) :=
  let u := r.dropWhile isSpace
  if !u.isEmpty && u.all isUnitChar then some u else none

/-- result of matching the right-hand side: value text and unit -/
structure Rhs where
  value : List Char
  unit : Option (List Char)
  isNum : Bool := false     -- one of the two number patterns matched: `tag_value_numeric = float(value)`
deriving DecidableEq, Repr

/-- the three-way decision on the stripped, non-empty right-hand side:
    `^float\s*unit$`, else `^float\s*$`, else the text itself.
    `fx`: the number in front of the unit is matched atomically (`(?>…)`); otherwise the matcher may give
    back characters of the number to feed the unit.  For `^float\s*$` giving back never helps (the
    characters given back are not white space), so only the greedy match is tried. -/
def parseRhs (fx : Bool) (rhs : List Char) : Rhs :=
  let withUnit : Option Rhs :=
    (if fx then (floatMax rhs).toList else floatCands rhs).findSome? (fun k =>
      match unitTail (rhs.drop k) with
      | some u => some ⟨rhs.take k, some u, true⟩
      | none => none)
  match withUnit with
  | some r => r
  | none =>
    match floatMax rhs with
    | some k => if (rhs.drop k).all isSpace then ⟨rhs.take k, none, true⟩ else ⟨rhs, none, false⟩
    | none => ⟨rhs, none, false⟩

/-- the observable fields of `TagOperatorValue` -/
structure Cond where
  op : List Char
  lhs : List Char
  rhs : List Char
  tagName : Option (List Char)
  tagValue : Option (List Char)
  tagUnit : Option (List Char)
  error : Bool
  tagNumeric : Option Dec10 := none      -- tag_value_numeric
deriving DecidableEq, Repr

/-- `_parse_tag_operator_value` for `arguments_part = part` and `node.operators = ops` -/
def parseCond (fx : Bool) (ops : List (List Char)) (part : List Char) : Cond :=
  match ops.find? (fun op => isInfixB op part) with
  | none => ⟨[], part, [], some (strip part), none, none, true, none⟩
  | some op =>
    match splitFirst op part with
    | none => ⟨op, [], [], none, none, none, true, none⟩           -- unreachable: `op in part`
    | some (l, r) =>
      if (splitFirst op r).isSome then
        -- `[lhs, rhs] = part.split(op)` raises (more than two pieces); swallowed by `except Exception`
        ⟨op, [], [], none, none, none, true, none⟩
      else
        let lhs := strip l
        let rhs := strip r
        if lhs.isEmpty then ⟨op, lhs, rhs, none, none, none, true, none⟩
        else if rhs.isEmpty then ⟨op, lhs, rhs, some lhs, none, none, true, none⟩
        else
          let v := parseRhs fx rhs
          ⟨op, lhs, rhs, some lhs, some v.value, v.unit, false, if v.isNum then some (numValue v.value) else none⟩

/-! ### `_parse_line` -/

/-- what `_create_node` instantiates -/
structure NodeClass where
  cls : String
  opener : Bool              -- isinstance(node, NodeWithChildren)
  ops : List String          -- node.operators for NodeWithTagOperatorValue, else []
deriving DecidableEq, Repr

def lookupInstr (name : String) : Option NodeClass :=
  match instrTable.find? (fun e => e.1 == name) with
  | some (_, c, o, ops) => some ⟨c, o, ops⟩
  | none => none

def createNode (uod : List String) (name : String) : NodeClass :=
  match lookupInstr name with
  | some k => k
  | none => if uod.contains name then ⟨"UodCommandNode", false, []⟩ else ⟨"ErrorInstructionNode", false, []⟩

/-- the node `_parse_line` returns, reduced to the fields the properties speak about -/
structure Node where
  cls : String
  opener : Bool
  ws : Bool                  -- isinstance(node, WhitespaceNode)
  char : Nat                 -- position.character
  indentError : Bool
  thr : List Char            -- threshold_part
  thrVal : Option Dec10      -- threshold
  namePart : List Char       -- instruction_part
  name : List Char           -- instruction_part.strip()  (the `instruction_name` property of instruction nodes)
  argPart : List Char        -- arguments_part
  args : List Char           -- arguments
  hasArg : Bool
  hasComment : Bool
  comment : List Char        -- comment_part
  cond : Option Cond
deriving DecidableEq, Repr

def blankNode (cls : String) (char : Nat) (hasComment : Bool) : Node :=
  { cls := cls, opener := false, ws := true, char := char, indentError := false, thr := [], thrVal := none, namePart := [],
    name := [], argPart := [], args := [], hasArg := false, hasComment := hasComment, comment := [],
    cond := none }

/-- `_parse_line(line, _)`; `uod` = `uod_command_names`.
    `fe = true` models the code with fixes/C17-error-line-keeps-indentation.diff: a line that does not match
    the instruction pattern keeps the column of its indentation (and is flagged when that is not a multiple
    of four); `fe = false` is the code as it is: such a line is put at column 0. -/
def parseLineE (fx fe : Bool) (uod : List String) (cs : List Char) : Node :=
  let st := strip cs
  match st with
  | [] => blankNode "BlankNode" cs.length false
  | c :: _ =>
    if c == '#' then blankNode "CommentNode" (cs.takeWhile isSpace).length true
    else
      match scanLine cs with
      | none =>
        let ch := if fe then (cs.takeWhile isSpace).length else 0
        { blankNode "ErrorInstructionNode" ch false with ws := false, indentError := ch % 4 != 0 }
      | some s =>
        let name := strip s.namePart
        let k := createNode uod (String.ofList name)
        let hasArg := (cs.takeWhile notHash).contains ':'
        { cls := k.cls, opener := k.opener, ws := false, char := s.indent,
          indentError := s.indent % 4 != 0, thr := s.thr,
          thrVal := if s.thr.isEmpty then none else some (thrValue s.thr),
          namePart := s.namePart, name := name,
          argPart := s.argPart, args := strip s.argPart, hasArg := hasArg,
          hasComment := s.hasComment, comment := s.comment,
          cond := if k.ops.isEmpty then none
                  else some (parseCond fx (k.ops.map String.toList) s.argPart) }

/-- the code as it is with respect to unparsable lines -/
abbrev parseLine (fx : Bool) (uod : List String) (cs : List Char) : Node := parseLineE fx false uod cs

/-! ### vocabulary of C18: the line grammar and the condition grammar -/

/-- a list of characters `p` stops at the head of `b` (or `b` is empty) -/
def Stops (p : Char → Bool) (b : List Char) : Prop :=
  match b with
  | [] => True
  | y :: _ => p y = false

instance (p : Char → Bool) (b : List Char) : Decidable (Stops p b) := by
  unfold Stops; cases b <;> infer_instance

/-- not empty, no leading or trailing white space -/
def Trimmed (s : List Char) : Prop := s ≠ [] ∧ Stops isSpace s ∧ Stops isSpace s.reverse

instance (s : List Char) : Decidable (Trimmed s) := by unfold Trimmed; infer_instance

/-- threshold `\d+(\.\d+)?` -/
structure Threshold where
  int : List Char
  frac : Option (List Char)

def Threshold.text (t : Threshold) : List Char :=
  match t.frac with
  | none => t.int
  | some f => t.int ++ '.' :: f

/-- the number a threshold denotes: digits `int.frac` read positionally -/
def Threshold.value (t : Threshold) : Dec10 :=
  ⟨digitsVal (t.int ++ t.frac.getD []), -((t.frac.getD []).length : Int)⟩

def Threshold.WF (t : Threshold) : Prop :=
  t.int ≠ [] ∧ (∀ c ∈ t.int, isDecimal c = true) ∧
  ∀ f, t.frac = some f → f ≠ [] ∧ ∀ c ∈ f, isDecimal c = true

/-- the parts an instruction line is made of -/
structure LineParts where
  indent : Nat                                  -- number of spaces
  thr : Option Threshold
  name : List Char
  arg : Option (List Char)
  pad : List Char                               -- white space after the name / argument
  comment : Option (List Char × List Char)      -- white space after '#', comment text

/-- `indent ++ (threshold ++ " ")? ++ name ++ (": " ++ argument)? ++ pad ++ ("#" ++ ws ++ comment)?` -/
def LineParts.render (p : LineParts) : List Char :=
  List.replicate p.indent ' ' ++
    ((match p.thr with
      | some t => t.text ++ [' ']
      | none => []) ++
     (p.name ++
      ((match p.arg with
        | some a => ':' :: ' ' :: a
        | none => []) ++
       (p.pad ++
        (match p.comment with
         | some (w, t) => '#' :: (w ++ t)
         | none => [])))))

/-- well-formed line: the name starts with a letter or '_', contains no ':' or '#' and is trimmed; the
    argument is trimmed, non-empty and contains no '#'; the comment text does not start with white space -/
def LineParts.WF (p : LineParts) : Prop :=
  (∀ t, p.thr = some t → t.WF) ∧
  (∃ h t, p.name = h :: t ∧ (isAsciiLetter h = true ∨ h = '_')) ∧
  (∀ c ∈ p.name, isNameChar c = true) ∧ Stops isSpace p.name.reverse ∧
  (∀ a, p.arg = some a → Trimmed a ∧ ∀ c ∈ a, notHash c = true) ∧
  (∀ c ∈ p.pad, isSpace c = true) ∧
  (∀ w t, p.comment = some (w, t) → (∀ c ∈ w, isSpace c = true) ∧ Stops isSpace t)

/-- `[<>=!]`: the characters operators are made of -/
def isOpChar (c : Char) : Bool := c == '<' || c == '>' || c == '=' || c == '!'

/-- a number `[+-]?(\d+(\.\d*)?|\.\d+)([eE][+-]?\d+)?` by its parts -/
structure Num where
  sign : List Char                               -- "", "+" or "-"
  int : List Char
  frac : Option (List Char)                      -- digits after '.', if there is a '.'
  exp : Option (Char × List Char × List Char)    -- 'e'/'E', sign, digits

def Num.text (n : Num) : List Char :=
  n.sign ++ (n.int ++
    ((match n.frac with
      | some f => '.' :: f
      | none => []) ++
     (match n.exp with
      | some (e, s, d) => e :: (s ++ d)
      | none => [])))

/-- the exponent part as a number -/
def expInt (e : Option (Char × List Char × List Char)) : Int :=
  match e with
  | some (_, s, d) => if s = ['-'] then -(digitsVal d : Int) else (digitsVal d : Int)
  | none => 0

/-- the number the parts denote: `±(int.frac) × 10^exp`, digits read positionally -/
def Num.value (n : Num) : Dec10 :=
  let m : Int := digitsVal (n.int ++ n.frac.getD [])
  ⟨if n.sign = ['-'] then -m else m, expInt n.exp - ((n.frac.getD []).length : Int)⟩

def isSign (s : List Char) : Prop := s = [] ∨ s = ['+'] ∨ s = ['-']

def Num.WF (n : Num) : Prop :=
  isSign n.sign ∧ (∀ c ∈ n.int, isDecimal c = true) ∧
  (∀ f, n.frac = some f → ∀ c ∈ f, isDecimal c = true) ∧
  (n.int ≠ [] ∨ ∃ f, n.frac = some f ∧ f ≠ []) ∧
  (∀ e s d, n.exp = some (e, s, d) → (e = 'e' ∨ e = 'E') ∧ isSign s ∧ d ≠ [] ∧ ∀ c ∈ d, isDecimal c = true)

/-- `t` reads as a number, optionally followed by white space and a unit: such a text cannot be meant as a
    text value ("5 mL", "2nd" = 2 with unit "nd").  Everything else — "Running", "2 of 3", "0,98",
    "1st pass" — is a text value, also when it begins with digits. -/
def numberLike (t : List Char) : Bool :=
  match floatMax t with
  | some k => (t.drop k).all isSpace || (unitTail (t.drop k)).isSome
  | none => false

/-- value of a condition: a number with an optional unit, or a text -/
inductive Value where
  | num (n : Num) (unit : Option (List Char × List Char))   -- white space (≥ 1) and unit
  | text (t : List Char)

def Value.render : Value → List Char
  | .num n none => n.text
  | .num n (some (w, u)) => n.text ++ (w ++ u)
  | .text t => t

def Value.WF : Value → Prop
  | .num n none => n.WF
  | .num n (some (w, u)) => n.WF ∧ w ≠ [] ∧ (∀ c ∈ w, isSpace c = true) ∧ u ≠ [] ∧ ∀ c ∈ u, isUnitChar c = true
  | .text t => Trimmed t ∧ (∀ c ∈ t, isOpChar c = false) ∧ numberLike t = false

/-- `tag op value [unit]` with optional white space around the operator and after the value -/
structure CondParts where
  tag : List Char
  s1 : List Char
  op : List Char
  s2 : List Char
  value : Value
  trail : List Char

def CondParts.render (p : CondParts) : List Char :=
  (p.tag ++ p.s1) ++ (p.op ++ (p.s2 ++ (p.value.render ++ p.trail)))

/-- the operator list of a node class: operators are non-empty strings over `[<>=!]`, and searching the
    list in order for an operator contained in `op` finds `op` itself (longer operators come first) -/
def OpsOK (ops : List (List Char)) : Prop :=
  (∀ o ∈ ops, o ≠ [] ∧ ∀ c ∈ o, isOpChar c = true) ∧
  ∀ o ∈ ops, ops.find? (fun x => isInfixB x o) = some o

def CondParts.WF (ops : List (List Char)) (p : CondParts) : Prop :=
  p.op ∈ ops ∧ Trimmed p.tag ∧ (∀ c ∈ p.tag, isOpChar c = false) ∧
  (∀ c ∈ p.s1, isSpace c = true) ∧ (∀ c ∈ p.s2, isSpace c = true) ∧ (∀ c ∈ p.trail, isSpace c = true) ∧
  p.value.WF

end OPM.ParseLine
