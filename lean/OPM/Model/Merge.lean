import OPM.Model.Interp
/-
M4 Merge — `Engine.set_method` → `MethodManager.set_method` / `merge_method`
(`_validate_liveedit_method`, `_create_interpreter_merge_state` + `HotSwapVisitor`,
`_create_interpreter_from_state`), modelled **as the code is**:

 * `HotSwapVisitor.visit` looks the program node up with `old_program.get_child_by_id(root.id)`
   (no `include_self`), finds nothing and returns at once: the transplanted tree state is empty for
   every edit.  The new interpreter therefore starts from a pristine program; only the interrupt
   registrations and the macro registrations are carried over (by node id).
 * `merge_method` finally stores a separately parsed, state-less program in
   `MethodManager._program`; from then on the method manager's view of the flags (`mmShared = false`)
   is "nothing started", so a later edit takes the `set_method` branch.
Line identity: `ids[k]` is the line id of node `k`; `sigs[k]` is the node's source signature
(class, arguments, threshold) used by `matches_source`; `content` maps line id ↦ line text.
Core Lean only.
-/
namespace OPM.Merge
open OPM.Interp

structure Method where
  prog : Prog
  ids : Array Nat                 -- node index ↦ line id (root: 0)
  sigs : Array String             -- node index ↦ source signature
  content : List (Nat × String)   -- line id ↦ line content
deriving Inhabited

structure MM where
  m : Method
  st : St
  mmShared : Bool := true         -- `MethodManager._program is interpreter._program`
deriving Inhabited

inductive EditResult where
  | merged | set | rejected
deriving Repr, DecidableEq

def idOf (m : Method) (k : Nat) : Nat := m.ids.getD k 0

def indexOfId (m : Method) (id : Nat) : Option Nat :=
  (List.range m.prog.size).find? (fun k => idOf m k = id)

/-- `MethodManager._get_method_state(self._program)`: started ∪ executed line ids (failed lines are
    listed separately and are not protected). -/
def protectedIds (mm : MM) : List Nat :=
  if !mm.mmShared then [] else
  (List.range mm.m.prog.size).filterMap (fun k =>
    let r := getRt mm.st k
    if r.failed then none
    else if r.completed || r.started then some (idOf mm.m k) else none)

def isBlank (p : Prog) (k : Nat) : Bool :=
  match (node p k).kind with | .blank _ => true | _ => false

/-- `Node.matches_source`: same class/arguments/threshold (the signature) and pairwise matching
    significant children. -/
def matchesAux (a b : Method) : Nat → Nat → Nat → Bool
  | 0, _, _ => true
  | fuel + 1, x, y =>
    a.sigs.getD x "" == b.sigs.getD y "" &&
    (let cx := ((node a.prog x).children.filter (fun c => !isBlank a.prog c))
     let cy := ((node b.prog y).children.filter (fun c => !isBlank b.prog c))
     cx.length == cy.length &&
     (cx.zip cy).all (fun (c, d) => matchesAux a b fuel c d))

def matchesSrc (a b : Method) (x y : Nat) : Bool := matchesAux a b (a.prog.size + 1) x y

def isMacro (p : Prog) (k : Nat) : Bool :=
  match (node p k).kind with | .macro _ => true | _ => false

/-- `_validate_liveedit_method`. -/
def validate (mm : MM) (new : Method) : Bool :=
  let prot := protectedIds mm
  let linesOk := new.content.all (fun (id, text) =>
    !(prot.contains id) ||
      (match mm.m.content.lookup id with
       | some old => old == text
       | none => true))
  let macros := if mm.mmShared then mm.st.macros else []
  let macrosOk := macros.all (fun (_, mnode) =>
    if (getRt mm.st mnode).runStarted > 0 then
      match indexOfId new (idOf mm.m mnode) with
      | none => false
      | some k => isMacro new.prog k && matchesSrc mm.m new mnode k
    else true)
  linesOk && macrosOk

def hasChildrenKind (p : Prog) (k : Nat) : Bool :=
  match (node p k).kind with
  | .program | .macro _ | .block _ | .watch _ | .alarm _ | .injected => true
  | _ => false

def macroName (p : Prog) (k : Nat) : String :=
  match (node p k).kind with | .macro n => n | _ => ""

/-- A new interpreter over `prog`; the tags (Mark, Block, Base) live in the engine and are kept. -/
def freshInterp (old : St) (prog : Prog) : St :=
  { init prog with marks := old.marks, blockTag := old.blockTag, baseFactor := old.baseFactor,
                   baseUnit := old.baseUnit }

/-- `_create_interpreter_from_state` with the (empty) merged tree state: a fresh interpreter whose
    interrupts and macros are re-registered by node id. -/
def freshFromState (old : MM) (new : Method) : St :=
  let s0 := freshInterp old.st new.prog
  -- interrupts, in the order of the old map; `get_child_by_id` searches the children of the root only
  let s1 := old.st.imap.foldl (fun s e =>
    match indexOfId new (idOf old.m e.1) with
    | some k => if k ≠ 0 && hasChildrenKind new.prog k then registerInterrupt new.prog s k else s
    | none => s) s0
  let s2 := old.st.macros.foldl (fun s e =>
    match indexOfId new (idOf old.m e.2) with
    | some k => if k ≠ 0 && isMacro new.prog k then
        setRt { s with macros := dictSet s.macros (macroName new.prog k) k } k (fun r => { r with isRegistered := true })
      else s
    | none => s) s1
  { s2 with events := [] }

/-- `Engine.set_method` while a run is started. -/
def edit (mm : MM) (new : Method) : MM × EditResult :=
  let programStarted := mm.mmShared && (getRt mm.st 0).started
  if programStarted then
    if validate mm new then
      ({ m := new, st := freshFromState mm new, mmShared := false }, .merged)
    else (mm, .rejected)
  else
    ({ m := new, st := freshInterp mm.st new.prog, mmShared := true }, .set)

end OPM.Merge
