/-
M9 ArgRegex (C22): command-argument patterns and their introspection.

Python modelled — the code *after* the proposed repair `fixes/C22-categorical-language-and-introspection.diff`
(the unrepaired builder / introspection are kept as `…Old` for the regression witnesses and the self-test):

* `openpectus/lang/exec/regex.py` — `RegexNumber`, `RegexNumberOptional`, `RegexCategorical` as functions that
  produce the pattern text (compared character for character with the Python builders), together with
  `re.escape` (CPython ≥ 3.7: escapes exactly `()[]{}?*+-|^$\.&~#` and ` \t\n\r\v\f`).
* `re.search(pattern, s)` for exactly these pattern shapes: a hand acceptor that follows the backtracking order
  of CPython's `re` (ordered alternation, greedy/lazy repetition), so that not only accept/reject but also the
  captured groups agree.  `re` itself is third-party: modelled, validated differentially on every run.
* `openpectus/lang/exec/uod.py` — `unescape`, `split_alternatives`, `RegexNamedArgumentParser.get_named_groups /
  get_units / get_exclusive_options / get_additive_options` as functions on the pattern text (`str.index` →
  `findSub`, slices → `take`/`drop`; `index` raising `ValueError` → `none`).

Strings are `List Char`.  `None` and `[]` for a unit / option list are the same to the builders (`if units`),
both are `[]` here.  Core Lean only.
-/
namespace OPM.ArgRegex

abbrev Str := List Char

/-! ## Character classes -/

/-- `\s` of a `str` pattern (Unicode white space, `Py_UNICODE_ISSPACE`). -/
def isSpace (c : Char) : Bool :=
  let n := c.toNat
  (9 ≤ n && n ≤ 13) || (28 ≤ n && n ≤ 32) || n == 133 || n == 160 || n == 5760 || (8192 ≤ n && n ≤ 8202) ||
    n == 8232 || n == 8233 || n == 8239 || n == 8287 || n == 12288

/-- `[0-9]` -/
def isDigit (c : Char) : Bool := 48 ≤ c.toNat && c.toNat ≤ 57

/-- `[a-zA-Z0-9]|_` -/
def isWord (c : Char) : Bool :=
  let n := c.toNat
  (97 ≤ n && n ≤ 122) || (65 ≤ n && n ≤ 90) || (48 ≤ n && n ≤ 57) || n == 95

/-- Characters `re.escape` prefixes with a backslash. -/
def isSpecial (c : Char) : Bool :=
  [9, 10, 11, 12, 13, 32, 35, 36, 38, 40, 41, 42, 43, 45, 46, 63, 91, 92, 93, 94, 123, 124, 125, 126].contains
    c.toNat

def allSpace (s : Str) : Bool := s.all isSpace

/-! ## Builders -/

def escChar (c : Char) : Str := if isSpecial c then ['\\', c] else [c]

/-- `re.escape(s)` -/
def escape (s : Str) : Str := s.flatMap escChar

/-- `re.escape(unit).replace("/", r"\/")` (`/` is not special, so it is the only source of `/`). -/
def escapeUnit (s : Str) : Str := s.flatMap (fun c => if c = '/' then ['\\', '/'] else escChar c)

/-- `"|".join(parts)` -/
def joinAlts : List Str → Str
  | [] => []
  | [x] => x
  | x :: xs => x ++ '|' :: joinAlts xs

def numPre : Str := ['^', '\\', 's', '*', '(', '?', 'P', '<', 'n', 'u', 'm', 'b', 'e', 'r', '>']
def numMid : Str := [')', '\\', 's', '*']
def unitPre : Str := [' ', '?', '(', '?', 'P', '<', 'n', 'u', 'm', 'b', 'e', 'r', '_', 'u', 'n', 'i', 't', '>']
def numPost : Str := ['\\', 's', '*', '$']
def sgn : Str := ['-', '?']
def intA : Str := ['[', '0', '-', '9', ']', '+', '?']
def intB : Str := ['[', '0', '-', '9', ']', '+']
def decA : Str := ['[', '0', '-', '9', ']', '+', '[', '.', ']', '[', '0', '-', '9', ']', '*', '?']
def decB : Str := ['[', '.', ']', '[', '0', '-', '9', ']', '+']
def optPost : Str := [')', '|', '^', '\\', 's', '*', '$']
def catPre : Str := ['^', '(', '?', 'P', '<', 'o', 'p', 't', 'i', 'o', 'n', '>', '(']
def catMid1 : Str := ['|', '(']
def catMid2 : Str := [')', '(', '\\', '+', '(']
def catPost : Str := [')', ')', '*', ')', ')', '\\', 's', '*', '$']
/-- `(?!)`: matches nothing; stands for an empty option list. -/
def never : Str := ['(', '?', '!', ')']
def oldMid2 : Str := ['|', '\\', '+', ')', '+', ')', '(', '?', '<', '!', '\\', '+', ')', ')', '\\', 's', '*', '$']
def tagUnit : Str := ['<', 'n', 'u', 'm', 'b', 'e', 'r', '_', 'u', 'n', 'i', 't', '>']
def tagOption : Str := ['<', 'o', 'p', 't', 'i', 'o', 'n', '>']
def nameUnit : Str := ['n', 'u', 'm', 'b', 'e', 'r', '_', 'u', 'n', 'i', 't']
def nameOption : Str := ['o', 'p', 't', 'i', 'o', 'n']

/-- The alternatives inside `(?P<number>…)`. -/
def numCore (nonNeg intOnly : Bool) : Str :=
  let s := if nonNeg then [] else sgn
  if intOnly then s ++ intA ++ '|' :: s ++ intB
  else s ++ decA ++ '|' :: s ++ decB ++ '|' :: s ++ intB

def unitPart (units : List Str) : Str :=
  if units.isEmpty then [] else unitPre ++ joinAlts (units.map escapeUnit) ++ [')']

/-- `RegexNumber(units, non_negative, int_only)` -/
def buildNumber (units : List Str) (nonNeg intOnly : Bool) : Str :=
  numPre ++ numCore nonNeg intOnly ++ numMid ++ unitPart units ++ numPost

/-- `RegexNumberOptional(units, non_negative, int_only)` = `rf"({rn})|^\s*$"` -/
def buildNumberOptional (units : List Str) (nonNeg intOnly : Bool) : Str :=
  '(' :: buildNumber units nonNeg intOnly ++ optPost

/-- An option list as it appears in the pattern: escaped alternatives, `(?!)` when there are none. -/
def altsOrNever (xs : List Str) : Str := if xs.isEmpty then never else joinAlts (xs.map escape)

/-- `RegexCategorical(exclusive_options, additive_options)` (repaired):
    `^(?P<option>(E1|…|(A1|…)(\+(A1|…))*))\s*$` -/
def buildCategorical (ex ad : List Str) : Str :=
  catPre ++ altsOrNever ex ++ catMid1 ++ altsOrNever ad ++ catMid2 ++ altsOrNever ad ++ catPost

/-- The builder before the repair: `^(?P<option>(E1|…|(A1|…|\+)+)(?<!\+))\s*$` (empty list → empty text). -/
def buildCategoricalOld (ex ad : List Str) : Str :=
  catPre ++ joinAlts (ex.map escape) ++ catMid1 ++ joinAlts (ad.map escape) ++ oldMid2

/-! ## Acceptors: `re.search(pattern, s)` for the built patterns -/

/-- `[0-9]+[.][0-9]*?` after the digits `d` and the dot: lazily 0, 1, 2, … fraction digits. -/
def fracCands (d r' : Str) : List (Str × Str) :=
  let f := r'.takeWhile isDigit
  (List.range (f.length + 1)).map (fun j => (d ++ '.' :: f.take j, r'.drop j))

/-- `[.][0-9]+` after the dot: greedily all fraction digits, then fewer. -/
def leadCands (r' : Str) : List (Str × Str) :=
  let f := r'.takeWhile isDigit
  (List.range f.length).reverse.map (fun j => ('.' :: f.take (j + 1), r'.drop (j + 1)))

/-- `[0-9]+`: greedily all digits `d`, then fewer (`r` follows the digits). -/
def intCands (d r : Str) : List (Str × Str) :=
  (List.range d.length).reverse.map (fun k => (d.take (k + 1), d.drop (k + 1) ++ r))

/-- `[0-9]+?`: lazily 1, 2, … digits. (The second alternative `[0-9]+` of the int-only pattern offers the same
    candidates again and is left out.) -/
def intCandsLazy (d r : Str) : List (Str × Str) :=
  (List.range d.length).map (fun k => (d.take (k + 1), d.drop (k + 1) ++ r))

/-- Candidates for the unsigned part of the `number` group, in the order in which the backtracking matcher
    tries them: `(text, what follows it)`. -/
def bodyCands (intOnly : Bool) (body : Str) : List (Str × Str) :=
  let d := body.takeWhile isDigit
  let r := body.dropWhile isDigit
  if intOnly then intCandsLazy d r
  else
    (if r.head? = some '.' then (if d.isEmpty then leadCands r.tail else fracCands d r.tail) else []) ++
      intCands d r

/-- Candidates for the `number` group (`-?` is greedy; giving the sign back never helps because a number cannot
    start at the `-`).  `s` starts at the first non-space character. -/
def numCands (nonNeg intOnly : Bool) (s : Str) : List (Str × Str) :=
  match s with
  | '-' :: r =>
    if nonNeg then bodyCands intOnly s else (bodyCands intOnly r).map (fun c => ('-' :: c.1, c.2))
  | _ => bodyCands intOnly s

/-- `(?P<number_unit>U1|…)\s*$` at a fixed position: the first unit (list order) that matches there with
    nothing but white space behind it. -/
def unitAt (units : List Str) (t : Str) : Option Str :=
  units.find? (fun u => u.isPrefixOf t && allSpace (t.drop u.length))

/-- `\s* ?(?P<number_unit>…)\s*$`: the greedy `\s*` gives white space back one character at a time. -/
def contUnits (units : List Str) (rest : Str) : Option Str :=
  let m := (rest.takeWhile isSpace).length
  (List.range (m + 1)).reverse.findSome? (fun k => unitAt units (rest.drop k))

/-- `re.search(RegexNumber(units, nn, io), s)`: `none` = no match, else the groups `number` and `number_unit`
    (`number_unit` does not exist when no units were declared). -/
def acceptNumber (units : List Str) (nonNeg intOnly : Bool) (s : Str) : Option (Str × Option Str) :=
  (numCands nonNeg intOnly (s.dropWhile isSpace)).findSome? (fun c =>
    if units.isEmpty then (if allSpace c.2 then some (c.1, none) else none)
    else (contUnits units c.2).map (fun u => (c.1, some u)))

/-- `re.search(RegexNumberOptional(…), s)`: the second alternative `^\s*$` leaves both groups `None`. -/
def acceptNumberOptional (units : List Str) (nonNeg intOnly : Bool) (s : Str) :
    Option (Option Str × Option Str) :=
  match acceptNumber units nonNeg intOnly s with
  | some (n, u) => some (some n, u)
  | none => if allSpace s then some (none, none) else none

/-- `(\+(A1|…))*` then `\s*$`, after `acc` has been matched; `fuel` bounds the number of iterations
    (each consumes at least the `+`). Greedy: one more item is tried first. -/
def addLoop (ad : List Str) : Nat → Str → Str → Option Str
  | 0, _, _ => none
  | fuel + 1, acc, rest =>
    let more : Option Str := match rest with
      | '+' :: r =>
        ad.findSome? (fun a => if a.isPrefixOf r then addLoop ad fuel (acc ++ '+' :: a) (r.drop a.length) else none)
      | _ => none
    match more with
    | some o => some o
    | none => if allSpace rest then some acc else none

/-- `re.search(RegexCategorical(ex, ad), s)` (repaired pattern): the group `option`. -/
def acceptCategorical (ex ad : List Str) (s : Str) : Option Str :=
  match ex.find? (fun e => e.isPrefixOf s && allSpace (s.drop e.length)) with
  | some e => some e
  | none =>
    ad.findSome? (fun a => if a.isPrefixOf s then addLoop ad (s.length + 1) a (s.drop a.length) else none)

/-- `((A1|…|\+)+)(?<!\+)\s*$` of the unrepaired pattern, after `acc` has been matched (`acc = []`: nothing yet).
    An empty alternative (empty list) lets the loop match nothing at all. -/
def oldLoop (ad : List Str) : Nat → Str → Str → Option Str
  | 0, _, _ => none
  | fuel + 1, acc, rest =>
    let viaOption : Option Str :=
      ad.findSome? (fun a => if a ≠ [] && a.isPrefixOf rest then oldLoop ad fuel (acc ++ a) (rest.drop a.length) else none)
    let viaPlus : Option Str := match viaOption, rest with
      | some o, _ => some o
      | none, '+' :: r => oldLoop ad fuel (acc ++ ['+']) r
      | none, _ => none
    match viaPlus with
    | some o => some o
    | none =>
      if (acc ≠ [] || ad.isEmpty || ad.contains []) && acc.getLast? ≠ some '+' && allSpace rest then some acc else none

/-- `re.search(pattern, s)` for the pattern the unrepaired `RegexCategorical` built. -/
def acceptCategoricalOld (ex ad : List Str) (s : Str) : Option Str :=
  let ex' := if ex.isEmpty then [[]] else ex
  match ex'.find? (fun e => e.isPrefixOf s && e.getLast? ≠ some '+' && allSpace (s.drop e.length)) with
  | some e => some e
  | none => oldLoop ad (s.length + 2) [] s

/-! ## Introspection of a pattern text (uod.py) -/

/-- `s.index(pat)`: position of the first occurrence; `none` = `ValueError`. -/
def findSub (pat : Str) : Str → Option Nat
  | [] => if pat.isEmpty then some 0 else none
  | c :: rest => if pat.isPrefixOf (c :: rest) then some 0 else (findSub pat rest).map (· + 1)

/-- `s[a:b]` for non-negative indices. -/
def slice (s : Str) (a b : Nat) : Str := (s.take b).drop a

/-- `get_named_groups`: all `<name>` with `name` ∈ `[A-Za-z0-9_]+` (matches cannot overlap: `<` is not a word
    character). -/
def namedGroups : Str → List Str
  | [] => []
  | c :: rest =>
    let name := rest.takeWhile isWord
    (if c = '<' && !name.isEmpty && (rest.dropWhile isWord).head? = some '>' then [name] else []) ++
      namedGroups rest

/-- `unescape`: `re.sub(r'\\(.)', r'\1', s, flags=re.DOTALL)`. -/
def unescape : Str → Str
  | [] => []
  | [c] => [c]
  | c :: d :: rest => if c = '\\' then d :: unescape rest else c :: unescape (d :: rest)

/-- The unrepaired `unescape` (no DOTALL: `.` does not match a line feed). -/
def unescapeOld : Str → Str
  | [] => []
  | [c] => [c]
  | c :: d :: rest => if c = '\\' && d ≠ '\n' then d :: unescapeOld rest else c :: unescapeOld (d :: rest)

/-- `re.findall(r'(?:\\.|[^|])+', s, flags=re.DOTALL)` with the part collected so far in `cur`. -/
def scanAlts : Str → Str → List Str
  | [], cur => if cur.isEmpty then [] else [cur]
  | [c], cur => if c = '|' then (if cur.isEmpty then [] else [cur]) else [cur ++ [c]]
  | c :: d :: rest, cur =>
    if c = '\\' then scanAlts rest (cur ++ [c, d])
    else if c = '|' then (if cur.isEmpty then [] else [cur]) ++ scanAlts (d :: rest) []
    else scanAlts (d :: rest) (cur ++ [c])

/-- `split_alternatives` -/
def splitAlts (s : Str) : List Str := ((scanAlts s []).filter (· ≠ never)).map unescape

/-- `str.split("|")` -/
def splitBar : Str → Str → List Str
  | [], cur => [cur]
  | c :: rest, cur => if c = '|' then cur :: splitBar rest [] else splitBar rest (cur ++ [c])

/-- `re.match(r'(?:\\.|[^)])*', s, flags=re.DOTALL).group(0)`: up to the first unescaped `)`. -/
def takeUnitPart : Str → Str
  | [] => []
  | [c] => if c = ')' then [] else [c]
  | c :: d :: rest =>
    if c = '\\' then c :: d :: takeUnitPart rest
    else if c = ')' then []
    else c :: takeUnitPart (d :: rest)

/-- `get_units()` -/
def getUnits (regex : Str) : Option (List Str) :=
  if !(namedGroups regex).contains nameUnit then some []
  else match findSub tagUnit regex with
    | none => none
    | some i => some (splitAlts (takeUnitPart (regex.drop (i + tagUnit.length))))

/-- `get_exclusive_options()` -/
def getExclusive (regex : Str) : Option (List Str) :=
  if !(namedGroups regex).contains nameOption then some []
  else match findSub tagOption regex, findSub catMid1 regex with
    | some i, some e => some (splitAlts (slice regex (i + tagOption.length + 1) e))
    | _, _ => none

/-- `get_additive_options()` -/
def getAdditive (regex : Str) : Option (List Str) :=
  if !(namedGroups regex).contains nameOption then some []
  else match findSub catMid1 regex, findSub catMid2 regex with
    | some i, some e => some (splitAlts (slice regex (i + 2) e))
    | _, _ => none

/-- `s.rindex(")", start)`-based unit list of the unrepaired `get_units` (used by witnesses / self-test). -/
def getUnitsOld (regex : Str) : Option (List Str) :=
  if !(namedGroups regex).contains nameUnit then some []
  else match findSub tagUnit regex with
    | none => none
    | some i =>
      let start := i + tagUnit.length
      let tail := regex.drop start
      match (findSub [')'] tail.reverse) with
      | none => none
      | some k => some (splitBar (unescapeOld (tail.take (tail.length - 1 - k))) [])

/-! ## The UI route: `UnitOperationDefinitionBase.build_commands` (uod.py) -/

/-- `desc.argument_valid_units` of a command whose argument parser is the pattern `regex`.  `tagUnits` are the
    compatible unit names of the tag of the process-value reading the command is paired with (`[]`: not paired, or
    a tag without unit): they are used only when the pattern has no `number_unit` group. -/
def publishedUnits (tagUnits : List Str) (regex : Str) : Option (List Str) :=
  if (namedGroups regex).contains nameUnit then getUnits regex else some tagUnits

/-- `reading.valid_value_units` of the paired reading after `build_commands`: the pattern's units are written
    back; without a `number_unit` group the reading keeps `dflt` (what `match_with_tags` computed; `none` = None). -/
def readingUnits (dflt : Option (List Str)) (regex : Str) : Option (Option (List Str)) :=
  if (namedGroups regex).contains nameUnit then (getUnits regex).map some else some dflt

end OPM.ArgRegex
