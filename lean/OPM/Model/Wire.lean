/-
Wire helpers for the line protocol between the Python harness and the model driver.
Strings travel as comma-separated Unicode code points ("-" for the empty string) so that
tabs, newlines and arbitrary unicode never interfere with the framing.
Core Lean only.
-/
namespace OPM.Wire

def fields (line : String) : List String :=
  (line.splitOn "\t")

def decodeStr (s : String) : Option String :=
  if s = "-" then some "" else
  let parts := s.splitOn ","
  let cs := parts.mapM (fun p => p.toNat?.map Char.ofNat)
  cs.map String.ofList

def encodeStr (s : String) : String :=
  if s.isEmpty then "-" else
  ",".intercalate (s.toList.map (fun c => toString c.toNat))

def encodeChars (cs : List Char) : String := encodeStr (String.ofList cs)

def natList (s : String) : Option (List Nat) :=
  if s = "-" then some [] else (s.splitOn ",").mapM String.toNat?

def intList (s : String) : Option (List Int) :=
  if s = "-" then some [] else (s.splitOn ",").mapM String.toInt?

def showNatList (l : List Nat) : String :=
  if l.isEmpty then "-" else ",".intercalate (l.map toString)

def showIntList (l : List Int) : String :=
  if l.isEmpty then "-" else ",".intercalate (l.map toString)

def showBool (b : Bool) : String := if b then "1" else "0"

def parseBool (s : String) : Option Bool :=
  if s = "1" then some true else if s = "0" then some false else none

end OPM.Wire
