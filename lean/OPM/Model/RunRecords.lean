/-
M13 (part): the run life-cycle of the engines known to the aggregator and the two tables it writes per run.

Python (openpectus/aggregator):
  aggregator_message_handlers.py  handle_RegisterEngineMsg / validate_msg / handle_RunStartedMsg /
                                  handle_RunStoppedMsg / handle_EngineDisconnected
  aggregator.py                   FromEngine.register_engine_data, _try_restore_reconnected_engine_data,
                                  engine_disconnected, run_started, run_stopped
  data/repository.py              PlotLogRepository.create_plot_log, RecentRunRepository.store_recent_run,
                                  (store_recent_engine is called at disconnect and, since /repo cd1ce9ca, at run start/stop)
                                  RecentEngineRepository.store_recent_engine / get_recent_engine_by_engine_id

The database is modelled as append-only row lists with exactly the queries used:
  plotLogs    = PlotLogs (engine_id, run_id) in insertion order
  recentRuns  = RecentRuns (engine_id, run_id) in insertion order
  eng e       = the `_engine_data_map` entry of engine id `e` (registered / run_data.run_id) and that engine's
                RecentEngines row (unique engine_id column): none = no row, some r = row.run_id = r

`guarded = true` is the code with fixes/C30-one-record-per-run.diff applied (create_plot_log and store_recent_run
first look the run id up and do nothing when a row exists); `guarded = false` is the code before that repair.

`restart` / `crash` = the aggregator process ends (with / without `Aggregator.shutdown()`) and a new one works on
the same database: every engine has to register again.
Abstractions: engine ids are naturals (any number of engines; the guards and the property look at the run_id column
only, run ids are uuid4 of the engine — a run id reused by another engine is merged, see Properties/C30); the registration is the accepted path (secret ok, no
websocket connected under that id, version ok); database writes succeed; everything else a run carries (run log,
method, contributors, tag values) is not modelled here.  Run ids are naturals (first-occurrence ordinals).
Core Lean only.
-/
namespace OPM.RunRecords

/-- per engine id: the entry of `aggregator._engine_data_map` and the engine's RecentEngines row -/
structure Engine where
  registered : Bool := false           -- engine_id ∈ aggregator._engine_data_map
  run : Option Nat := none             -- engine_data.run_data.run_id   (has_run() = run.isSome)
  recentEngineRun : Option (Option Nat) := none   -- RecentEngines row: none = no row, some r = row.run_id = r
deriving Repr, DecidableEq

/-- a PlotLogs / RecentRuns row: (engine id column, run id column) -/
abbrev Row := Nat × Nat

structure State where
  eng : Nat → Engine := fun _ => {}
  plotLogs : List Row := []
  recentRuns : List Row := []

inductive Op where
  | register (e : Nat)
  | disconnect (e : Nat)
  | start (e : Nat) (runId : Nat)       -- RunStartedMsg
  | stop (e : Nat) (runId : Nat)        -- RunStoppedMsg
  | restart                             -- Aggregator.shutdown(), then a new aggregator process on the same database
  | crash                               -- a new aggregator process on the same database without shutdown()
deriving Repr, DecidableEq

inductive Reply where
  | ok            -- SuccessMessage / successful registration / disconnect handled
  | notRegistered -- validate_msg: ErrorMessage "No engine registered under id …"
deriving Repr, DecidableEq

def init : State := {}

/-- the run_id column -/
def runIds (rows : List Row) : List Nat := rows.map (·.2)

def setEng (s : State) (e : Nat) (E : Engine) : State :=
  { s with eng := fun x => if x = e then E else s.eng x }

/-- `PlotLogRepository.create_plot_log(engine_data, run_id)`; the guard looks at the run id only -/
def createPlotLog (guarded : Bool) (s : State) (e r : Nat) : State :=
  if guarded && (runIds s.plotLogs).contains r then s else { s with plotLogs := s.plotLogs ++ [(e, r)] }

/-- `RecentRunRepository.store_recent_run(engine_data)` for the current run `r` (`get_by_run_id` guard) -/
def storeRecentRun (guarded : Bool) (s : State) (e r : Nat) : State :=
  if guarded && (runIds s.recentRuns).contains r then s else { s with recentRuns := s.recentRuns ++ [(e, r)] }

/-- `_try_restore_reconnected_engine_data`: the run id of the engine's RecentEngines row, if it has one -/
def restoredRun (E : Engine) : Option Nat :=
  match E.recentEngineRun with
  | some (some r) => some r
  | _ => none

def step (guarded : Bool) (s : State) : Op → State × Reply
  | .register e =>
    -- handle_RegisterEngineMsg: `if not has_registered_engine_id: register_engine_data(EngineData(...))`,
    -- which restores run_data from the RecentEngines row when that row has a run_id
    let E := s.eng e
    if E.registered then (s, .ok)
    else
      (setEng s e { E with registered := true, run := restoredRun E }, .ok)
  | .disconnect e =>
    -- engine_disconnected: store_recent_engine (run_id of the active run or None), delete the map entry
    let E := s.eng e
    if E.registered then (setEng s e { E with registered := false, run := none, recentEngineRun := some E.run }, .ok)
    else (s, .ok)
  | .start e r =>
    let E := s.eng e
    if !E.registered then (s, .notRegistered)
    else
      let s₁ := match E.run with
        | none => s
        | some q =>
          if q = r then s                                   -- "be idempotent and just accept this duplicate"
          else storeRecentRun guarded s e q                 -- store the existing run, start the new one
      -- reached from all three branches: create_plot_log, then store_recent_engine (the RecentEngines row
      -- remembers the active run right away, /repo cd1ce9ca)
      (setEng (createPlotLog guarded s₁ e r) e { E with run := some r, recentEngineRun := some (some r) }, .ok)
  | .stop e _ =>
    let E := s.eng e
    if !E.registered then (s, .notRegistered)               -- validate_msg
    else match E.run with                                    -- matching and mismatching id: both store the active run
      | none => (s, .ok)                                    -- "No engine run_data available on run_stopped"
      | some q =>                                           -- … and store_recent_engine: no run to resume
        (setEng (storeRecentRun guarded s e q) e { E with run := none, recentEngineRun := some none }, .ok)

  | .restart =>
    -- shutdown(): store_recent_engine for every engine in the map (run id of its active run or None); the new
    -- process starts with an empty `_engine_data_map`
    ({ s with eng := fun x =>
        if (s.eng x).registered then { s.eng x with registered := false, run := none, recentEngineRun := some (s.eng x).run }
        else s.eng x }, .ok)
  | .crash =>
    -- nothing is written; the RecentEngines rows are as the last run message / disconnect left them
    ({ s with eng := fun x => { s.eng x with registered := false, run := none } }, .ok)

def run (guarded : Bool) (s : State) (ops : List Op) : State :=
  ops.foldl (fun s op => (step guarded s op).1) s

end OPM.RunRecords
