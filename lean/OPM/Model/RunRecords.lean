/-
M13 (part): the run life-cycle of one engine in the aggregator and the two tables it writes per run.

Python (openpectus/aggregator):
  aggregator_message_handlers.py  handle_RegisterEngineMsg / validate_msg / handle_RunStartedMsg /
                                  handle_RunStoppedMsg / handle_EngineDisconnected
  aggregator.py                   FromEngine.register_engine_data, _try_restore_reconnected_engine_data,
                                  engine_disconnected, run_started, run_stopped
  data/repository.py              PlotLogRepository.create_plot_log, RecentRunRepository.store_recent_run,
                                  RecentEngineRepository.store_recent_engine / get_recent_engine_by_engine_id

The database is modelled as append-only row lists with exactly the queries used:
  plotLogs    = PlotLogs.run_id in insertion order
  recentRuns  = RecentRuns.run_id in insertion order
  recentEngineRun = the RecentEngines row of this engine id (unique column): none = no row, some r = row.run_id = r

`guarded = true` is the code with fixes/C30-one-record-per-run.diff applied (create_plot_log and store_recent_run
first look the run id up and do nothing when a row exists); `guarded = false` is the code before that repair.

Abstractions: one engine id (messages for other ids touch other map entries and other RecentEngines rows; rows
are keyed by run id, run ids are uuid4 of the engine); the registration is the accepted path (secret ok, no
websocket connected under that id, version ok); database writes succeed; everything else a run carries (run log,
method, contributors, tag values) is not modelled here.  Run ids are naturals (first-occurrence ordinals).
Core Lean only.
-/
namespace OPM.RunRecords

structure State where
  registered : Bool := false           -- engine_id ∈ aggregator._engine_data_map
  run : Option Nat := none             -- engine_data.run_data.run_id   (has_run() = run.isSome)
  recentEngineRun : Option (Option Nat) := none
  plotLogs : List Nat := []
  recentRuns : List Nat := []
deriving Repr, DecidableEq

inductive Op where
  | register
  | disconnect
  | start (runId : Nat)       -- RunStartedMsg
  | stop (runId : Nat)        -- RunStoppedMsg
deriving Repr, DecidableEq

inductive Reply where
  | ok            -- SuccessMessage / successful registration / disconnect handled
  | notRegistered -- validate_msg: ErrorMessage "No engine registered under id …"
deriving Repr, DecidableEq

def init : State := {}

/-- `PlotLogRepository.create_plot_log(engine_data, run_id)` -/
def createPlotLog (guarded : Bool) (s : State) (r : Nat) : State :=
  if guarded && s.plotLogs.contains r then s else { s with plotLogs := s.plotLogs ++ [r] }

/-- `RecentRunRepository.store_recent_run(engine_data)` for the current run `r` -/
def storeRecentRun (guarded : Bool) (s : State) (r : Nat) : State :=
  if guarded && s.recentRuns.contains r then s else { s with recentRuns := s.recentRuns ++ [r] }

def step (guarded : Bool) (s : State) : Op → State × Reply
  | .register =>
    -- handle_RegisterEngineMsg: `if not has_registered_engine_id: register_engine_data(EngineData(...))`,
    -- which restores run_data from the RecentEngines row when that row has a run_id
    if s.registered then (s, .ok)
    else
      let restored := match s.recentEngineRun with
        | some (some r) => some r
        | _ => none
      ({ s with registered := true, run := restored }, .ok)
  | .disconnect =>
    -- engine_disconnected: store_recent_engine (run_id of the active run or None), delete the map entry
    if s.registered then ({ s with registered := false, run := none, recentEngineRun := some s.run }, .ok)
    else (s, .ok)
  | .start r =>
    if !s.registered then (s, .notRegistered)
    else
      let s₁ := match s.run with
        | none => { s with run := some r }
        | some q =>
          if q = r then s                                        -- "be idempotent and just accept this duplicate"
          else { storeRecentRun guarded s q with run := some r } -- stop the existing run, store it, start the new one
      (createPlotLog guarded s₁ r, .ok)                          -- reached from all three branches
  | .stop _ =>
    if !s.registered then (s, .notRegistered)
    else match s.run with
      | none => (s, .ok)                                         -- "No engine run_data available on run_stopped"
      | some q => ({ storeRecentRun guarded s q with run := none }, .ok)  -- both the matching and the mismatching id branch

def run (guarded : Bool) (s : State) (ops : List Op) : State :=
  ops.foldl (fun s op => (step guarded s op).1) s

end OPM.RunRecords
