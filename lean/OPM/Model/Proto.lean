/-
M11 Proto: `openpectus/protocol/serialization.py` (`serialize`, `deserialize`) together with what
the transport does to the serialized dict, and pydantic's validation of the received dict.

Python:
    serialize(msg)      = msg.model_dump() + {"_type": type(msg).__qualname__, "_ns": msg.__module__}
    transport           = RpcMessage(request=RpcRequest(arguments={"message_json": d})).model_dump_json()
                          on the sender, json.loads on the receiver (fastapi_websocket_rpc)
    deserialize(d)      = look up `_ns` among the three namespaces, `getattr(ns, _type)`, `cls(**d)`,
                          every exception becomes ProtocolDeserializationException

Abstractions
* `Val`  : the Python values that can sit inside a validated message (runtime-typed: int / float /
           bool / str / enum member / None / list / set[str] / dict / model instance).
* `J`    : what `json.loads` returns (null, bool, int, float, str, array, object with string keys).
* `toJ`  : `model_dump()` followed by pydantic's JSON encoder followed by `json.loads`. It is driven
           by the *runtime* type of the value only: sub-models become objects, enum members their
           value, sets arrays (in an arbitrary order `ord`), non-string dict keys strings, non-finite
           floats `null`.
* `validate` : pydantic-core validation (python input, lax mode, smart unions) for the field types
           that occur in the protocol; `Ty` is regenerated from `model_fields` (OPM/Gen/Schemas.lean).
           Inputs whose treatment by pydantic is not modelled answer `unmodelled`, never a default.
* Floats are exact dyadic rationals `num / 2^exp` (`float.as_integer_ratio()`); the encoder/decoder
  pair of pydantic/CPython is taken to be exact on finite doubles (validated differentially).
  `-0.0` is identified with `0.0`.
Lists, dict entries and record fields are encoded as cons cells inside the one inductive type so that
all functions are plain structural recursions.  Core Lean only.
-/
namespace OPM.Proto

inductive Flt where
  | fin (num : Int) (exp : Nat)   -- num / 2^exp, normal form: exp = 0 or num odd
  | nan | pinf | ninf
deriving DecidableEq, Repr

/-- dict keys that occur in the protocol: str, int, float. -/
inductive Key where
  | str (s : String) | int (i : Int) | flt (f : Flt)
deriving DecidableEq, Repr

inductive KeyKind where
  | str | int | flt
deriving DecidableEq, Repr

/-- What `json.loads` produces. Arrays and objects are cons cells (`anil/acons`, `onil/ocons`). -/
inductive J where
  | null | bool (b : Bool) | int (i : Int) | flt (f : Flt) | str (s : String)
  | anil | acons (h t : J)
  | onil | ocons (k : String) (v : J) (rest : J)
deriving DecidableEq, Repr

/-- Python values inside a validated message. -/
inductive Val where
  | none | bool (b : Bool) | int (i : Int) | flt (f : Flt) | str (s : String)
  | enm (s : String)                       -- member of a StrEnum, by value
  | lnil | lcons (h t : Val)               -- list
  | tup (items : Val)                      -- tuple (items: list spine)
  | set (l : List String)                  -- set[str]; canonical representative: strictly sorted
  | dnil | dcons (k : Key) (v : Val) (rest : Val)        -- dict, insertion order
  | obj (ns name : String) (fields : Val)  -- instance of the model class `ns.name`
  | fnil | fcons (name : String) (v : Val) (rest : Val)  -- fields of a model instance, declaration order
deriving DecidableEq, Repr

inductive Dflt where
  | required
  | value (v : Val)
  | dynamic            -- default_factory whose result is not a constant (e.g. a time stamp)
deriving DecidableEq, Repr

/-- Field types (regenerated from the pydantic `model_fields`). -/
inductive Ty where
  | int | nnint | str | bool | float | none
  | lit (opts : List String)                 -- Literal['a', 'b']
  | enm (opts : List String)                 -- StrEnum, by member values
  | list (t : Ty)
  | tupleVar (t : Ty)                        -- tuple[T, ...]
  | tuple (elems : Ty)                       -- tuple[T1, …, Tn]; elems = `tnil`/`tcons`
  | tnil | tcons (t : Ty) (rest : Ty)        -- positional element types (their values are list spines)
  | opaqueTy (what : String)                   -- a field type outside the model: no value of it is `wellTyped`,
                                             -- so the theorems say nothing about messages that contain one
  | setStr
  | dict (keys : List KeyKind) (v : Ty)
  | union (a b : Ty)                         -- right nested; `T | None` = `union T none`
  | model (ns name : String) (fields : Ty)
  | fnil | fcons (name : String) (t : Ty) (d : Dflt) (rest : Ty)
  | unsupported (what : String)
deriving DecidableEq, Repr

inductive Err where
  | invalid        -- pydantic raises a ValidationError
  | unmodelled     -- outside the modelled fragment of pydantic's coercion rules
deriving DecidableEq, Repr

abbrev R := Except Err Val

instance exceptDecEq {ε α : Type} [DecidableEq ε] [DecidableEq α] : DecidableEq (Except ε α) := fun a b =>
  match a, b with
  | .ok x, .ok y => if h : x = y then isTrue (by rw [h]) else isFalse (by intro e; cases e; exact h rfl)
  | .error x, .error y => if h : x = y then isTrue (by rw [h]) else isFalse (by intro e; cases e; exact h rfl)
  | .ok _, .error _ => isFalse (by intro e; cases e)
  | .error _, .ok _ => isFalse (by intro e; cases e)

/-! ## Sender side -/

def digitsRev : Nat → Nat → List Char
  | 0, _ => []
  | fuel + 1, n => if n < 10 then [Char.ofNat (48 + n)] else Char.ofNat (48 + n % 10) :: digitsRev fuel (n / 10)

def natStr (n : Nat) : String := String.ofList (digitsRev (n + 1) n).reverse

def intStr (i : Int) : String := if i < 0 then "-" ++ natStr i.natAbs else natStr i.natAbs

/-- `n` padded with leading zeros to width `w`. -/
def padLeft (w : Nat) (s : List Char) : List Char := List.replicate (w - s.length) '0' ++ s

def stripTrailingZeros (s : List Char) : List Char := (s.reverse.dropWhile (· = '0')).reverse

/-- `repr` of the double `num / 2^exp` in positional notation (valid for 1e-4 ≤ |x| < 1e16; the driver
refuses float keys outside that range). `num / 2^exp = num * 5^exp / 10^exp`. -/
def fltStr (num : Int) (exp : Nat) : String :=
  let m := num.natAbs * 5 ^ exp
  let ip := m / 10 ^ exp
  let fp := m % 10 ^ exp
  let fs := stripTrailingZeros (padLeft exp (natStr fp).toList)
  let fs := if exp = 0 || fs.isEmpty then ['0'] else fs
  (if num < 0 then "-" else "") ++ natStr ip ++ "." ++ String.ofList fs

/-- How pydantic's JSON encoder writes a dict key. -/
def keyStr : Key → String
  | .str s => s
  | .int i => intStr i
  | .flt (.fin n e) => fltStr n e
  | .flt _ => "None"

def J.get? (key : String) : J → Option J
  | .ocons k v rest => if k = key then some v else rest.get? key
  | _ => Option.none

def J.erase (key : String) : J → J
  | .ocons k v rest => if k = key then rest.erase key else .ocons k v (rest.erase key)
  | j => j

/-- `json.loads` of an object text in which `key` is written before the members of `later`: the
first occurrence fixes the position, the last occurrence the value. -/
def J.putFront (key : String) (v : J) (later : J) : J :=
  match later.get? key with
  | some v' => .ocons key v' (later.erase key)
  | Option.none => .ocons key v later

def strArr : List String → J
  | [] => .anil
  | s :: rest => .acons (.str s) (strArr rest)

/-- `model_dump()` ∘ pydantic JSON encoder ∘ `json.loads`. `ord` is the iteration order of a set. -/
def toJ (ord : List String → List String) : Val → J
  | .none => .null
  | .bool b => .bool b
  | .int i => .int i
  | .flt (.fin n e) => .flt (.fin n e)
  | .flt _ => .null                      -- ser_json_inf_nan = 'null'
  | .str s => .str s
  | .enm s => .str s
  | .lnil => .anil
  | .lcons h t => .acons (toJ ord h) (toJ ord t)
  | .tup l => toJ ord l
  | .set l => strArr (ord l)
  | .dnil => .onil
  | .dcons k v rest => J.putFront (keyStr k) (toJ ord v) (toJ ord rest)
  | .obj _ _ fields => toJ ord fields
  | .fnil => .onil
  | .fcons n v rest => .ocons n (toJ ord v) (toJ ord rest)

/-- `serialize` + transport: the dumped fields followed by `_type`, `_ns`. -/
def J.append : J → J → J
  | .ocons k v rest, tail => .ocons k v (rest.append tail)
  | _, tail => tail

def envelope (ns name : String) : J := .ocons "_type" (.str name) (.ocons "_ns" (.str ns) .onil)

def serialize (ord : List String → List String) : Val → Option J
  | .obj ns name fields => some ((toJ ord fields).append (envelope ns name))
  | _ => Option.none

/-! ## Receiver side: pydantic validation -/

inductive Mode where
  | exact     -- first pass of a smart union: the input already has exactly the member's type
  | strict    -- second pass: strict-mode validation (int → float allowed)
  | lax       -- default mode of `cls(**d)`
  | laxFlat   -- third pass of a smart union (lax, without restarting the passes at this union)
deriving DecidableEq, Repr

def Mode.base : Mode → Mode
  | .laxFlat => .lax
  | m => m

def Mode.isLax (m : Mode) : Bool := m = .lax || m = .laxFlat

def orElse (a : R) (b : Unit → R) : R :=
  match a with
  | .error .invalid => b ()
  | r => r

def isDigit (c : Char) : Bool := 48 ≤ c.toNat && c.toNat ≤ 57
def isAsciiLetter (c : Char) : Bool := (65 ≤ c.toNat && c.toNat ≤ 90) || (97 ≤ c.toNat && c.toNat ≤ 122)

def digitsVal (cs : List Char) : Nat := cs.foldl (fun acc c => acc * 10 + (c.toNat - 48)) 0

/-- canonical decimal integer literal `-?(0|[1-9][0-9]{0,14})` -/
def decimalLit (s : String) : Option Int :=
  let cs := s.toList
  let (neg, ds) := match cs with
    | '-' :: r => (true, r)
    | r => (false, r)
  if ds.isEmpty || ds.length > 15 || !ds.all isDigit then Option.none
  else if ds.length > 1 && ds.head? = some '0' then Option.none
  else some (if neg then - (digitsVal ds : Int) else (digitsVal ds : Int))

def specialWords : List String :=
  ["nan", "inf", "infinity", "true", "false", "t", "f", "yes", "no", "y", "n", "on", "off"]

/-- strings that pydantic rejects for every numeric and boolean field: ASCII letters and `_` only and
not one of the words it understands. -/
def plainWord (s : String) : Bool :=
  s.toList.all (fun c => isAsciiLetter c || c = '_') && !specialWords.contains (String.ofList (s.toList.map Char.toLower))

def bigInt (i : Int) : Bool := i.natAbs ≥ 2 ^ 53

def vInt (m : Mode) : J → R
  | .int i => .ok (.int i)
  | .bool b => if m.isLax then .ok (.int (if b then 1 else 0)) else .error .invalid
  | .flt (.fin n 0) => if m.isLax then (if bigInt n then .error .unmodelled else .ok (.int n)) else .error .invalid
  | .str s =>
    if m.isLax then
      match decimalLit s with
      | some i => .ok (.int i)
      | Option.none => if plainWord s then .error .invalid else .error .unmodelled
    else .error .invalid
  | _ => .error .invalid

def vNnInt (m : Mode) (j : J) : R :=
  match vInt m j with
  | .ok (.int i) => if 0 ≤ i then .ok (.int i) else .error .invalid
  | r => r

def vFloat (m : Mode) : J → R
  | .flt f => .ok (.flt f)
  | .int i => if m = .exact then .error .invalid
              else if bigInt i then .error .unmodelled else .ok (.flt (.fin i 0))
  | .bool b => if m.isLax then .ok (.flt (.fin (if b then 1 else 0) 0)) else .error .invalid
  | .str s =>
    if m.isLax then
      match decimalLit s with
      | some i => .ok (.flt (.fin i 0))
      | Option.none => if plainWord s then .error .invalid else .error .unmodelled
    else .error .invalid
  | _ => .error .invalid

def vBool (m : Mode) : J → R
  | .bool b => .ok (.bool b)
  | .int i => if m.isLax then (if i = 0 then .ok (.bool false) else if i = 1 then .ok (.bool true) else .error .invalid)
              else .error .invalid
  | .flt (.fin n 0) =>
    if m.isLax then (if n = 0 then .ok (.bool false) else if n = 1 then .ok (.bool true) else .error .invalid)
    else .error .invalid
  | .str s =>
    if m.isLax then
      match decimalLit s with
      | some i => if s = "0" then .ok (.bool false) else if s = "1" then .ok (.bool true)
                  else if i = 0 then .error .unmodelled else .error .invalid
      | Option.none => if plainWord s then .error .invalid else .error .unmodelled
    else .error .invalid
  | _ => .error .invalid

def vStr : J → R
  | .str s => .ok (.str s)
  | _ => .error .invalid

def vNone : J → R
  | .null => .ok .none
  | _ => .error .invalid

def vLit (opts : List String) : J → R
  | .str s => if opts.contains s then .ok (.str s) else .error .invalid
  | _ => .error .invalid

def vEnm (m : Mode) (opts : List String) : J → R
  | .str s => if m.isLax then (if opts.contains s then .ok (.enm s) else .error .invalid) else .error .unmodelled
  | _ => if m.isLax then .error .invalid else .error .unmodelled

/-- element-wise validation of an array -/
def mapArr (f : J → R) : J → R
  | .anil => .ok .lnil
  | .acons h t =>
    match f h, mapArr f t with
    | .ok v, .ok vs => .ok (.lcons v vs)
    | .error .invalid, _ => .error .invalid
    | _, .error .invalid => .error .invalid
    | _, _ => .error .unmodelled
  | _ => .error .invalid

/-- value-wise validation of an object; keys stay strings -/
def mapObj (f : J → R) : J → R
  | .onil => .ok .dnil
  | .ocons k v rest =>
    match f v, mapObj f rest with
    | .ok v', .ok vs => .ok (.dcons (.str k) v' vs)
    | .error .invalid, _ => .error .invalid
    | _, .error .invalid => .error .invalid
    | _, _ => .error .unmodelled
  | _ => .error .invalid

def insertStr (s : String) : List String → List String
  | [] => [s]
  | x :: rest => if s < x then s :: x :: rest else if s = x then x :: rest else x :: insertStr s rest

/-- canonical representative of a set of strings: sorted by code point, no duplicates -/
def canonSet (l : List String) : List String := l.foldr insertStr []

def arrStrs : J → Option (List String)
  | .anil => some []
  | .acons (.str s) t => (arrStrs t).map (s :: ·)
  | _ => Option.none

def vSetStr (m : Mode) (j : J) : R :=
  if m.isLax then
    match arrStrs j with
    | some l => .ok (.set (canonSet l))
    | Option.none => .error .invalid
  else .error .unmodelled

def J.isObj : J → Bool
  | .onil => true
  | .ocons _ _ _ => true
  | _ => false

def combineField (name : String) (a : R) (rest : R) : R :=
  match a, rest with
  | .ok v, .ok vs => .ok (.fcons name v vs)
  | .error .invalid, _ => .error .invalid
  | _, .error .invalid => .error .invalid
  | _, _ => .error .unmodelled

/-- pydantic-core validation of a python object obtained from JSON. -/
def validate (m : Mode) : Ty → J → R
  | .int, j => vInt m j
  | .nnint, j => vNnInt m j
  | .str, j => vStr j
  | .bool, j => vBool m j
  | .float, j => vFloat m j
  | .none, j => vNone j
  | .lit opts, j => vLit opts j
  | .enm opts, j => vEnm m opts j
  | .list t, j => mapArr (validate m.base t) j
  | .tupleVar t, j =>
    if m.isLax then
      match mapArr (validate .lax t) j with
      | .ok l => .ok (.tup l)
      | .error e => .error e
    else .error .unmodelled                 -- strict mode wants a tuple instance
  | .tuple elems, j =>
    if m.isLax then
      match validate .lax elems j with
      | .ok l => .ok (.tup l)
      | .error e => .error e
    else .error .unmodelled
  | .tnil, j => (match j with
    | .anil => .ok .lnil
    | _ => .error .invalid)
  | .tcons t rest, j => (match j with
    | .acons h tl =>
      (match validate .lax t h, validate .lax rest tl with
       | .ok v, .ok vs => .ok (.lcons v vs)
       | .error .invalid, _ => .error .invalid
       | _, .error .invalid => .error .invalid
       | _, _ => .error .unmodelled)
    | _ => .error .invalid)
  | .opaqueTy _, _ => .error .unmodelled
  | .setStr, j => vSetStr m j
  | .dict keys t, j =>
    if keys.contains .str then mapObj (validate m.base t) j else .error .unmodelled
  | .union a b, j =>
    match m with
    | .lax =>
      orElse (orElse (validate .exact a j) (fun _ => validate .exact b j)) fun _ =>
      orElse (orElse (validate .strict a j) (fun _ => validate .strict b j)) fun _ =>
      orElse (validate .laxFlat a j) (fun _ => validate .laxFlat b j)
    | m => orElse (validate m a j) (fun _ => validate m b j)
  | .model ns name fields, j =>
    if m.isLax then
      (if j.isObj then
        match validate .lax fields j with
        | .ok vs => .ok (.obj ns name vs)
        | .error e => .error e
       else .error .invalid)
    else .error .unmodelled
  | .fnil, _ => .ok .fnil
  | .fcons name t d rest, j =>
    match j.get? name with
    | some x => combineField name (validate .lax t x) (validate .lax rest j)
    | Option.none =>
      match d with
      | .required => (match validate .lax rest j with
                      | .error .unmodelled => .error .unmodelled
                      | _ => .error .invalid)
      | .value dv => combineField name (.ok dv) (validate .lax rest j)
      | .dynamic => (match validate .lax rest j with
                     | .error .invalid => .error .invalid
                     | _ => .error .unmodelled)
  | .unsupported _, _ => .error .unmodelled

/-! ## `deserialize` -/

structure Entry where
  ns : String          -- namespace in which the attribute lives
  attr : String        -- attribute name
  clsNs : String       -- `__module__` of the class the attribute is bound to
  clsName : String     -- `__qualname__`
  fields : Ty          -- the class's fields (`fnil`/`fcons`)
deriving DecidableEq, Repr

def Entry.schema (e : Entry) : Ty := .model e.clsNs e.clsName e.fields

def lookup (reg : List Entry) (ns attr : String) : Option Entry :=
  reg.find? (fun e => e.ns = ns && e.attr = attr)

inductive DErr where
  | protocol       -- ProtocolDeserializationException
  | unmodelled
deriving DecidableEq, Repr

/-- `deserialize(json_dict)`; `nss` = `_message_namespace_names`, `reg` = every attribute of the three
namespaces that is bound to a `MessageBase` subclass. Any other attribute makes `cls(**d)` raise or the
`isinstance` assertion fail. -/
def deserialize (nss : List String) (reg : List Entry) (j : J) : Except DErr Val :=
  if !j.isObj then .error .protocol else
  match j.get? "_type", j.get? "_ns" with
  | some ty, some ns =>
    match ns with
    | .str nsName =>
      if !nss.contains nsName then .error .protocol else
      match ty with
      | .str tyName =>
        match lookup reg nsName tyName with
        | some e =>
          match validate .lax e.schema j with
          | .ok v => .ok v
          | .error .invalid => .error .protocol
          | .error .unmodelled => .error .unmodelled
        | Option.none => .error .protocol
      | _ => .error .protocol          -- getattr(ns, <non-str>) raises TypeError
    | _ => .error .protocol            -- not in the list of namespace names
  | _, _ => .error .protocol

def roundtrip (ord : List String → List String) (nss : List String) (reg : List Entry) (v : Val) :
    Except DErr Val :=
  match serialize ord v with
  | some j => deserialize nss reg j
  | Option.none => .error .protocol

/-! ## Which values are "of the declared type" -/

def allList (f : Val → Bool) : Val → Bool
  | .lnil => true
  | .lcons h t => f h && allList f t
  | _ => false

def keyKind : Key → KeyKind
  | .str _ => .str
  | .int _ => .int
  | .flt _ => .flt

/-- Python's `==` on keys: `1 == 1.0`. -/
def Key.pyEq : Key → Key → Bool
  | .int i, .flt (.fin n 0) => i = n
  | .flt (.fin n 0), .int i => i = n
  | a, b => a = b

def dictHasKey (k : Key) : Val → Bool
  | .dcons k' _ rest => k.pyEq k' || dictHasKey k rest
  | _ => false

def allDict (keys : List KeyKind) (f : Val → Bool) : Val → Bool
  | .dnil => true
  | .dcons k v rest => keys.contains (keyKind k) && f v && !dictHasKey k rest && allDict keys f rest
  | _ => false

def sortedStrict : List String → Bool
  | [] => true
  | [_] => true
  | a :: b :: rest => decide (a < b) && sortedStrict (b :: rest)

def wellTyped : Ty → Val → Bool
  | .int, .int _ => true
  | .nnint, .int i => decide (0 ≤ i)
  | .str, .str _ => true
  | .bool, .bool _ => true
  | .float, .flt _ => true
  | .none, .none => true
  | .lit opts, .str s => opts.contains s
  | .enm opts, .enm s => opts.contains s
  | .list t, v => allList (wellTyped t) v
  | .tupleVar t, .tup l => allList (wellTyped t) l
  | .tuple elems, .tup l => wellTyped elems l
  | .tnil, .lnil => true
  | .tcons t rest, .lcons v vs => wellTyped t v && wellTyped rest vs
  | .setStr, .set l => sortedStrict l
  | .dict keys t, v => allDict keys (wellTyped t) v
  | .union a b, v => wellTyped a v || wellTyped b v
  | .model ns name fields, .obj ns' name' vs => ns = ns' && name = name' && wellTyped fields vs
  | .fnil, .fnil => true
  | .fcons n t _ rest, .fcons n' v vs => n = n' && wellTyped t v && wellTyped rest vs
  | _, _ => false

/-- No non-finite float and no non-string dict key anywhere in the value. -/
def jsonSafe : Val → Bool
  | .flt (.fin _ _) => true
  | .flt _ => false
  | .lcons h t => jsonSafe h && jsonSafe t
  | .tup l => jsonSafe l
  | .dcons (.str _) v rest => jsonSafe v && jsonSafe rest
  | .dcons _ _ _ => false
  | .obj _ _ fields => jsonSafe fields
  | .fcons _ v rest => jsonSafe v && jsonSafe rest
  | _ => true

/-! ## Which schemas can round-trip at all -/

def fieldNames : Ty → List String
  | .fcons n _ _ rest => n :: fieldNames rest
  | _ => []

def distinct : List String → Bool
  | [] => true
  | x :: rest => !rest.contains x && distinct rest

def isFieldsTy : Ty → Bool
  | .fnil => true
  | .fcons _ _ _ rest => isFieldsTy rest
  | _ => false

def isFieldHead : Ty → Bool
  | .fnil => true
  | .fcons _ _ _ _ => true
  | _ => false

/-- JSON kinds a union member accepts in the exact pass -/
inductive Kind where
  | null | bool | int | flt | str | arr | obj
deriving DecidableEq, Repr

/-- Member types allowed inside a union, with the JSON kind they own. -/
def memberKind : Ty → Option Kind
  | .int => some .int
  | .nnint => some .int
  | .float => some .flt
  | .str => some .str
  | .lit _ => some .str
  | .bool => some .bool
  | .none => some .null
  | .list _ => some .arr
  | .dict _ _ => some .obj
  | _ => Option.none

/-- Types whose values come back from JSON with exactly the same runtime type in the exact pass
(no coercion needed): what may stand inside a union. -/
def exactOk : Ty → Bool
  | .int | .nnint | .float | .str | .bool | .none => true
  | .lit _ => true
  | .list t => exactOk t
  | .dict keys t => keys.contains .str && exactOk t
  | .union a b => exactOk a && exactOk b
  | _ => false

/-- Schema-level condition: every construct is modelled, union members are exact-capable, dict keys
admit strings, field names of a class are distinct and do not clash with the envelope keys. -/
def rt : Ty → Bool
  | .int | .nnint | .float | .str | .bool | .none => true
  | .lit _ | .enm _ | .setStr | .fnil => true
  | .list t => !isFieldHead t && rt t
  | .tupleVar t => !isFieldHead t && rt t
  | .tuple elems => !isFieldHead elems && rt elems
  | .tnil => true
  | .tcons t rest => !isFieldHead t && !isFieldHead rest && rt t && rt rest
  | .opaqueTy _ => true
  | .dict keys t => keys.contains .str && !isFieldHead t && rt t
  | .union a b => exactOk a && exactOk b && rt a && rt b
  | .model _ _ fields =>
    isFieldsTy fields && rt fields && distinct (fieldNames fields) && !(fieldNames fields).contains "_type"
      && !(fieldNames fields).contains "_ns"
  | .fcons _ t _ rest => !isFieldHead t && rt t && rt rest
  | .unsupported _ => false

/-- every dict in the schema is keyed by `str` only -/
def strKeysOnly : Ty → Bool
  | .list t => strKeysOnly t
  | .tupleVar t => strKeysOnly t
  | .tuple e => strKeysOnly e
  | .tcons t rest => strKeysOnly t && strKeysOnly rest
  | .dict keys t => keys = [.str] && strKeysOnly t
  | .union a b => strKeysOnly a && strKeysOnly b
  | .model _ _ fields => strKeysOnly fields
  | .fcons _ t _ rest => strKeysOnly t && strKeysOnly rest
  | _ => true

/-- no `float` anywhere in the schema -/
def floatFree : Ty → Bool
  | .float => false
  | .list t => floatFree t
  | .tupleVar t => floatFree t
  | .tuple e => floatFree e
  | .tcons t rest => floatFree t && floatFree rest
  | .dict _ t => floatFree t
  | .union a b => floatFree a && floatFree b
  | .model _ _ fields => floatFree fields
  | .fcons _ t _ rest => floatFree t && floatFree rest
  | _ => true

/-- does the schema contain a field type outside the model? -/
def hasOpaque : Ty → Bool
  | .opaqueTy _ => true
  | .list t | .tupleVar t | .tuple t => hasOpaque t
  | .tcons t rest => hasOpaque t || hasOpaque rest
  | .dict _ t => hasOpaque t
  | .union a b => hasOpaque a || hasOpaque b
  | .model _ _ fields => hasOpaque fields
  | .fcons _ t _ rest => hasOpaque t || hasOpaque rest
  | _ => false

/-- The registry is consistent: the class a message reports (`__module__`, `__qualname__`) resolves,
through `getattr(namespace, qualname)`, to an entry for the same class with the same fields. -/
def registryOk (nss : List String) (reg : List Entry) : Bool :=
  reg.all fun e =>
    nss.contains e.clsNs && nss.contains e.ns &&
    match lookup reg e.clsNs e.clsName with
    | some e' => e'.clsNs = e.clsNs && e'.clsName = e.clsName && e'.fields = e.fields
    | Option.none => false

end OPM.Proto
