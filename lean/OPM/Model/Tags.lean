/-
M5 Tags/Report.

Python modelled (as repaired by fixes/C16-*.diff and fixes/C36-*.diff; the pre-repair behaviour is kept
next to it as `…Old` for the regression witnesses and the harness self-test):

* `openpectus/lang/exec/tags.py`
    `Tag.set_value`, `Tag.simulate_value`, `Tag.simulate_value_and_unit` (incl. its failing-conversion
    path), `Tag.stop_simulation`, `Tag.as_readonly` (value / tick_time / simulated),
    `ChangeSubject.notify_listeners` → `TagCollection.notify_change` → `ChangeListener.notify_change`
    (the engine's two listeners are one set here: reports are compared up to order).
* `openpectus/lang/exec/tags_impl.py`  `BlockTimeTag`, `ScopeTimeTag` (event handlers; what they do to their
    own value), as little machines that emit tag operations.
* `openpectus/engine/engine.py`  `Engine.notify_tag_updates`, `Engine.notify_all_tags`, the `tag_updates`
    queue (holds references: the value is read when the report is built), the bulk time stamp of the system
    tags in tick number 0, `read_process_image` (one `set_value` per read register).
* `openpectus/engine/engine_message_builder.py`  `collect_tag_updates(snapshot)`, `to_model_tag`
    (a time stamp of exactly 0.0 is replaced by the wall clock).

Abstractions: a tag value is `none` (Python `None`) or `some k` (k = ordinal of the value under Python `==`, or
the number scaled by 1024 for the clock tags); times are integers (1/1024 s); tags are addressed by their
position in `Engine._iter_all_tags()` (system tags first); `value_formatted`, units, direction are not
modelled; `DerivedTag` is not modelled; the order inside a report is not modelled (hash order of a set).
Core Lean only.
-/
namespace OPM.Tags

abbrev Val := Option Int
abbrev Time := Int

structure Tag where
  value : Val
  simValue : Val
  simulated : Bool
  tickTime : Time
deriving Repr, DecidableEq

/-- what `as_readonly()` reports as the value -/
def Tag.visible (t : Tag) : Val := if t.simulated then t.simValue else t.value

structure State where
  tags : List Tag
  /-- number of system tags (positions `< nSys`) -/
  nSys : Nat
  /-- names collected by the change listeners since the last `notify_tag_updates` -/
  dirty : List Nat
  /-- `Engine.tag_updates` -/
  queue : List Nat
  /-- `Engine._tick_number + 1` -/
  ticks : Nat
deriving Repr, DecidableEq

def State.empty : State := ⟨[], 0, [], [], 0⟩

/-- declare a tag (construction: `Tag.__init__`) -/
def State.addTag (s : State) (sys : Bool) (v : Val) (t : Time) : State :=
  { s with tags := s.tags ++ [⟨v, none, false, t⟩], nSys := if sys then s.tags.length + 1 else s.nSys }

/-- `set.add` -/
def insertNew (l : List Nat) (i : Nat) : List Nat := if i ∈ l then l else l ++ [i]

inductive Op where
  /-- `Tag.set_value(v, t)` -/
  | set (i : Nat) (v : Val) (t : Time)
  /-- `Tag.simulate_value(v, t)`, or `simulate_value_and_unit` with a successful conversion to `v` -/
  | sim (i : Nat) (v : Val) (t : Time)
  /-- `Tag.simulate_value_and_unit` raising ValueError (non-numeric value / tag without unit) -/
  | simFail (i : Nat)
  /-- `Tag.stop_simulation()` -/
  | simOff (i : Nat)
  /-- `tag.tick_time = t` (Engine.tick in tick number 0) -/
  | stamp (i : Nat) (t : Time)
  /-- `Engine.notify_tag_updates()` -/
  | notify
  /-- `self.value = v` outside `set_value`: not in the repaired code (table `silentAssigns = []`);
      kept to express the pre-repair clock tags and for the self-test -/
  | silent (i : Nat) (v : Val)
  /-- pre-repair `stop_simulation` (notifies iff the real value is not None) -/
  | simOffOld (i : Nat)
  /-- pre-repair failing `simulate_value_and_unit` (leaves `simulated = True`) -/
  | simFailOld (i : Nat)
deriving Repr, DecidableEq

/-- the tag an operation addresses (`none`: the operation is `notify_tag_updates`) -/
def Op.target : Op → Option Nat
  | .set i _ _ => some i
  | .sim i _ _ => some i
  | .simFail i => some i
  | .simOff i => some i
  | .stamp i _ => some i
  | .notify => none
  | .silent i _ => some i
  | .simOffOld i => some i
  | .simFailOld i => some i

/-- the method bodies: new tag fields and whether `notify_listeners(self.name)` is called -/
def applyTag : Op → Tag → Tag × Bool
  | .set _ v t, tg =>
    if v ≠ tg.value then ({ tg with value := v, tickTime := t }, true) else (tg, false)
  | .sim _ v t, tg =>
    if v ≠ tg.simValue then ({ tg with simulated := true, simValue := v, tickTime := t }, true)
    else ({ tg with simulated := true }, false)
  | .simFail _, tg => (tg, false)
  | .simOff _, tg => ({ tg with simulated := false, simValue := none }, true)
  | .stamp _ t, tg => ({ tg with tickTime := t }, false)
  | .notify, tg => (tg, false)
  | .silent _ v, tg => ({ tg with value := v }, false)
  | .simOffOld _, tg => ({ tg with simulated := false, simValue := none }, tg.value.isSome)
  | .simFailOld _, tg => ({ tg with simulated := true }, false)

def step (s : State) (o : Op) : State :=
  match o.target with
  | none => { s with queue := s.queue ++ s.dirty, dirty := [] }
  | some i =>
    match s.tags[i]? with
    | none => s
    | some tg =>
      { s with tags := s.tags.set i (applyTag o tg).1,
               dirty := if (applyTag o tg).2 then insertNew s.dirty i else s.dirty }

def run (s : State) (ops : List Op) : State := ops.foldl step s

/-! ### Reports -/

structure Entry where
  idx : Nat
  value : Val
  tickTime : Time
  simulated : Bool
deriving Repr, DecidableEq

/-- the dict keyed by name in `collect_tag_updates`: first occurrence decides the position -/
def dedup (q : List Nat) : List Nat := q.foldl insertNew []

def entryOf (s : State) (now : Time) (i : Nat) : Option Entry :=
  (s.tags[i]?).map fun tg => ⟨i, tg.visible, if tg.tickTime = 0 then now else tg.tickTime, tg.simulated⟩

/-- `Engine.notify_all_tags()` -/
def notifyAll (s : State) : State := { s with queue := s.queue ++ List.range s.tags.length }

/-- `EngineMessageBuilder.collect_tag_updates(snapshot)`; `now` is the wall clock (used only for a zero stamp) -/
def collect (s : State) (snapshot : Bool) (now : Time) : State × List Entry :=
  let s1 := if snapshot then notifyAll s else s
  ({ s1 with queue := [] }, (dedup s1.queue).filterMap (entryOf s1 now))

/-! ### One engine tick of a stopped engine (`Engine.tick` without a run): time stamp of the system tags in the
first tick, one `set_value` per read register, `notify_tag_updates`.  Used by the correspondence. -/

def engineTickOps (s : State) (t : Time) (reads : List (Nat × Val)) : List Op :=
  (if s.ticks = 0 then (List.range s.nSys).map (fun i => Op.stamp i t) else [])
    ++ reads.map (fun r => Op.set r.1 r.2 t) ++ [Op.notify]

def engineTick (s : State) (t : Time) (reads : List (Nat × Val)) : State :=
  { run s (engineTickOps s t reads) with ticks := s.ticks + 1 }

/-! ### Clock tags: `BlockTimeTag`, `ScopeTimeTag`.  Each handler returns the new private state, the tag
operations it performs on its own tag (position `idx`) and the exception it raises, if any (the emitter logs
and swallows it). -/

structure Res (σ : Type) where
  st : σ
  ops : List Op
  err : Option String

structure BlockTime where
  /-- `StackItem.value`s, innermost last -/
  stack : List Int
  paused : Bool
deriving Repr, DecidableEq

def BlockTime.init : BlockTime := ⟨[], false⟩

/-- `BlockTimeTag.get_value` (0.0 for an empty stack is the code's own answer) -/
def BlockTime.getValue (b : BlockTime) : Int :=
  match b.stack.getLast? with
  | none => 0
  | some v => v

inductive BtEv where
  /-- `on_start`; `now` = wall clock (`time.time()`) -/
  | start (now : Time)
  | blockStart
  | blockEnd
  | tick (t : Time) (dt : Int)
  | pause
  | unpause
deriving Repr, DecidableEq

def btStep (idx : Nat) (b : BlockTime) : BtEv → Res BlockTime
  | .start now => ⟨{ b with stack := [] }, [.set idx (some 0) now], none⟩
  | .blockStart => ⟨{ b with stack := b.stack ++ [0] }, [], none⟩
  | .blockEnd =>
    if b.stack = [] then ⟨b, [], some "IndexError"⟩ else ⟨{ b with stack := b.stack.dropLast }, [], none⟩
  | .tick t dt =>
    if b.paused then ⟨b, [], none⟩
    else
      let b' := { b with stack := b.stack.map (· + dt) }
      ⟨b', [.set idx (some b'.getValue) t], none⟩
  | .pause => ⟨{ b with paused := true }, [], none⟩
  | .unpause => ⟨{ b with paused := false }, [], none⟩

/-- pre-repair handlers: direct assignment of `self.value` -/
def btStepOld (idx : Nat) (b : BlockTime) : BtEv → Res BlockTime
  | .start _ => ⟨{ b with stack := [] }, [.silent idx (some 0)], none⟩
  | .tick _ dt =>
    if b.paused then ⟨b, [], none⟩
    else
      let b' := { b with stack := b.stack.map (· + dt) }
      ⟨b', [.silent idx (some b'.getValue)], none⟩
  | e => btStep idx b e

structure ScopeTime where
  /-- `_timers`: node id ↦ seconds (a dict: keys unique) -/
  timers : List (Nat × Int)
  /-- `_stack` of node ids, innermost last -/
  stack : List Nat
  paused : Bool
deriving Repr, DecidableEq

def ScopeTime.init : ScopeTime := ⟨[], [], false⟩

def lookupTimer (ts : List (Nat × Int)) (k : Nat) : Option Int :=
  (ts.find? (·.1 = k)).map (·.2)

/-- `ScopeTimeTag.get_value` (0.0 for an empty stack / unknown id is the code's own answer) -/
def ScopeTime.getValue (s : ScopeTime) : Int :=
  match s.stack.getLast? with
  | none => 0
  | some k => match lookupTimer s.timers k with
    | none => 0
    | some v => v

inductive StEv where
  | start (now : Time)
  | scopeStart (now : Time)
  | scopeActivate (id : Nat)
  | scopeEnd (id : Nat)
  | tick (t : Time) (dt : Int)
  | pause
  | unpause
deriving Repr, DecidableEq

/-- `d[k] = 0.0` -/
def setTimer (ts : List (Nat × Int)) (k : Nat) : List (Nat × Int) :=
  if ts.any (·.1 = k) then ts.map (fun p => if p.1 = k then (k, 0) else p) else ts ++ [(k, 0)]

def stStep (idx : Nat) (s : ScopeTime) : StEv → Res ScopeTime
  | .start now => ⟨{ s with timers := [], stack := [] }, [.set idx (some 0) now], none⟩   -- a new run has no open scopes
  | .scopeStart now => ⟨s, [.set idx (some 0) now], none⟩
  | .scopeActivate k => ⟨{ s with timers := setTimer s.timers k, stack := s.stack ++ [k] }, [], none⟩
  | .scopeEnd k =>
    if s.timers.any (·.1 = k) then
      let s1 := { s with timers := s.timers.filter (·.1 ≠ k) }
      if k ∈ s.stack then ⟨{ s1 with stack := s.stack.erase k }, [], none⟩
      else ⟨s1, [], some "ValueError"⟩
    else ⟨s, [], some "KeyError"⟩
  | .tick t dt =>
    if s.paused then ⟨s, [], none⟩
    else
      let s' := { s with timers := s.timers.map (fun p => (p.1, p.2 + dt)) }
      ⟨s', [.set idx (some s'.getValue) t], none⟩
  | .pause => ⟨{ s with paused := true }, [], none⟩
  | .unpause => ⟨{ s with paused := false }, [], none⟩

def stStepOld (idx : Nat) (s : ScopeTime) : StEv → Res ScopeTime
  | .start _ => ⟨s, [.silent idx (some 0)], none⟩
  | .scopeStart _ => ⟨s, [.silent idx (some 0)], none⟩
  | .tick _ dt =>
    if s.paused then ⟨s, [], none⟩
    else
      let s' := { s with timers := s.timers.map (fun p => (p.1, p.2 + dt)) }
      ⟨s', [.silent idx (some s'.getValue)], none⟩
  | e => stStep idx s e

/-! ### Call sites (the classes produced by harness/translators/tag_sites.py) -/

inductive TimeClass where
  /-- the `tick_time` parameter of the enclosing function or a `…._tick_time` field -/
  | tickTime
  /-- a tick *number* (`_tick_number` field / `tick_number` parameter) -/
  | tickNumber
  /-- `time.time()` / `time.monotonic()` -/
  | wallClock
  /-- `*args` handed on by an overriding `set_value` / `simulate_value` wrapper -/
  | forward
  | other
deriving Repr, DecidableEq

/-- the time a call site of the given class passes, in a tick with time `tickTime`, number `tickNumber`,
    when the wall clock reads `wall`; `fwd` is what the wrapper received; `oth` is anything -/
def siteTime (c : TimeClass) (tickTime tickNumber wall fwd oth : Time) : Time :=
  match c with
  | .tickTime => tickTime
  | .tickNumber => tickNumber
  | .wallClock => wall
  | .forward => fwd
  | .other => oth

def TimeClass.ok : TimeClass → Bool
  | .tickTime => true
  | .wallClock => true
  | .forward => true
  | _ => false

/-! ### The time argument of a call site, derived from the tick structure

`Engine.tick(tick_time, …)` and `PInterpreter.tick_iterate_subticks(tick_time, …)` are translated into statement
lists (`Stmt`) in evaluation order; the expression a call site passes as tick time is translated into `ArgExpr`.
The model evaluates that expression in the environment the statement list produces at the phase (the call
statement of `Engine.tick`) during which the site runs — it does not take the time from the implementation. -/

/-- the translated time-argument expression of a call site -/
inductive ArgExpr where
  /-- the `tick_time` parameter of the enclosing function (handed down from `Engine.tick`, table `tickTimeCalls`) -/
  | param
  /-- `Engine._tick_time` -/
  | engineField
  /-- `PInterpreter._tick_time` -/
  | interpField
  /-- `time.time()` / `time.monotonic()` -/
  | wall
  | tickNumber
  /-- `*args` of an overriding wrapper -/
  | forward
  | other
deriving Repr, DecidableEq

inductive Stmt where
  /-- `self._tick_time = <rhs>` -/
  | assign (target : String) (rhs : ArgExpr)
  /-- `tag.tick_time = <rhs>` for the system tags (first tick) -/
  | stamp (rhs : ArgExpr)
  /-- a call, with the translated first positional argument and two facts the translator establishes structurally:
      `reach` = the call may reach a tag (false only for logging, container access, and methods of an annotated
      attribute's class whose implementations make no calls); `passes` = the callee declares `tick_time` as its
      first parameter, i.e. the call hands the tick time down -/
  | call (name : String) (arg0 : Option ArgExpr) (reach : Bool) (passes : Bool)
deriving Repr, DecidableEq

structure Env where
  /-- the `tick_time` argument of the running `Engine.tick` -/
  param : Time
  engineField : Time
  interpField : Time
  wall : Time
  tickNumber : Time
deriving Repr, DecidableEq

def Env.init : Env := ⟨0, 0, 0, 0, -1⟩

def evalArg (e : Env) (fwd oth : Time) : ArgExpr → Time
  | .param => e.param
  | .engineField => e.engineField
  | .interpField => e.interpField
  | .wall => e.wall
  | .tickNumber => e.tickNumber
  | .forward => fwd
  | .other => oth

def ArgExpr.ok : ArgExpr → Bool
  | .param => true
  | .engineField => true
  | .interpField => true
  | .wall => true
  | .forward => true
  | _ => false

/-- `Engine.tick`: effect of one statement on the environment (only the field assignment has one) -/
def execEngineStmt (e : Env) : Stmt → Env
  | .assign _ rhs => { e with engineField := evalArg e 0 0 rhs }
  | _ => e

/-- run `Engine.tick`'s statements up to the call named `phase` (the first one); returns the environment at that
    call, the argument expression and the two flags of the call, and the statements after it -/
def advance (phase : String) : List Stmt → Env → Option (Env × Option ArgExpr × Bool × Bool × List Stmt)
  | [], _ => none
  | .call n a r p :: rest, e => if n = phase then some (e, a, r, p, rest) else advance phase rest e
  | s :: rest, e => advance phase rest (execEngineStmt e s)

/-- successive phases of one tick (calls that may reach a tag) -/
def advanceMany : List String → List Stmt → Env → Option (Env × List Stmt)
  | [], st, e => some (e, st)
  | p :: ps, st, e =>
    match advance p st e with
    | some (e', _, true, _, rest) => advanceMany ps rest e'
    | _ => none

/-- run up to the bulk stamp of the first tick -/
def advanceStamp : List Stmt → Env → Option (Env × ArgExpr × List Stmt)
  | [], _ => none
  | .stamp rhs :: rest, e => some (e, rhs, rest)
  | s :: rest, e => advanceStamp rest (execEngineStmt e s)

/-- one statement of `tick_iterate_subticks(arg, …)`: an assignment sets the interpreter's own field -/
def execInterpStmt (arg : Time) (e : Env) : Stmt → Env
  | .assign _ rhs => { e with interpField := evalArg { e with param := arg } 0 0 rhs }
  | _ => e

/-- entering `PInterpreter.tick(<arg>)`: the callee's parameter is the argument; the environment when the
    generators are stepped -/
def enterInterp (stmts : List Stmt) (e : Env) (arg : Time) : Env := stmts.foldl (execInterpStmt arg) e

/-- start of `Engine.tick(t, …)`: parameter bound, tick number incremented; the wall clock reads `wall` -/
def Env.enterTick (e : Env) (t wall : Time) : Env :=
  { e with param := t, wall := wall, tickNumber := e.tickNumber + 1 }

/-- abstract check of a statement list: every call that can reach a tag runs after `self._tick_time = tick_time`
    (`fresh`), every bulk stamp and every handed-down time argument is the parameter (or the fresh field) -/
def freshOK : Bool → List Stmt → Bool
  | _, [] => true
  | _, .assign _ rhs :: rest => freshOK (rhs = .param) rest
  | f, .stamp rhs :: rest => (rhs = .param || (rhs = .engineField && f)) && freshOK f rest
  | f, .call _ a reach passes :: rest =>
    (!reach || f) &&
    (!passes || a = some .param || (a = some .engineField && f)) && freshOK f rest

/-- `tick_iterate_subticks`: the first statement assigns the field from the parameter (before any generator is
    stepped) and no later statement assigns it anything else -/
def interpOK : List Stmt → Bool
  | .assign _ .param :: rest =>
    rest.all fun s => match s with
      | .assign _ rhs => rhs = .param
      | _ => true
  | _ => false

end OPM.Tags
