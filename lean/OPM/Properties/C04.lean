import OPM.Model.Interp
import OPM.Lemmas.Interp
import OPM.Lemmas.InterpC04
import OPM.Lemmas.InterpC04Events
import OPM.Lemmas.InterpC04Stack
import OPM.Lemmas.InterpC04Quiet
import OPM.Lemmas.InterpC04Rearm
import OPM.Lemmas.InterpC04Sa
import OPM.Lemmas.InterpC04Tick
import OPM.Lemmas.InterpC04Blocks
import OPM.Lemmas.InterpC04Runs
import OPM.Lemmas.InterpC04Reg
/-!
# C04 Watch runs once after its condition holds; Alarm re-arms

"A Watch body runs at most once and only after a tick in which its condition evaluated true, or after
the user forced it. An Alarm body runs once per activation and is re-armed after each completed run.
Neither runs after it was cancelled or after the block that contains it has ended."

Model: `OPM.Model.Interp` (frame-stack machine of `pinterpreter.py`; one `Gen` per Python generator).
`Event.bodyStart w` is `tracking.mark_started(w)` in `visit_WatchNode` / `visit_AlarmNode` (the run log's
"Started" of the Watch/Alarm); `bsCount s w` counts these events in the event log of the current tick.

Sections 1-4: guards about every micro-step of every generator in every state (not only reachable
ones), for every program — hence about every tick and every schedule of ticks, tag trajectories,
cancel / force requests and End block(s).  Section 6 lifts them to whole ticks and whole runs
(`Reachable`, `Run`: inductive over all schedules).  Where a clause needs a hypothesis on the program it
is a decidable one (`noCalls`, `ordered`, `stable`) and the unrestricted statement is kept visible and
refuted by a witness (section 5).
-/
namespace OPM.C04
open OPM.Interp

/-! ## 1. only after its condition evaluated true, or after the user forced it -/

/-- **Activation guard.** In any micro-step of any generator, `activated k` goes from false to true
    only at `k`'s await point, through `_try_activate_node`: `k` is a Watch/Alarm, it is not cancelled,
    and it is forced or its condition holds on this tick's tag values; and that step ends the
    generator's sub-tick (`EndTick`), so the body can start in a later sub-tick only. -/
theorem activation_guard (p : Prog) (s : St) (stack : List Frame) (k : Nat)
    (h0 : (s.rt k).activated = false)
    (h1 : (((stepGen p s stack).1).rt k).activated = true) :
    stack.head? = some (.body k 1) ∧ ActOk p s k ∧ (stepGen p s stack).2.2 = .endTick := by
  rcases stepGen_act p s stack k h1 with h | ⟨h2, h3⟩
  · rw [h0] at h; cases h
  · refine ⟨h2, h3, ?_⟩
    cases stack with
    | nil => cases h2
    | cons f below =>
      simp only [List.head?, Option.some.injEq] at h2
      subst h2
      exact stepGen_activating_sig p s k below h0 h3

/-- Requests between ticks never activate: cancel, force and command completion leave `activated` of
    every node unchanged (code injection: `inject_does_not_activate`). -/
theorem requests_do_not_activate (p : Prog) (s : St) (n k : Nat) :
    (∀ s', cancel p s n = some s' → (s'.rt k).activated = (s.rt k).activated) ∧
    (∀ s', force p s n = some s' → (s'.rt k).activated = (s.rt k).activated) ∧
    ((completeCmd s n).rt k).activated = (s.rt k).activated := by
  refine ⟨?_, ?_, ?_⟩
  · intro s' h
    unfold cancel at h
    split at h
    · cases h; simp only [rt_setRt]; split
      · rename_i e; subst e; rfl
      · rfl
    · cases h
  · intro s' h
    unfold force at h
    split at h
    · cases h; simp only [rt_setRt]; split
      · rename_i e; subst e; rfl
      · rfl
    · cases h
  · unfold completeCmd
    split
    · rfl
    · simp only [rt_setRt]; split
      · rename_i e; subst e; rfl
      · rfl

/-- The interpreter itself never sets `forced` or `cancelled`: a set flag always stems from an accepted
    user request (`force` / `cancel` are the only writers). -/
theorem forced_and_cancelled_only_by_request (p : Prog) (s : St) (stack : List Frame) (k : Nat) :
    ((((stepGen p s stack).1).rt k).forced = true → (s.rt k).forced = true) ∧
    ((((stepGen p s stack).1).rt k).cancelled = true → (s.rt k).cancelled = true) :=
  ⟨stepGen_forc_le p s stack k, stepGen_canc_le p s stack k⟩

/-- **Body-start guard (where).** A micro-step appends a `bodyStart w` event for a Watch/Alarm `w`
    only at `w`'s invocation point, and then exactly one. -/
theorem body_start_only_at_invocation (p : Prog) (s : St) (stack : List Frame) (w : Nat)
    (hw : isCond p w = true) (h : bsCount (stepGen p s stack).1 w ≠ bsCount s w) :
    ∃ rest, stack = .body w 2 :: rest ∧
      stepGen p s stack = (emit (emit s (.scopeActivate w)) (.bodyStart w),
                           .children w 0 false :: .body w 3 :: rest, .cont) ∧
      bsCount (stepGen p s stack).1 w = bsCount s w + 1 := by
  rcases stepGen_bs p s stack w hw with h1 | h1
  · exact absurd h1 h
  · cases stack with
    | nil => cases h1
    | cons f rest =>
      simp only [List.head?, Option.some.injEq] at h1
      subst h1
      refine ⟨rest, rfl, stepGen_pc2 p s w rest hw, ?_⟩
      rw [stepGen_pc2 p s w rest hw, bs_pc2]; simp

/-- **Body-start guard (when).** Run any generator whose stack is quiet (true of every generator at
    every tick boundary, see `quiet_initial` / `body_starts_only_if_activated_before`) to its next
    `EndTick`: for every Watch/Alarm `w` whose body it started in this sub-tick, `activated w` already
    held when the sub-tick began.  Together with `activation_guard`: the condition was evaluated true
    (or the node was forced) in an *earlier* sub-tick. -/
theorem body_starts_only_if_activated_before (p : Prog) (fuel : Nat) (s : St) (stack : List Frame)
    (hq : Quiet p stack) (hok : (runGen p fuel s stack).2.2 = true) :
    Quiet p (runGen p fuel s stack).2.1 ∧
    ∀ w, isCond p w = true → bsCount (runGen p fuel s stack).1 w ≠ bsCount s w → (s.rt w).activated = true :=
  runGen_guard p fuel s stack (Or.inl hq) hok

/-- every generator is created quiet (`[wrapEnter n]`), so the hypothesis of the theorem above holds
    from the start and is re-established by it at every `EndTick` -/
theorem quiet_initial (p : Prog) (n : Nat) : Quiet p [.wrapEnter n] := by
  intro f hf
  simp only [List.mem_cons, List.mem_nil_iff, or_false] at hf
  subst hf; rfl

/-! ## 2. not after it was cancelled -/

/-- A cancel request is accepted for a Watch/Alarm only while it is not activated (and neither
    cancelled nor forced), and sets `cancelled`; a rejected request changes nothing (`none`). -/
theorem cancel_accepted_only_before_activation (p : Prog) (s s' : St) (w : Nat)
    (hw : isCond p w = true) (h : cancel p s w = some s') :
    (s.rt w).activated = false ∧ (s.rt w).forced = false ∧
    (s'.rt w).cancelled = true ∧ (s'.rt w).activated = false := by
  obtain ⟨c, hk⟩ := isCond_kind p w hw
  unfold cancel at h
  split at h
  · rename_i hc
    cases h
    unfold cancellable at hc
    rcases hk with hk | hk <;> simp [hk] at hc <;> simp [hc]
  · cases h

/-- **Cancelled means never activated.** From a state in which `w` is cancelled and not activated, no
    micro-step of any generator activates it. -/
theorem cancelled_blocks_activation (p : Prog) (s : St) (stack : List Frame) (w : Nat)
    (hc : (s.rt w).cancelled = true) (ha : (s.rt w).activated = false) :
    (((stepGen p s stack).1).rt w).activated = false := by
  by_cases h : (((stepGen p s stack).1).rt w).activated = true
  · obtain ⟨_, ⟨c, _, hc', _⟩, _⟩ := activation_guard p s stack w ha h
    rw [hc] at hc'; cases hc'
  · simpa using h

/-- **Cancel sticks.** A set `cancelled` flag survives every micro-step, except the two resets that
    cover the node: the re-arm of an Alarm at or above it, and a macro call. -/
theorem cancelled_sticks (p : Prog) (s : St) (stack : List Frame) (w : Nat)
    (hc : (s.rt w).cancelled = true) :
    (((stepGen p s stack).1).rt w).cancelled = true ∨
    (∃ n, stack.head? = some (.body n 3) ∧ isAlarm p n = true ∧ w ∈ n :: descendants p n) ∨
    (∃ n, stack.head? = some (.body n 0) ∧ isCall p n = true) :=
  stepGen_canc_keep p s stack w hc

/-- Hence, within a sub-tick of any generator: if `w` is cancelled and not activated when it begins,
    the sub-tick does not start `w`'s body. -/
theorem cancelled_body_never_starts (p : Prog) (fuel : Nat) (s : St) (stack : List Frame) (w : Nat)
    (hw : isCond p w = true) (hq : Quiet p stack) (hok : (runGen p fuel s stack).2.2 = true)
    (ha : (s.rt w).activated = false) :
    bsCount (runGen p fuel s stack).1 w = bsCount s w := by
  by_cases h : bsCount (runGen p fuel s stack).1 w = bsCount s w
  · exact h
  · have := (body_starts_only_if_activated_before p fuel s stack hq hok).2 w hw h
    rw [ha] at this; cases this

/-! ## 3. at most once per registration; the Alarm re-arms -/

/-- Number of `bodyStart w` events emitted by a generator that starts with `stack` and makes one
    micro-step per state of the list — the states are *arbitrary*: whatever the other generators, the
    requests and the tag values did in between. -/
def genStarts (p : Prog) (w : Nat) : List St → List Frame → Nat
  | [], _ => 0
  | s :: ss, stack =>
    (bsCount (stepGen p s stack).1 w - bsCount s w) + genStarts p w ss (stepGen p s stack).2.1

theorem genStarts_spent (p : Prog) (w : Nat) (hnc : noCalls p = true) (hord : ordered p = true)
    (hw : isCond p w = true) (ss : List St) (stack : List Frame) (h : Spent w stack) :
    genStarts p w ss stack = 0 := by
  induction ss generalizing stack with
  | nil => rfl
  | cons s ss ih =>
    obtain ⟨h1, h2⟩ := spent_step p s stack w hnc hord hw h
    simp only [genStarts, h2, Nat.sub_self, Nat.zero_add]
    exact ih _ h1

theorem genStarts_early (p : Prog) (w : Nat) (hnc : noCalls p = true) (hord : ordered p = true)
    (hw : isCond p w = true) (ss : List St) (stack : List Frame) (h : Early w stack) :
    genStarts p w ss stack ≤ 1 := by
  induction ss generalizing stack with
  | nil => exact Nat.zero_le _
  | cons s ss ih =>
    rcases early_step p s stack w hw h with ⟨h1, h2⟩ | ⟨h1, h2⟩
    · simp only [genStarts, h2, Nat.sub_self, Nat.zero_add]
      exact ih _ h1
    · simp only [genStarts, genStarts_spent p w hnc hord hw ss _ h1, Nat.add_zero]
      omega

/-- **C04_partial: once per registration.** For a method without `Call macro` whose nodes are numbered
    in tree order: the generator registered for a Watch/Alarm `w` (it starts as `[wrapEnter w]`) starts
    `w`'s body at most once in its whole life, under *every* environment (the intermediate states are
    universally quantified).  For a Watch this is "the body runs at most once"; for an Alarm "once per
    activation": every further run needs the new generator that `alarm_rearms` creates. -/
theorem C04_partial_once_per_registration (p : Prog) (w : Nat)
    (hnc : noCalls p = true) (hord : ordered p = true) (hw : isCond p w = true) (ss : List St) :
    genStarts p w ss [.wrapEnter w] ≤ 1 :=
  genStarts_early p w hnc hord hw ss _ (Or.inl rfl)

/-- **Re-arm.** The step that completes an Alarm's body (`pc = 3`) counts the run, clears `activated`,
    `cancelled`, `forced`, `started` (so the next run needs a fresh evaluation of the condition),
    leaves the Alarm registered with a *fresh* generator at its entry, and ends the sub-tick. -/
theorem alarm_rearms (p : Prog) (s : St) (n : Nat) (c : Cond) (below : List Frame)
    (hk : (node p n).kind = .alarm c) :
    let r := stepGen p s (.body n 3 :: below)
    r.2.2 = .endTick ∧ r.2.1 = .body n 4 :: below ∧
    (r.1.rt n).runCount = (s.rt n).runCount + 1 ∧
    (r.1.rt n).activated = false ∧ (r.1.rt n).cancelled = false ∧ (r.1.rt n).forced = false ∧
    (r.1.rt n).started = false ∧ (r.1.rt n).interruptRegistered = true ∧
    r.1.gens = s.gens ++ [{ gid := s.nextGid, node := n, stack := [.wrapEnter n] }] ∧
    r.1.imap = dictSet (dictDel s.imap n) n s.nextGid := by
  intro r
  have hr : r = (alarmRearm p s n, .body n 4 :: below, .endTick) := by
    show stepGen p s (.body n 3 :: below) = _
    rw [stepGen_cons]
    simp only [stepFrame, stepBody_alarm_pc3 p s n below c hk, finishStep_next]
    rfl
  rw [hr]
  obtain ⟨h1, h2, h3, h4, h5, _, h7, h8, h9⟩ := alarmRearm_spec p s n
  exact ⟨rfl, rfl, h1, h2, h3, h4, h5, h7, h8, h9⟩

/-- **`run_count` counts completed runs.** In any micro-step the `run_count` of a node either stays or
    grows by one, the latter exactly in the re-arm step of that very Alarm. -/
theorem run_count_changes_only_at_rearm (p : Prog) (s : St) (stack : List Frame) (k : Nat) :
    (((stepGen p s stack).1).rt k).runCount = (s.rt k).runCount ∨
    (stack.head? = some (.body k 3) ∧ isAlarm p k = true ∧
      (((stepGen p s stack).1).rt k).runCount = (s.rt k).runCount + 1) :=
  stepGen_rc p s stack k

/-! ## 4. not after the block that contains it has ended -/

/-- **No entry into an ended block.** A node is entered (its visit begins) only by its parent's
    children loop, and only if no Block above it has ended and the parent is neither completed nor
    `children_complete`.  In particular no instruction of a Watch/Alarm body inside an ended block is
    entered any more. -/
theorem no_entry_into_ended_block (p : Prog) (s : St) (f : Frame) (below : List Frame) (c : Nat)
    (h : Frame.wrapEnter c ∈ outTop (stepFrame p s f below)) :
    ∃ n inx, f = .children n inx false ∧ (node p n).children[inx]? = some c ∧
      (s.rt n).childrenComplete = false ∧ (s.rt n).completed = false ∧ endedBlockAbove p s c = false :=
  enter_guard p s f below c h

/-- **End block aborts the interrupts of the block.** `End block` with innermost locked block `old`:
    every registered Watch/Alarm inside `old` gets `children_complete` (its body loop enters nothing
    more, see above), loses `interrupt_registered`, and leaves the interrupt map. -/
theorem endBlock_aborts_interrupts (p : Prog) (s : St) (old : Nat) (rest : List Nat)
    (hl : lockedBlocks p s = old :: rest) (k : Nat)
    (hk : k ∈ s.imap.map (·.1)) (hd : (descendants p old).contains k = true) :
    let s' := endBlockStep p s
    (s'.rt k).childrenComplete = true ∧ (s'.rt k).interruptRegistered = false ∧
    k ∉ s'.imap.map (·.1) := by
  simp only [endBlockStep, hl, endOneBlock, rt_emit]
  have h := abort_marks p (setRt (emit { s with blockTag := rest.head?.map (blockName p) }
      (.blockEnd (blockName p old) ((rest.head?.map (blockName p)).getD ""))) old
      (fun r => { r with blockEnded := true })) old k hk hd
  refine ⟨h.1, h.2, ?_⟩
  simp only [emit]
  rw [imap_abort]
  simp only [List.mem_map, List.mem_filter, not_exists, not_and]
  intro e he hke
  subst hke
  simp only [setRt] at he
  simp at he
  exact he.2 (by simpa using hd)

/-- **Unregistered generators are dropped.** After every tick the generator list contains only the
    main generator and the generators registered in the interrupt map: a generator whose Watch/Alarm
    was unregistered (End block / End blocks, re-arm) is never run by a later tick. -/
theorem tick_keeps_only_registered (p : Prog) (s : St) (i : TickIn) :
    ∀ g ∈ (tick p s i).1.gens, g.gid = 0 ∨ g.gid ∈ (tick p s i).1.imap.map (·.2) :=
  tick_gens_registered p s i

/-- The `scope_activate` event of a Watch/Alarm (what the real emitter reports and the correspondence
    compares) is appended in exactly the micro-steps that append its `bodyStart`, one for one. -/
theorem scope_activate_matches_body_start (p : Prog) (s : St) (stack : List Frame) (w : Nat)
    (hw : isCond p w = true) :
    saCount (stepGen p s stack).1 w - saCount s w = bsCount (stepGen p s stack).1 w - bsCount s w :=
  stepGen_sa_eq_bs p s stack w hw

/-! ## 6. whole ticks and whole runs -/

/-- States reachable by any schedule of ticks (any clocks, any tag values; each tick ran to its
    `EndTick`s within the model's micro-step budget) and of cancel / force / completion / inject requests. -/
inductive Reachable (p : Prog) : St → Prop
  | init : Reachable p (init p)
  | tick (s : St) (i : TickIn) : Reachable p s → (tick p s i).2 = true → Reachable p (tick p s i).1
  | cancel (s s' : St) (n : Nat) : Reachable p s → cancel p s n = some s' → Reachable p s'
  | force (s s' : St) (n : Nat) : Reachable p s → force p s n = some s' → Reachable p s'
  | complete (s : St) (n : Nat) : Reachable p s → Reachable p (completeCmd s n)
  | inject (s : St) (n : Nat) : Reachable p s → Reachable p (inject p s n)

/-- **Quiet at every tick boundary.** In every reachable state no generator sits at a Watch/Alarm
    invocation point: the hypothesis of `body_starts_only_if_activated_before` holds for every
    generator that any tick runs. -/
theorem reachable_allQuiet (p : Prog) (s : St) (hr : Reachable p s) : AllQuiet p s := by
  induction hr with
  | init =>
    intro g hg
    simp only [init, List.mem_cons, List.mem_nil_iff, or_false] at hg
    subst hg; exact quiet_wrapEnter p 0
  | tick s i _ hok ih =>
    exact (tick_invariant p (fun _ => True) ⟨fun _ _ h => h, fun _ _ h => h⟩ (fun _ _ _ _ _ _ => trivial)
      s i ih trivial hok).1
  | cancel s s' n _ hc ih => exact allQuiet_cancel p s s' n hc ih
  | force s s' n _ hc ih => exact allQuiet_force p s s' n hc ih
  | complete s n _ ih => exact allQuiet_complete p s n ih
  | inject s n _ ih => exact allQuiet_inject p s n ih

/-- `w`'s condition on the tag values of a tick input -/
def condHolds (p : Prog) (w : Nat) (tags : List Int) : Prop :=
  ∃ c, ((node p w).kind = .watch c ∨ (node p w).kind = .alarm c) ∧ evalCond { tags := tags } c = true

/-- **Only after its condition held, or after force (tick level).** If a tick starts the body of a
    Watch/Alarm `w`, then `w` was activated before this tick (by an earlier tick, through
    `activation_guard`), or it was forced before this tick, or its condition holds on this tick's tag
    values.  For every method (also the pathological nestings) and every state whose generators are
    quiet — in particular every reachable state. -/
theorem tick_starts_body_only_if_condition_or_force (p : Prog) (s : St) (i : TickIn) (w : Nat)
    (hw : isCond p w = true) (hq : AllQuiet p s) (hok : (tick p s i).2 = true)
    (hst : bsCount (tick p s i).1 w ≠ 0) :
    (s.rt w).activated = true ∨ (s.rt w).forced = true ∨ condHolds p w i.tags := by
  let A0 : Prop := (s.rt w).activated = true ∨ (s.rt w).forced = true ∨ condHolds p w i.tags
  let M : St → Prop := fun s' =>
    s'.tags = i.tags ∧ ((s'.rt w).activated = true → A0) ∧ ((s'.rt w).forced = true → (s.rt w).forced = true)
  let I : St → Prop := fun s' => M s' ∧ (bsCount s' w ≠ 0 → A0)
  have hM : ∀ s' stack, M s' → M (stepGen p s' stack).1 := by
    intro s' stack ⟨h1, h2, h3⟩
    have hin := congrArg Inputs.tags (stepGen_in p s' stack)
    simp only [inputs] at hin
    refine ⟨hin.trans h1, ?_, fun h => h3 (stepGen_forc_le p s' stack w h)⟩
    intro ha
    rcases stepGen_act p s' stack w ha with h | ⟨_, c, hk, _, hf | he⟩
    · exact h2 h
    · exact Or.inr (Or.inl (h3 hf))
    · refine Or.inr (Or.inr ⟨c, hk, ?_⟩)
      unfold evalCond at he ⊢
      rw [h1] at he
      exact he
  have hb : Blind I := ⟨fun _ _ h => h, fun _ _ h => h⟩
  have hrun : ∀ fuel s' stack, I s' → Quiet p stack → (runGen p fuel s' stack).2.2 = true →
      I (runGen p fuel s' stack).1 := by
    intro fuel s' stack ⟨hm, hc⟩ hqs hok'
    refine ⟨runGen_invariant p M hM fuel s' stack hm, ?_⟩
    intro hne
    by_cases hch : bsCount (runGen p fuel s' stack).1 w = bsCount s' w
    · exact hc (by rw [← hch]; exact hne)
    · exact hm.2.1 ((runGen_guard p fuel s' stack (Or.inl hqs) hok').2 w hw hch)
  have h0 : I (prelude s i) := ⟨⟨rfl, fun h => Or.inl h, fun h => h⟩, fun h => absurd rfl h⟩
  exact (tick_invariant p I hb hrun s i hq h0 hok).2.2 hst

/-- One tick from a state in which the stable Watch `w` is cancelled and not activated: no `bodyStart w`
    in this tick's event log, and `w` is still cancelled and not activated afterwards. -/
theorem tick_cancelled_never_starts (p : Prog) (s : St) (i : TickIn) (w : Nat)
    (hw : isCond p w = true) (hs : stable p w = true) (hq : AllQuiet p s) (hok : (tick p s i).2 = true)
    (hc : (s.rt w).cancelled = true) (ha : (s.rt w).activated = false) :
    bsCount (tick p s i).1 w = 0 ∧ ((tick p s i).1.rt w).cancelled = true ∧
    ((tick p s i).1.rt w).activated = false ∧ AllQuiet p (tick p s i).1 := by
  obtain ⟨hnc, hna⟩ := stable_spec p w hs
  let M : St → Prop := fun s' => (s'.rt w).cancelled = true ∧ (s'.rt w).activated = false
  let I : St → Prop := fun s' => M s' ∧ bsCount s' w = 0
  have hM : ∀ s' stack, M s' → M (stepGen p s' stack).1 := by
    intro s' stack ⟨h1, h2⟩
    refine ⟨?_, cancelled_blocks_activation p s' stack w h1 h2⟩
    rcases stepGen_canc_keep p s' stack w h1 with h | ⟨n, _, hal, hm⟩ | ⟨n, _, hcl⟩
    · exact h
    · exact absurd hm (hna n hal)
    · rw [hnc n] at hcl; cases hcl
  have hb : Blind I := ⟨fun _ _ h => h, fun _ _ h => h⟩
  have hrun : ∀ fuel s' stack, I s' → Quiet p stack → (runGen p fuel s' stack).2.2 = true →
      I (runGen p fuel s' stack).1 := by
    intro fuel s' stack ⟨hm, hz⟩ hqs hok'
    refine ⟨runGen_invariant p M hM fuel s' stack hm, ?_⟩
    rw [cancelled_body_never_starts p fuel s' stack w hw hqs hok' hm.2]
    exact hz
  have h0 : I (prelude s i) := ⟨⟨hc, ha⟩, rfl⟩
  obtain ⟨h1, ⟨h2, h3⟩, h4⟩ := tick_invariant p I hb hrun s i hq h0 hok
  exact ⟨h4, h2, h3, h1⟩

/-- Injecting code leaves `cancelled` and `activated` of every node unchanged. -/
theorem inject_does_not_activate (p : Prog) (s : St) (n w : Nat) :
    ((inject p s n).rt w).activated = (s.rt w).activated := (rt_inject_flags p s n w).2

/-- **Neither runs after it was cancelled (whole runs).** Once a stable Watch is cancelled while it is
    not activated (the only situation in which a cancel is accepted, `cancel_accepted_only_before_activation`),
    then under every continuation — any ticks with any tag values, any further cancel / force /
    completion / inject requests — it stays cancelled and not activated, and no later tick's event log
    contains a `bodyStart` for it. -/
theorem cancelled_watch_never_runs (p : Prog) (s s' : St) (w : Nat)
    (hw : isCond p w = true) (hs : stable p w = true) (hq : AllQuiet p s)
    (hc : (s.rt w).cancelled = true) (ha : (s.rt w).activated = false) (hrun : Run p s s') :
    (s'.rt w).cancelled = true ∧ (s'.rt w).activated = false ∧ AllQuiet p s' ∧
    ∀ i, (tick p s' i).2 = true → bsCount (tick p s' i).1 w = 0 := by
  have main : (s'.rt w).cancelled = true ∧ (s'.rt w).activated = false ∧ AllQuiet p s' := by
    induction hrun with
    | refl => exact ⟨hc, ha, hq⟩
    | tick s' i _ hok ih =>
      obtain ⟨h1, h2, h3⟩ := ih
      obtain ⟨_, g2, g3, g4⟩ := tick_cancelled_never_starts p s' i w hw hs h3 hok h1 h2
      exact ⟨g2, g3, g4⟩
    | cancel s' s'' n _ hcn ih =>
      obtain ⟨h1, h2, h3⟩ := ih
      refine ⟨?_, ?_, allQuiet_cancel p s' s'' n hcn h3⟩
      · unfold cancel at hcn
        split at hcn
        · cases hcn; simp only [rt_setRt]; split
          · rfl
          · exact h1
        · cases hcn
      · rw [(requests_do_not_activate p s' n w).1 s'' hcn]; exact h2
    | force s' s'' n _ hfn ih =>
      obtain ⟨h1, h2, h3⟩ := ih
      refine ⟨?_, ?_, allQuiet_force p s' s'' n hfn h3⟩
      · unfold force at hfn
        split at hfn
        · cases hfn; simp only [rt_setRt]; split
          · rename_i e; subst e; exact h1
          · exact h1
        · cases hfn
      · rw [(requests_do_not_activate p s' n w).2.1 s'' hfn]; exact h2
    | complete s' n _ ih =>
      obtain ⟨h1, h2, h3⟩ := ih
      refine ⟨?_, ?_, allQuiet_complete p s' n h3⟩
      · unfold completeCmd
        split
        · exact h1
        · simp only [rt_setRt]; split
          · rename_i e; subst e; exact h1
          · exact h1
      · rw [(requests_do_not_activate p s' n w).2.2]; exact h2
    | inject s' n _ ih =>
      obtain ⟨h1, h2, h3⟩ := ih
      obtain ⟨g1, g2⟩ := rt_inject_flags p s' n w
      exact ⟨g1.trans h1, g2.trans h2, allQuiet_inject p s' n h3⟩
  obtain ⟨h1, h2, h3⟩ := main
  exact ⟨h1, h2, h3, fun i hok => (tick_cancelled_never_starts p s' i w hw hs h3 hok h1 h2).1⟩

/-! ## 7. End blocks, ended blocks over runs, cancel until reset, registrations -/

/-- **End blocks aborts the interrupts of EVERY block it ends.** For every locked block `b` and every
    registered Watch/Alarm `k` below `b` (at any depth): after `End blocks`, `k` is marked `children_complete`,
    is not registered any more and has left the interrupt map. -/
theorem endBlocks_aborts_interrupts (p : Prog) (s : St) (b k : Nat) (hb : b ∈ lockedBlocks p s)
    (hk : k ∈ s.imap.map (·.1)) (hd : (descendants p b).contains k = true) :
    let s' := endBlocksStep p s
    (s'.rt k).childrenComplete = true ∧ (s'.rt k).interruptRegistered = false ∧ k ∉ s'.imap.map (·.1) :=
  endBlocksStep_aborts p s b k hb hk hd

/-- **An ended block stays closed (whole runs).** Let `b` be a Block that no reset can reach (no `Call macro`
    in the method, `b` not inside an Alarm) and that has ended.  Under every continuation — ticks with any
    tag values, cancel / force / completion / inject requests — `b` is still ended, and no micro-step of any
    generator enters a node below `b`: in particular no instruction of the body of a Watch/Alarm inside `b`
    starts any more, whoever still holds a generator for it. -/
theorem ended_block_stays_closed (p : Prog) (b : Nat) (hb : isBlock p b = true) (hs : stable p b = true)
    (s s' : St) (he : (s.rt b).blockEnded = true) (hrun : Run p s s') :
    (s'.rt b).blockEnded = true ∧
    ∀ f below c, Frame.wrapEnter c ∈ outTop (stepFrame p s' f below) → b ∉ ancestors p c := by
  have h := block_stays_ended p b hs s s' he hrun
  exact ⟨h, fun f below c hc => ended_block_closed p s' b hb h f below c hc⟩

/-- **No body start after an accepted cancel until the node is reset (whole runs, EVERY method, Watch and
    Alarm).**  `w` cancelled and not activated — what an accepted cancel leaves.  Along every continuation
    in which the `cancelled` flag is still set (it is cleared only by a covering reset: `cancelled_sticks`),
    `w` stays not activated and no tick starts its body. -/
theorem cancelled_never_runs_until_reset (p : Prog) (s s' : St) (w : Nat)
    (hw : isCond p w = true) (hq : AllQuiet p s) (ha : (s.rt w).activated = false)
    (hrun : RunP p (fun x => (x.rt w).cancelled = true) s s') :
    (s'.rt w).activated = false ∧ AllQuiet p s' ∧
    ∀ i, (tick p s' i).2 = true → ((tick p s' i).1.rt w).cancelled = true → bsCount (tick p s' i).1 w = 0 :=
  OPM.Interp.cancelled_never_runs_until_reset p s s' w hw hq ha hrun

/-- **A Watch is registered at most once over a whole run** — hence at most one generator is ever created
    for it, and that generator starts the body at most once (`C04_partial_once_per_registration`) — for a
    Watch outside every Alarm and every Block in a method without `Call macro`.  Stated with the budget
    `regDebt` (1 while not registered, 0 afterwards): every tick's registrations plus the budget left are
    bounded by the budget before; over any list of ticks the total is at most the initial budget 1. -/
theorem watch_registered_at_most_once (p : Prog) (w : Nat) (hw : isWatch p w = true)
    (hs : stable p w = true) (hnb : noBlockAbove p w = true) :
    (∀ s i, rgCount (tick p s i).1 w + regDebt (tick p s i).1 w ≤ regDebt s w) ∧
    ∀ inputs, registrations p w (init p) inputs ≤ 1 := by
  refine ⟨fun s i => tick_regPot p s i w hw hs hnb, fun inputs => ?_⟩
  have := registrations_le_debt p w hw hs hnb inputs (init p)
  simpa [regDebt, init] using this

/-! ### the block-end clause at node level is false of the code as it is (recorded finding) -/

def runTicks (p : Prog) (inputs : List TickIn) : St := inputs.foldl (fun s i => (tick p s i).1) (init p)

/-- Full-strength, node level: once a Block has ended, no tick starts the body (= reports Started) of a Watch
    below it. -/
def C04_blockend_full : Prop :=
  ∀ (p : Prog) (w b : Nat) (c : Cond) (pre : List TickIn) (i : TickIn),
    (node p w).kind = .watch c → isBlock p b = true → b ∈ ancestors p w →
    ((runTicks p pre).rt b).blockEnded = true → bsCount (tick p (runTicks p pre) i).1 w = 0

/-- `Block: B` / `Watch: T0 > 0` / `End block` ; `1.0 Watch: T1 > 0` / `Mark: x` ; `Wait: 5 s` -/
def resurrect : Prog := #[
  { kind := .program, parent := none, children := [1], threshold := none, keyPath := [0] },
  { kind := .block "B", parent := some 0, children := [2, 4, 6], threshold := none, keyPath := [0, 1] },
  { kind := .watch ⟨0, .gt, 0⟩, parent := some 1, children := [3], threshold := none, keyPath := [0, 1, 2] },
  { kind := .endBlock, parent := some 2, children := [], threshold := none, keyPath := [0, 1, 2, 3] },
  { kind := .watch ⟨1, .gt, 0⟩, parent := some 1, children := [5], threshold := some 1, keyPath := [0, 1, 4] },
  { kind := .mark "x", parent := some 4, children := [], threshold := none, keyPath := [0, 1, 4, 5] },
  { kind := .wait 5, parent := some 1, children := [], threshold := none, keyPath := [0, 1, 6] }]

/-- tick `j`: clocks at `10 j` s (the threshold of the second Watch passes at tick 6), T1 = 1, T0 = 1 from tick 6 on -/
def resurrectIn (j : Nat) : TickIn := ⟨(j : Nat) / 8, 10 * (j : Nat), 10 * (j : Nat), [if 6 ≤ j then 1 else 0, 1]⟩

/-- **Recorded finding `registered-again-around-block-end`.** The first Watch ends the block in the very tick
    in which the generator of the second Watch makes its first dispatch; that generator finds
    `interrupt_registered` cleared by the abort and registers the Watch again (second `register` event, block
    already ended); the new generator is activated and starts the body three ticks after the block ended. -/
theorem C04_blockend_counterexample : ¬ C04_blockend_full := by
  intro h
  have := h resurrect 4 1 ⟨1, .gt, 0⟩ ((List.range 11).map resurrectIn) (resurrectIn 11) rfl rfl (by decide +kernel)
    (by decide +kernel)
  revert this
  decide +kernel

/-- … and the same run registers that Watch twice: `watch_registered_at_most_once` needs `noBlockAbove`.
    What remains open for "at most once" beyond it: (i) Watches inside Blocks — registered again only in this
    race, the abandoned generator never starts the body, not proved; (ii) body starts by generators other than
    the registered one (the inline path of an enclosing Alarm/Watch generator that visits an already registered
    Watch) are excluded only for methods where the node is visited once, which is not proved here;
    (iii) Watch inside an Alarm: false by design (`C04_counterexample`). -/
example : registrations resurrect 4 (init resurrect) ((List.range 12).map resurrectIn) = 2 ∧
    isWatch resurrect 4 = true ∧ stable resurrect 4 = true ∧ noBlockAbove resurrect 4 = false := by decide +kernel

/-! ## 5. the literal reading of "at most once", and why it is partial -/

/-- `bodyStart w` events over a whole run (a list of tick inputs). -/
def bodyStarts (p : Prog) (w : Nat) : St → List TickIn → Nat
  | _, [] => 0
  | s, i :: is => bsCount (tick p s i).1 w + bodyStarts p w (tick p s i).1 is

/-- The literal full-strength reading: over a whole run every Watch starts its body at most once. -/
def C04_full : Prop :=
  ∀ (p : Prog) (w : Nat) (c : Cond), (node p w).kind = .watch c →
    ∀ inputs : List TickIn, bodyStarts p w (init p) inputs ≤ 1

/-- `Alarm: T0 > 0` / `Watch: T0 > 0` / `Mark: a` -/
def cex : Prog := #[
  { kind := .program, parent := none, children := [1], threshold := none, keyPath := [0] },
  { kind := .alarm ⟨0, .gt, 0⟩, parent := some 0, children := [2], threshold := none, keyPath := [0, 1] },
  { kind := .watch ⟨0, .gt, 0⟩, parent := some 1, children := [3], threshold := none, keyPath := [0, 1, 2] },
  { kind := .mark "a", parent := some 2, children := [], threshold := none, keyPath := [0, 1, 2, 3] }]

/-- It is false of the code as it is — by design for a Watch declared inside an Alarm (every run of the
    Alarm body declares the Watch anew; `reset_runtime_state` clears its flags), which is why the
    provable statement is per registration (`C04_partial_once_per_registration`). -/
theorem C04_counterexample : ¬ C04_full := by
  intro h
  have := h cex 2 ⟨0, .gt, 0⟩ rfl (List.replicate 12 ⟨0, 0, 0, [1]⟩)
  revert this
  decide +kernel

/-! ## non-vacuity: concrete runs -/

/-- `Watch: T0 > 0` / `Mark: a` ; `Mark: b` -/
def demo : Prog := #[
  { kind := .program, parent := none, children := [1, 3], threshold := none, keyPath := [0] },
  { kind := .watch ⟨0, .gt, 0⟩, parent := some 0, children := [2], threshold := none, keyPath := [0, 1] },
  { kind := .mark "a", parent := some 1, children := [], threshold := none, keyPath := [0, 1, 2] },
  { kind := .mark "b", parent := some 0, children := [], threshold := none, keyPath := [0, 3] }]

def demoRun (tags : List Int) : St :=
  tags.foldl (fun s t => (tick demo s ⟨0, 0, 0, [t]⟩).1) (init demo)

/-- the hypotheses on the program are satisfiable by real methods -/
example : noCalls demo = true ∧ ordered demo = true ∧ isCond demo 1 = true ∧ stable demo 1 = true := by decide +kernel
/-- … and `stable` excludes exactly the Watch inside the Alarm of the counter-example -/
example : stable cex 2 = false := by decide +kernel
/-- the ticks of the demo run complete within the micro-step budget, so its states are `Reachable` and
    `Run` continuations of each other (hypotheses of `reachable_allQuiet`, `cancelled_watch_never_runs`,
    `tick_starts_body_only_if_condition_or_force`) -/
example : (tick demo (init demo) ⟨0, 0, 0, [0]⟩).2 = true ∧
    (tick demo (demoRun [0, 0, 0, 0, 0]) ⟨0, 0, 0, [1]⟩).2 = true ∧
    (tick demo (demoRun [0, 0, 0, 0, 0, 1]) ⟨0, 0, 0, [0]⟩).2 = true := by decide +kernel
/-- the tick that starts the body: `w` was activated before it (first disjunct of the tick-level guard),
    while its condition is false on that tick's own tag values -/
example : bsCount (tick demo (demoRun [0, 0, 0, 0, 0, 1]) ⟨0, 0, 0, [0]⟩).1 1 = 1 ∧
    ((demoRun [0, 0, 0, 0, 0, 1]).rt 1).activated = true := by decide +kernel
example : noCalls cex = true ∧ ordered cex = true := by decide +kernel

/-- after 5 ticks with T0 = 0 the Watch's generator waits at its await point, not activated … -/
example : ((demoRun [0, 0, 0, 0, 0]).gens.find? (·.node == 1)).map (·.stack) =
      some [.body 1 1, .wrapAfter 1] ∧
    ((demoRun [0, 0, 0, 0, 0]).rt 1).activated = false := by decide +kernel

/-- … a tick with T0 = 1 activates it (`activation_guard` applies non-trivially) without starting the
    body, the next tick starts the body exactly once, and no later tick starts it again -/
example : ((demoRun [0, 0, 0, 0, 0, 1]).rt 1).activated = true ∧
    bsCount (demoRun [0, 0, 0, 0, 0, 1]) 1 = 0 ∧
    bsCount (demoRun [0, 0, 0, 0, 0, 1, 0]) 1 = 1 ∧
    bodyStarts demo 1 (init demo) ((List.replicate 5 ⟨0, 0, 0, [0]⟩) ++ List.replicate 12 ⟨0, 0, 0, [1]⟩) = 1 := by
  decide +kernel

/-- a cancel accepted while waiting: the body never starts although the condition holds afterwards -/
example :
    (cancel demo (demoRun [0, 0, 0, 0, 0]) 1).map
      (fun s => (bodyStarts demo 1 s (List.replicate 10 ⟨0, 0, 0, [1]⟩), (s.rt 1).cancelled)) = some (0, true) := by
  decide +kernel

/-- a cancel after activation is rejected -/
example : (cancel demo (demoRun [0, 0, 0, 0, 0, 1]) 1).isNone = true := by decide +kernel

/-- the Alarm of `cex` re-arms: after 11 ticks with T0 = 1 it has completed one run and is registered again -/
example : (((List.replicate 11 (⟨0, 0, 0, [1]⟩ : TickIn)).foldl (fun s i => (tick cex s i).1) (init cex)).rt 1).runCount
    = 1 := by decide +kernel

/-- `activation_guard` applies: at the await point with T0 = 1 the step activates the Watch (from not
    activated), ends the sub-tick, and emits no `bodyStart`; `body_start_only_at_invocation` applies at
    the invocation point of the activated Watch -/
example :
    let s := prelude (demoRun [0, 0, 0, 0, 0]) ⟨0, 0, 0, [1]⟩
    (s.rt 1).activated = false ∧
    ((stepGen demo s [.body 1 1, .wrapAfter 1]).1.rt 1).activated = true ∧
    (stepGen demo s [.body 1 1, .wrapAfter 1]).2.2 = .endTick ∧
    bsCount (stepGen demo s [.body 1 1, .wrapAfter 1]).1 1 = 0 ∧
    bsCount (stepGen demo (demoRun [0, 0, 0, 0, 0, 1]) [.body 1 2, .wrapAfter 1]).1 1 ≠
      bsCount (demoRun [0, 0, 0, 0, 0, 1]) 1 := by decide +kernel

/-- the children loop enters the Watch from the program node (`no_entry_into_ended_block` applies) -/
example : Frame.wrapEnter 1 ∈ outTop (stepFrame demo (demoRun [0]) (.children 0 0 false) []) := by decide +kernel

/-- `Block: B` / `Watch: T0 > 0` / `Mark: a` ; `Wait: 2 s` ; `End block` -/
def demoB : Prog := #[
  { kind := .program, parent := none, children := [1], threshold := none, keyPath := [0] },
  { kind := .block "B", parent := some 0, children := [2, 4, 5], threshold := none, keyPath := [0, 1] },
  { kind := .watch ⟨0, .gt, 0⟩, parent := some 1, children := [3], threshold := none, keyPath := [0, 1, 2] },
  { kind := .mark "a", parent := some 2, children := [], threshold := none, keyPath := [0, 1, 2, 3] },
  { kind := .wait 2, parent := some 1, children := [], threshold := none, keyPath := [0, 1, 4] },
  { kind := .endBlock, parent := some 1, children := [], threshold := none, keyPath := [0, 1, 5] }]

def runB (k : Nat) : St :=
  (List.range k).foldl (fun s j => (tick demoB s ⟨(j : Nat) / 8, (j : Nat) / 8, (j : Nat) / 8, [0]⟩).1) (init demoB)

/-- after 6 ticks the block is locked and the Watch inside it is registered: the hypotheses of
    `endBlock_aborts_interrupts` hold; and End block does abort it -/
example : lockedBlocks demoB (runB 6) = [1] ∧ 2 ∈ (runB 6).imap.map (·.1) ∧
    (descendants demoB 1).contains 2 = true ∧
    ((endBlockStep demoB (runB 6)).rt 2).childrenComplete = true ∧
    (endBlockStep demoB (runB 6)).imap = [] := by decide +kernel

/-- `demo`'s Watch satisfies the hypotheses of `watch_registered_at_most_once`, and is registered exactly once -/
example : isWatch demo 1 = true ∧ stable demo 1 = true ∧ noBlockAbove demo 1 = true ∧
    registrations demo 1 (init demo) (List.replicate 12 ⟨0, 0, 0, [1]⟩) = 1 := by decide +kernel

/-- `demoB`: the block is stable and ends at tick 20 (`ended_block_stays_closed` applies from there on) -/
example : isBlock demoB 1 = true ∧ stable demoB 1 = true ∧ ((runB 25).rt 1).blockEnded = true := by decide +kernel

/-- two nested blocks with a Watch registered in the outer one: `End blocks` issued in the inner block aborts it
    (`endBlocks_aborts_interrupts` with `b` = the OUTER block) -/
def demoN : Prog := #[
  { kind := .program, parent := none, children := [1], threshold := none, keyPath := [0] },
  { kind := .block "B1", parent := some 0, children := [2, 4], threshold := none, keyPath := [0, 1] },
  { kind := .watch ⟨0, .gt, 0⟩, parent := some 1, children := [3], threshold := none, keyPath := [0, 1, 2] },
  { kind := .mark "a", parent := some 2, children := [], threshold := none, keyPath := [0, 1, 2, 3] },
  { kind := .block "B2", parent := some 1, children := [5, 6], threshold := none, keyPath := [0, 1, 4] },
  { kind := .wait 1, parent := some 4, children := [], threshold := none, keyPath := [0, 1, 4, 5] },
  { kind := .endBlocks, parent := some 4, children := [], threshold := none, keyPath := [0, 1, 4, 6] }]

def runN (k : Nat) : St :=
  (List.range k).foldl (fun s j => (tick demoN s ⟨(j : Nat) / 8, (j : Nat) / 8, (j : Nat) / 8, [0]⟩).1) (init demoN)

example : lockedBlocks demoN (runN 9) = [4, 1] ∧ 2 ∈ (runN 9).imap.map (·.1) ∧
    (descendants demoN 1).contains 2 = true ∧ (endBlocksStep demoN (runN 9)).imap = [] := by decide +kernel

end OPM.C04
