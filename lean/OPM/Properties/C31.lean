import OPM.Model.SaveConc
import OPM.Lemmas.SaveConc
import OPM.Gen.SaveLock
/-!
# C31 Method saves use optimistic concurrency without lost updates

"A method save is accepted only if it was based on the current method version. Of any set of saves based on the
same version, including concurrent ones, at most one is accepted, and each accepted save increases the version by
exactly one."

The transition system of `OPM.SaveConc` has two variants: `locked = false` (version check, engine round trip and
commit of one request interleave with other requests at the await) and `locked = true` (a per-engine lock is held
from the check to the commit).  The statement is false of the first and true of the second, for every schedule of
any number of requests; `OPM.Gen.SaveLock` (regenerated from the source on every run) says which one the code is.
-/
namespace OPM.C31
open OPM.SaveConc

/-- States reachable from version `v0` by enabled steps: every interleaving of any number of save requests (with
any base versions) with the engine answers (ok / error) arriving in any order. -/
inductive Reach (locked : Bool) (v0 : Nat) : State → Prop where
  | init : Reach locked v0 (init v0)
  | step {s s' : State} {e : Ev} : Reach locked v0 s → step locked s e = some s' → Reach locked v0 s'

/-- What the property demands of one transition `s → s'`: it accepts at most one save; a save accepted by it was
based on the version that was current when it was accepted, and raises the version by exactly one; a transition
that accepts nothing leaves the version alone. -/
def StepOK (s s' : State) : Prop :=
  (s'.accepted = s.accepted ∧ s'.version = s.version) ∨
  (∃ r, s'.accepted = s.accepted ++ [r] ∧ r.base = s.version ∧ s'.version = s.version + 1 ∧ s'.owner = some r.id)

/-- The full statement of C31 for one variant of the system. -/
def Statement (locked : Bool) : Prop :=
  ∀ (v0 : Nat) (s : State), Reach locked v0 s →
    -- of the saves based on one version at most one has been accepted
    (s.accepted.map (·.base)).Nodup ∧
    -- the version has grown by exactly one per accepted save
    s.version = v0 + s.accepted.length ∧
    -- accepted only if based on the current version, +1 each (every further transition)
    (∀ e s', step locked s e = some s' → StepOK s s')

theorem reach_good {v0 : Nat} {s : State} (h : Reach true v0 s) : Good v0 s := by
  induction h with
  | init => exact good_init v0
  | step _ hs ih => exact good_step ih hs

/-- every enabled transition of the locked system from a state satisfying the invariant is as demanded -/
theorem stepOK_of_good {v0 : Nat} {s s' : State} {e : Ev} (g : Good v0 s) (h : step true s e = some s') :
    StepOK s s' := by
  cases e with
  | start id base =>
    simp only [step] at h
    split at h
    · cases h
    · split at h
      · cases h; exact Or.inl ⟨rfl, rfl⟩
      · cases h; exact Or.inl ⟨by simp, by simp⟩
  | reply id ok =>
    simp only [step] at h
    split at h
    · cases h
    · rename_i r hf
      cases h
      have hbase : r.base = s.version := g.cur r (find_mem hf)
      cases ok with
      | true =>
        refine Or.inr ⟨r, ?_, hbase, ?_, ?_⟩
        · simp
        · simp [hbase]
        · simp
      | false => exact Or.inl ⟨by simp, by simp⟩

/-- **C31 for the system with the per-engine lock**: all interleavings, any number of requests. -/
theorem locked_holds : Statement true := by
  intro v0 s hr
  have g := reach_good hr
  exact ⟨g.nodup, g.count, fun e s' h => stepOK_of_good g h⟩

/-- The schedule on which the system without the lock fails: two saves based on version 0 enter before the engine
has answered the first; both are accepted. -/
def witness : List Ev := [.start 0 0, .start 1 0, .reply 0 true, .reply 1 true]

theorem reach_run {locked : Bool} {v0 : Nat} : ∀ (evs : List Ev) {s s' : State}, Reach locked v0 s →
    run locked s evs = some s' → Reach locked v0 s' := by
  intro evs
  induction evs with
  | nil => intro s s' h e; simp [run] at e; exact e ▸ h
  | cons a l ih =>
    intro s s' h e
    simp only [run, List.foldlM_cons, Option.bind_eq_bind] at e
    cases hs : step locked s a with
    | none => simp [hs] at e
    | some s₁ =>
      simp only [hs, Option.bind_some] at e
      exact ih (Reach.step h hs) e

/-- **Without the lock the statement is false** (two accepted saves on the same base; version raised once). -/
theorem unlocked_violates : ¬ Statement false := by
  intro h
  have hw : run false (init 0) witness =
      some { version := 1, owner := some 1, accepted := [⟨0, 0⟩, ⟨1, 0⟩], engineLog := [1, 1],
             results := [(0, .accepted 1), (1, .accepted 1)] } := by decide
  have := (h 0 _ (reach_run witness Reach.init hw)).1
  revert this
  decide

/-- …and the same schedule is harmless with the lock: the second save waits, then is rejected. -/
example : run true (init 0) witness = none := by decide   -- `reply 1` is never enabled: save 1 has no round trip
example : run true (init 0) [.start 0 0, .start 1 0, .reply 0 true] =
    some { version := 1, owner := some 0, accepted := [⟨0, 0⟩], engineLog := [1],
           results := [(0, .accepted 1), (1, .rejected)] } := by decide

/-- Nobody waits for a free lock (the hand-over on release leaves no waiter behind). -/
theorem no_waiter_on_free_lock {v0 : Nat} {s : State} (h : Reach true v0 s) (hf : s.awaiting = []) :
    s.waiters = [] := (reach_good h).free hf

/-- At most one engine round trip is pending at any time, and it carries the current version as its base. -/
theorem one_round_trip_at_a_time {v0 : Nat} {s : State} (h : Reach true v0 s) :
    s.awaiting.length ≤ 1 ∧ ∀ r ∈ s.awaiting, r.base = s.version :=
  ⟨(reach_good h).one, (reach_good h).cur⟩

/-- The tie to the source: the regenerated table says `save_method` holds one lock from the version check across
the engine round trip to the commit. (Fails to compile if the lock is removed.) -/
theorem code_holds_lock : OPM.Gen.SaveLock.lockAcrossAwait = true := by decide

/-- **C31 for the code as translated.** -/
theorem c31 : Statement OPM.Gen.SaveLock.lockAcrossAwait := by
  rw [code_holds_lock]; exact locked_holds

/-- Non-vacuity: a reachable state of the locked system with an accepted, a rejected and a failed save, and a
sequential second accepted save. -/
example : ∃ s, Reach true 3 s ∧ s.version = 5 ∧ s.accepted = [⟨0, 3⟩, ⟨3, 4⟩] ∧
    s.results = [(1, .failed), (0, .accepted 4), (2, .rejected), (3, .accepted 5)] := by
  have hw : run true (init 3)
      [.start 1 3, .start 0 3, .start 2 3, .reply 1 false, .reply 0 true, .start 3 4, .reply 3 true] =
      some { version := 5, owner := some 3, accepted := [⟨0, 3⟩, ⟨3, 4⟩], engineLog := [4, 4, 5],
             results := [(1, .failed), (0, .accepted 4), (2, .rejected), (3, .accepted 5)] } := by decide
  exact ⟨_, reach_run _ Reach.init hw, rfl, rfl, rfl⟩

end OPM.C31
