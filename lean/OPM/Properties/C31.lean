import OPM.Model.SaveConc
import OPM.Lemmas.SaveConc
import OPM.Gen.SaveLock
/-!
# C31 Method saves use optimistic concurrency without lost updates

"A method save is accepted only if it was based on the current method version. Of any set of saves based on the
same version, including concurrent ones, at most one is accepted, and each accepted save increases the version by
exactly one."

The transition system of `OPM.SaveConc` has the variants `Cfg = (locked, resetOnRegister)`: with / without a
per-engine lock held from the version check across the engine round trip to the commit, and with a method version
that falls back to 0 / continues when the engine registers again after a disconnect.  Events: save requests with any
base versions, engine answers (ok / error) in any order, engine disconnects and re-registrations at any point, and
the method message the engine sends when it catches up (with the stale version it holds).  The
statement holds of the variant (locked, version continues) for every schedule, and is refuted by a decided schedule
for each of the other two defects.  Which variant the code is, is measured on the real handler by the harness;
`OPM.Gen.SaveLock` (regenerated from the source on every run) independently says whether one lock spans check, round
trip and commit.
-/
namespace OPM.C31
open OPM.SaveConc

/-- States reachable from version `v0` by enabled steps: every interleaving of any number of save requests (with
any base versions) with the engine answers, disconnects and re-registrations. -/
inductive Reach (c : Cfg) (v0 : Nat) : State → Prop where
  | init : Reach c v0 (init v0)
  | step {s s' : State} {e : Ev} : Reach c v0 s → step c s e = some s' → Reach c v0 s'

/-- What the property demands of one transition `s → s'`: it accepts at most one save; a save accepted by it was
based on the version that was current when it was accepted, and raises the version by exactly one; a transition that
accepts nothing leaves the version alone — except a re-registration of the engine, which moves on to a version no
save has been based on yet (one above). -/
def StepOK (s s' : State) : Prop :=
  (s'.accepted = s.accepted ∧ s'.version = s.version ∧ s'.reconnects = s.reconnects) ∨
  (∃ r, s'.accepted = s.accepted ++ [r] ∧ r.base = s.version ∧ s'.version = s.version + 1 ∧ s'.owner = some r.id ∧
        s'.reconnects = s.reconnects) ∨
  (s'.accepted = s.accepted ∧ s'.version = s.version + 1 ∧ s'.reconnects = s.reconnects + 1)

/-- The full statement of C31 for one variant of the system. -/
def Statement (c : Cfg) : Prop :=
  ∀ (v0 : Nat) (s : State), Reach c v0 s →
    -- of the saves based on one version at most one has been accepted
    (s.accepted.map (·.base)).Nodup ∧
    -- the version has grown by exactly one per accepted save (and per re-registration)
    s.version = v0 + s.accepted.length + s.reconnects ∧
    -- accepted only if based on the current version, +1 each (every further transition)
    (∀ e s', step c s e = some s' → StepOK s s')

theorem reach_good {v0 : Nat} {p : Bool} {s : State} (h : Reach (fixed p) v0 s) : Good v0 s := by
  induction h with
  | init => exact good_init v0
  | step _ hs ih => exact good_step ih hs

/-- every enabled transition of the repaired system from a state satisfying the invariant is as demanded -/
theorem stepOK_of_good {v0 : Nat} {p : Bool} {s s' : State} {e : Ev} (g : Good v0 s)
    (h : step (fixed p) s e = some s') :
    StepOK s s' := by
  cases e with
  | start id base content =>
    simp only [step, fixed] at h
    split at h
    · cases h
    · split at h
      · cases h; exact Or.inl ⟨rfl, rfl, rfl⟩
      · by_cases hnil : s.awaiting = []
        · simp only [hnil, List.isEmpty_nil, Bool.not_true, Bool.and_false, Bool.false_eq_true, if_false,
            Option.some.injEq] at h
          subst h; exact Or.inl ⟨by simp, by simp, by simp⟩
        · have hne : (true && !s.awaiting.isEmpty) = true := by
            cases hs : s.awaiting with
            | nil => exact absurd hs hnil
            | cons a l => simp
          simp only [hne, if_true] at h
          by_cases hp : (p && decide (base ≠ s.version)) = true
          · simp only [hp, if_true, Option.some.injEq] at h
            subst h; exact Or.inl ⟨rfl, rfl, rfl⟩
          · have hp' : (p && decide (base ≠ s.version)) = false := by simpa using hp
            simp only [hp', Bool.false_eq_true, if_false, Option.some.injEq] at h
            subst h; exact Or.inl ⟨rfl, rfl, rfl⟩
  | reply id ok =>
    simp only [step, fixed] at h
    split at h
    · cases h
    · rename_i r hf
      split at h
      · cases h
      · rename_i hen
        cases h
        cases ok with
        | true =>
          have hlive : ¬ (s.doomed.contains id = true) := by
            simp only [Bool.true_and, Bool.or_eq_true, Bool.not_eq_true', not_or] at hen
            exact hen.1
          have hbase : r.base = s.version := by
            rcases g.cur r (find_mem hf) with hb | hd
            · exact hb
            · exact absurd (by simpa [find_id hf] using hd) hlive
          refine Or.inr (Or.inl ⟨r, ?_, hbase, ?_, ?_, ?_⟩)
          · simp
          · simp [hbase]
          · simp
          · simp
        | false => exact Or.inl ⟨by simp, by simp, by simp⟩
  | disconnect =>
    simp only [step, fixed] at h
    split at h
    · cases h
    · cases h; exact Or.inl ⟨rfl, rfl, rfl⟩
  | register =>
    simp only [step, fixed] at h
    split at h
    · cases h
    · cases h; exact Or.inr (Or.inr ⟨rfl, by simp, rfl⟩)
  | engineMethod v content =>
    simp only [step, fixed] at h
    split at h
    · cases h
    · cases h; exact Or.inl ⟨rfl, by simp, rfl⟩

/-- **C31 for the system with the per-engine lock and a version that survives re-registration**: all interleavings,
any number of requests, disconnects and re-registrations at every point. -/
theorem locked_holds (precheck : Bool) : Statement (fixed precheck) := by
  intro v0 s hr
  have g := reach_good hr
  exact ⟨g.nodup, g.count, fun e s' h => stepOK_of_good g h⟩

theorem reach_run {c : Cfg} {v0 : Nat} : ∀ (evs : List Ev) {s s' : State}, Reach c v0 s →
    run c s evs = some s' → Reach c v0 s' := by
  intro evs
  induction evs with
  | nil => intro s s' h e; simp [run] at e; exact e ▸ h
  | cons a l ih =>
    intro s s' h e
    simp only [run, List.foldlM_cons, Option.bind_eq_bind] at e
    cases hs : step c s a with
    | none => simp [hs] at e
    | some s₁ =>
      simp only [hs, Option.bind_some] at e
      exact ih (Reach.step h hs) e

/-- The schedule on which the system without the lock fails: two saves based on version 0 enter before the engine
has answered the first; both are accepted. -/
def witness : List Ev := [.start 0 0, .start 1 0, .reply 0 true, .reply 1 true]

/-- **Without the lock the statement is false** (two accepted saves on the same base; version raised once). -/
theorem unlocked_violates : ¬ Statement { locked := false, resetOnRegister := false } := by
  intro h
  have hw : run { locked := false, resetOnRegister := false } (init 0) witness =
      some { version := 1, owner := some 1, accepted := [⟨0, 0, 0⟩, ⟨1, 0, 0⟩], engineLog := [1, 1],
             results := [(0, .accepted 1), (1, .accepted 1)] } := by decide
  have := (h 0 _ (reach_run witness Reach.init hw)).1
  revert this
  decide

/-- The schedule on which a version that falls back to 0 on re-registration fails, lock or no lock: save 0 based on
version 0 is accepted; the engine reconnects; save 1 — also based on version 0, by a client that never saw save 0 —
is accepted and overwrites it. -/
def reconnectWitness : List Ev := [.start 0 0, .reply 0 true, .disconnect, .register, .start 1 0, .reply 1 true]

/-- **With the version reset on re-registration the statement is false.** -/
theorem version_reset_violates : ¬ Statement { locked := true, resetOnRegister := true } := by
  intro h
  have hw : run { locked := true, resetOnRegister := true } (init 0) reconnectWitness =
      some { version := 1, reconnects := 1, owner := some 1, accepted := [⟨0, 0, 0⟩, ⟨1, 0, 0⟩], engineLog := [1, 1],
             results := [(0, .accepted 1), (1, .accepted 1)] } := by decide
  have := (h 0 _ (reach_run reconnectWitness Reach.init hw)).1
  revert this
  decide

/-- The schedule on which taking over the engine's version in `handle_MethodMsg` fails: a save is accepted (version
1), the engine reconnects (version 2), its catch-up MethodMsg carries the version it holds (1) — the version falls
back to a number that was handed out before. -/
def methodMsgWitness : List Ev := [.start 0 0 1, .reply 0 true, .disconnect, .register, .engineMethod 1 1]

/-- **If the engine's MethodMsg lowered the version the statement would be false** (the version is no longer the
count of accepted saves and re-registrations: numbers are handed out twice). -/
theorem method_msg_version_violates :
    ¬ Statement { locked := true, resetOnRegister := false, methodMsgSetsVersion := true } := by
  intro h
  have hw : run { locked := true, resetOnRegister := false, methodMsgSetsVersion := true } (init 0) methodMsgWitness =
      some { version := 1, reconnects := 1, content := some 1, accepted := [⟨0, 0, 1⟩], engineLog := [1],
             results := [(0, .accepted 1)] } := by decide
  have := (h 0 _ (reach_run methodMsgWitness Reach.init hw)).2.1
  revert this
  decide

/-- in the code as it is the same schedule keeps the version, and the lines come from the engine -/
example : run fixed (init 0) methodMsgWitness =
    some { version := 2, reconnects := 1, content := some 1, accepted := [⟨0, 0, 1⟩], engineLog := [1],
           results := [(0, .accepted 1)] } := by decide

/-- …and the same schedules are harmless in the repaired system: the second save waits and is then rejected; the
stale save after the reconnect is rejected. -/
example : run fixed (init 0) witness = none := by decide   -- `reply 1` is never enabled: save 1 has no round trip
example : run fixed (init 0) [.start 0 0, .start 1 0, .reply 0 true] =
    some { version := 1, owner := some 0, accepted := [⟨0, 0, 0⟩], engineLog := [1],
           results := [(0, .accepted 1), (1, .rejected)] } := by decide
example : run fixed (init 0) [.start 0 0, .reply 0 true, .disconnect, .register, .start 1 0] =
    some { version := 2, reconnects := 1, content := none, accepted := [⟨0, 0, 0⟩], engineLog := [1],
           results := [(0, .accepted 1), (1, .rejected)] } := by decide

/-- **Acceptance does not look at the content.**  Whatever a save says — also exactly what the method says already —
if the engine answers ok to the round trip of a live request, the save is accepted and the version goes up by exactly
one; and a request is refused or queued by its base version alone. -/
theorem accepted_whatever_the_content {v0 : Nat} {p : Bool} {s s' : State} {id : Nat} {r : Req}
    (hr : Reach (fixed p) v0 s) (hf : s.awaiting.find? (·.id == id) = some r)
    (h : step (fixed p) s (.reply id true) = some s') :
    s'.accepted = s.accepted ++ [r] ∧ s'.version = s.version + 1 ∧ s'.content = some r.content := by
  have g := reach_good hr
  simp only [step, fixed, hf] at h
  split at h
  · cases h
  · rename_i hen
    cases h
    have hlive : ¬ (s.doomed.contains id = true) := by
      simp only [Bool.true_and, Bool.or_eq_true, Bool.not_eq_true', not_or] at hen
      exact hen.1
    have hbase : r.base = s.version := by
      rcases g.cur r (find_mem hf) with hb | hd
      · exact hb
      · exact absurd (by simpa [find_id hf] using hd) hlive
    simp [hbase]

/-- a save that changes nothing is accepted like any other and raises the version; the save queued behind it on the
same base is rejected -/
example : run fixed (init 3) [.start 0 3 0, .start 1 3 5, .reply 0 true] =
    some { version := 4, owner := some 0, content := some 0, accepted := [⟨0, 3, 0⟩], engineLog := [4],
           results := [(0, .accepted 4), (1, .rejected)] } := by decide

/-- Nobody waits for a free lock (the hand-over on release leaves no waiter behind). -/
theorem no_waiter_on_free_lock {v0 : Nat} {p : Bool} {s : State} (h : Reach (fixed p) v0 s) (hf : s.awaiting = []) :
    s.waiters = [] := (reach_good h).free hf

/-- At most one engine round trip is pending at any time; it carries the current version as its base unless the
connection dropped under it (then it can only fail). -/
theorem one_round_trip_at_a_time {v0 : Nat} {p : Bool} {s : State} (h : Reach (fixed p) v0 s) :
    s.awaiting.length ≤ 1 ∧ ∀ r ∈ s.awaiting, r.base = s.version ∨ r.id ∈ s.doomed :=
  ⟨(reach_good h).one, (reach_good h).cur⟩

/-- The version never falls: a version number handed out once is never current again. -/
theorem version_monotone {s s' : State} {e : Ev} {v0 : Nat} {p : Bool} (hr : Reach (fixed p) v0 s)
    (h : step (fixed p) s e = some s') :
    s.version ≤ s'.version := by
  rcases stepOK_of_good (reach_good hr) h with ⟨_, h2, _⟩ | ⟨_, _, _, h2, _⟩ | ⟨_, h2, _⟩ <;> omega

/-- The tie to the source: the regenerated table says `save_method` holds one lock from a version check across
the engine round trip to the commit. (Fails to compile if the lock is removed.) -/
theorem code_holds_lock : OPM.Gen.SaveLock.lockAcrossAwait = true := by decide

/-- **C31 for the code as translated** (the version behaviour on re-registration is measured by the harness). -/
theorem c31 (precheck : Bool) :
    Statement { locked := OPM.Gen.SaveLock.lockAcrossAwait, resetOnRegister := false, precheck := precheck } := by
  rw [code_holds_lock]; exact locked_holds precheck

/-- Non-vacuity: a reachable state of the repaired system with an accepted, a rejected and a failed save, a
reconnect under a pending save, and a later accepted save. -/
example : ∃ s, Reach (fixed) 3 s ∧ s.version = 6 ∧ s.accepted = [⟨0, 3, 0⟩, ⟨3, 5, 0⟩] ∧
    s.results = [(1, .failed), (0, .accepted 4), (2, .rejected), (4, .failed), (3, .accepted 6)] := by
  have hw : run fixed (init 3)
      [.start 1 3, .start 0 3, .start 2 3, .reply 1 false, .reply 0 true, .start 4 4, .disconnect, .register,
       .reply 4 false, .start 3 5, .reply 3 true] =
      some { version := 6, reconnects := 1, owner := some 3, accepted := [⟨0, 3, 0⟩, ⟨3, 5, 0⟩], engineLog := [4, 4, 5, 6],
             results := [(1, .failed), (0, .accepted 4), (2, .rejected), (4, .failed), (3, .accepted 6)] } := by decide
  exact ⟨_, reach_run _ Reach.init hw, rfl, rfl, rfl⟩

end OPM.C31
