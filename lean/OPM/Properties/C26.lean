import OPM.Model.Proto
import OPM.Lemmas.Proto
import OPM.Gen.Schemas
/-!
# C26 Protocol messages round-trip through JSON

"Every engine and aggregator protocol message, with any field values, survives serialization to JSON
and back unchanged and with the same type. Input naming an unknown message type or namespace is
rejected as a protocol error."

`Gen.Schemas.registry` is regenerated from the pydantic `model_fields` of every `MessageBase` subclass in
the three protocol namespaces on every run; the generic theorems below are proved once for every schema
and every value, the table facts are re-checked by kernel evaluation.

The unchanged code does **not** satisfy the full statement: a non-finite float (`nan`, `±inf`) is
written as JSON `null`, and a non-string dict key (`PlotColorRegion.value_color_map: dict[str|int|float,
str]`) comes back as a string. `C26_full` is the full statement, `C26_counterexample` refutes it with
two concrete messages, `C26_partial` proves it for all values without such floats/keys, and
`C26_full_for_plain_messages` proves it without any value hypothesis for every message class whose
schema contains neither a float nor a non-string-keyed dict.
A field whose *type* the model does not cover is translated to `Ty.opaqueTy`: no value is `wellTyped` for
it, so the theorems do not speak about messages of a class that contains such a field (the check lists these
classes and exercises them against the real code only).
-/
namespace OPM.C26
open OPM.Proto OPM.Gen.Schemas

/-- Any iteration order of a Python `set` (even with repetitions): same members. -/
def SetOrder (ord : List String → List String) : Prop := ∀ l x, x ∈ ord l ↔ x ∈ l

/-! ## Table facts (re-evaluated by the kernel against the regenerated schemas) -/

/-- Every class's `(__module__, __qualname__)` resolves through `getattr(namespace, qualname)` to the same
class, and all namespaces involved are protocol namespaces: this is what "same type" rests on. -/
theorem registry_consistent : registryOk nss registry = true := by decide +kernel

/-- Every message schema (and every nested model) lies inside the modelled fragment, its unions have
exact-capable members, its dicts admit string keys, its field names are distinct and differ from the
envelope keys `_type`/`_ns`. -/
theorem schemas_round_trippable : registry.all (fun e => rt e.schema) = true := by decide +kernel

/-! ## The property -/

/-- Full statement: every message of every registered class, with any field values of the declared
types, comes back unchanged and with the same class, whatever order sets are iterated in. -/
def C26_full : Prop :=
  ∀ ord, SetOrder ord → ∀ e ∈ registry, ∀ vs,
    wellTyped e.schema (.obj e.clsNs e.clsName vs) = true →
    roundtrip ord nss registry (.obj e.clsNs e.clsName vs) = .ok (.obj e.clsNs e.clsName vs)

/-- Proved part: the full statement for all values that contain no non-finite float and no
non-string dict key. -/
theorem C26_partial (ord : List String → List String) (hord : SetOrder ord) (e : Entry) (he : e ∈ registry)
    (vs : Val) (hw : wellTyped e.schema (.obj e.clsNs e.clsName vs) = true) (hs : jsonSafe vs = true) :
    roundtrip ord nss registry (.obj e.clsNs e.clsName vs) = .ok (.obj e.clsNs e.clsName vs) :=
  roundtrip_ok ord hord nss registry registry_consistent schemas_round_trippable e he vs hw hs

/-- Generic form (any schema table, not only the regenerated one). -/
theorem roundtrip_generic (ord : List String → List String) (hord : SetOrder ord)
    (names : List String) (reg : List Entry) (hreg : registryOk names reg = true)
    (hrt : reg.all (fun e => rt e.schema) = true) (e : Entry) (he : e ∈ reg) (vs : Val)
    (hw : wellTyped e.schema (.obj e.clsNs e.clsName vs) = true) (hs : jsonSafe vs = true) :
    roundtrip ord names reg (.obj e.clsNs e.clsName vs) = .ok (.obj e.clsNs e.clsName vs) :=
  roundtrip_ok ord hord names reg hreg hrt e he vs hw hs

/-- Field-level form: validation inverts the encoder for every round-trippable type. -/
theorem validate_dump (ord : List String → List String) (hord : SetOrder ord) (σ : Ty) (hσ : rt σ = true)
    (hv : isFieldHead σ = false) (v : Val) (hw : wellTyped σ v = true) (hs : jsonSafe v = true) :
    validate .lax σ (toJ ord v) = .ok v :=
  (lax_facts ord hord σ hσ).val hv v hw hs

/-- Message classes whose schema has no float and only string-keyed dicts satisfy the full statement. -/
theorem C26_full_for_plain_messages (ord : List String → List String) (hord : SetOrder ord)
    (e : Entry) (he : e ∈ registry) (hplain : floatFree e.fields = true ∧ strKeysOnly e.fields = true)
    (vs : Val) (hw : wellTyped e.schema (.obj e.clsNs e.clsName vs) = true) :
    roundtrip ord nss registry (.obj e.clsNs e.clsName vs) = .ok (.obj e.clsNs e.clsName vs) := by
  have hw' := hw
  simp only [Entry.schema, wellTyped, Bool.and_eq_true, decide_eq_true_eq, true_and] at hw'
  exact C26_partial ord hord e he vs hw (safe_of_schema e.fields hplain.1 hplain.2 vs hw')

/-! ## The full statement fails on the unchanged code -/

def nanMsg : Val :=
  .fcons "version" (.int 0) (.fcons "sequence_number" (.int 1) (.fcons "engine_id" (.str "e")
    (.fcons "run_id" (.str "r") (.fcons "started_tick" (.flt .nan) .fnil))))

def runStarted : Entry :=
  ⟨"openpectus.protocol.engine_messages", "RunStartedMsg", "openpectus.protocol.engine_messages",
   "RunStartedMsg", F_engine_messages_RunStartedMsg⟩

/-- `RunStartedMsg(started_tick=nan)` is a well-typed message that is rejected on arrival. -/
theorem nan_message_is_lost :
    runStarted ∈ registry ∧
    wellTyped runStarted.schema (.obj runStarted.clsNs runStarted.clsName nanMsg) = true ∧
    roundtrip id nss registry (.obj runStarted.clsNs runStarted.clsName nanMsg) = .error .protocol := by
  decide +kernel

def colorRegion (k : Key) : Val :=
  .obj "openpectus.protocol.models" "PlotColorRegion"
    (.fcons "process_value_name" (.str "x") (.fcons "value_color_map" (.dcons k (.str "r") .dnil) .fnil))

/-- `PlotColorRegion(value_color_map={1: "r"})` comes back as `{"1": "r"}`. -/
theorem int_key_becomes_string :
    wellTyped M_models_PlotColorRegion (colorRegion (.int 1)) = true ∧
    validate .lax M_models_PlotColorRegion (toJ id (colorRegion (.int 1))) = .ok (colorRegion (.str "1")) := by
  decide +kernel

theorem C26_counterexample : ¬ C26_full := by
  intro h
  have h1 := h id (fun _ _ => Iff.rfl) runStarted nan_message_is_lost.1 nanMsg nan_message_is_lost.2.1
  rw [nan_message_is_lost.2.2] at h1
  cases h1

/-! ## Unknown namespaces and types are rejected; nothing else is accepted -/

/-- Whatever is accepted names a protocol namespace and an attribute of it that is bound to a message
class, and the result is an instance of exactly that class. -/
theorem accepted_only_known (j : J) (v : Val) (h : deserialize nss registry j = .ok v) :
    ∃ nsName tyName e, j.get? "_ns" = some (.str nsName) ∧ j.get? "_type" = some (.str tyName) ∧
      nsName ∈ nss ∧ lookup registry nsName tyName = some e ∧ ∃ vs, v = .obj e.clsNs e.clsName vs :=
  deserialize_ok_known nss registry j v h

theorem unknown_namespace_rejected (j : J) (s : String) (hns : j.get? "_ns" = some (.str s))
    (hs : s ∉ nss) : deserialize nss registry j = .error .protocol :=
  deserialize_unknown_ns nss registry j s hns hs

theorem unknown_type_rejected (j : J) (s t : String) (hns : j.get? "_ns" = some (.str s))
    (hty : j.get? "_type" = some (.str t)) (hl : lookup registry s t = Option.none) :
    deserialize nss registry j = .error .protocol :=
  deserialize_unknown_type nss registry j s t hns hty hl

theorem missing_envelope_rejected (j : J)
    (h : j.get? "_type" = Option.none ∨ j.get? "_ns" = Option.none) :
    deserialize nss registry j = .error .protocol :=
  deserialize_missing_key nss registry j h

/-! ## Non-vacuity -/

def tagValue (v : Val) : Val :=
  .obj "openpectus.protocol.models" "TagValue"
    (.fcons "name" (.str "T") (.fcons "tick_time" (.flt (.fin 3 1)) (.fcons "value" v
      (.fcons "value_unit" .none (.fcons "value_formatted" (.str "1.5 L") (.fcons "direction" (.enm "input")
        (.fcons "simulated" (.bool false) .fnil)))))))

def tagsUpdated : Entry :=
  ⟨"openpectus.protocol.engine_messages", "TagsUpdatedMsg", "openpectus.protocol.engine_messages",
   "TagsUpdatedMsg", F_engine_messages_TagsUpdatedMsg⟩

def tagsMsg : Val :=
  .fcons "version" (.int 0) (.fcons "sequence_number" (.int 7) (.fcons "engine_id" (.str "a_b")
    (.fcons "tags" (.lcons (tagValue (.int 1)) (.lcons (tagValue (.flt (.fin 1 0)))
      (.lcons (tagValue (.str "1")) (.lcons (tagValue .none) .lnil)))) (.fcons "run_id" .none .fnil))))

/-- The hypotheses of `C26_partial` are satisfiable on a message with a four-way union (`1`, `1.0`, `"1"`,
`None` all keep their type) and the conclusion can be evaluated. -/
example : tagsUpdated ∈ registry ∧
    wellTyped tagsUpdated.schema (.obj tagsUpdated.clsNs tagsUpdated.clsName tagsMsg) = true ∧
    jsonSafe tagsMsg = true ∧
    roundtrip List.reverse nss registry (.obj tagsUpdated.clsNs tagsUpdated.clsName tagsMsg) =
      .ok (.obj tagsUpdated.clsNs tagsUpdated.clsName tagsMsg) := by decide +kernel

example : SetOrder List.reverse := fun _ _ => List.mem_reverse

/-- a set comes back as the same set although it was iterated in another order -/
example : validate .lax .setStr (toJ List.reverse (.set ["a", "b", "c"])) = .ok (.set ["a", "b", "c"]) := by
  decide +kernel

/-- tuples (fixed and variadic) come back as tuples, element types intact -/
example : validate .lax (.tuple (.tcons .int (.tcons (.union .float .none) .tnil)))
      (toJ id (.tup (.lcons (.int 3) (.lcons (.flt (.fin 5 1)) .lnil)))) =
    .ok (.tup (.lcons (.int 3) (.lcons (.flt (.fin 5 1)) .lnil))) ∧
    validate .lax (.tupleVar .str) (toJ id (.tup (.lcons (.str "a") .lnil))) = .ok (.tup (.lcons (.str "a") .lnil)) ∧
    rt (.tuple (.tcons .int (.tcons (.union .float .none) .tnil))) = true := by decide +kernel

/-- a field type outside the model has no well-typed value: the theorems are silent about such messages -/
example : ∀ v, wellTyped (.opaqueTy "datetime") v = false := by intro v; cases v <;> rfl

/-- unknown namespace / unknown type / non-message attribute / missing key -/
example : deserialize nss registry
    (.ocons "_type" (.str "PingMsg") (.ocons "_ns" (.str "openpectus.protocol.models") .onil)) = .error .protocol := by
  decide +kernel
example : deserialize nss registry
    (.ocons "_type" (.str "Mdl") (.ocons "_ns" (.str "openpectus.protocol.engine_messages") .onil)) = .error .protocol := by
  decide +kernel
example : deserialize nss registry
    (.ocons "_type" (.str "PingMsg") (.ocons "_ns" (.str "openpectus.protocol.engine_messages") .onil)) =
    .ok (.obj "openpectus.protocol.engine_messages" "PingMsg"
      (.fcons "version" (.int 0) (.fcons "sequence_number" (.int (-1)) (.fcons "engine_id" (.str "") .fnil)))) := by
  decide +kernel

end OPM.C26
