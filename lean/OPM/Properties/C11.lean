import OPM.Model.CmdMgr
import OPM.Model.CmdMgrSpec
import OPM.Lemmas.CmdMgrExcl
/-!
# C11 Command exclusivity and init/finalize pairing

"At no tick do two instances of the same UOD command, or two commands declared as overlapping, execute;
requesting such a command first cancels the older one. Every UOD command instance is initialized once before
its first execution and finalized exactly once, whether it completes, fails, is cancelled or the run stops."

Model: `OPM.Model.CmdMgr` (command manager, UOD instances, tracking marks, Start/Stop/Restart) with the repair
`fixes/C11-uod-cancel-paths.diff` (`cfg.fixCancel`).  All theorems quantify over every UOD configuration
(durations, failing iterations, overlap lists) and every sequence of requests, ticks, cancel / force requests,
Start / Stop / Restart, including UOD requests whose arguments the command's parser rejects.  The unchanged code
violates the property: `asis_*` below.
-/
namespace OPM.C11
open OPM.CmdMgr

/-- States the engine can reach from power-up with UOD configuration `cfg`. -/
def reach (cfg : Cfg) (ops : List Op) : State := run { cfg := cfg } ops

theorem reach_good (cfg : Cfg) (hfix : cfg.fixCancel = true) (ops : List Op) : Good (reach cfg ops) :=
  good_run (good_init cfg hfix) ops

theorem exclusive_iff (cfg : Cfg) (evs : List Ev) : exclusive cfg evs = true ↔ ExclP cfg evs := by
  simp only [exclusive, List.all_eq_true, Bool.or_eq_true, beq_iff_eq, Bool.not_eq_true', ExclP]

/-- **Exclusivity.** In every tick of every reachable state, no two different instances whose commands are the
same or share an overlap list get their exec function called. -/
theorem exclusive_tick (cfg : Cfg) (hfix : cfg.fixCancel = true) (ops : List Op) :
    exclusive (reach cfg ops).cfg (tickEvents (reach cfg ops)) = true := by
  obtain ⟨evs, h1, h2⟩ := tick_exclusive (reach_good cfg hfix ops)
  rw [exclusive_iff]
  have : tickEvents (reach cfg ops) = evs := by
    unfold tickEvents
    rw [h1]
    simp
  rw [this]; exact h2

/-- Non-vacuity: two requests of the same command and an overlapping one arrive in one tick while an older
instance runs; something executes in that tick, and the callbacks are exclusive. -/
example :
    let cfg : Cfg := { cmds := [⟨1, none⟩, ⟨3, none⟩, ⟨6, none⟩], overlaps := [[1, 2]] }
    let s := reach cfg [.user .start, .tick, .req 2, .tick, .req 1, .req 2, .req 2]
    execsOf (tickEvents s) = [(1, 2)] ∧ exclusive s.cfg (tickEvents s) = true := by decide +kernel

/-- **Pairing.** For every instance ever created, the callbacks it received are exactly: `init`, then one
`exec` per iteration (iteration numbers 0, 1, …), then `final` iff it has been finalized — in this order, nothing
else.  So `init` precedes the first `exec`, it happens once, `final` happens at most once and nothing follows it. -/
theorem callbacks_paired (cfg : Cfg) (hfix : cfg.fixCancel = true) (ops : List Op) :
    ∀ o ∈ (reach cfg ops).objs, traceOf (reach cfg ops).events o.serial = expected o :=
  (reach_good cfg hfix ops).core.trace

/-- **Finalized exactly once.** An instance that has had a callback is held in `uod.command_instances` iff it
has not been finalized: whatever ended it (completion, failure, cancellation by a newer request, a cancel request,
Stop / Restart), it left the map through `finalize`; and an instance in the map has been initialised and a
request the manager still executes (one whose arguments the parser accepts) holds it — so it will be executed,
cancelled or stopped, never forgotten. -/
theorem finalized_iff_released (cfg : Cfg) (hfix : cfg.fixCancel = true) (ops : List Op) :
    ∀ o ∈ (reach cfg ops).objs,
      (o.inMap = false → o.finalized = true) ∧
      (o.inMap = true → o.finalized = false ∧ o.initialized = true ∧
        ∃ r ∈ (reach cfg ops).executing, r.name = .uod o.name ∧ r.bad = false) := by
  intro o ho
  have g := reach_good cfg hfix ops
  refine ⟨g.core.dead o ho, fun hm => ?_⟩
  obtain ⟨a, b, r, hr, h1, h2, _⟩ := g.core.live o ho hm
  exact ⟨a, b, r, hr, h1, h2⟩

/-- **Rejected arguments.** Histories contain requests whose arguments the command's parser rejects
(`Op.req k true`): such a request fails before `initialize()`, so it causes no callback at all; the instance it
created stays uninitialised (`stale`) until a later request of that name initialises it or a cancellation
finalizes it.  Non-vacuity of the theorems above on such a history: a rejected request (error pause), the run is
resumed, a good request of the same command initialises and executes the instance, Stop finalizes it.
(The code as it is, `fixStop := false`; they hold for both settings.) -/
example :
    let cfg : Cfg := { cmds := [⟨6, none⟩], fixStop := false }
    let s1 := reach cfg [.user .start, .tick, .req 0 true, .tick]
    let s2 := reach cfg [.user .start, .tick, .req 0 true, .tick, .pause false, .req 0, .tick, .user .stop, .tick]
    s1.events = [] ∧ s1.stale = [(0, 1)] ∧ s1.objs = [] ∧ s1.paused = true ∧
    s2.events = [.init 0, .exec 0 0 0, .final 0] ∧ s2.stale = [] ∧ (liveObjs s2) = [] := by decide +kernel

/-- With `fixes/C10-dispose-instances-on-stop.diff` the rejected request leaves nothing behind. -/
example :
    let cfg : Cfg := { cmds := [⟨6, none⟩] }
    let s1 := reach cfg [.user .start, .tick, .req 0 true, .tick]
    s1.events = [] ∧ s1.stale = [] ∧ s1.objs = [] ∧ s1.paused = true := by decide +kernel

/-- **Complete and then raise.** A command of `cfg.completeFirst` calls `set_complete()` in its failing iteration
before the exception (a final hardware write that fails): the failure clean-up finds a *completed* instance — and
still finalizes it exactly once and releases it; the record shows the command failed.  (Non-vacuity of
`callbacks_paired` / `finalized_iff_released` on the "already completed" branch of `_cancel_command`.) -/
example :
    let cfg : Cfg := { cmds := [⟨6, some 1⟩], completeFirst := [0] }
    let s := reach cfg [.user .start, .tick, .req 0, .tick, .tick]
    s.events = [.init 0, .exec 0 0 0, .exec 0 0 1, .final 0] ∧ liveObjs s = [] ∧ s.executing = [] ∧
    s.objs.map (fun o => (o.complete, o.cancelled, o.finalized, o.inMap)) = [(true, false, true, false)] ∧
    s.track.map (fun t => t.marks.map (·.1)) = [[.created, .started, .cmdSet, .failed]] ∧
    -- the next request of that command gets a new instance
    (reach cfg [.user .start, .tick, .req 0, .tick, .tick, .pause false, .req 0, .tick]).events =
      [.init 0, .exec 0 0 0, .exec 0 0 1, .final 0, .init 1, .exec 1 0 0] := by decide +kernel

/-- Every callback belongs to an instance that was created. -/
theorem callbacks_have_instances (cfg : Cfg) (hfix : cfg.fixCancel = true) (ops : List Op) :
    ∀ e ∈ (reach cfg ops).events, e.serial < (reach cfg ops).objs.length :=
  (reach_good cfg hfix ops).core.evBound

/-- **The older one is gone first.** Between any two requests of the outside world, the instances that exist
have pairwise different, non-overlapping commands. -/
theorem live_instances_exclusive (cfg : Cfg) (hfix : cfg.fixCancel = true) (ops : List Op) :
    ∀ o ∈ (reach cfg ops).objs, ∀ o' ∈ (reach cfg ops).objs, o.inMap = true → o'.inMap = true →
      conflict (reach cfg ops).cfg o.name o'.name = true → o.serial = o'.serial :=
  (reach_good cfg hfix ops).core.excl

/-- **…or the run stops.** While Stop / Restart waits for its second phase, no instance exists and the manager
holds no UOD request. -/
theorem stopping_quiescent (cfg : Cfg) (hfix : cfg.fixCancel = true) (ops : List Op) (n : Name)
    (h : (reach cfg ops).resident = some ⟨n, 1⟩) :
    (∀ o ∈ (reach cfg ops).objs, o.inMap = false ∧ o.finalized = true) ∧
    (∀ r ∈ (reach cfg ops).queue ++ (reach cfg ops).executing, r.isUod = false) := by
  have g := reach_good cfg hfix ops
  have hr := g.life.res
  rw [h] at hr
  obtain ⟨_, hq, _, h1, _⟩ := hr
  obtain ⟨_, hno, _⟩ := h1 rfl
  have hdead := g.core.no_live (fun r hr hu => by rw [hno r hr] at hu; cases hu)
  refine ⟨fun o ho => ⟨hdead o ho, g.core.dead o ho (hdead o ho)⟩, ?_⟩
  intro r hr
  rw [hq] at hr
  exact hno r (by simpa using hr)

/-- Non-vacuity: a long command runs, Stop arrives; after its first phase the instance is finalized. -/
example :
    let cfg : Cfg := { cmds := [⟨6, none⟩] }
    let s := reach cfg [.user .start, .tick, .req 0, .tick, .tick, .user .stop, .tick]
    s.resident = some ⟨.stop, 1⟩ ∧ s.events = [.init 0, .exec 0 0 0, .exec 0 0 1, .final 0] := by decide +kernel

/-- **Paused.** While the run is paused (Pause, error pause) the method's UOD commands are not executed: a tick
that contains no Start / Stop / Restart request calls no init / exec callback; what it can still do is finalize.
(The commands stay cancellable: `stopping_quiescent`, `OPM.C12.cancel_running_finalizes` hold in paused states too.) -/
theorem paused_request_not_executed (s : State) (r : Req) (k : Nat) (h : s.paused = true) :
    executeUod s r k = (s, false) := executeUod_paused r k h

/-- Non-vacuity: a command runs, the run is paused for two ticks (no callback), then Stop finalizes it. -/
example :
    let cfg : Cfg := { cmds := [⟨6, none⟩] }
    let s := reach cfg [.user .start, .tick, .req 0, .tick, .pause true, .tick, .tick]
    s.events = [.init 0, .exec 0 0 0] ∧ (liveObjs s).length = 1 ∧
    (reach cfg [.user .start, .tick, .req 0, .tick, .pause true, .tick, .tick, .user .stop, .tick]).events =
      [.init 0, .exec 0 0 0, .final 0] := by decide +kernel

/-! ### The unchanged code -/

/-- Unchanged code (`fixCancel = false`): two requests of the same command in one tick → both instances execute
in that tick (the first one is even finalized by the second *after* it ran). -/
theorem asis_two_instances_execute_in_one_tick :
    let cfg : Cfg := { cmds := [⟨6, none⟩], fixCancel := false }
    let s := reach cfg [.user .start, .tick, .req 0, .req 0]
    tickEvents s = [.init 0, .exec 0 0 0, .final 0, .init 1, .exec 1 0 0] ∧
    exclusive s.cfg (tickEvents s) = false := by decide +kernel

/-- …and the repaired code on the same requests: the older request is dropped, one instance executes. -/
theorem fixed_same_requests :
    let cfg : Cfg := { cmds := [⟨6, none⟩] }
    let s := reach cfg [.user .start, .tick, .req 0, .req 0]
    tickEvents s = [.init 0, .exec 0 0 0] := by decide +kernel

end OPM.C11
