import OPM.Model.ErrorLog
import OPM.Lemmas.ErrorLog
/-!
# C35 Error-log aggregation loses nothing and counts repeats

"Aggregating engine error-log entries never loses an entry. Consecutive entries with the same message and
severity and increasing times are merged, with an occurrence count equal to the number merged and the latest
time; entries with an identical time count as redelivered duplicates. Distinct entries keep their order."

Vocabulary (OPM.Lemmas.ErrorLog): `groups es` = the maximal runs of consecutive entries with equal
(message, severity) (`groups_spec` below pins that down); `summarize g` = ⟨key of the run, latest time of the
run, 1 + number of entries strictly later than everything before them in the run⟩.
All statements are for every input list / every sequence of batches; `entries` is the list in Python's order.
-/
namespace OPM.C35
open OPM.ErrorLog

/-- How the input is cut into batches is irrelevant (the `latest` pointer survives between calls). -/
theorem batches_concat (s : List Agg) (b₁ b₂ : List Entry) :
    aggregateWith (aggregateWith s b₁) b₂ = aggregateWith s (b₁ ++ b₂) := by
  simp [aggregateWith, List.foldl_append]

/-- Any history of `aggregate_with` calls on an empty (or cleared) log = one call with the concatenation. -/
theorem aggregateAll_eq (bs : List (List Entry)) : aggregateAll bs = aggregateWith [] bs.flatten := by
  have gen : ∀ (s : List Agg), bs.foldl aggregateWith s = aggregateWith s bs.flatten := by
    induction bs with
    | nil => intro s; rfl
    | cons b bs ih => intro s; simp [List.foldl_cons, ih, batches_concat]
  exact gen []

/-- `groups` really is "the maximal runs of equal keys": concatenating the runs gives the input back
    (no entry lost or reordered by the grouping), each run has one key, neighbouring runs have different keys. -/
theorem groups_spec (es : List Entry) :
    (groups es).flatMap Group.toList = es ∧ (∀ g ∈ groups es, Uniform g) ∧ Maximal (groups es) := by
  induction es with
  | nil => simp [Maximal]
  | cons e es ih =>
    rw [groups_cons]
    refine ⟨?_, consGroup_uniform e _ ih.2.1, consGroup_maximal e _ ih.2.2⟩
    rw [consGroup_flatten, ih.1]

/-- **Full statement.** The aggregated log is, in order, one entry per maximal run of equal
    (message, severity), and that entry is the run's summary. -/
theorem aggregate_eq_groups (es : List Entry) :
    entries (aggregateWith [] es) = (groups es).map summarize := by
  match es with
  | [] => rfl
  | e :: es =>
    have step : aggregateWith [] (e :: es) = aggregateWith [Agg.ofEntry e] es := rfl
    rw [step, aggregate_cons_state, groups_cons]
    match groups es with
    | [] => simp [afterGroups_nil, consGroup_nil, entries, summarize_eq_fold]
    | (f, g) :: gs =>
      by_cases hf : e.key = f.key
      · rw [consGroup_same _ _ _ _ hf, afterGroups_same _ _ _ _ (by rw [ofEntry_key, hf])]
        simp [entries, Group.toList, summarize_eq_fold]
      · rw [consGroup_diff _ _ _ _ hf,
          afterGroups_diff _ _ _ _ (by rw [ofEntry_key]; exact fun h => hf h.symm)]
        simp [entries, summarize_eq_fold]

/-- Same for any sequence of batches. -/
theorem aggregateAll_eq_groups (bs : List (List Entry)) :
    entries (aggregateAll bs) = (groups bs.flatten).map summarize := by
  rw [aggregateAll_eq, aggregate_eq_groups]

example :
    entries (aggregateAll [[⟨"a", 1, 1⟩, ⟨"a", 1, 2⟩], [⟨"a", 1, 2⟩, ⟨"b", 1, 2⟩], [⟨"a", 1, 3⟩]])
      = [⟨"a", 1, 2, 2⟩, ⟨"b", 1, 2, 1⟩, ⟨"a", 1, 3, 1⟩] := by decide +kernel

/-- Distinct entries keep their order: the keys of the result are the keys of the runs, in input order
    (with `groups_spec`: the input's key sequence with consecutive repetitions removed). -/
theorem order_kept (es : List Entry) :
    (entries (aggregateWith [] es)).map Agg.key = (groups es).map (fun g => g.1.key) := by
  rw [aggregate_eq_groups, List.map_map]
  rfl

/-- A run with strictly increasing times is merged into one entry whose occurrence count is the number of
    entries merged and whose time is the latest (= last) one. -/
theorem merged_increasing (g : Group) (h : StrictInc (g.toList.map Entry.time)) :
    (summarize g).occurrences = g.toList.length ∧
    (summarize g).time = (g.toList.map Entry.time).getLast (by simp [Group.toList]) ∧
    (summarize g).key = g.1.key := by
  have := records_strictInc g.1.time (g.2.map Entry.time) (by simpa [Group.toList] using h)
  refine ⟨?_, ?_, rfl⟩
  · simp [summarize, this.1, Group.toList]
  · simp [summarize, this.2, Group.toList]

example : StrictInc ((Group.toList (⟨"a", 1, 1⟩, [⟨"a", 1, 2⟩, ⟨"a", 1, 5⟩])).map Entry.time) ∧
    summarize (⟨"a", 1, 1⟩, [⟨"a", 1, 2⟩, ⟨"a", 1, 5⟩]) = ⟨"a", 1, 5, 3⟩ :=
  ⟨⟨by decide +kernel, by decide +kernel, trivial⟩, by decide +kernel⟩

/-- Entries with an identical time are redelivered duplicates: in a run with non-decreasing times the count is
    1 + the number of strict increases between neighbours (= number of distinct times), the time is the last. -/
theorem duplicates_not_counted (g : Group) (h : NonDec (g.toList.map Entry.time)) :
    (summarize g).occurrences = ascents (g.toList.map Entry.time) + 1 ∧
    (summarize g).time = (g.toList.map Entry.time).getLast (by simp [Group.toList]) := by
  have := records_nonDec g.1.time (g.2.map Entry.time) (by simpa [Group.toList] using h)
  refine ⟨?_, ?_⟩
  · simp [summarize, this.1, Group.toList]
  · simp [summarize, this.2, Group.toList]

example : summarize (⟨"a", 1, 1⟩, [⟨"a", 1, 1⟩, ⟨"a", 1, 2⟩, ⟨"a", 1, 2⟩, ⟨"a", 1, 3⟩]) = ⟨"a", 1, 3, 3⟩ := by
  decide +kernel

/-- Any run: the time is the latest time of the run, every entry of the run is either counted or is not later
    than something delivered before it in the run (`repeats`), nothing else. -/
theorem summary_general (g : Group) :
    (∀ e ∈ g.toList, e.time ≤ (summarize g).time) ∧
    (summarize g).time ∈ g.toList.map Entry.time ∧
    (summarize g).occurrences + repeats g.1.time (g.2.map Entry.time) = g.toList.length ∧
    1 ≤ (summarize g).occurrences := by
  refine ⟨?_, ?_, ?_, by simp [summarize]⟩
  · intro e he
    have := runMax_ge g.1.time (g.2.map Entry.time) e.time (by
      simp only [Group.toList, List.mem_cons] at he
      rcases he with rfl | he
      · simp
      · simp only [List.mem_cons, List.mem_map]; exact Or.inr ⟨e, he, rfl⟩)
    simpa [summarize] using this
  · have := runMax_mem g.1.time (g.2.map Entry.time)
    simpa [summarize, Group.toList] using this
  · have := records_add_repeats g.1.time (g.2.map Entry.time)
    simp [summarize, Group.toList] at this ⊢
    omega

/-- A run with strictly increasing times has no uncounted entry. -/
theorem no_repeats_when_increasing (g : Group) (h : StrictInc (g.toList.map Entry.time)) :
    repeats g.1.time (g.2.map Entry.time) = 0 :=
  repeats_strictInc _ _ (by simpa [Group.toList] using h)

/-- Never loses an entry: every delivered entry is represented by an aggregated entry with its message and
    severity and a time that is not earlier. -/
theorem no_entry_lost (es : List Entry) :
    ∀ e ∈ es, ∃ a ∈ entries (aggregateWith [] es), a.key = e.key ∧ e.time ≤ a.time := by
  intro e he
  obtain ⟨hflat, hunif, _⟩ := groups_spec es
  rw [← hflat] at he
  obtain ⟨g, hg, heg⟩ := List.mem_flatMap.mp he
  refine ⟨summarize g, ?_, ?_, (summary_general g).1 e heg⟩
  · rw [aggregate_eq_groups]; exact List.mem_map.mpr ⟨g, hg, rfl⟩
  · simp only [Group.toList, List.mem_cons] at heg
    rcases heg with rfl | heg
    · rfl
    · exact (hunif g hg e heg).symm

/-- Accounting: occurrence counts plus uncounted (duplicate / not-later) deliveries add up to the input. -/
theorem accounting (es : List Entry) :
    ((entries (aggregateWith [] es)).map Agg.occurrences).sum
      + ((groups es).map (fun g => repeats g.1.time (g.2.map Entry.time))).sum = es.length := by
  rw [aggregate_eq_groups]
  have hlen : ∀ G : List Group,
      ((G.map summarize).map Agg.occurrences).sum + (G.map (fun g => repeats g.1.time (g.2.map Entry.time))).sum
        = (G.flatMap Group.toList).length := by
    intro G
    induction G with
    | nil => rfl
    | cons g G ih =>
      have := (summary_general g).2.2.1
      simp only [List.map_cons, List.sum_cons, List.flatMap_cons, List.length_append]
      omega
  rw [hlen, (groups_spec es).1]

/-- Redelivering an entry right after itself never changes the log (any state). -/
theorem immediate_redelivery (s : List Agg) (es : List Entry) (e : Entry) :
    aggregateWith s (es ++ [e, e]) = aggregateWith s (es ++ [e]) := by
  simp only [aggregateWith, List.foldl_append, List.foldl_cons, List.foldl_nil]
  exact push_push_same _ e

/-- Redelivering a whole batch of entries with one (message, severity) never changes the log. -/
theorem batch_redelivery (s : List Agg) (b : List Entry) (k : Key) (hk : ∀ e ∈ b, e.key = k) :
    aggregateWith (aggregateWith s b) b = aggregateWith s b := by
  match b with
  | [] => rfl
  | e :: b =>
    have hstep : aggregateWith s (e :: b) = aggregateWith (push s e) b := rfl
    have hkey : ∃ a rest, push s e = a :: rest ∧ a.key = k ∧ e.time ≤ a.time := by
      match s with
      | [] => exact ⟨Agg.ofEntry e, [], rfl, hk e (by simp), Rat.le_refl⟩
      | a :: rest =>
        by_cases h : e.key = a.key
        · refine ⟨absorb a e, rest, push_same _ _ _ h, by rw [absorb_key, ← h]; exact hk e (by simp), ?_⟩
          unfold absorb; split
          · exact Rat.le_refl
          · grind
        · exact ⟨Agg.ofEntry e, a :: rest, push_other _ _ _ h, hk e (by simp), Rat.le_refl⟩
    obtain ⟨a, rest, hp, hak, hat⟩ := hkey
    obtain ⟨a', h1, h2, h3, h4⟩ :=
      aggregate_uniform_head k b (fun x hx => hk x (by simp [hx])) a rest hak
    rw [hstep, hp, h1]
    apply aggregate_covered
    intro x hx
    simp only [List.mem_cons] at hx
    rcases hx with rfl | hx
    · exact ⟨by rw [h2]; exact hk x (by simp), by grind⟩
    · exact ⟨by rw [h2]; exact hk x (by simp [hx]), h4 x hx⟩

/-- What is *not* claimed (and not the case): a redelivered batch that interleaves two keys is appended again. -/
example :
    entries (aggregateAll [[⟨"a", 1, 1⟩, ⟨"b", 1, 2⟩], [⟨"a", 1, 1⟩, ⟨"b", 1, 2⟩]])
      = [⟨"a", 1, 1, 1⟩, ⟨"b", 1, 2, 1⟩, ⟨"a", 1, 1, 1⟩, ⟨"b", 1, 2, 1⟩] := by decide +kernel

end OPM.C35
