import OPM.Model.Runner
import OPM.Lemmas.Runner
import OPM.Lemmas.RunnerOrder
/-!
# C27 Engine messages survive disconnects without loss or duplication

"For any pattern of connection failures and reconnects, every message the engine produces while disconnected is
delivered after reconnection, and none stays stranded in the buffer once the engine reports it has caught up.
A message is delivered more than once only if an earlier delivery attempt failed, keeps one unique sequence
number across resends, and run data buffered for a run reaches the aggregator before that run's stop
notification."

All statements are about every trace of the transition system `OPM.Runner.next` (model M12 of
`EngineRunner` + `assign_sequence_number`; atomic steps = await points), `Reach tr s := run init tr = some s`.

The code as it is violates three clauses (both reproduced on the real `EngineRunner` by `props/C27.py`):
* order: while `CatchingUp` `_post_async` sends new messages directly, ahead of what is still buffered —
  a RunStoppedMsg posted then overtakes the buffered run data of its run (`C27_counterexample`);
* stranded: when two sends fail together in steady state both failure handlers wait for the cancelled
  steady-state task; the second one to wake executes `self._state_task = None` over the buffer task the first
  one has just installed and installs another: the first buffer task is never cancelled and keeps appending
  to `_message_buffer` every 5 s while the runner is Reconnected (`C27_counterexample_stranded`);
* loss: when the steady-state task's own un-shielded first `_post_async` fails, `_set_state("Failed")`
  cancels and awaits the very task it runs in; the cancellation is swallowed, the task never ends, and every
  other failure handler waiting for it never buffers its message (`C27_counterexample_loss`).
`C27_full` stays visible; `C27_partial` proves the clauses for every trace without the three triggers
(and without a fault hitting a catch-up re-send, which would reorder the buffer).
Conservation, sequence numbers and re-sends hold for ALL traces; the empty buffer in `Reconnected` for all
traces without an orphaned buffer task.
-/
namespace OPM.C27
open OPM.Runner

def Reach (tr : List Ev) (s : State) : Prop := run init tr = some s

/-- The executable `run`/`next` and the inductive relation `Steps`/`Step` are the same transition system. -/
theorem steps_iff_run (s s' : State) (tr : List Ev) : Steps s tr s' ↔ run s tr = some s' := by
  constructor
  · intro h
    induction h with
    | nil s => rfl
    | cons hs _ ih =>
      cases hs
      rename_i hn
      simp only [run, hn]; exact ih
  · intro h
    induction tr generalizing s with
    | nil => simp only [run] at h; cases h; exact Steps.nil _
    | cons e es ih =>
      simp only [run] at h
      cases hn : next s e with
      | none => rw [hn] at h; cases h
      | some s1 => rw [hn] at h; exact Steps.cons (Step.mk s e s1 hn) (ih s1 h)

theorem accepts_iff (tr : List Ev) : accepts tr = true ↔ ∃ s, Steps init tr s := by
  unfold accepts
  constructor
  · intro h
    cases hr : run init tr with
    | none => rw [hr] at h; cases h
    | some s => exact ⟨s, (steps_iff_run _ _ _).mpr hr⟩
  · intro ⟨s, hs⟩
    rw [(steps_iff_run _ _ _).mp hs]; rfl

/-- Induction over traces. -/
theorem run_induct (P : State → Prop) (hstep : ∀ s s' e, next s e = some s' → P s → P s')
    (tr : List Ev) : ∀ s0 s, P s0 → run s0 tr = some s → P s := by
  induction tr with
  | nil => intro s0 s h0 hr; simp only [run] at hr; cases hr; exact h0
  | cons e es ih =>
    intro s0 s h0 hr
    simp only [run] at hr
    cases hn : next s0 e with
    | none => rw [hn] at hr; cases hr
    | some s1 => rw [hn] at hr; exact ih s1 s (hstep s0 s1 e hn h0) hr

/-- Evaluate a Boolean observation on the state a concrete trace leads to (for witnesses). -/
def holdsAfter (tr : List Ev) (P : State → Bool) : Bool :=
  match run init tr with
  | some s => P s
  | none => false

theorem holdsAfter_spec (tr : List Ev) (P : State → Bool) (h : holdsAfter tr P = true) :
    ∃ s, Reach tr s ∧ P s = true := by
  unfold holdsAfter at h
  cases hr : run init tr with
  | none => rw [hr] at h; cases h
  | some s => rw [hr] at h; exact ⟨s, hr, h⟩

/-! ## Clauses that hold for every trace -/

/-- **No loss / no duplication inside the runner (conservation).**  In every reachable state each produced
    message (ids 1 … n) is in exactly one of: not yet posted, in flight, failed-and-being-handled (pending /
    waiting / stuck), taken for a batch, buffered, delivered, cancelled with its task, rejected in `Started`;
    and nothing else is anywhere. -/
theorem conservation (tr : List Ev) (s : State) (h : Reach tr s) (id : Nat) :
    s.fresh.count id + s.inflight.count id + s.pending.count id + s.waiting.count id + s.stuck.count id +
    s.batch.count id + s.buffer.count id + s.delivered.count id + s.cancelled.count id + s.rejected.count id
      = if 1 ≤ id ∧ id ≤ s.kinds.length then 1 else 0 :=
  run_induct Conserved conserved_step tr init s conserved_init h id

theorem conserved_reach (tr : List Ev) (s : State) (h : Reach tr s) : Conserved s :=
  run_induct Conserved conserved_step tr init s conserved_init h

example : ∃ s, Reach [.connect true, .setState .connected, .produce 1 .other, .send 1 2, .fail 1,
    .setState .failed, .buf 1 2] s ∧ (s.buffer == [1] && s.sends == [1] && s.fails == [1] && s.ctr == 2) = true :=
  holdsAfter_spec _ _ (by decide)

/-- The runner never records two successful deliveries of one message. -/
theorem delivered_at_most_once (tr : List Ev) (s : State) (h : Reach tr s) (id : Nat) :
    s.delivered.count id ≤ 1 := by
  have := conservation tr s h id
  split at this <;> omega

/-- **A message is sent again only after an earlier attempt failed**: attempts ≤ failed attempts + 1. -/
theorem resend_only_after_failure (tr : List Ev) (s : State) (h : Reach tr s) (id : Nat) :
    s.sends.count id ≤ s.fails.count id + 1 := by
  have hr : ResendOK s := run_induct ResendOK resend_step tr init s resend_init h
  have hc := conservation tr s h id
  have := hr id
  split at hc <;> omega

/-- **Sequence numbers: assigned once, kept across re-sends.** -/
theorem seq_kept (tr es : List Ev) (s s' : State) (_ : Reach tr s) (h' : run s es = some s') (id q : Nat)
    (hq : seqOf s id = some q) : seqOf s' id = some q :=
  run_induct (fun t => seqOf t id = some q) (fun a b e hn ha => seqOf_stable a b e hn id q ha) es s s' hq h'

/-- … every send / buffer step carries exactly that number … -/
theorem seq_on_every_post (tr : List Ev) (s s' : State) (_ : Reach tr s) (e : Ev) (id q : Nat)
    (hn : next s e = some s') (he : e = .send id q ∨ e = .buf id q ∨ e = .bufTask id q) :
    seqOf s' id = some q :=
  step_carries_seq s s' e hn id q he

/-- … and it is unique. -/
theorem seq_unique (tr : List Ev) (s : State) (h : Reach tr s) (a b q : Nat)
    (ha : seqOf s a = some q) (hb : seqOf s b = some q) : a = b :=
  Runner.seq_unique s (run_induct SeqWF seqWF_step tr init s seqWF_init h) a b q ha hb

/-- **One sequence number per message across all attempts, at the dispatcher boundary.**  `wire` logs every
    attempt (first send and every re-send out of the buffer) with the number in the serialized message:
    all attempts of a message carry the same number, it is the number the message carries now, and two
    different messages never go over the wire under one number. -/
theorem attempts_one_sequence_number (tr : List Ev) (s : State) (h : Reach tr s) :
    (∀ i q q', (i, q) ∈ s.wire → (i, q') ∈ s.wire → q = q') ∧
    (∀ i j q, (i, q) ∈ s.wire → (j, q) ∈ s.wire → i = j) ∧
    (∀ i q, (i, q) ∈ s.wire → seqOf s i = some q) := by
  have hw : WireOK s := run_induct WireOK wireOK_step tr init s wireOK_init h
  have hs : SeqWF s := run_induct SeqWF seqWF_step tr init s seqWF_init h
  refine ⟨?_, ?_, fun i q hi => hw (i, q) hi⟩
  · intro i q q' h1 h2
    have a := hw (i, q) h1
    have b := hw (i, q') h2
    simp only at a b
    rw [a] at b; exact Option.some.inj b
  · intro i j q h1 h2
    exact Runner.seq_unique s hs i j q (hw (i, q) h1) (hw (j, q) h2)

/-- Non-vacuity: message 1 is attempted twice (first send fails, re-sent by the batch) under number 2. -/
example : ∃ s, Reach [.connect true, .setState .connected, .produce 1 .other, .send 1 2, .fail 1,
    .setState .failed, .buf 1 2, .disconnect, .setState .disconnected, .connect true, .setState .reconnecting,
    .setState .catchingUp, .take 1, .postBatch true [2]] s ∧ (s.wire == [(1, 2), (1, 2)]) = true :=
  holdsAfter_spec _ _ (by decide)

/-- **Nothing is stranded in the buffer once the runner reports it has caught up** (nor taken for a batch) —
    as long as no buffer task has been orphaned (`orphans = 0`; see `C27_counterexample_stranded`). -/
theorem caught_up_buffer_empty (tr : List Ev) (s : State) (h : Reach tr s) (ho : s.orphans = 0)
    (hs : s.st = .reconnected) : s.buffer = [] ∧ s.batch = [] := by
  have key : s.orphans = 0 → Idle s :=
    run_induct (fun t => t.orphans = 0 → Idle t)
      (fun a b e hn ha hb => idle_step a b e hn (ha (by have := orphans_mono a b e hn; omega)) hb)
      tr init s (fun _ => idle_init) h
  exact key ho (Or.inl hs)

/-- A message that has entered the buffer is never dropped by cancellation or rejection. -/
theorem buffered_never_dropped (tr : List Ev) (s : State) (h : Reach tr s) (id : Nat) (hb : id ∈ s.everBuf) :
    id ∉ s.cancelled ∧ id ∉ s.rejected := by
  have key : Conserved s ∧ EverOK s :=
    run_induct (fun t => Conserved t ∧ EverOK t)
      (fun a b e hn ha => ⟨conserved_step a b e hn ha.1, everOK_step a b e hn ha.1 ha.2⟩) tr init s
      ⟨conserved_init, everOK_init⟩ h
  exact ⟨(key.2 id hb).2.1, (key.2 id hb).2.2.1⟩

/-! ## The full statement, its refutation on the code as it is, and the part that holds -/

/-- Order clause on a state: every stop notification in the delivery log comes after the buffered run data of
    its run that was outstanding when the stop was posted (`owed`). -/
def OrderOK (s : State) : Prop :=
  ∀ p ∈ s.owed, p.2 ∈ s.delivered → before p.1 p.2 s.delivered = true

/-- No failed message is left behind a task that never ends. -/
def NoneStuck (s : State) : Prop := s.stuck = []

/-- Full statement of C27 over all traces. -/
def C27_full : Prop :=
  ∀ tr s, Reach tr s →
    Conserved s ∧ SeqWF s ∧ ResendOK s ∧ (s.st = .reconnected → s.buffer = []) ∧ NoneStuck s ∧
    s.orderViol = false ∧ OrderOK s

/-- Witness (order): disconnect, run data (message 2, run 1) is buffered by the buffer task, reconnect,
    state CatchingUp, the run stops: RunStoppedMsg (message 3) is sent directly and answered while
    message 2 is still in the buffer. -/
def orderWitness : List Ev :=
  [.connect true, .setState .connected, .produce 1 .other, .send 1 2, .fail 1, .setState .failed, .buf 1 2,
   .produce 2 (.data 1), .bufTask 2 3, .disconnect, .setState .disconnected, .connect true,
   .setState .reconnecting, .setState .catchingUp, .produce 3 (.stop 1), .send 3 4, .ok 3]

theorem C27_counterexample : ¬ C27_full := by
  intro h
  obtain ⟨s, hs, hv⟩ := holdsAfter_spec orderWitness (fun s => s.orderViol) (by decide)
  have := (h orderWitness s hs).2.2.2.2.2.1
  rw [hv] at this; cases this

/-- Witness (loss): the steady-state task's own post (message 1) and an event post (message 2) fail
    together; handler 1 waits for itself, handler 2 waits for the state task; the task swallows the
    cancellation (`taskClear true`): message 2 is stuck. -/
def lossWitness : List Ev :=
  [.connect true, .setState .connected, .taskSet .steady, .produce 1 .other, .send 1 2, .produce 2 (.stop 1),
   .send 2 3, .fail 1, .fail 2, .setState .failed, .wait 1 true, .setState .failed, .wait 2 false,
   .taskClear true]

/-- From the witness state on, message 2 is never delivered and never buffered, whatever happens next. -/
theorem C27_counterexample_loss :
    ∃ s, Reach lossWitness s ∧ 2 ∈ s.stuck ∧
      ∀ es s', run s es = some s' → 2 ∈ s'.stuck ∧ 2 ∉ s'.delivered ∧ 2 ∉ s'.buffer ∧ 2 ∉ s'.inflight := by
  obtain ⟨s, hs, hm⟩ := holdsAfter_spec lossWitness (fun s => s.stuck.contains 2) (by decide)
  have hm : 2 ∈ s.stuck := by simpa using hm
  refine ⟨s, hs, hm, ?_⟩
  intro es s' he
  have hc : Conserved s := conserved_reach lossWitness s hs
  have key : Conserved s' ∧ 2 ∈ s'.stuck :=
    run_induct (fun t => Conserved t ∧ 2 ∈ t.stuck)
      (fun a b e hn ha => ⟨conserved_step a b e hn ha.1, stuck_mono a b e hn 2 ha.2⟩) es s s' ⟨hc, hm⟩ he
  have := stuck_elsewhere s' key.1 2 key.2
  exact ⟨key.2, this.1, this.2.1, this.2.2.2⟩

theorem C27_full_refuted_by_loss : ¬ C27_full := by
  intro h
  obtain ⟨s, hs, hm, _⟩ := C27_counterexample_loss
  have := (h lossWitness s hs).2.2.2.2.1
  unfold NoneStuck at this
  rw [this] at hm; cases hm

/-- Witness (stranded): two sends of the steady-state loop fail together; both handlers wait for the cancelled
    state task; the first to wake installs a buffer task, the second executes `self._state_task = None` and
    installs another one: the first buffer task is orphaned (never cancelled).  After the catch-up the runner
    is Reconnected and the orphan buffers message 3. -/
def strandWitness : List Ev :=
  [.connect true, .setState .connected, .taskSet .steady, .produce 1 .other, .send 1 2, .produce 2 .other,
   .send 2 3, .fail 1, .fail 2, .setState .failed, .wait 1 false, .setState .failed, .wait 2 false,
   .taskClear false, .taskSet .buffering, .buf 1 2, .taskClear false, .taskSet .buffering, .buf 2 3,
   .disconnect, .setState .disconnected, .connect true, .setState .reconnecting, .setState .catchingUp,
   .take 2, .postBatch true [2, 3], .ok 1, .ok 2, .setState .reconnected, .waitOther, .taskClear false,
   .taskSet .steady, .produce 3 (.data 1), .bufTask 3 4]

theorem C27_counterexample_stranded :
    ∃ s, Reach strandWitness s ∧ s.st = .reconnected ∧ s.buffer = [3] := by
  obtain ⟨s, hs, hp⟩ := holdsAfter_spec strandWitness
    (fun s => decide (s.st = .reconnected) && s.buffer == [3]) (by decide)
  simp only [Bool.and_eq_true, decide_eq_true_eq, beq_iff_eq] at hp
  exact ⟨s, hs, hp.1, hp.2⟩

theorem C27_full_refuted_by_stranding : ¬ C27_full := by
  intro h
  obtain ⟨s, hs, hst, hb⟩ := C27_counterexample_stranded
  have := (h strandWitness s hs).2.2.2.1 hst
  rw [this] at hb; cases hb

/-- Hypothesis of the partial theorem, decidable on the trace: no step is
    (a) the state task clearing `_state_task` itself (swallowed self-cancellation),
    (b) a stop notification sent directly while CatchingUp,
    (c) a failure of a message that had been buffered (fault during a catch-up re-send),
    (d) a batch whose posts are re-buffered,
    (e) a failure handler clearing `_state_task` while it refers to a live buffer task (orphaning it). -/
def Calm (tr : List Ev) : Prop := calmFrom init tr = true

instance (tr : List Ev) : Decidable (Calm tr) := by unfold Calm; infer_instance

theorem ordWF_of_calm (tr : List Ev) : ∀ s0 s, Conserved s0 → Idle s0 → s0.orphans = 0 → OrdWF s0 →
    calmFrom s0 tr = true → run s0 tr = some s → OrdWF s ∧ Idle s ∧ s.orphans = 0 := by
  induction tr with
  | nil => intro s0 s _ hi hz ho _ hr; simp only [run] at hr; cases hr; exact ⟨ho, hi, hz⟩
  | cons e es ih =>
    intro s0 s hc hi hz ho hcalm hr
    simp only [run] at hr
    simp only [calmFrom, Bool.and_eq_true] at hcalm
    cases hn : next s0 e with
    | none => rw [hn] at hr; cases hr
    | some s1 =>
      rw [hn] at hr
      have h2 := hcalm.2
      rw [hn] at h2
      have hz1 := orphans_calm s0 s1 e hn hcalm.1 hz
      exact ih s1 s (conserved_step s0 s1 e hn hc) (idle_step s0 s1 e hn hi hz1) hz1
        (ordWF_step s0 s1 e hn hcalm.1 hc hi ho) h2 hr

/-- **What holds of the code as it is**: on every calm trace no message gets stuck and every delivered stop
    notification comes after the buffered run data of its run. -/
theorem C27_partial (tr : List Ev) (s : State) (h : Reach tr s) (hcalm : Calm tr) :
    NoneStuck s ∧ s.orderViol = false ∧ OrderOK s ∧ (s.st = .reconnected → s.buffer = []) := by
  obtain ⟨ho, hi, _⟩ := ordWF_of_calm tr init s conserved_init idle_init rfl ordWF_init hcalm h
  refine ⟨ho.2.2.2, ho.2.2.1, ?_, fun hs => (hi (Or.inl hs)).1⟩
  intro p hp hd
  exact before_prefix _ _ _ _ (ho.2.1 p hp).2.2.2.2 hd

/-- Non-vacuity: a calm trace with a disconnect during run 1, buffered run data (2), the stop (3) posted while
    disconnected, reconnect, catch-up batch, everything answered in order, Reconnected with an empty buffer. -/
def calmWitness : List Ev :=
  [.connect true, .setState .connected, .produce 1 .other, .send 1 2, .fail 1, .setState .failed, .buf 1 2,
   .produce 2 (.data 1), .bufTask 2 3, .disconnect, .setState .disconnected, .produce 3 (.stop 1), .buf 3 4,
   .connect true, .setState .reconnecting, .setState .catchingUp, .take 3, .postBatch true [2, 3, 4],
   .ok 1, .ok 2, .ok 3, .setState .reconnected]

example : Calm calmWitness ∧ ∃ s, Reach calmWitness s ∧
    (decide (s.st = .reconnected) && s.delivered == [1, 2, 3] && s.owed == [(2, 3)] && s.buffer == []) = true :=
  ⟨by decide, holdsAfter_spec _ _ (by decide)⟩

example : ∃ s, Reach calmWitness s ∧ (decide (s.st = .reconnected) && decide (s.orphans = 0)) = true :=
  holdsAfter_spec _ _ (by decide)

/-- The witnesses are not calm: order (b), loss (a), stranding (e). -/
example : ¬ Calm orderWitness ∧ ¬ Calm lossWitness ∧ ¬ Calm strandWitness := by decide

end OPM.C27
