import OPM.Model.Runner
import OPM.Lemmas.Runner
import OPM.Lemmas.RunnerOrder
/-!
# C27 Engine messages survive disconnects without loss or duplication

"For any pattern of connection failures and reconnects, every message the engine produces while disconnected is
delivered after reconnection, and none stays stranded in the buffer once the engine reports it has caught up.
A message is delivered more than once only if an earlier delivery attempt failed, keeps one unique sequence
number across resends, and run data buffered for a run reaches the aggregator before that run's stop
notification."

All statements are about every trace of the transition system `OPM.Runner.next` (model M12 of
`EngineRunner` + `assign_sequence_number`; atomic steps = await points), `Reach tr s := run init tr = some s`.

The code as it is violates the order, stranded and delivery clauses (all reproduced on the real `EngineRunner`
by `props/C27.py`, recorded in findings.d/C27.json):
* order: while `CatchingUp` `_post_async` sends new messages directly, ahead of what is still buffered —
  a RunStoppedMsg posted then overtakes the buffered run data of its run (`C27_counterexample`);
* stranded: when two sends fail together in steady state both failure handlers wait for the cancelled
  steady-state task; the second one to wake executes `self._state_task = None` over the buffer task the first
  one has just installed and installs another: the first buffer task is never cancelled and keeps appending
  to `_message_buffer` every 5 s while the runner is Reconnected (`C27_counterexample_stranded`);
* delivery / loss: the steady-state task's first `_post_async` is awaited un-shielded inside the state task;
  if it fails, `_set_state("Failed")` cancels and awaits the very task it runs in, the cancellation is
  swallowed, the task never ends and every other failure handler waiting for it never buffers its message
  (`C27_counterexample_loss`); or another handler cancels that task before it has seen its failure and the
  failed message is dropped (`C27_counterexample_delivery`).
`C27_full` (structure `Holds` at every reachable state) stays visible.  What holds: conservation, sequence
numbers (also per attempt on the wire) and re-sends for ALL traces; delivery and "nothing stuck" for all traces
without the two loss triggers (`C27_delivery_partial` — any number of outages, also during catch-up); order and
"empty buffer when Reconnected" for all traces without the order/orphan triggers (`C27_order_partial`);
everything together on calm traces (`C27_partial`).
-/
namespace OPM.C27
open OPM.Runner

def Reach (tr : List Ev) (s : State) : Prop := run init tr = some s

/-- The executable `run`/`next` and the inductive relation `Steps`/`Step` are the same transition system. -/
theorem steps_iff_run (s s' : State) (tr : List Ev) : Steps s tr s' ↔ run s tr = some s' := by
  constructor
  · intro h
    induction h with
    | nil s => rfl
    | cons hs _ ih =>
      cases hs
      rename_i hn
      simp only [run, hn]; exact ih
  · intro h
    induction tr generalizing s with
    | nil => simp only [run] at h; cases h; exact Steps.nil _
    | cons e es ih =>
      simp only [run] at h
      cases hn : next s e with
      | none => rw [hn] at h; cases h
      | some s1 => rw [hn] at h; exact Steps.cons (Step.mk s e s1 hn) (ih s1 h)

theorem accepts_iff (tr : List Ev) : accepts tr = true ↔ ∃ s, Steps init tr s := by
  unfold accepts
  constructor
  · intro h
    cases hr : run init tr with
    | none => rw [hr] at h; cases h
    | some s => exact ⟨s, (steps_iff_run _ _ _).mpr hr⟩
  · intro ⟨s, hs⟩
    rw [(steps_iff_run _ _ _).mp hs]; rfl

/-- Induction over traces. -/
theorem run_induct (P : State → Prop) (hstep : ∀ s s' e, next s e = some s' → P s → P s')
    (tr : List Ev) : ∀ s0 s, P s0 → run s0 tr = some s → P s := by
  induction tr with
  | nil => intro s0 s h0 hr; simp only [run] at hr; cases hr; exact h0
  | cons e es ih =>
    intro s0 s h0 hr
    simp only [run] at hr
    cases hn : next s0 e with
    | none => rw [hn] at hr; cases hr
    | some s1 => rw [hn] at hr; exact ih s1 s (hstep s0 s1 e hn h0) hr

/-- Evaluate a Boolean observation on the state a concrete trace leads to (for witnesses). -/
def holdsAfter (tr : List Ev) (P : State → Bool) : Bool :=
  match run init tr with
  | some s => P s
  | none => false

theorem holdsAfter_spec (tr : List Ev) (P : State → Bool) (h : holdsAfter tr P = true) :
    ∃ s, Reach tr s ∧ P s = true := by
  unfold holdsAfter at h
  cases hr : run init tr with
  | none => rw [hr] at h; cases h
  | some s => rw [hr] at h; exact ⟨s, hr, h⟩

/-! ## Clauses that hold for every trace -/

/-- **No loss / no duplication inside the runner (conservation).**  In every reachable state each produced
    message (ids 1 … n) is in exactly one of: not yet posted, in flight, failed-and-being-handled (pending /
    waiting / stuck), taken for a batch, buffered, delivered, cancelled with its task, rejected in `Started`;
    and nothing else is anywhere. -/
theorem conservation (tr : List Ev) (s : State) (h : Reach tr s) (id : Nat) :
    s.fresh.count id + s.inflight.count id + s.pending.count id + s.waiting.count id + s.stuck.count id +
    s.batch.count id + s.buffer.count id + s.delivered.count id + s.cancelled.count id + s.rejected.count id
      = if 1 ≤ id ∧ id ≤ s.kinds.length then 1 else 0 :=
  run_induct Conserved conserved_step tr init s conserved_init h id

theorem conserved_reach (tr : List Ev) (s : State) (h : Reach tr s) : Conserved s :=
  run_induct Conserved conserved_step tr init s conserved_init h

example : ∃ s, Reach [.connect true, .setState .connected, .produce 1 .other, .send 1 2, .fail 1,
    .setState .failed, .buf 1 2] s ∧ (s.buffer == [1] && s.sends == [1] && s.fails == [1] && s.ctr == 2) = true :=
  holdsAfter_spec _ _ (by decide)

/-- The runner never records two successful deliveries of one message. -/
theorem delivered_at_most_once (tr : List Ev) (s : State) (h : Reach tr s) (id : Nat) :
    s.delivered.count id ≤ 1 := by
  have := conservation tr s h id
  split at this <;> omega

/-- **A message is sent again only after an earlier attempt failed**: attempts ≤ failed attempts + 1. -/
theorem resend_only_after_failure (tr : List Ev) (s : State) (h : Reach tr s) (id : Nat) :
    s.sends.count id ≤ s.fails.count id + 1 := by
  have hr : ResendOK s := run_induct ResendOK resend_step tr init s resend_init h
  have hc := conservation tr s h id
  have := hr id
  split at hc <;> omega

/-- **Sequence numbers: assigned once, kept across re-sends.** -/
theorem seq_kept (tr es : List Ev) (s s' : State) (_ : Reach tr s) (h' : run s es = some s') (id q : Nat)
    (hq : seqOf s id = some q) : seqOf s' id = some q :=
  run_induct (fun t => seqOf t id = some q) (fun a b e hn ha => seqOf_stable a b e hn id q ha) es s s' hq h'

/-- … every send / buffer step carries exactly that number … -/
theorem seq_on_every_post (tr : List Ev) (s s' : State) (_ : Reach tr s) (e : Ev) (id q : Nat)
    (hn : next s e = some s') (he : e = .send id q ∨ e = .buf id q ∨ e = .bufTask id q) :
    seqOf s' id = some q :=
  step_carries_seq s s' e hn id q he

/-- … and it is unique. -/
theorem seq_unique (tr : List Ev) (s : State) (h : Reach tr s) (a b q : Nat)
    (ha : seqOf s a = some q) (hb : seqOf s b = some q) : a = b :=
  Runner.seq_unique s (run_induct SeqWF seqWF_step tr init s seqWF_init h) a b q ha hb

/-- **One sequence number per message across all attempts, at the dispatcher boundary.**  `wire` logs every
    attempt (first send and every re-send out of the buffer) with the number in the serialized message:
    all attempts of a message carry the same number, it is the number the message carries now, and two
    different messages never go over the wire under one number. -/
theorem attempts_one_sequence_number (tr : List Ev) (s : State) (h : Reach tr s) :
    (∀ i q q', (i, q) ∈ s.wire → (i, q') ∈ s.wire → q = q') ∧
    (∀ i j q, (i, q) ∈ s.wire → (j, q) ∈ s.wire → i = j) ∧
    (∀ i q, (i, q) ∈ s.wire → seqOf s i = some q) := by
  have hw : WireOK s := run_induct WireOK wireOK_step tr init s wireOK_init h
  have hs : SeqWF s := run_induct SeqWF seqWF_step tr init s seqWF_init h
  refine ⟨?_, ?_, fun i q hi => hw (i, q) hi⟩
  · intro i q q' h1 h2
    have a := hw (i, q) h1
    have b := hw (i, q') h2
    simp only at a b
    rw [a] at b; exact Option.some.inj b
  · intro i j q h1 h2
    exact Runner.seq_unique s hs i j q (hw (i, q) h1) (hw (j, q) h2)

/-- Non-vacuity: message 1 is attempted twice (first send fails, re-sent by the batch) under number 2. -/
example : ∃ s, Reach [.connect true, .setState .connected, .produce 1 .other, .send 1 2, .fail 1,
    .setState .failed, .buf 1 2, .disconnect, .setState .disconnected, .connect true, .setState .reconnecting,
    .setState .catchingUp, .take 1, .postBatch true [2]] s ∧ (s.wire == [(1, 2), (1, 2)]) = true :=
  holdsAfter_spec _ _ (by decide)

/-- **Nothing is stranded in the buffer once the runner reports it has caught up** (nor taken for a batch) —
    as long as no buffer task has been orphaned (`orphans = 0`; see `C27_counterexample_stranded`). -/
theorem caught_up_buffer_empty (tr : List Ev) (s : State) (h : Reach tr s) (ho : s.orphans = 0)
    (hs : s.st = .reconnected) : s.buffer = [] ∧ s.batch = [] := by
  have key : s.orphans = 0 → Idle s :=
    run_induct (fun t => t.orphans = 0 → Idle t)
      (fun a b e hn ha hb => idle_step a b e hn (ha (by have := orphans_mono a b e hn; omega)) hb)
      tr init s (fun _ => idle_init) h
  exact key ho (Or.inl hs)

/-- A message that has entered the buffer is never dropped by cancellation or rejection. -/
theorem buffered_never_dropped (tr : List Ev) (s : State) (h : Reach tr s) (id : Nat) (hb : id ∈ s.everBuf) :
    id ∉ s.cancelled ∧ id ∉ s.rejected := by
  have key : Conserved s ∧ EverOK s :=
    run_induct (fun t => Conserved t ∧ EverOK t)
      (fun a b e hn ha => ⟨conserved_step a b e hn ha.1, everOK_step a b e hn ha.1 ha.2⟩) tr init s
      ⟨conserved_init, everOK_init⟩ h
  exact ⟨(key.2 id hb).2.1, (key.2 id hb).2.2.1⟩

/-! ## The full statement, its refutation on the code as it is, and the part that holds -/

/-- Order clause on a state: every stop notification in the delivery log comes after the buffered run data of
    its run that was outstanding when the stop was posted (`owed`). -/
def OrderOK (s : State) : Prop :=
  ∀ p ∈ s.owed, p.2 ∈ s.delivered → before p.1 p.2 s.delivered = true

/-- No failed message is left behind a task that never ends. -/
def NoneStuck (s : State) : Prop := s.stuck = []

/-- **Delivery clause**: once the runner reports it has caught up (steady state; nothing buffered, taken for a
    batch, in flight, failed-and-unhandled or waiting to be posted) every message that carries evidence of a
    disconnect — created while the runner was Failed / Disconnected / Reconnecting, or a send attempt of it
    failed, or it was buffered — has been delivered. -/
def DeliveryOK (s : State) : Prop := CaughtUp s → ∀ id, Evidence s id → id ∈ s.delivered

/-- Everything C27 says about a reachable state. -/
structure Holds (s : State) : Prop where
  conserved : Conserved s
  seq : SeqWF s
  wire : WireOK s
  resend : ResendOK s
  caughtUp : s.st = .reconnected → s.buffer = []
  noneStuck : NoneStuck s
  delivery : DeliveryOK s
  orderFlag : s.orderViol = false
  order : OrderOK s

/-- Full statement of C27 over all traces. -/
def C27_full : Prop := ∀ tr s, Reach tr s → Holds s

/-- Witness (order): disconnect, run data (message 2, run 1) is buffered by the buffer task, reconnect,
    state CatchingUp, the run stops: RunStoppedMsg (message 3) is sent directly and answered while
    message 2 is still in the buffer. -/
def orderWitness : List Ev :=
  [.connect true, .setState .connected, .produce 1 .other, .send 1 2, .fail 1, .setState .failed, .buf 1 2,
   .produce 2 (.data 1), .bufTask 2 3, .disconnect, .setState .disconnected, .connect true,
   .setState .reconnecting, .setState .catchingUp, .produce 3 (.stop 1), .send 3 4, .ok 3]

theorem C27_counterexample : ¬ C27_full := by
  intro h
  obtain ⟨s, hs, hv⟩ := holdsAfter_spec orderWitness (fun s => s.orderViol) (by decide)
  have := (h orderWitness s hs).orderFlag
  rw [hv] at this; cases this

/-- Witness (loss): the steady-state task's own post (message 1) and an event post (message 2) fail
    together; handler 1 waits for itself, handler 2 waits for the state task; the task swallows the
    cancellation (`taskClear true`): message 2 is stuck. -/
def lossWitness : List Ev :=
  [.connect true, .setState .connected, .taskSet .steady, .produce 1 .other, .send 1 2, .produce 2 (.stop 1),
   .send 2 3, .fail 1, .fail 2, .setState .failed, .wait 1 true, .setState .failed, .wait 2 false,
   .taskClear true]

/-- From the witness state on, message 2 is never delivered and never buffered, whatever happens next. -/
theorem C27_counterexample_loss :
    ∃ s, Reach lossWitness s ∧ 2 ∈ s.stuck ∧
      ∀ es s', run s es = some s' → 2 ∈ s'.stuck ∧ 2 ∉ s'.delivered ∧ 2 ∉ s'.buffer ∧ 2 ∉ s'.inflight := by
  obtain ⟨s, hs, hm⟩ := holdsAfter_spec lossWitness (fun s => s.stuck.contains 2) (by decide)
  have hm : 2 ∈ s.stuck := by simpa using hm
  refine ⟨s, hs, hm, ?_⟩
  intro es s' he
  have hc : Conserved s := conserved_reach lossWitness s hs
  have key : Conserved s' ∧ 2 ∈ s'.stuck :=
    run_induct (fun t => Conserved t ∧ 2 ∈ t.stuck)
      (fun a b e hn ha => ⟨conserved_step a b e hn ha.1, stuck_mono a b e hn 2 ha.2⟩) es s s' ⟨hc, hm⟩ he
  have := stuck_elsewhere s' key.1 2 key.2
  exact ⟨key.2, this.1, this.2.1, this.2.2.2⟩

theorem C27_full_refuted_by_loss : ¬ C27_full := by
  intro h
  obtain ⟨s, hs, hm, _⟩ := C27_counterexample_loss
  have := (h lossWitness s hs).noneStuck
  unfold NoneStuck at this
  rw [this] at hm; cases hm

/-- Witness (delivery, same defect carried on to the end): after `lossWitness` the runner buffers message 1,
    disconnects, reconnects, catches up and reports Reconnected with nothing queued — message 2 (a
    RunStoppedMsg whose send had failed) was never delivered. -/
def deliveryWitnessStuck : List Ev :=
  lossWitness ++ [.taskSet .buffering, .buf 1 2, .disconnect, .setState .disconnected, .connect true,
    .setState .reconnecting, .setState .catchingUp, .take 1, .postBatch true [2], .ok 1, .setState .reconnected]

/-- Witness (delivery, second mechanism): an event post (1) and the steady-state task's own un-shielded post (2)
    fail together; the handler of 1 cancels the state task before the task has seen its failure — the
    CancelledError replaces the network error and message 2 is dropped (`cancel 2` out of `pending`). -/
def deliveryWitnessCancel : List Ev :=
  [.connect true, .setState .connected, .taskSet .steady, .produce 1 .other, .send 1 2, .produce 2 .other,
   .send 2 3, .fail 1, .fail 2, .setState .failed, .wait 1 false, .cancel 2, .taskClear false,
   .taskSet .buffering, .buf 1 2, .disconnect, .setState .disconnected, .connect true, .setState .reconnecting,
   .setState .catchingUp, .take 1, .postBatch true [2], .ok 1, .setState .reconnected]

def caughtUpB (s : State) : Bool :=
  (decide (s.st = .reconnected) || decide (s.st = .connected)) && s.fresh.isEmpty && s.inflight.isEmpty &&
  s.pending.isEmpty && s.waiting.isEmpty && s.batch.isEmpty && s.buffer.isEmpty

theorem caughtUpB_spec (s : State) (h : caughtUpB s = true) : CaughtUp s := by
  simp only [caughtUpB, Bool.and_eq_true, Bool.or_eq_true, decide_eq_true_eq, List.isEmpty_iff] at h
  obtain ⟨⟨⟨⟨⟨⟨h0, h1⟩, h2⟩, h3⟩, h4⟩, h5⟩, h6⟩ := h
  exact ⟨h0, h1, h2, h3, h4, h5, h6⟩

/-- The runner has caught up, message 2's send failed, message 2 was never delivered. -/
theorem C27_counterexample_delivery :
    (∃ s, Reach deliveryWitnessStuck s ∧ CaughtUp s ∧ Evidence s 2 ∧ 2 ∉ s.delivered) ∧
    (∃ s, Reach deliveryWitnessCancel s ∧ CaughtUp s ∧ Evidence s 2 ∧ 2 ∉ s.delivered) := by
  constructor
  · obtain ⟨s, hs, hp⟩ := holdsAfter_spec deliveryWitnessStuck
      (fun s => caughtUpB s && s.fails.contains 2 && !s.delivered.contains 2) (by decide)
    simp only [Bool.and_eq_true, Bool.not_eq_true'] at hp
    refine ⟨s, hs, caughtUpB_spec s hp.1.1, Or.inr (Or.inl (by simpa using hp.1.2)), ?_⟩
    intro hm; have : s.delivered.contains 2 = true := by simpa using hm
    rw [this] at hp; exact absurd hp.2 (by simp)
  · obtain ⟨s, hs, hp⟩ := holdsAfter_spec deliveryWitnessCancel
      (fun s => caughtUpB s && s.fails.contains 2 && !s.delivered.contains 2) (by decide)
    simp only [Bool.and_eq_true, Bool.not_eq_true'] at hp
    refine ⟨s, hs, caughtUpB_spec s hp.1.1, Or.inr (Or.inl (by simpa using hp.1.2)), ?_⟩
    intro hm; have : s.delivered.contains 2 = true := by simpa using hm
    rw [this] at hp; exact absurd hp.2 (by simp)

theorem C27_full_refuted_by_delivery : ¬ C27_full := by
  intro h
  obtain ⟨⟨s, hs, hq, he, hn⟩, _⟩ := C27_counterexample_delivery
  exact hn ((h deliveryWitnessStuck s hs).delivery hq 2 he)

/-- Witness (stranded): two sends of the steady-state loop fail together; both handlers wait for the cancelled
    state task; the first to wake installs a buffer task, the second executes `self._state_task = None` and
    installs another one: the first buffer task is orphaned (never cancelled).  After the catch-up the runner
    is Reconnected and the orphan buffers message 3. -/
def strandWitness : List Ev :=
  [.connect true, .setState .connected, .taskSet .steady, .produce 1 .other, .send 1 2, .produce 2 .other,
   .send 2 3, .fail 1, .fail 2, .setState .failed, .wait 1 false, .setState .failed, .wait 2 false,
   .taskClear false, .taskSet .buffering, .buf 1 2, .taskClear false, .taskSet .buffering, .buf 2 3,
   .disconnect, .setState .disconnected, .connect true, .setState .reconnecting, .setState .catchingUp,
   .take 2, .postBatch true [2, 3], .ok 1, .ok 2, .setState .reconnected, .waitOther, .taskClear false,
   .taskSet .steady, .produce 3 (.data 1), .bufTask 3 4]

theorem C27_counterexample_stranded :
    ∃ s, Reach strandWitness s ∧ s.st = .reconnected ∧ s.buffer = [3] := by
  obtain ⟨s, hs, hp⟩ := holdsAfter_spec strandWitness
    (fun s => decide (s.st = .reconnected) && s.buffer == [3]) (by decide)
  simp only [Bool.and_eq_true, decide_eq_true_eq, beq_iff_eq] at hp
  exact ⟨s, hs, hp.1, hp.2⟩

theorem C27_full_refuted_by_stranding : ¬ C27_full := by
  intro h
  obtain ⟨s, hs, hst, hb⟩ := C27_counterexample_stranded
  have := (h strandWitness s hs).caughtUp hst
  rw [this] at hb; cases hb

/-! ### What holds of the code as it is — each clause under the hypotheses it needs

Decidable hypotheses on the trace (`alongFrom p init tr`: predicate `p` holds at every step):
* `calmLoss`  — no step is (a) the state task clearing `_state_task` itself (swallowed self-cancellation) or
                (f) a cancelled send hitting a message with evidence of a disconnect;
* `calmOrder` — no step is (b) a stop notification sent directly while CatchingUp, (c) a failure of a message
                that had been buffered (a fault hitting a catch-up re-send), (d) a stop notification entering the
                buffer between a batch take and the posts of that batch, (e) a failure handler clearing
                `_state_task` while it refers to a live buffer task (orphaning it).
(a), (b), (e), (f) are the recorded defects of the code.  (c) and (d) are limits of this model, not of the
code: the model lets the steps of different tasks interleave at every await point, whereas asyncio runs the
failure handlers of one connection loss back to back and starts an engine-event post two loop iterations
after the event; `order_needs_c_in_model` / `order_needs_d_in_model` show that the model really admits
inversions there.  On traces with (c)/(d) — a second outage during catch-up — the order clause is judged by
the oracle on the real runner only; every other clause is proved for them. -/

def CalmLoss (tr : List Ev) : Prop := alongFrom calmLoss init tr = true
def CalmOrder (tr : List Ev) : Prop := alongFrom calmOrder init tr = true
def Calm (tr : List Ev) : Prop := calmFrom init tr = true

instance (tr : List Ev) : Decidable (CalmLoss tr) := by unfold CalmLoss; infer_instance
instance (tr : List Ev) : Decidable (CalmOrder tr) := by unfold CalmOrder; infer_instance
instance (tr : List Ev) : Decidable (Calm tr) := by unfold Calm; infer_instance

theorem calm_split (tr : List Ev) : ∀ s0, calmFrom s0 tr = true →
    alongFrom calmOrder s0 tr = true ∧ alongFrom calmLoss s0 tr = true := by
  induction tr with
  | nil => intro s0 _; exact ⟨rfl, rfl⟩
  | cons e es ih =>
    intro s0 h
    simp only [calmFrom, alongFrom, calmStep, Bool.and_eq_true] at h
    simp only [alongFrom, Bool.and_eq_true]
    cases hn : next s0 e with
    | none => rw [hn] at h; exact ⟨⟨h.1.1, rfl⟩, ⟨h.1.2, rfl⟩⟩
    | some s1 =>
      rw [hn] at h
      have := ih s1 (by simpa [calmFrom] using h.2)
      exact ⟨⟨h.1.1, this.1⟩, ⟨h.1.2, this.2⟩⟩

/-- generic induction along a trace on which `p` holds at every step -/
theorem along_induct (p : State → Ev → Bool) (P : State → Prop)
    (hstep : ∀ s s' e, next s e = some s' → p s e = true → P s → P s') (tr : List Ev) :
    ∀ s0 s, P s0 → alongFrom p s0 tr = true → run s0 tr = some s → P s := by
  induction tr with
  | nil => intro s0 s h0 _ hr; simp only [run] at hr; cases hr; exact h0
  | cons e es ih =>
    intro s0 s h0 ha hr
    simp only [run] at hr
    simp only [alongFrom, Bool.and_eq_true] at ha
    cases hn : next s0 e with
    | none => rw [hn] at hr; cases hr
    | some s1 =>
      rw [hn] at hr
      have h2 := ha.2
      rw [hn] at h2
      exact ih s1 s (hstep s0 s1 e hn ha.1 h0) h2 hr

theorem stuck_calm (s s' : State) (e : Ev) (h : next s e = some s') (hc : calmLoss s e = true)
    (hz : s.stuck = []) : s'.stuck = [] := by
  cases e with
  | taskClear self =>
    cases self
    · simp only [next] at h; split at h <;> cases h <;> exact hz
    · simp [calmLoss] at hc
  | produce i k => simp only [next] at h; split at h <;> cases h; exact hz
  | send i q => simp only [next] at h; split at h <;> cases h; exact hz
  | buf i q => simp only [next] at h; (repeat' split at h) <;> (try (cases h)) <;> exact hz
  | bufTask i q => simp only [next] at h; split at h <;> cases h; exact hz
  | reject i => simp only [next] at h; split at h <;> cases h; exact hz
  | ok i =>
    simp only [next] at h
    split at h
    · split at h <;> cases h; exact hz
    · cases h
  | fail i =>
    simp only [next] at h
    split at h
    · split at h <;> cases h; exact hz
    · cases h
  | cancel i => simp only [next] at h; (repeat' split at h) <;> (try (cases h)) <;> exact hz
  | setState t =>
    cases t <;> simp only [next] at h <;> (try (cases h)) <;>
      (repeat' split at h) <;> (try (cases h)) <;> exact hz
  | take n => simp only [next] at h; split at h <;> cases h; exact hz
  | postBatch sent qs =>
    cases sent <;> simp only [next] at h <;> split at h <;> (try (cases h)) <;> exact hz
  | connect b => simp only [next] at h; split at h <;> cases h; exact hz
  | disconnect => simp only [next] at h; cases h; exact hz
  | wait i self =>
    cases self <;> simp only [next] at h <;> split at h <;> (try (cases h)) <;> exact hz
  | waitOther => simp only [next] at h; split at h <;> cases h; exact hz
  | taskSet k => simp only [next] at h; cases h; exact hz

/-- **Loss / delivery clause** for every trace without (a) and (f): nothing gets stuck behind a task that never
    ends, and once the runner reports it has caught up every message with evidence of a disconnect has been
    delivered.  (No hypothesis about faults during catch-up: a second, third … outage is covered.) -/
theorem C27_delivery_partial (tr : List Ev) (s : State) (h : Reach tr s) (hcalm : CalmLoss tr) :
    NoneStuck s ∧ DeliveryOK s := by
  have key : Conserved s ∧ EverOK s ∧ EvOK s ∧ s.stuck = [] :=
    along_induct calmLoss (fun t => Conserved t ∧ EverOK t ∧ EvOK t ∧ t.stuck = [])
      (fun a b e hn hp ha => ⟨conserved_step a b e hn ha.1, everOK_step a b e hn ha.1 ha.2.1,
        evOK_step a b e hn hp ha.1 ha.2.1 ha.2.2.1, stuck_calm a b e hn hp ha.2.2.2⟩)
      tr init s ⟨conserved_init, everOK_init, evOK_init, rfl⟩ hcalm h
  obtain ⟨hc, _, hev, hst⟩ := key
  refine ⟨hst, ?_⟩
  intro hq id hE
  obtain ⟨a, b, c, d⟩ := hev.1 id hE
  exact delivered_of_caughtUp s hc hq id ⟨c, d⟩ a b (by rw [hst]; exact List.not_mem_nil)

/-- Non-vacuity: a trace with TWO outages (the second one during the catch-up: the re-sent batch fails and is
    buffered again), no (a)/(f) step, ending caught up with every message delivered. -/
def twoOutages : List Ev :=
  [.connect true, .setState .connected, .produce 1 .other, .send 1 2, .fail 1, .setState .failed, .buf 1 2,
   .produce 2 (.data 1), .bufTask 2 3, .disconnect, .setState .disconnected, .connect true,
   .setState .reconnecting, .setState .catchingUp, .take 2, .postBatch true [2, 3], .fail 1, .fail 2,
   .setState .failed, .buf 1 2, .setState .failed, .buf 2 3, .disconnect, .setState .disconnected,
   .connect true, .setState .reconnecting, .setState .catchingUp, .take 2, .postBatch true [2, 3], .ok 1, .ok 2,
   .setState .reconnected]

example : CalmLoss twoOutages ∧ ¬ CalmOrder twoOutages ∧ ∃ s, Reach twoOutages s ∧
    (caughtUpB s && s.delivered == [1, 2] && s.fails == [1, 1, 2]) = true :=
  ⟨by decide, by decide, holdsAfter_spec _ _ (by decide)⟩

theorem ordWF_of_calm (tr : List Ev) : ∀ s0 s, Conserved s0 → Idle s0 → s0.orphans = 0 → OrdWF s0 →
    alongFrom calmOrder s0 tr = true → run s0 tr = some s → OrdWF s ∧ Idle s ∧ s.orphans = 0 := by
  intro s0 s hc hi hz ho hcalm hr
  have key := along_induct calmOrder (fun t => Conserved t ∧ Idle t ∧ t.orphans = 0 ∧ OrdWF t)
    (fun a b e hn hp ha =>
      have hz1 := orphans_calm a b e hn hp ha.2.2.1
      ⟨conserved_step a b e hn ha.1, idle_step a b e hn ha.2.1 hz1, hz1,
        ordWF_step a b e hn hp ha.1 ha.2.1 ha.2.2.2⟩)
    tr s0 s ⟨hc, hi, hz, ho⟩ hcalm hr
  exact ⟨key.2.2.2, key.2.1, key.2.2.1⟩

/-- **Order and stranded clause** for every trace without (b), (c), (d), (e): every delivered stop notification
    comes after the buffered run data of its run, and the buffer is empty whenever the runner is Reconnected. -/
theorem C27_order_partial (tr : List Ev) (s : State) (h : Reach tr s) (hcalm : CalmOrder tr) :
    s.orderViol = false ∧ OrderOK s ∧ (s.st = .reconnected → s.buffer = []) := by
  obtain ⟨ho, hi, _⟩ := ordWF_of_calm tr init s conserved_init idle_init rfl ordWF_init hcalm h
  refine ⟨ho.2.2.1, ?_, fun hs => (hi (Or.inl hs)).1⟩
  intro p hp hd
  exact before_prefix _ _ _ _ (ho.2.1 p hp).2.2.2.2.1 hd

/-- **What holds of the code as it is**: on every calm trace, everything. -/
theorem C27_partial (tr : List Ev) (s : State) (h : Reach tr s) (hcalm : Calm tr) : Holds s := by
  obtain ⟨h1, h2⟩ := calm_split tr init hcalm
  obtain ⟨o1, o2, o3⟩ := C27_order_partial tr s h h1
  obtain ⟨d1, d2⟩ := C27_delivery_partial tr s h h2
  exact { conserved := conserved_reach tr s h
          seq := run_induct SeqWF seqWF_step tr init s seqWF_init h
          wire := run_induct WireOK wireOK_step tr init s wireOK_init h
          resend := run_induct ResendOK resend_step tr init s resend_init h
          caughtUp := o3, noneStuck := d1, delivery := d2, orderFlag := o1, order := o2 }

/-- Hypothesis (c) cannot be dropped *in the model*: the model admits this trace — the re-sent run data (2)
    fails, the stop (3) is buffered after `setState failed` but before the handler of 2 has buffered it again,
    so the next batch sends the stop first.  In the code `_set_state("Failed")` and `_buffer_message` of that
    handler run without an await in between while CatchingUp, so the real runner cannot do this. -/
def orderWitnessC : List Ev :=
  [.connect true, .setState .connected, .produce 1 .other, .send 1 2, .fail 1, .setState .failed, .buf 1 2,
   .produce 2 (.data 1), .bufTask 2 3, .disconnect, .setState .disconnected, .connect true,
   .setState .reconnecting, .setState .catchingUp, .take 2, .postBatch true [2, 3], .ok 1, .fail 2,
   .setState .failed, .produce 3 (.stop 1), .buf 3 4, .buf 2 3, .disconnect, .setState .disconnected,
   .connect true, .setState .reconnecting, .setState .catchingUp, .take 2, .postBatch true [4, 3], .ok 3]

theorem order_needs_c_in_model :
    CalmLoss orderWitnessC ∧ ∃ s, Reach orderWitnessC s ∧ s.orderViol = true :=
  ⟨by decide, holdsAfter_spec orderWitnessC (fun s => s.orderViol) (by decide)⟩

/-- Hypothesis (d) cannot be dropped in the model either: the stop (4) is buffered between the batch take and
    the (re-buffering) posts of the batch.  In the code the posts of the batch run in the loop iteration after
    the take, an engine-event post runs two iterations after the event. -/
def orderWitnessD : List Ev :=
  [.connect true, .setState .connected, .produce 1 .other, .send 1 2, .fail 1, .setState .failed, .buf 1 2,
   .produce 2 (.data 1), .bufTask 2 3, .disconnect, .setState .disconnected, .connect true,
   .setState .reconnecting, .setState .catchingUp, .produce 3 .other, .send 3 4, .take 2, .fail 3,
   .setState .failed, .produce 4 (.stop 1), .buf 4 5, .postBatch false [2, 3], .buf 3 4, .disconnect,
   .setState .disconnected, .connect true, .setState .reconnecting, .setState .catchingUp, .take 4,
   .postBatch true [5, 2, 3, 4], .ok 4]

theorem order_needs_d_in_model :
    CalmLoss orderWitnessD ∧ ∃ s, Reach orderWitnessD s ∧ s.orderViol = true :=
  ⟨by decide, holdsAfter_spec orderWitnessD (fun s => s.orderViol) (by decide)⟩

/-- Non-vacuity: a calm trace with a disconnect during run 1, buffered run data (2), the stop (3) posted while
    disconnected, reconnect, catch-up batch, everything answered in order, Reconnected with an empty buffer. -/
def calmWitness : List Ev :=
  [.connect true, .setState .connected, .produce 1 .other, .send 1 2, .fail 1, .setState .failed, .buf 1 2,
   .produce 2 (.data 1), .bufTask 2 3, .disconnect, .setState .disconnected, .produce 3 (.stop 1), .buf 3 4,
   .connect true, .setState .reconnecting, .setState .catchingUp, .take 3, .postBatch true [2, 3, 4],
   .ok 1, .ok 2, .ok 3, .setState .reconnected]

example : Calm calmWitness ∧ ∃ s, Reach calmWitness s ∧
    (caughtUpB s && s.delivered == [1, 2, 3] && s.owed == [(2, 3)] && decide (s.orphans = 0)) = true :=
  ⟨by decide, holdsAfter_spec _ _ (by decide)⟩

/-- A batch that is re-buffered (state changed between take and posts) is inside `CalmOrder` now. -/
example : CalmOrder [.connect true, .setState .connected, .produce 1 .other, .send 1 2, .fail 1,
    .setState .failed, .buf 1 2, .disconnect, .setState .disconnected, .connect true, .setState .reconnecting,
    .setState .catchingUp, .produce 2 .other, .send 2 3, .take 1, .fail 2, .setState .failed,
    .postBatch false [2], .buf 2 3] := by decide

/-- The witnesses are not calm: order (b), loss (a), stranding (e), cancelled failed send (f). -/
example : ¬ CalmOrder orderWitness ∧ ¬ CalmLoss lossWitness ∧ ¬ CalmOrder strandWitness ∧
    ¬ CalmLoss deliveryWitnessCancel := by decide

end OPM.C27
