import OPM.Model.Merge
import OPM.Lemmas.Interp
/-!
# C01 Live method edits never re-run or lose run progress  (and the edit half of C14)

"Saving an edited method while a run is active never re-executes an instruction that had already
started or completed and never discards completed work … The method state reported after the edit
contains everything it contained before, and an edit that changes a started line is rejected
without affecting the run. This holds for any number of successive edits …"

The model (`OPM.Model.Merge`) models the code **as it is** and the correspondence check confirms
it on every run: the state transplant of `HotSwapVisitor` is empty (root lookup without
`include_self`) and `merge_method` leaves the method manager with a state-less program.  Hence the
full statement is *false* of the code; it is kept visible below (`C01_full`), refuted by a concrete
witness (`C01_counterexample`, replayed on the real engine by the check → KNOWN-FINDING), and the
clauses that do hold are proved (`C01_partial_*`).
-/
namespace OPM.C01
open OPM.Interp OPM.Merge
attribute [-simp] OPM.Interp.getRt_eq

/-! ## what holds: rejection -/

/-- A rejected edit leaves method, interpreter state and the manager's view untouched. -/
theorem C01_partial_rejected_edit_changes_nothing (mm : MM) (new : Method)
    (h : (edit mm new).2 = .rejected) : (edit mm new).1 = mm := by
  simp only [edit] at h ⊢
  by_cases h1 : (mm.mmShared && (getRt mm.st 0).started) = true
  · by_cases h2 : validate mm new = true
    · rw [if_pos h1, if_pos h2] at h; cases h
    · rw [if_pos h1, if_neg h2]
  · rw [if_neg h1] at h; cases h

/-- While the method manager still sees the running program (first edit of a run), an edit that
    changes the text of a started or executed (not failed) line is rejected. -/
theorem C01_partial_started_line_edit_rejected (mm : MM) (new : Method) (id : Nat) (oldText newText : String)
    (hshared : mm.mmShared = true) (hroot : (getRt mm.st 0).started = true)
    (hprot : id ∈ protectedIds mm)
    (hold : mm.m.content.lookup id = some oldText)
    (hnew : (id, newText) ∈ new.content)
    (hdiff : (oldText == newText) = false) :
    (edit mm new).2 = .rejected := by
  have hv : validate mm new = false := by
    cases hv : validate mm new with
    | false => rfl
    | true =>
      exfalso
      unfold validate at hv
      simp only [Bool.and_eq_true, List.all_eq_true] at hv
      have := hv.1 (id, newText) hnew
      simp [hprot, hold, hdiff] at this
  have h1 : (mm.mmShared && (getRt mm.st 0).started) = true := by simp [hshared, hroot]
  have h2 : ¬ validate mm new = true := by simp [hv]
  simp only [edit]
  rw [if_pos h1, if_neg h2]

/-- The ids `protectedIds` protects are exactly those of started or completed, non-failed nodes. -/
theorem mem_protectedIds (mm : MM) (hshared : mm.mmShared = true) (id : Nat) :
    id ∈ protectedIds mm ↔
      ∃ k, k < mm.m.prog.size ∧ idOf mm.m k = id ∧ (getRt mm.st k).failed = false ∧
        ((getRt mm.st k).completed = true ∨ (getRt mm.st k).started = true) := by
  unfold protectedIds
  simp only [hshared, Bool.not_true, Bool.false_eq_true, if_false, List.mem_filterMap, List.mem_range]
  constructor
  · rintro ⟨k, hk, h⟩
    refine ⟨k, hk, ?_⟩
    cases hf : (getRt mm.st k).failed <;> cases hc : (getRt mm.st k).completed <;>
      cases hs : (getRt mm.st k).started <;> simp_all
  · rintro ⟨k, hk, hid, hf, hc⟩
    refine ⟨k, hk, ?_⟩
    cases hc' : (getRt mm.st k).completed <;> cases hs : (getRt mm.st k).started <;> simp_all

/-! ## what does not hold: an accepted live edit restarts the method -/

theorem foldl_pres_mem {α : Type} (P : St → Prop) (g : St → α → St) (l : List α)
    (hg : ∀ s a, a ∈ l → P s → P (g s a)) (s : St) (h : P s) : P (l.foldl g s) := by
  induction l generalizing s with
  | nil => exact h
  | cons a l ih =>
    simp only [List.foldl]
    apply ih
    · intro s a' ha' hs; exact hg s a' (List.mem_cons_of_mem _ ha') hs
    · exact hg s a List.mem_cons_self h

/-- The interpreter state installed by a merge has no started and no completed node. -/
theorem freshFromState_pristine (mm : MM) (new : Method) (k : Nat) :
    ((freshFromState mm new).rt k).started = false ∧ ((freshFromState mm new).rt k).completed = false := by
  unfold freshFromState
  simp only []
  refine foldl_pres_mem (fun s => (s.rt k).started = false ∧ (s.rt k).completed = false) _ _ ?_ _ ?_
  · intro s a _ hs
    split
    · split
      · simp only [rt_setRt]; split
        · rename_i e; subst e; exact hs
        · exact hs
      · exact hs
    · exact hs
  · refine foldl_pres_mem (fun s => (s.rt k).started = false ∧ (s.rt k).completed = false) _ _ ?_ _ ?_
    · intro s a _ hs
      split
      · split
        · simp only [rt_registerInterrupt]; split
          · rename_i e; subst e; exact hs
          · exact hs
        · exact hs
      · exact hs
    · simp [freshInterp, init]

/-- **As-is behaviour (the defect).** After an accepted live edit no node of the new program is
    started or completed: the transplanted state is empty, the run starts over. -/
theorem merge_discards_progress (mm : MM) (new : Method) (h : (edit mm new).2 = .merged) (k : Nat) :
    (((edit mm new).1.st).rt k).started = false ∧ (((edit mm new).1.st).rt k).completed = false := by
  simp only [edit] at h ⊢
  by_cases h1 : (mm.mmShared && (getRt mm.st 0).started) = true
  · by_cases h2 : validate mm new = true
    · rw [if_pos h1, if_pos h2]; exact freshFromState_pristine mm new k
    · rw [if_pos h1, if_neg h2] at h; cases h
  · rw [if_neg h1] at h; cases h

/-- …and the method manager's own view is detached from the running program. -/
theorem merge_detaches_manager_view (mm : MM) (new : Method) (h : (edit mm new).2 = .merged) :
    (edit mm new).1.mmShared = false ∧ protectedIds (edit mm new).1 = [] := by
  simp only [edit] at h ⊢
  by_cases h1 : (mm.mmShared && (getRt mm.st 0).started) = true
  · by_cases h2 : validate mm new = true
    · rw [if_pos h1, if_pos h2]; simp [protectedIds]
    · rw [if_pos h1, if_neg h2] at h; cases h
  · rw [if_neg h1] at h; cases h

/-- The property's first clause, over the model: every node that was completed before an accepted
    live edit and still exists (same line id) is completed afterwards. -/
def C01_full : Prop :=
  ∀ (mm : MM) (new : Method), (edit mm new).2 = .merged →
    ∀ k, k < mm.m.prog.size → (getRt mm.st k).completed = true →
      ∀ k', indexOfId new (idOf mm.m k) = some k' → (getRt (edit mm new).1.st k').completed = true

/-! Witness: `Mark: a / Wait: 1s / Mark: b`, five ticks (Mark a has completed), then `Mark: c` is appended. -/

def wProg : Prog := #[
  { kind := .program, parent := none, children := [1, 2, 3], threshold := none, keyPath := [0] },
  { kind := .mark "a", parent := some 0, children := [], threshold := none, keyPath := [0, 1] },
  { kind := .wait 1, parent := some 0, children := [], threshold := none, keyPath := [0, 2] },
  { kind := .mark "b", parent := some 0, children := [], threshold := none, keyPath := [0, 3] }]

def wProg' : Prog := #[
  { kind := .program, parent := none, children := [1, 2, 3, 4], threshold := none, keyPath := [0] },
  { kind := .mark "a", parent := some 0, children := [], threshold := none, keyPath := [0, 1] },
  { kind := .wait 1, parent := some 0, children := [], threshold := none, keyPath := [0, 2] },
  { kind := .mark "b", parent := some 0, children := [], threshold := none, keyPath := [0, 3] },
  { kind := .mark "c", parent := some 0, children := [], threshold := none, keyPath := [0, 4] }]

def wOld : Method := ⟨wProg, #[0, 1, 2, 3], #["P", "Mark|a", "Wait|1s", "Mark|b"],
  [(1, "Mark: a"), (2, "Wait: 1s"), (3, "Mark: b")]⟩
def wNew : Method := ⟨wProg', #[0, 1, 2, 3, 4], #["P", "Mark|a", "Wait|1s", "Mark|b", "Mark|c"],
  [(1, "Mark: a"), (2, "Wait: 1s"), (3, "Mark: b"), (4, "Mark: c")]⟩

def wRun (k : Nat) : St :=
  (List.range k).foldl (fun s i => (tick wProg s ⟨(i : Nat) / 8, (i : Nat) / 8, 0, []⟩).1) (init wProg)

def wMM : MM := { m := wOld, st := wRun 5 }

def wAfter (n : Nat) : St :=
  (List.range n).foldl (fun s i => (tick wProg' s ⟨(5 + i : Nat) / 8, (5 + i : Nat) / 8, 0, []⟩).1) (edit wMM wNew).1.st

/-- Before the edit `Mark: a` has completed and the Mark tag is "a"; the edit is accepted; afterwards
    line 1 is not completed any more, and running on sets the mark again: "a; a". -/
theorem C01_witness :
    ((wRun 5).rt 1).completed = true ∧ (wRun 5).marks = ["a"] ∧
    (edit wMM wNew).2 = .merged ∧
    (((edit wMM wNew).1.st).rt 1).completed = false ∧
    (wAfter 4).marks = ["a", "a"] := by
  decide +kernel

theorem C01_counterexample : ¬ C01_full := by
  intro h
  have := h wMM wNew (by decide +kernel) 1 (by decide +kernel) (by decide +kernel) 1 (by decide +kernel)
  revert this
  decide +kernel


/-! ## second witness: a live edit while a nested Watch is registered stalls the enclosing Watch

`Watch: T0 >= 0 / (Watch: T0 = 2 / Mark: m1) / Wait: 2s / Mark: m2`; `Mark: z` is appended at tick 10.
Loaded from the start the final method sets `m2`; the edited run never does: the restarted handler of
the outer Watch finds `interrupt_registered` on the nested Watch and waits for *its* condition. -/

def nProgOf (extra : Bool) : Prog := #[
  { kind := .program, parent := none, children := if extra then [1, 6] else [1], threshold := none, keyPath := [0] },
  { kind := .watch ⟨0, .ge, 0⟩, parent := some 0, children := [2, 4, 5], threshold := none, keyPath := [0, 1] },
  { kind := .watch ⟨0, .eq, 2⟩, parent := some 1, children := [3], threshold := none, keyPath := [0, 1, 1] },
  { kind := .mark "m1", parent := some 2, children := [], threshold := none, keyPath := [0, 1, 1, 1] },
  { kind := .wait 2, parent := some 1, children := [], threshold := none, keyPath := [0, 1, 2] },
  { kind := .mark "m2", parent := some 1, children := [], threshold := none, keyPath := [0, 1, 3] }] ++
  (if extra then #[{ kind := .mark "z", parent := some 0, children := [], threshold := none, keyPath := [0, 2] }] else #[])

def nOld : Method := ⟨nProgOf false, #[0, 1, 2, 3, 4, 5], #["P", "Watch|T0 >= 0", "Watch|T0 = 2", "Mark|m1", "Wait|2s", "Mark|m2"],
  [(1, "Watch: T0 >= 0"), (2, "    Watch: T0 = 2"), (3, "        Mark: m1"), (4, "    Wait: 2s"), (5, "    Mark: m2")]⟩
def nNew : Method := ⟨nProgOf true, #[0, 1, 2, 3, 4, 5, 6],
  #["P", "Watch|T0 >= 0", "Watch|T0 = 2", "Mark|m1", "Wait|2s", "Mark|m2", "Mark|z"],
  [(1, "Watch: T0 >= 0"), (2, "    Watch: T0 = 2"), (3, "        Mark: m1"), (4, "    Wait: 2s"), (5, "    Mark: m2"), (6, "Mark: z")]⟩

def nTicks (p : Prog) (s : St) (from_ n : Nat) : St :=
  (List.range n).foldl (fun s i => (tick p s ⟨(from_ + i : Nat) / 8, (from_ + i : Nat) / 8, 0, [0]⟩).1) s

def nMM : MM := { m := nOld, st := nTicks (nProgOf false) (init (nProgOf false)) 0 10 }

/-- Loaded from the start the final method sets `z` and `m2`; the edit at tick 10 is accepted while the
    nested Watch is registered and the outer one activated; 200 ticks later `m2` has still not been set. -/
theorem C01_witness_nested_interrupt :
    (nTicks (nProgOf true) (init (nProgOf true)) 0 60).marks = ["z", "m2"] ∧
    (nMM.st.rt 2).interruptRegistered = true ∧ (nMM.st.rt 1).activated = true ∧
    (edit nMM nNew).2 = .merged ∧
    (nTicks (nProgOf true) (edit nMM nNew).1.st 10 200).marks = ["z"] := by
  decide +kernel

/-! ## C14, edit half: an interrupt of injected code does not survive a live edit -/

/-- Interrupts whose node is not part of the new method (injected code has fresh ids) are not
    re-registered by a merge. -/
theorem freshFromState_imap (mm : MM) (new : Method) (k : Nat)
    (hk : k ∈ ((freshFromState mm new).imap).map (·.1)) :
    ∃ e ∈ mm.st.imap, indexOfId new (idOf mm.m e.1) = some k := by
  revert hk
  unfold freshFromState
  simp only []
  refine foldl_pres_mem (fun s => k ∈ s.imap.map (·.1) → ∃ e ∈ mm.st.imap, indexOfId new (idOf mm.m e.1) = some k)
    _ _ ?_ _ ?_
  · intro s a _ hs
    split
    · split
      · exact hs
      · exact hs
    · exact hs
  · refine foldl_pres_mem (fun s => k ∈ s.imap.map (·.1) → ∃ e ∈ mm.st.imap, indexOfId new (idOf mm.m e.1) = some k)
      _ _ ?_ _ ?_
    · intro s a ha hs
      split
      · rename_i kk hkk
        split
        · intro hmem
          have himap : (registerInterrupt new.prog s kk).imap = dictSet s.imap kk s.nextGid := by
            unfold registerInterrupt; simp only []; split <;> rfl
          rw [himap] at hmem
          by_cases hkk' : k = kk
          · exact ⟨a, ha, by rw [hkk']; exact hkk⟩
          · apply hs
            unfold dictSet at hmem
            split at hmem
            · simp only [List.map_map, List.mem_map, Function.comp] at hmem ⊢
              obtain ⟨x, hx, hxe⟩ := hmem
              refine ⟨x, hx, ?_⟩
              split at hxe
              · exact absurd hxe.symm hkk'
              · exact hxe
            · simp only [List.map_append, List.mem_append, List.map_cons, List.map_nil,
                List.mem_singleton] at hmem
              rcases hmem with h | h
              · exact h
              · exact absurd h hkk'
        · exact hs
      · exact hs
    · intro h; simp [freshInterp, init] at h

/-- Interrupts whose node is not part of the new method (injected code has fresh ids) are not
    re-registered by a merge: every interrupt after the merge stems from an old interrupt whose
    line id exists in the new method. -/
theorem merge_drops_unknown_interrupts (mm : MM) (new : Method) (h : (edit mm new).2 = .merged) (k : Nat)
    (hk : k ∈ ((edit mm new).1.st.imap).map (·.1)) :
    ∃ e ∈ mm.st.imap, indexOfId new (idOf mm.m e.1) = some k := by
  simp only [edit] at h hk
  by_cases h1 : (mm.mmShared && (getRt mm.st 0).started) = true
  · by_cases h2 : validate mm new = true
    · rw [if_pos h1, if_pos h2] at hk; exact freshFromState_imap mm new k hk
    · rw [if_pos h1, if_neg h2] at h; cases h
  · rw [if_neg h1] at h; cases h

end OPM.C01
