import OPM.Model.Merge
import OPM.Lemmas.Interp
import OPM.Lemmas.MergeHist
/-!
# C01 Live method edits never re-run or lose run progress  (and the edit half of C14)

"Saving an edited method while a run is active never re-executes an instruction that had already
started or completed and never discards completed work … The method state reported after the edit
contains everything it contained before, and an edit that changes a started line is rejected
without affecting the run. This holds for any number of successive edits …"

The model (`OPM.Model.Merge`) models the code **as it is** and the correspondence check confirms
it on every run: the state transplant of `HotSwapVisitor` is empty (root lookup without
`include_self`) and `merge_method` leaves the method manager with a state-less program.  Hence the
full statement is *false* of the code; it is kept visible below (`C01_full`), refuted by a concrete
witness (`C01_counterexample`, replayed on the real engine by the check → KNOWN-FINDING), and the
clauses that do hold are proved (`C01_partial_*`).
-/
namespace OPM.C01
open OPM.Interp OPM.Merge
attribute [-simp] OPM.Interp.getRt_eq

/-! ## what holds: rejection -/

/-- A rejected edit leaves method, interpreter state and the manager's view untouched. -/
theorem C01_partial_rejected_edit_changes_nothing (mm : MM) (new : Method)
    (h : (edit mm new).2 = .rejected) : (edit mm new).1 = mm := by
  simp only [edit] at h ⊢
  by_cases h1 : (mm.mmShared && (getRt mm.st 0).started) = true
  · by_cases h2 : validate mm new = true
    · rw [if_pos h1, if_pos h2] at h; cases h
    · rw [if_pos h1, if_neg h2]
  · rw [if_neg h1] at h; cases h

/-- While the method manager still sees the running program (first edit of a run), an edit that
    changes the text of a started or executed (not failed) line is rejected. -/
theorem C01_partial_started_line_edit_rejected (mm : MM) (new : Method) (id : Nat) (oldText newText : String)
    (hshared : mm.mmShared = true) (hroot : (getRt mm.st 0).started = true)
    (hprot : id ∈ protectedIds mm)
    (hold : mm.m.content.lookup id = some oldText)
    (hnew : (id, newText) ∈ new.content)
    (hdiff : (oldText == newText) = false) :
    (edit mm new).2 = .rejected := by
  have hv : validate mm new = false := by
    cases hv : validate mm new with
    | false => rfl
    | true =>
      exfalso
      unfold validate at hv
      simp only [Bool.and_eq_true, List.all_eq_true] at hv
      have := hv.1 (id, newText) hnew
      simp [hprot, hold, hdiff] at this
  have h1 : (mm.mmShared && (getRt mm.st 0).started) = true := by simp [hshared, hroot]
  have h2 : ¬ validate mm new = true := by simp [hv]
  simp only [edit]
  rw [if_pos h1, if_neg h2]

/-- The ids `protectedIds` protects are exactly those of started or completed, non-failed nodes. -/
theorem mem_protectedIds (mm : MM) (hshared : mm.mmShared = true) (id : Nat) :
    id ∈ protectedIds mm ↔
      ∃ k, k < mm.m.prog.size ∧ idOf mm.m k = id ∧ (getRt mm.st k).failed = false ∧
        ((getRt mm.st k).completed = true ∨ (getRt mm.st k).started = true) := by
  unfold protectedIds
  simp only [hshared, Bool.not_true, Bool.false_eq_true, if_false, List.mem_filterMap, List.mem_range]
  constructor
  · rintro ⟨k, hk, h⟩
    refine ⟨k, hk, ?_⟩
    cases hf : (getRt mm.st k).failed <;> cases hc : (getRt mm.st k).completed <;>
      cases hs : (getRt mm.st k).started <;> simp_all
  · rintro ⟨k, hk, hid, hf, hc⟩
    refine ⟨k, hk, ?_⟩
    cases hc' : (getRt mm.st k).completed <;> cases hs : (getRt mm.st k).started <;> simp_all

/-! ## what does not hold: an accepted live edit restarts the method -/

theorem foldl_pres_mem {α : Type} (P : St → Prop) (g : St → α → St) (l : List α)
    (hg : ∀ s a, a ∈ l → P s → P (g s a)) (s : St) (h : P s) : P (l.foldl g s) := by
  induction l generalizing s with
  | nil => exact h
  | cons a l ih =>
    simp only [List.foldl]
    apply ih
    · intro s a' ha' hs; exact hg s a' (List.mem_cons_of_mem _ ha') hs
    · exact hg s a List.mem_cons_self h

/-- The interpreter state installed by a merge has no started and no completed node. -/
theorem freshFromState_pristine (mm : MM) (new : Method) (k : Nat) :
    ((freshFromState mm new).rt k).started = false ∧ ((freshFromState mm new).rt k).completed = false := by
  unfold freshFromState
  simp only []
  refine foldl_pres_mem (fun s => (s.rt k).started = false ∧ (s.rt k).completed = false) _ _ ?_ _ ?_
  · intro s a _ hs
    split
    · split
      · simp only [rt_setRt]; split
        · rename_i e; subst e; exact hs
        · exact hs
      · exact hs
    · exact hs
  · refine foldl_pres_mem (fun s => (s.rt k).started = false ∧ (s.rt k).completed = false) _ _ ?_ _ ?_
    · intro s a _ hs
      split
      · split
        · simp only [rt_registerInterrupt]; split
          · rename_i e; subst e; exact hs
          · exact hs
        · exact hs
      · exact hs
    · simp [freshInterp, init]

/-- **As-is behaviour (the defect).** After an accepted live edit no node of the new program is
    started or completed: the transplanted state is empty, the run starts over. -/
theorem merge_discards_progress (mm : MM) (new : Method) (h : (edit mm new).2 = .merged) (k : Nat) :
    (((edit mm new).1.st).rt k).started = false ∧ (((edit mm new).1.st).rt k).completed = false := by
  simp only [edit] at h ⊢
  by_cases h1 : (mm.mmShared && (getRt mm.st 0).started) = true
  · by_cases h2 : validate mm new = true
    · rw [if_pos h1, if_pos h2]; exact freshFromState_pristine mm new k
    · rw [if_pos h1, if_neg h2] at h; cases h
  · rw [if_neg h1] at h; cases h

/-- …and the method manager's own view is detached from the running program. -/
theorem merge_detaches_manager_view (mm : MM) (new : Method) (h : (edit mm new).2 = .merged) :
    (edit mm new).1.mmShared = false ∧ protectedIds (edit mm new).1 = [] := by
  simp only [edit] at h ⊢
  by_cases h1 : (mm.mmShared && (getRt mm.st 0).started) = true
  · by_cases h2 : validate mm new = true
    · rw [if_pos h1, if_pos h2]; simp [protectedIds]
    · rw [if_pos h1, if_neg h2] at h; cases h
  · rw [if_neg h1] at h; cases h

/-- The property's first clause, over the model: every node that was completed before an accepted
    live edit and still exists (same line id) is completed afterwards. -/
def C01_full : Prop :=
  ∀ (mm : MM) (new : Method), (edit mm new).2 = .merged →
    ∀ k, k < mm.m.prog.size → (getRt mm.st k).completed = true →
      ∀ k', indexOfId new (idOf mm.m k) = some k' → (getRt (edit mm new).1.st k').completed = true

/-! Witness: `Mark: a / Wait: 1s / Mark: b`, five ticks (Mark a has completed), then `Mark: c` is appended. -/

def wProg : Prog := #[
  { kind := .program, parent := none, children := [1, 2, 3], threshold := none, keyPath := [0] },
  { kind := .mark "a", parent := some 0, children := [], threshold := none, keyPath := [0, 1] },
  { kind := .wait 1, parent := some 0, children := [], threshold := none, keyPath := [0, 2] },
  { kind := .mark "b", parent := some 0, children := [], threshold := none, keyPath := [0, 3] }]

def wProg' : Prog := #[
  { kind := .program, parent := none, children := [1, 2, 3, 4], threshold := none, keyPath := [0] },
  { kind := .mark "a", parent := some 0, children := [], threshold := none, keyPath := [0, 1] },
  { kind := .wait 1, parent := some 0, children := [], threshold := none, keyPath := [0, 2] },
  { kind := .mark "b", parent := some 0, children := [], threshold := none, keyPath := [0, 3] },
  { kind := .mark "c", parent := some 0, children := [], threshold := none, keyPath := [0, 4] }]

def wOld : Method := ⟨wProg, #[0, 1, 2, 3], #["P", "Mark|a", "Wait|1s", "Mark|b"],
  [(1, "Mark: a"), (2, "Wait: 1s"), (3, "Mark: b")]⟩
def wNew : Method := ⟨wProg', #[0, 1, 2, 3, 4], #["P", "Mark|a", "Wait|1s", "Mark|b", "Mark|c"],
  [(1, "Mark: a"), (2, "Wait: 1s"), (3, "Mark: b"), (4, "Mark: c")]⟩

def wRun (k : Nat) : St :=
  (List.range k).foldl (fun s i => (tick wProg s ⟨(i : Nat) / 8, (i : Nat) / 8, 0, []⟩).1) (init wProg)

def wMM : MM := { m := wOld, st := wRun 5 }

def wAfter (n : Nat) : St :=
  (List.range n).foldl (fun s i => (tick wProg' s ⟨(5 + i : Nat) / 8, (5 + i : Nat) / 8, 0, []⟩).1) (edit wMM wNew).1.st

/-- Before the edit `Mark: a` has completed and the Mark tag is "a"; the edit is accepted; afterwards
    line 1 is not completed any more, and running on sets the mark again: "a; a". -/
theorem C01_witness :
    ((wRun 5).rt 1).completed = true ∧ (wRun 5).marks = ["a"] ∧
    (edit wMM wNew).2 = .merged ∧
    (((edit wMM wNew).1.st).rt 1).completed = false ∧
    (wAfter 4).marks = ["a", "a"] := by
  decide +kernel

theorem C01_counterexample : ¬ C01_full := by
  intro h
  have := h wMM wNew (by decide +kernel) 1 (by decide +kernel) (by decide +kernel) 1 (by decide +kernel)
  revert this
  decide +kernel


/-! ## non-vacuity of the `_partial` theorems, and what "without affecting the run" means

`wBad` changes the text of line 1 (`Mark: a`, completed after five ticks): the hypotheses of both
`_partial` theorems hold of the concrete state `wMM`. -/

def wBad : Method := ⟨#[
  { kind := .program, parent := none, children := [1, 2, 3], threshold := none, keyPath := [0] },
  { kind := .mark "z", parent := some 0, children := [], threshold := none, keyPath := [0, 1] },
  { kind := .wait 1, parent := some 0, children := [], threshold := none, keyPath := [0, 2] },
  { kind := .mark "b", parent := some 0, children := [], threshold := none, keyPath := [0, 3] }],
  #[0, 1, 2, 3], #["P", "Mark|z", "Wait|1s", "Mark|b"],
  [(1, "Mark: z"), (2, "Wait: 1s"), (3, "Mark: b")]⟩

example : (edit wMM wBad).2 = .rejected ∧ (edit wMM wBad).1 = wMM :=
  ⟨by decide +kernel, C01_partial_rejected_edit_changes_nothing wMM wBad (by decide +kernel)⟩

example : (edit wMM wBad).2 = .rejected :=
  C01_partial_started_line_edit_rejected wMM wBad 1 "Mark: a" "Mark: z"
    (by decide +kernel) (by decide +kernel) (by decide +kernel) (by decide +kernel) (by decide +kernel)
    (by decide +kernel)

/-- "…is rejected without affecting the run": after a rejected edit every continuation of the run
    (ticks, command completions, cancel / force requests, injections, further edits) is the
    continuation of the run without the edit. -/
theorem C01_partial_rejected_edit_future_unchanged (mm : MM) (new : Method)
    (h : (edit mm new).2 = .rejected) (ops : List HOp) :
    runH (edit mm new).1 ops = runH mm ops :=
  rejected_edit_future_unchanged mm new h ops

example : (runH (edit wMM wBad).1 [.tick ⟨5/8, 5/8, 0, []⟩, .edit wNew]).2 = [.merged] ∧
    runH (edit wMM wBad).1 [.tick ⟨5/8, 5/8, 0, []⟩, .edit wNew] = runH wMM [.tick ⟨5/8, 5/8, 0, []⟩, .edit wNew] :=
  ⟨by decide +kernel, C01_partial_rejected_edit_future_unchanged wMM wBad (by decide +kernel) _⟩

/-! ## as-is behaviour for every state and every history

(`OPM.Lemmas.MergeHist`.)  These are *not* what the property asks for — they say exactly how the code
falls short of it, for all states, so that the oracle's known-finding keys have a theorem behind
them. -/

/-- Every accepted edit — merged or set, first or hundredth, whatever was running — installs the new
    method with an interpreter in which no node has any progress (`PristineRt`: not started, not
    completed, child index 0, no wait start, no run counts …), whose main generator stands in front of
    the program node and whose only other generators are brand-new ones; only the tags (Mark, Block,
    Base) are kept. -/
theorem every_accepted_edit_restarts (mm : MM) (new : Method) (h : (edit mm new).2 ≠ .rejected) :
    (edit mm new).1.m = new ∧ Restarted mm.st (edit mm new).1.st :=
  accepted_edit_restarts mm new h

example : (edit wMM wNew).2 ≠ .rejected := by decide +kernel

/-- …after any history: ticks, requests, injections and earlier edits in any number and order. -/
theorem accepted_edit_restarts_after_any_history (mm : MM) (ops : List HOp) (new : Method)
    (h : (edit (runH mm ops).1 new).2 ≠ .rejected) :
    (runH mm (ops ++ [.edit new])).1.m = new ∧
    Restarted (runH mm ops).1.st (runH mm (ops ++ [.edit new])).1.st :=
  history_ending_in_accepted_edit_restarts mm ops new h

/-- Simulation, as the code is: when no Watch / Alarm / injected code and no macro is registered, the
    state after a merge *is* a new interpreter over the new method (tags kept) — the run continues as
    a run of the edited method from its first line, not from where it was. -/
theorem merge_is_a_fresh_start (mm : MM) (new : Method)
    (hi : mm.st.imap = []) (hm : mm.st.macros = []) (h : (edit mm new).2 = .merged) :
    (edit mm new).1.st = freshInterp mm.st new.prog :=
  merge_without_registrations_is_fresh_start mm new hi hm h

example : wMM.st.imap = [] ∧ wMM.st.macros = [] ∧ (edit wMM wNew).2 = .merged := by decide +kernel

/-- **Successive edits.** After one merged edit the method manager looks at a state-less copy of the
    program.  Through any number of ticks, requests and injections that stays so; hence the next edit
    — any edit, also one that rewrites lines the interpreter has started — goes through `set_method`:
    not validated, never rejected. -/
theorem second_edit_not_validated (mm : MM) (new : Method) (h : (edit mm new).2 = .merged)
    (ops : List HOp) (hops : ∀ o ∈ ops, o.isEdit = false) (new' : Method) :
    (edit (runH (edit mm new).1 ops).1 new').2 = .set :=
  edit_after_merge_is_set mm new h ops hops new'

/-- **Any number of edits.** In a burst of edits everything after the first accepted one is `set`. -/
theorem burst_of_edits_all_set (mm : MM) (new : Method) (h : (edit mm new).2 ≠ .rejected)
    (news : List Method) : ∀ r ∈ (runEdits (edit mm new).1 news).2, r = .set :=
  edits_after_accepted_all_set mm new h news

example : (runEdits (edit wMM wNew).1 [wBad, wNew, wBad]).2 = [.set, .set, .set] := by decide +kernel

/-- **Edits while injected code is running.** A `set` edit (every edit after the first) drops all
    interrupts — Watches, Alarms and injected code alike. -/
theorem set_edit_forgets_interrupts (mm : MM) (new : Method) (h : (edit mm new).2 = .set) :
    (edit mm new).1.st.imap = [] ∧ (edit mm new).1.st.macros = [] ∧ (edit mm new).1.st.gens = [mainGen] :=
  set_edit_drops_all_interrupts mm new h

/-- After any accepted edit every generator is new and stands in front of its node: no generator of
    the old interpreter — in particular none that was half-way through injected code — survives. -/
theorem accepted_edit_keeps_no_generator (mm : MM) (new : Method) (h : (edit mm new).2 ≠ .rejected) :
    ∀ g ∈ (edit mm new).1.st.gens, g.stack = [.wrapEnter g.node] :=
  merged_gens mm new h

/-! ### deleting a started line

The property: "an edit that changes a started line is rejected".  Removing the line is the most
drastic change; `_validate_liveedit_method` only looks at the lines that are still there. -/

/-- An edit that removes a protected (started / executed) line is rejected. -/
def C01_full_delete : Prop :=
  ∀ (mm : MM) (new : Method) (id : Nat), mm.mmShared = true → (getRt mm.st 0).started = true →
    id ∈ protectedIds mm → id ∉ new.content.map (·.1) → (edit mm new).2 = .rejected

/-- `wNew` without line 2 (`Wait: 1s`, which is running after five ticks). -/
def wDel : Method := ⟨#[
  { kind := .program, parent := none, children := [1, 2, 3], threshold := none, keyPath := [0] },
  { kind := .mark "a", parent := some 0, children := [], threshold := none, keyPath := [0, 1] },
  { kind := .mark "b", parent := some 0, children := [], threshold := none, keyPath := [0, 2] },
  { kind := .mark "c", parent := some 0, children := [], threshold := none, keyPath := [0, 3] }],
  #[0, 1, 3, 4], #["P", "Mark|a", "Mark|b", "Mark|c"],
  [(1, "Mark: a"), (3, "Mark: b"), (4, "Mark: c")]⟩

theorem C01_witness_deleted_line :
    ((wRun 5).rt 2).started = true ∧ ((wRun 5).rt 2).completed = false ∧ 2 ∈ protectedIds wMM ∧
    (edit wMM wDel).2 = .merged := by
  decide +kernel

theorem C01_delete_counterexample : ¬ C01_full_delete := by
  intro h
  have := h wMM wDel 2 (by decide +kernel) (by decide +kernel) (by decide +kernel) (by decide +kernel)
  revert this
  decide +kernel

/-- As-is, for every state: an edit none of whose remaining lines is protected (all started lines
    removed, the others changed at will) passes the line check; with no started macro it is accepted. -/
theorem edit_keeping_no_started_line_accepted (mm : MM) (new : Method)
    (hshared : mm.mmShared = true) (hroot : (getRt mm.st 0).started = true)
    (hlines : ∀ p ∈ new.content, p.1 ∉ protectedIds mm)
    (hmac : ∀ e ∈ mm.st.macros, (getRt mm.st e.2).runStarted = 0) :
    (edit mm new).2 = .merged := by
  have hv : validate mm new = true := by
    unfold validate
    simp only [Bool.and_eq_true, List.all_eq_true]
    constructor
    · intro p hp
      have := hlines p hp
      simp [this]
    · intro e he
      have h0 := hmac e (by simpa [hshared] using he)
      simp [h0]
  rcases edit_cases mm new with ⟨_, _, e⟩ | ⟨_, h2, _⟩ | ⟨h1, _⟩
  · rw [e]
  · rw [hv] at h2; cases h2
  · simp [hshared, hroot] at h1

example : (∀ p ∈ ([] : List (Nat × String)), p.1 ∉ protectedIds wMM) ∧
    (∀ e ∈ wMM.st.macros, (getRt wMM.st e.2).runStarted = 0) := by
  constructor
  · intro p hp; cases hp
  · decide +kernel

/-! ### witness: the second edit rewrites a completed line and is accepted

`wMM` --`wNew` (merged)--> four ticks (`Mark: a` has run a second time) --`wBad'`--> `set`:
`wBad'` is `wNew` with line 1 rewritten to `Mark: z`. -/

def wBad' : Method := ⟨#[
  { kind := .program, parent := none, children := [1, 2, 3, 4], threshold := none, keyPath := [0] },
  { kind := .mark "z", parent := some 0, children := [], threshold := none, keyPath := [0, 1] },
  { kind := .wait 1, parent := some 0, children := [], threshold := none, keyPath := [0, 2] },
  { kind := .mark "b", parent := some 0, children := [], threshold := none, keyPath := [0, 3] },
  { kind := .mark "c", parent := some 0, children := [], threshold := none, keyPath := [0, 4] }],
  #[0, 1, 2, 3, 4], #["P", "Mark|z", "Wait|1s", "Mark|b", "Mark|c"],
  [(1, "Mark: z"), (2, "Wait: 1s"), (3, "Mark: b"), (4, "Mark: c")]⟩

def wTicks (from_ n : Nat) : List HOp :=
  (List.range n).map (fun i => .tick ⟨(from_ + i : Nat) / 8, (from_ + i : Nat) / 8, 0, []⟩)

theorem C01_witness_second_edit :
    -- after the first edit and four ticks line 1 has completed again …
    ((runH (edit wMM wNew).1 (wTicks 5 4)).1.st.rt 1).completed = true ∧
    -- … the edit that rewrites it is accepted without validation …
    (runH wMM ([.edit wNew] ++ wTicks 5 4 ++ [.edit wBad'])).2 = [.merged, .set] ∧
    -- … and the run starts over once more with the rewritten line
    (runH wMM ([.edit wNew] ++ wTicks 5 4 ++ [.edit wBad'] ++ wTicks 9 20)).1.st.marks = ["a", "a", "z", "b", "c"] := by
  decide +kernel

/-! ### witness: an edit while injected code is running

Method `Mark: a / Wait: 1s / Mark: b`; after three ticks `Wait: 0.5s / Mark: inj` is injected
(nodes 4–6, outside the program); two ticks later `Mark: c` is appended.  Without the edit the run
sets `a, inj, b`; with it the injected code is gone and `a` is set twice. -/

def iExtra : Array Node := #[
  { kind := .injected, parent := none, children := [5, 6], threshold := none, keyPath := [9], inProgram := false },
  { kind := .wait (1/2), parent := some 4, children := [], threshold := none, keyPath := [9, 1], inProgram := false },
  { kind := .mark "inj", parent := some 4, children := [], threshold := none, keyPath := [9, 2], inProgram := false }]

def iStart : MM := { m := wOld, st := init wProg }

def iHist : List HOp :=
  wTicks 0 3 ++ [.inject iExtra #[100, 101, 102] #["Inj", "Wait|0.5s", "Mark|inj"] 4] ++ wTicks 3 2

theorem C01_witness_injected :
    (runH iStart (iHist ++ wTicks 5 30)).1.st.marks = ["a", "inj", "b"] ∧
    (runH iStart iHist).1.st.imap.map (·.1) = [4] ∧
    (runH iStart (iHist ++ [.edit wNew])).2 = [.merged] ∧
    (runH iStart (iHist ++ [.edit wNew])).1.st.imap = [] ∧
    (runH iStart (iHist ++ [.edit wNew] ++ wTicks 5 30)).1.st.marks = ["a", "a", "b", "c"] := by
  decide +kernel

/-! ## second witness: a live edit while a nested Watch is registered stalls the enclosing Watch

`Watch: T0 >= 0 / (Watch: T0 = 2 / Mark: m1) / Wait: 2s / Mark: m2`; `Mark: z` is appended at tick 10.
Loaded from the start the final method sets `m2`; the edited run never does: the restarted handler of
the outer Watch finds `interrupt_registered` on the nested Watch and waits for *its* condition. -/

def nProgOf (extra : Bool) : Prog := #[
  { kind := .program, parent := none, children := if extra then [1, 6] else [1], threshold := none, keyPath := [0] },
  { kind := .watch ⟨0, .ge, 0⟩, parent := some 0, children := [2, 4, 5], threshold := none, keyPath := [0, 1] },
  { kind := .watch ⟨0, .eq, 2⟩, parent := some 1, children := [3], threshold := none, keyPath := [0, 1, 1] },
  { kind := .mark "m1", parent := some 2, children := [], threshold := none, keyPath := [0, 1, 1, 1] },
  { kind := .wait 2, parent := some 1, children := [], threshold := none, keyPath := [0, 1, 2] },
  { kind := .mark "m2", parent := some 1, children := [], threshold := none, keyPath := [0, 1, 3] }] ++
  (if extra then #[{ kind := .mark "z", parent := some 0, children := [], threshold := none, keyPath := [0, 2] }] else #[])

def nOld : Method := ⟨nProgOf false, #[0, 1, 2, 3, 4, 5], #["P", "Watch|T0 >= 0", "Watch|T0 = 2", "Mark|m1", "Wait|2s", "Mark|m2"],
  [(1, "Watch: T0 >= 0"), (2, "    Watch: T0 = 2"), (3, "        Mark: m1"), (4, "    Wait: 2s"), (5, "    Mark: m2")]⟩
def nNew : Method := ⟨nProgOf true, #[0, 1, 2, 3, 4, 5, 6],
  #["P", "Watch|T0 >= 0", "Watch|T0 = 2", "Mark|m1", "Wait|2s", "Mark|m2", "Mark|z"],
  [(1, "Watch: T0 >= 0"), (2, "    Watch: T0 = 2"), (3, "        Mark: m1"), (4, "    Wait: 2s"), (5, "    Mark: m2"), (6, "Mark: z")]⟩

def nTicks (p : Prog) (s : St) (from_ n : Nat) : St :=
  (List.range n).foldl (fun s i => (tick p s ⟨(from_ + i : Nat) / 8, (from_ + i : Nat) / 8, 0, [0]⟩).1) s

def nMM : MM := { m := nOld, st := nTicks (nProgOf false) (init (nProgOf false)) 0 10 }

/-- Loaded from the start the final method sets `z` and `m2`; the edit at tick 10 is accepted while the
    nested Watch is registered and the outer one activated; 200 ticks later `m2` has still not been set. -/
theorem C01_witness_nested_interrupt :
    (nTicks (nProgOf true) (init (nProgOf true)) 0 60).marks = ["z", "m2"] ∧
    (nMM.st.rt 2).interruptRegistered = true ∧ (nMM.st.rt 1).activated = true ∧
    (edit nMM nNew).2 = .merged ∧
    (nTicks (nProgOf true) (edit nMM nNew).1.st 10 200).marks = ["z"] := by
  decide +kernel

/-! ## C14, edit half: an interrupt of injected code does not survive a live edit -/

/-- Interrupts whose node is not part of the new method (injected code has fresh ids) are not
    re-registered by a merge. -/
theorem freshFromState_imap (mm : MM) (new : Method) (k : Nat)
    (hk : k ∈ ((freshFromState mm new).imap).map (·.1)) :
    ∃ e ∈ mm.st.imap, indexOfId new (idOf mm.m e.1) = some k := by
  revert hk
  unfold freshFromState
  simp only []
  refine foldl_pres_mem (fun s => k ∈ s.imap.map (·.1) → ∃ e ∈ mm.st.imap, indexOfId new (idOf mm.m e.1) = some k)
    _ _ ?_ _ ?_
  · intro s a _ hs
    split
    · split
      · exact hs
      · exact hs
    · exact hs
  · refine foldl_pres_mem (fun s => k ∈ s.imap.map (·.1) → ∃ e ∈ mm.st.imap, indexOfId new (idOf mm.m e.1) = some k)
      _ _ ?_ _ ?_
    · intro s a ha hs
      split
      · rename_i kk hkk
        split
        · intro hmem
          have himap : (registerInterrupt new.prog s kk).imap = dictSet s.imap kk s.nextGid := by
            unfold registerInterrupt; simp only []; split <;> rfl
          rw [himap] at hmem
          by_cases hkk' : k = kk
          · exact ⟨a, ha, by rw [hkk']; exact hkk⟩
          · apply hs
            unfold dictSet at hmem
            split at hmem
            · simp only [List.map_map, List.mem_map, Function.comp] at hmem ⊢
              obtain ⟨x, hx, hxe⟩ := hmem
              refine ⟨x, hx, ?_⟩
              split at hxe
              · exact absurd hxe.symm hkk'
              · exact hxe
            · simp only [List.map_append, List.mem_append, List.map_cons, List.map_nil,
                List.mem_singleton] at hmem
              rcases hmem with h | h
              · exact h
              · exact absurd h hkk'
        · exact hs
      · exact hs
    · intro h; simp [freshInterp, init] at h

/-- Interrupts whose node is not part of the new method (injected code has fresh ids) are not
    re-registered by a merge: every interrupt after the merge stems from an old interrupt whose
    line id exists in the new method. -/
theorem merge_drops_unknown_interrupts (mm : MM) (new : Method) (h : (edit mm new).2 = .merged) (k : Nat)
    (hk : k ∈ ((edit mm new).1.st.imap).map (·.1)) :
    ∃ e ∈ mm.st.imap, indexOfId new (idOf mm.m e.1) = some k := by
  simp only [edit] at h hk
  by_cases h1 : (mm.mmShared && (getRt mm.st 0).started) = true
  · by_cases h2 : validate mm new = true
    · rw [if_pos h1, if_pos h2] at hk; exact freshFromState_imap mm new k hk
    · rw [if_pos h1, if_neg h2] at h; cases h
  · rw [if_neg h1] at h; cases h

end OPM.C01
