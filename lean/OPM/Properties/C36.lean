import OPM.Model.Tags
import OPM.Lemmas.Tags
import OPM.Gen.TagSites
/-!
# C36 Every changed tag is reported with its latest value

"Between two tag reports, every tag whose value changed appears in the next report with its latest value,
and a report never contains a tag twice. A snapshot report contains every tag."

A report is `collect` (EngineMessageBuilder.collect_tag_updates); the value of a tag is what `as_readonly()`
shows (`Tag.visible`).  Reports are taken at tick boundaries: every `Engine.tick` ends its tag work with
`notify_tag_updates`, i.e. the listeners' change set is empty (`dirty = []`).  The operations between two
reports are arbitrary sequences of the tag operations of the repaired code (`Op.reporting`).
-/
namespace OPM.C36
open OPM.Tags OPM.Gen.TagSites

/-! ## The source tables (regenerated from /repo on every run) -/

/-- Nothing in openpectus/engine and openpectus/lang/exec changes a tag's `value`, `simulated_value` or `simulated`
    without notifying.  Every assignment to an attribute of that name found by the scan — on `self` or on ANY other
    receiver (`tag.value = …`, `setattr(x, "value", …)`) — is one of:
    init (a Tag subclass' `__init__`); notifying (in a method of `Tag` itself that afterwards calls
    `self.notify_listeners(…)`: the primitives and their private helpers, no method names pinned); otherClass
    (`self.<field>` of a class that is not a tag); foreignNonTag (the variable of a `for` over an attribute annotated
    with non-tag element classes, e.g. the block-time stack items). -/
theorem no_silent_assignments :
    ∀ a ∈ valueAssigns, a.kind = "init" ∨ a.kind = "notifying" ∨ a.kind = "otherClass" ∨ a.kind = "foreignNonTag" := by
  decide +kernel

/-- A `setattr` with a computed attribute name only ever targets `self` of a class that is not a tag. -/
theorem dynamic_setattrs_not_on_tags : ∀ d ∈ dynamicSetattrs, d.2.2.2 = "otherClass" := by
  decide +kernel

/-- The scan is not empty-handed: each of the three fields has a notifying assignment (what the model's
    operations `set`, `sim`, `simOff` stand for). -/
theorem every_field_has_a_notifying_primitive :
    ∀ f ∈ ["value", "simulated_value", "simulated"], ∃ a ∈ valueAssigns, a.kind = "notifying" ∧ a.field = f := by
  decide +kernel

/-- The clock tags (pre-repair: five silent assignments) are among the scanned classes. -/
theorem clock_tags_scanned : "BlockTimeTag" ∈ tagClasses ∧ "ScopeTimeTag" ∈ tagClasses := by
  decide +kernel

/-! ## Between two reports -/

/-- A tick ends with `notify_tag_updates`: the change set is empty at the tick boundary. -/
theorem tick_boundary_clean (s : State) (ops : List Op) : (run s (ops ++ [.notify])).dirty = [] := by
  simp [run, List.foldl_append, step, Op.target]

/-- **Full statement (changed ⊆ reported, with the latest value).**  Start in any state `s` (for instance
    right after a report), perform any operations of the repaired code, take a report at a tick boundary:
    every tag whose visible value now differs from what it was in `s` is in the report, with its current value. -/
theorem changed_reported (s : State) (ops : List Op) (snap : Bool) (now : Time)
    (hwf : s.WF) (hops : ∀ o ∈ ops, o.reporting = true) (hend : (run s ops).dirty = [])
    (i : Nat) (v : Val) (hv : vis (run s ops) i = some v) (hchg : vis s i ≠ some v) :
    ∃ e ∈ (collect (run s ops) snap now).2, e.idx = i ∧ e.value = v := by
  have hp : Pending (run s ops) i := by
    apply run_cover s ops hops hwf (vis s) (fun j hj => absurd rfl hj) i
    rw [hv]; exact fun e => hchg e.symm
  have hq : i ∈ (run s ops).queue := by
    cases hp with
    | inl h => rw [hend] at h; cases h
    | inr h => exact h
  unfold vis at hv
  cases hs : (run s ops).tags[i]? with
  | none => simp [hs] at hv
  | some tg =>
    simp only [hs, Option.map_some, Option.some.injEq] at hv
    refine ⟨⟨i, tg.visible, if tg.tickTime = 0 then now else tg.tickTime, tg.simulated⟩, ?_, rfl, hv⟩
    rw [collect_mem]
    exact ⟨Or.inl hq, by simp [entryOf, hs]⟩

/-- Non-vacuity: a Block-like tag (None) and a clock tag; the clock ticks, the block name is set, a tag is
    simulated and released; the boundary is clean and both changes are in the report. -/
example :
    let s0 := ((State.empty.addTag true none 8000).addTag true (some 0) 8000)
    let ops := [Op.set 1 (some 128) 8128, Op.set 0 (some 7) 8128, Op.sim 0 (some 9) 8128, Op.simOff 0, Op.notify]
    s0.WF ∧ (∀ o ∈ ops, o.reporting = true) ∧ (run s0 ops).dirty = [] ∧
      (collect (run s0 ops) false 0).2 = [⟨1, some 128, 8128, false⟩, ⟨0, some 7, 8128, false⟩] := by
  refine ⟨?_, by decide, by decide +kernel, by decide +kernel⟩
  intro tg h
  simp only [State.addTag, State.empty, List.nil_append, List.cons_append, List.mem_cons, List.not_mem_nil,
    or_false] at h
  rcases h with rfl | rfl <;> intro _ <;> rfl

/-- Every entry of a report carries the tag's value at the time of the report (its latest value). -/
theorem report_value_current (s : State) (snap : Bool) (now : Time) :
    ∀ e ∈ (collect s snap now).2, vis s e.idx = some e.value ∧ vis (collect s snap now).1 e.idx = some e.value := by
  intro e he
  rw [collect_mem] at he
  obtain ⟨_, tg, hs, hval, _, _⟩ := entryOf_idx s now e.idx e he.2
  have h1 : vis s e.idx = some e.value := by simp [vis, hs, hval]
  refine ⟨h1, ?_⟩
  have : (collect s snap now).1.tags = s.tags := by cases snap <;> rfl
  simpa [vis, this] using h1

/-- A report never contains a tag twice. -/
theorem report_no_duplicates (s : State) (snap : Bool) (now : Time) :
    ((collect s snap now).2.map (·.idx)).Nodup :=
  collect_idx_nodup s snap now

/-- A snapshot report contains every tag (and only tags), each with its current value. -/
theorem snapshot_reports_every_tag (s : State) (now : Time) (i : Nat) :
    i < s.tags.length ↔ ∃ e ∈ (collect s true now).2, e.idx = i := by
  constructor
  · intro hi
    have hs : s.tags[i]? = some s.tags[i] := List.getElem?_eq_getElem hi
    refine ⟨⟨i, s.tags[i].visible, if s.tags[i].tickTime = 0 then now else s.tags[i].tickTime,
      s.tags[i].simulated⟩, ?_, rfl⟩
    rw [collect_mem]
    exact ⟨Or.inr ⟨rfl, hi⟩, by simp [entryOf, hs]⟩
  · rintro ⟨e, he, rfl⟩
    rw [collect_mem] at he
    obtain ⟨_, tg, hs, _⟩ := entryOf_idx s now e.idx e he.2
    exact (List.getElem?_eq_some_iff.mp hs).1

example : ((collect ((State.empty.addTag true none 8000).addTag false (some 3) 8000) true 0).2.map (·.idx))
    = [0, 1] := by decide +kernel

/-- After a report the queue is empty: the next report starts from scratch (so the statement above chains). -/
theorem report_empties_queue (s : State) (snap : Bool) (now : Time) :
    (collect s snap now).1.queue = [] ∧ (collect s snap now).1.dirty = s.dirty ∧
      (collect s snap now).1.tags = s.tags := by
  cases snap <;> exact ⟨rfl, rfl, rfl⟩

/-! ## The operations the engine and the clock tags issue are of the reporting kind -/

theorem engine_tick_ops_reporting (s : State) (t : Time) (reads : List (Nat × Val)) :
    ∀ o ∈ engineTickOps s t reads, o.reporting = true := by
  intro o ho
  simp only [engineTickOps, List.mem_append, List.mem_map, List.mem_singleton] at ho
  rcases ho with (ho | ⟨r, _, rfl⟩) | rfl
  · split at ho
    · simp only [List.mem_map] at ho
      obtain ⟨i, _, rfl⟩ := ho
      rfl
    · cases ho
  · rfl
  · rfl

/-- Block Time: whatever event arrives, the handler changes its value only through `set_value`. -/
theorem blockTime_never_silent (idx : Nat) (b : BlockTime) (ev : BtEv) :
    ∀ o ∈ (btStep idx b ev).ops, o.reporting = true := by
  intro o ho
  cases ev <;> simp only [btStep] at ho
  case tick t dt => split at ho <;> simp_all [Op.reporting]
  case blockEnd => split at ho <;> simp_all
  all_goals simp_all [Op.reporting]

/-- Scope Time likewise. -/
theorem scopeTime_never_silent (idx : Nat) (st : ScopeTime) (ev : StEv) :
    ∀ o ∈ (stStep idx st ev).ops, o.reporting = true := by
  intro o ho
  cases ev <;> simp only [stStep] at ho
  case tick t dt => split at ho <;> simp_all [Op.reporting]
  case scopeEnd k =>
    split at ho
    · split at ho <;> simp_all
    · simp_all
  all_goals simp_all [Op.reporting]

example : (btStep 1 ⟨[0, 256], false⟩ (.tick 8128 128)).ops = [Op.set 1 (some 384) 8128] := by decide +kernel

/-! ## Regression witnesses: the pre-repair code violated the statement exactly here -/

/-- Pre-repair `BlockTimeTag.on_tick` (direct assignment): the value changes, the report is empty. -/
theorem old_clock_tick_unreported :
    let s0 := (State.empty.addTag true (some 0) 8000)
    let ops := (btStepOld 0 ⟨[0], false⟩ (.tick 8128 128)).ops ++ [Op.notify]
    vis (run s0 ops) 0 = some (some 128) ∧ vis s0 0 = some (some 0) ∧ (run s0 ops).dirty = [] ∧
      (collect (run s0 ops) false 0).2 = [] := by
  decide +kernel

/-- Pre-repair `stop_simulation` on a tag whose real value is None (e.g. Block): visible `X → None`, no report. -/
theorem old_stop_simulation_unreported :
    let s0 := run (State.empty.addTag true none 8000) [Op.sim 0 (some 5) 8128, Op.notify]
    let s1 := (collect s0 false 0).1
    let ops := [Op.simOffOld 0, Op.notify]
    vis s1 0 = some (some 5) ∧ vis (run s1 ops) 0 = some none ∧ (collect (run s1 ops) false 0).2 = [] := by
  decide +kernel

/-- Pre-repair failing `simulate_value_and_unit` (sets `simulated` before validating): visible `0 → None`,
    no report. -/
theorem old_failed_simulation_unreported :
    let s0 := State.empty.addTag false (some 0) 8000
    let ops := [Op.simFailOld 0, Op.notify]
    vis s0 0 = some (some 0) ∧ vis (run s0 ops) 0 = some none ∧ (collect (run s0 ops) false 0).2 = [] := by
  decide +kernel

/-- …and the repaired operations report all three. -/
example :
    let s0 := run (State.empty.addTag true none 8000) [Op.sim 0 (some 5) 8128, Op.notify]
    let s1 := (collect s0 false 0).1
    (collect (run s1 [Op.simOff 0, Op.notify]) false 0).2 = [⟨0, none, 8128, false⟩] := by
  decide +kernel

end OPM.C36
