import OPM.Model.ParseLine
import OPM.Lemmas.ParseLine
import OPM.Lemmas.ParseCond
/-!
# C18 Instruction lines decompose into exactly their parts

"For any well-formed instruction line made of indentation, an optional threshold, an instruction name, an
optional argument and an optional comment, parsing recovers exactly those parts. For Watch, Alarm and
Simulate arguments of the form 'tag operator value [unit]' it recovers the tag, operator, value and unit."

Well-formedness is explicit (`LineParts.WF`, `CondParts.WF` in Model/ParseLine.lean):
* line = spaces ++ (threshold ++ " ")? ++ name ++ (": " ++ argument)? ++ white space ++ ("#" ++ white space ++ comment)?
  threshold = `\d+(\.\d+)?`; the name starts with a letter or '_' (a name starting with digits and a space
  cannot be told from a threshold), contains no ':' / '#', is trimmed; the argument is trimmed, not empty,
  contains no '#'; the comment does not start with white space.
* condition = tag ++ ws ++ op ++ ws ++ value ++ (ws⁺ ++ unit)? ++ ws; tag and text values are trimmed and free
  of the operator characters `< > = !`; a value is a number (`[+-]?(\d+(\.\d*)?|\.\d+)([eE][+-]?\d+)?`) or a
  text that does not read as a number with an optional unit (`numberLike`): "Running", "Not Running", but
  also "2 of 3", "0,98", "1st pass" — texts may begin with digits and contain spaces; a unit follows a number
  only.

`parseCond true` is the parser with fixes/C18-number-tail-as-unit.diff (the number is matched atomically);
for the parser as it was the statement is false (`asis_*`).  Units that contain a character outside
`[a-zA-Z%/23*]` are a recorded finding (`units_*`).
-/
namespace OPM.C18
open OPM.ParseLine OPM.Gen.ParseTables

/-- Full statement, line part (holds for the parser with and without the repair): the node built for a
    rendered well-formed line carries exactly the parts; the typed threshold (`node.threshold`) is the number
    its digits denote (`Threshold.value`). -/
theorem line_decomposes (fx : Bool) (uod : List String) (p : LineParts) (h : p.WF) :
    let nd := parseLine fx uod p.render
    nd.ws = false ∧
    nd.char = p.indent ∧ nd.indentError = (p.indent % 4 != 0) ∧
    nd.thr = (match p.thr with
      | some t => t.text
      | none => []) ∧
    nd.thrVal = p.thr.map Threshold.value ∧
    nd.name = p.name ∧ nd.cls = (createNode uod (String.ofList p.name)).cls ∧
    nd.args = p.arg.getD [] ∧ nd.hasArg = p.arg.isSome ∧
    nd.hasComment = p.comment.isSome ∧
    nd.comment = (match p.comment with
      | some (_, t) => t
      | none => []) := by
  intro nd
  have : nd = p.node fx uod := parseLine_render fx uod p h
  rw [this]
  exact ⟨rfl, rfl, rfl, rfl, rfl, rfl, rfl, rfl, rfl, rfl, rfl⟩

/-- …and the raw groups: the name group keeps the white space in front of a comment, the argument group the
    white space after the argument; a condition is parsed from the raw argument group. -/
theorem line_raw_groups (fx : Bool) (uod : List String) (p : LineParts) (h : p.WF) :
    (parseLine fx uod p.render).namePart = (match p.arg with
      | some _ => p.name
      | none => p.name ++ p.pad) ∧
    (parseLine fx uod p.render).argPart = (match p.arg with
      | some a => a ++ p.pad
      | none => []) ∧
    (parseLine fx uod p.render).cond =
      if (createNode uod (String.ofList p.name)).ops.isEmpty then none
      else some (parseCond fx ((createNode uod (String.ofList p.name)).ops.map String.toList)
        (parseLine fx uod p.render).argPart) := by
  rw [parseLine_render fx uod p h]
  exact ⟨rfl, rfl, rfl⟩

/-- Full statement, condition part (repaired parser), for every operator list that is ordered longest first:
    tag, operator, value and unit are recovered, and the typed value (`tag_value_numeric`) is the number the
    value text denotes (`Num.value`: sign, digits read positionally, exponent); a text value has none. -/
theorem condition_decomposes (ops : List (List Char)) (hops : OpsOK ops) (p : CondParts) (h : p.WF ops) :
    parseCond true ops p.render =
      { op := p.op, lhs := p.tag, rhs := p.value.render, tagName := some p.tag,
        tagValue := some p.value.valueText, tagUnit := p.value.unitText, error := false, tagNumeric := p.value.numeric } :=
  parseCond_render ops hops p h

/-- the operator lists of the node classes (regenerated from ast.py) -/
def condOps : List (List Char) := ["<=", ">=", "==", "!=", "<", ">", "="].map String.toList
def assignOps : List (List Char) := ["="].map String.toList

/-- every instruction with operators has one of the two lists: Watch, Alarm (conditions) and Simulate -/
theorem operator_lists :
    (instrTable.filter (fun e => !e.2.2.2.isEmpty)).map (fun e => (e.1, e.2.2.2.map String.toList))
      = [("Alarm", condOps), ("Simulate", assignOps), ("Watch", condOps)] := by decide

/-- both lists satisfy the order requirement (each operator is found before any operator it contains) -/
theorem condOps_ok : OpsOK condOps := by
  constructor
  · decide
  · decide

theorem assignOps_ok : OpsOK assignOps := by
  constructor
  · decide
  · decide

/-- Watch / Alarm / Simulate lines: the line theorem and the condition theorem compose. -/
theorem condition_line_decomposes (uod : List String) (p : LineParts) (h : p.WF) (cp : CondParts)
    (ops : List String) (hk : (createNode uod (String.ofList p.name)).ops = ops) (hne : ops ≠ [])
    (hops : OpsOK (ops.map String.toList)) (harg : p.arg = some cp.render) (htr : cp.trail = [])
    (hcp : cp.WF (ops.map String.toList)) :
    (parseLine true uod p.render).cond =
      some { op := cp.op, lhs := cp.tag, rhs := cp.value.render, tagName := some cp.tag,
             tagValue := some cp.value.valueText, tagUnit := cp.value.unitText, error := false, tagNumeric := cp.value.numeric } := by
  have h3 := (line_raw_groups true uod p h).2.2
  have h2 := (line_raw_groups true uod p h).2.1
  rw [h3, h2, hk, harg]
  have hemp : ops.isEmpty = false := by simpa using hne
  simp only [hemp, Bool.false_eq_true, ↓reduceIte, Option.some.injEq]
  have hpadWF : ({ cp with trail := p.pad } : CondParts).WF (ops.map String.toList) := by
    obtain ⟨a, b, c, d, e, _, g⟩ := hcp
    exact ⟨a, b, c, d, e, h.2.2.2.2.2.1, g⟩
  have e : cp.render ++ p.pad = ({ cp with trail := p.pad } : CondParts).render := by
    simp [CondParts.render, htr, List.append_assoc]
  rw [e]
  exact parseCond_render _ hops _ hpadWF

/-! Non-vacuity: a concrete well-formed line with every part present. -/

def sampleCond : CondParts :=
  { tag := "Run Counter".toList, s1 := [' '], op := ">=".toList, s2 := [' '],
    value := .num ⟨['-'], "10".toList, some "52".toList, some ('e', ['+'], ['3'])⟩ (some ([' '], "mL/min".toList)),
    trail := [] }

def sampleLine : LineParts :=
  { indent := 4, thr := some ⟨"12".toList, some "5".toList⟩, name := "Watch".toList,
    arg := some sampleCond.render, pad := [' ', ' '], comment := some ([' '], "note # 2".toList) }

example : String.ofList sampleLine.render = "    12.5 Watch: Run Counter >= -10.52e+3 mL/min  # note # 2" := by
  decide +kernel

example : (parseLine true [] sampleLine.render).cond =
    some ⟨">=".toList, "Run Counter".toList, "-10.52e+3 mL/min".toList, some "Run Counter".toList,
          some "-10.52e+3".toList, some "mL/min".toList, false, some ⟨-1052, 1⟩⟩ := by decide +kernel

example : (parseLine true [] sampleLine.render).thrVal = some ⟨125, -1⟩ ∧ digitsVal "1205".toList = 1205 ∧
    digitsVal "٣٤".toList = 34 := by decide +kernel

example : (parseLine true [] sampleLine.render).thr = "12.5".toList ∧
    (parseLine true [] sampleLine.render).comment = "note # 2".toList := by decide +kernel

/-- text values that begin with a number are well-formed text values and are recovered whole -/
example : (Value.text "2 of 3".toList).WF ∧ (Value.text "0,98".toList).WF ∧ (Value.text "1st pass".toList).WF ∧
    (Value.text "Not Running".toList).WF := by
  refine ⟨?_, ?_, ?_, ?_⟩ <;> exact ⟨by decide +kernel, by decide +kernel, by decide +kernel⟩

example : parseCond true condOps "Foo == 2 of 3".toList =
    ⟨"==".toList, "Foo".toList, "2 of 3".toList, some "Foo".toList, some "2 of 3".toList, none, false, none⟩ ∧
    (parseCond true condOps "Foo > 0,98".toList).tagValue = some "0,98".toList ∧
    (parseCond true condOps "Foo == 1st pass".toList).tagValue = some "1st pass".toList := by decide +kernel

/-- a text that does not start with a sign, a digit or '.' is never number-like -/
theorem text_value_by_first_char (t : List Char)
    (h : ∀ c ∈ t.head?, (c ≠ '+' ∧ c ≠ '-' ∧ c ≠ '.' ∧ isDecimal c = false)) : numberLike t = false :=
  numberLike_of_head h

/-! Regression witnesses for the repair: the parser as it was gives the tail of a number to the unit. -/

theorem asis_number_tail_taken_as_unit :
    parseCond false condOps "X > 52".toList =
      ⟨">".toList, "X".toList, "52".toList, some "X".toList, some "5".toList, some "2".toList, false, some ⟨5, 0⟩⟩ ∧
    (parseCond false condOps "X > 5e3".toList).tagUnit = some "e3".toList ∧
    (parseCond false condOps "X > 0.3".toList).tagValue = some "0.".toList := by decide +kernel

/-- hence the condition statement is false for the parser as it was -/
theorem asis_violates_condition_statement :
    ¬ (∀ (p : CondParts), p.WF condOps → parseCond false condOps p.render =
        ⟨p.op, p.tag, p.value.render, some p.tag, some p.value.valueText, p.value.unitText, false,
         p.value.numeric⟩) := by
  intro h
  have hwf : (⟨['X'], [' '], ['>'], [' '], .num ⟨[], ['5', '2'], none, none⟩ none, []⟩ : CondParts).WF condOps := by
    refine ⟨by decide, by decide, by decide, by decide, by decide, by decide, ?_⟩
    exact ⟨Or.inl rfl, by decide, by simp, Or.inl (by simp), by simp⟩
  have := h _ hwf
  revert this
  decide +kernel

example : parseCond true condOps "X > 52".toList =
    ⟨">".toList, "X".toList, "52".toList, some "X".toList, some "52".toList, none, false, some ⟨52, 0⟩⟩ := by decide +kernel

/-! Units.  The unit class of the grammar is `[a-zA-Z%/23*]`; three supported units fall outside it.
Recorded finding (findings.d/C18.json, key `supported-unit-not-recognised`): `C18_full` is the clause "all
supported units" of the property, `C18_counterexample` refutes it for the model of the code as it is,
`C18_partial` is what holds. -/

/-- the full statement about units ("all supported units"): every supported unit is recovered -/
def C18_full : Prop :=
  ∀ u ∈ supportedUnits, (parseCond true condOps ("X > 5 ".toList ++ u.toList)).tagUnit = some u.toList

theorem C18_counterexample : ¬ C18_full := by
  intro h
  have := h "°C" (by decide)
  revert this
  decide +kernel

/-- exactly these supported units are not recognised -/
theorem units_not_recognised :
    supportedUnits.filter (fun u => !(u.toList.all isUnitChar)) = ["°C", "°F", "µS/cm"] := by decide +kernel

/-- partial statement: every supported unit that is written with characters of the unit class is recovered
    (instance of `condition_decomposes`) -/
theorem C18_partial (u : String) (_hu : u ∈ supportedUnits) (hc : u.toList.all isUnitChar = true) (hne : u.toList ≠ []) :
    (parseCond true condOps ("X > 5 ".toList ++ u.toList)).tagUnit = some u.toList := by
  let cp : CondParts := ⟨['X'], [' '], ['>'], [' '], .num ⟨[], ['5'], none, none⟩ (some ([' '], u.toList)), []⟩
  have hwf : cp.WF condOps := by
    refine ⟨?_, ?_, ?_, ?_, ?_, ?_, ?_⟩
    · show ['>'] ∈ condOps; decide
    · show Trimmed ['X']; decide
    · show ∀ c ∈ ['X'], isOpChar c = false; decide
    · show ∀ c ∈ [' '], isSpace c = true; decide
    · show ∀ c ∈ [' '], isSpace c = true; decide
    · show ∀ c ∈ ([] : List Char), isSpace c = true; decide
    · refine ⟨⟨Or.inl rfl, by decide, by simp, Or.inl (by simp), by simp⟩, by simp, by decide, hne, ?_⟩
      exact List.all_eq_true.mp hc
  have := condition_decomposes condOps condOps_ok cp hwf
  have e : cp.render = "X > 5 ".toList ++ u.toList := by
    simp [cp, CondParts.render, Value.render, Num.text]
  rw [e] at this
  rw [this]
  rfl

end OPM.C18
