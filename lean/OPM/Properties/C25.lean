import OPM.Model.Composite
import OPM.Lemmas.Composite
import OPM.Lemmas.CompositeCalls
/-!
# C25 Composite hardware is transparent

"Batch reads and writes through a composite of several hardware layers deliver the same values,
register for register and in the same order, as reading or writing each register on its own
hardware layer."

`lay r` is the layer of register `r` (`r.options["hardware"]`); the hypotheses say that the registers
of the call have a layer and that these layers answer (no exception).  Any number of layers, any
register order, duplicates within and across batches, any value type.
-/
namespace OPM.C25
open OPM.Composite

variable {V : Type}

/-- a single read goes to the register's own layer -/
theorem read_single (cfg : Cfg) (m : Mem V) (lay : RegId → Layer) (r : RegId)
    (hl : cfg.layerOf r = some (lay r)) (hf : cfg.failing (lay r) = false) :
    (Composite.read cfg m r).res = .vals [m (lay r) r] ∧ (Composite.read cfg m r).calls = [⟨lay r, [r], []⟩] ∧ (Composite.read cfg m r).mem = m := by
  simp [Composite.read, hl, hf]

/-- a single write goes to the register's own layer -/
theorem write_single (cfg : Cfg) (m : Mem V) (lay : RegId → Layer) (v : V) (r : RegId)
    (hl : cfg.layerOf r = some (lay r)) (hf : cfg.failing (lay r) = false) :
    (Composite.write cfg m v r).res = .unit ∧ (Composite.write cfg m v r).calls = [⟨lay r, [r], [v]⟩] ∧
    (Composite.write cfg m v r).mem = setMem m (lay r) r v := by
  simp [Composite.write, hl, hf]

/-- Full statement, reads: a batch read through the composite returns, register for register and in
    the order of the request, exactly what a single read of each register on its own layer returns
    (duplicates allowed), and changes nothing. -/
theorem readBatch_transparent (cfg : Cfg) (m : Mem V) (lay : RegId → Layer) (regs : List RegId)
    (hl : ∀ r ∈ regs, cfg.layerOf r = some (lay r)) (hf : ∀ r ∈ regs, cfg.failing (lay r) = false) :
    (readBatch cfg m regs).res = .vals (regs.map (fun r => m (lay r) r)) ∧ (readBatch cfg m regs).mem = m := by
  obtain ⟨gs, h1, _, h3, h4⟩ := grouping cfg lay regs hl
  have hmem : ∀ g ∈ gs, ∀ r ∈ g.2, r ∈ regs ∧ lay r = g.1 := by
    intro g hg r hr
    rw [(h3 g hg).1] at hr
    simpa using hr
  have hfg : ∀ g ∈ gs, cfg.failing g.1 = false := by
    intro g hg
    obtain ⟨r, hr⟩ := List.exists_mem_of_ne_nil _ (h3 g hg).2
    have := hmem g hg r hr
    rw [← this.2]; exact hf r this.1
  obtain ⟨d', hd1, hd2⟩ := readGo_spec cfg m lay gs hfg (fun g hg r hr => (hmem g hg r hr).2) (fun _ => none) []
  have hseq : sequence (regs.map d') = some (regs.map (fun r => m (lay r) r)) := by
    apply sequence_map_some
    intro r hr
    obtain ⟨g, hg, _, hrg⟩ := h4 r hr
    rw [hd2 r, if_pos ⟨g, hg, hrg⟩]
  simp [readBatch, h1, hd1, hseq]

/-- the sequence of single writes through the composite is `seqWrite` -/
theorem fold_write_eq_seqWrite (cfg : Cfg) (lay : RegId → Layer) (ps : List (RegId × V))
    (hl : ∀ e ∈ ps, cfg.layerOf e.1 = some (lay e.1)) (hf : ∀ e ∈ ps, cfg.failing (lay e.1) = false) (m : Mem V) :
    ps.foldl (fun m e => (Composite.write cfg m e.2 e.1).mem) m = seqWrite lay m ps := by
  induction ps generalizing m with
  | nil => rfl
  | cons a ps ih =>
    simp only [List.foldl_cons, seqWrite]
    rw [(write_single cfg m lay a.2 a.1 (hl a (by simp)) (hf a (by simp))).2.2]
    exact ih (fun e he => hl e (by simp [he])) (fun e he => hf e (by simp [he])) _

/-- Full statement, writes: after a batch write through the composite every layer's memory is exactly
    what the sequence of single writes — each register on its own layer, in request order — leaves
    (duplicates allowed; `zip(values, registers)` as in the code). -/
theorem writeBatch_transparent (cfg : Cfg) (m : Mem V) (lay : RegId → Layer) (vals : List V) (regs : List RegId)
    (hl : ∀ e ∈ pairs vals regs, cfg.layerOf e.1 = some (lay e.1))
    (hf : ∀ e ∈ pairs vals regs, cfg.failing (lay e.1) = false) :
    (writeBatch cfg m vals regs).res = .unit ∧
    (writeBatch cfg m vals regs).mem = (pairs vals regs).foldl (fun m e => (Composite.write cfg m e.2 e.1).mem) m := by
  obtain ⟨h1, h2, _, _, _⟩ := writeBatch_mem cfg m lay vals regs hl hf
  refine ⟨h1, ?_⟩
  rw [fold_write_eq_seqWrite cfg lay _ hl hf]
  funext l r
  rw [h2 l r, seqWrite_spec]
  cases lastV (pairs vals regs) r <;> rfl

theorem filter_unique {α β : Type} [DecidableEq β] (f : α → β) :
    ∀ (cs : List α), (cs.map f).Nodup → ∀ c ∈ cs, cs.filter (fun x => f x = f c) = [c] := by
  intro cs
  induction cs with
  | nil => intro _ c hc; cases hc
  | cons a cs ih =>
    intro hnd c hc
    simp only [List.map_cons, List.nodup_cons] at hnd
    rcases List.mem_cons.mp hc with h | h
    · subst h
      have : cs.filter (fun x => f x = f c) = [] := by
        apply List.filter_eq_nil_iff.mpr
        intro x hx hfx
        exact hnd.1 (by rw [← of_decide_eq_true hfx]; exact List.mem_map_of_mem hx)
      simp [List.filter_cons, this]
    · have hne : ¬ f a = f c := fun e => hnd.1 (by rw [e]; exact List.mem_map_of_mem h)
      simp [List.filter_cons, hne, ih hnd.2 c h]

theorem zip_fst_snd {α β : Type} : ∀ (l : List (α × β)), (l.map (·.1)).zip (l.map (·.2)) = l
  | [] => rfl
  | a :: l => by simp [zip_fst_snd l]

/-- Full statement, write order: when a batch names each register once, the (register, value) pairs that
    reach layer `l` — over all calls the composite makes to that layer, in order — are exactly the pairs of
    the request that belong to `l`, in request order: the sequence the single writes deliver to that layer.
    (How many calls carry them is not part of the claim.) -/
theorem writeBatch_order (cfg : Cfg) (m : Mem V) (lay : RegId → Layer) (vals : List V) (regs : List RegId)
    (hl : ∀ e ∈ pairs vals regs, cfg.layerOf e.1 = some (lay e.1))
    (hf : ∀ e ∈ pairs vals regs, cfg.failing (lay e.1) = false)
    (hnd : ((pairs vals regs).map (·.1)).Nodup) (l : Layer) :
    (((writeBatch cfg m vals regs).calls.filter (fun c => c.layer = l)).flatMap (fun c => c.regs.zip c.vals))
      = (pairs vals regs).filter (fun e => lay e.1 = l) := by
  obtain ⟨h1, h2, h3⟩ := writeBatch_calls cfg m lay vals regs hl hf hnd
  by_cases hex : ∃ c ∈ (writeBatch cfg m vals regs).calls, c.layer = l
  · obtain ⟨c, hc, rfl⟩ := hex
    rw [filter_unique (fun c : Call V => c.layer) _ h1 c hc]
    obtain ⟨hr, hv⟩ := h3 c hc
    simp only [List.flatMap_cons, List.flatMap_nil, List.append_nil]
    rw [hr, hv, zip_fst_snd]
  · have e1 : (writeBatch cfg m vals regs).calls.filter (fun c => c.layer = l) = [] := by
      apply List.filter_eq_nil_iff.mpr
      intro c hc hcl
      exact hex ⟨c, hc, of_decide_eq_true hcl⟩
    have e2 : (pairs vals regs).filter (fun e => lay e.1 = l) = [] := by
      apply List.filter_eq_nil_iff.mpr
      intro e he hel
      obtain ⟨c, hc, hcl⟩ := List.mem_map.mp (h2 e he)
      exact hex ⟨c, hc, hcl.trans (of_decide_eq_true hel)⟩
    rw [e1, e2]; rfl

/-! ## Errors are passed through as well -/

/-- a register without a hardware layer: `KeyError` before any layer is touched -/
theorem readBatch_missing_layer (cfg : Cfg) (m : Mem V) (regs : List RegId) (h : ∃ r ∈ regs, cfg.layerOf r = none) :
    (readBatch cfg m regs).res = .raiseKey ∧ (readBatch cfg m regs).calls = [] ∧ (readBatch cfg m regs).mem = m := by
  simp [readBatch, groupsFrom_none cfg regs h []]

theorem writeBatch_missing_layer (cfg : Cfg) (m : Mem V) (vals : List V) (regs : List RegId)
    (h : ∃ e ∈ pairs vals regs, cfg.layerOf e.1 = none) :
    (writeBatch cfg m vals regs).res = .raiseKey ∧ (writeBatch cfg m vals regs).calls = [] ∧
    (writeBatch cfg m vals regs).mem = m := by
  have : ∃ r ∈ (pairs vals regs).map (·.1), cfg.layerOf r = none := by
    obtain ⟨e, he, hn⟩ := h; exact ⟨e.1, List.mem_map_of_mem (f := fun e => e.1) he, hn⟩
  simp [writeBatch, groupsFrom_none cfg _ this []]

/-- a failing layer among those involved: the batch read raises the hardware exception -/
theorem readBatch_failing_layer (cfg : Cfg) (m : Mem V) (lay : RegId → Layer) (regs : List RegId)
    (hl : ∀ r ∈ regs, cfg.layerOf r = some (lay r)) (hf : ∃ r ∈ regs, cfg.failing (lay r) = true) :
    (readBatch cfg m regs).res = .raiseHw ∧ (readBatch cfg m regs).mem = m := by
  obtain ⟨gs, h1, _, _, h4⟩ := grouping cfg lay regs hl
  obtain ⟨r, hr, hfr⟩ := hf
  obtain ⟨g, hg, hgl, _⟩ := h4 r hr
  have := readGo_fail cfg m gs ⟨g, hg, by rw [hgl]; exact hfr⟩ (fun _ => none) []
  simp only [readBatch, h1]
  cases hgo : readGo cfg m gs (fun _ => none) [] with
  | mk d cs => rw [hgo] at this; simp only at this; subst this; exact ⟨rfl, rfl⟩

theorem writeBatch_failing_layer (cfg : Cfg) (m : Mem V) (lay : RegId → Layer) (vals : List V) (regs : List RegId)
    (hl : ∀ e ∈ pairs vals regs, cfg.layerOf e.1 = some (lay e.1))
    (hf : ∃ e ∈ pairs vals regs, cfg.failing (lay e.1) = true) :
    (writeBatch cfg m vals regs).res = .raiseHw := by
  have hl' : ∀ r ∈ (pairs vals regs).map (·.1), cfg.layerOf r = some (lay r) := by
    intro r hr; obtain ⟨e, he, rfl⟩ := List.mem_map.mp hr; exact hl e he
  obtain ⟨gs, h1, _, _, h4⟩ := grouping cfg lay _ hl'
  obtain ⟨e, he, hfe⟩ := hf
  obtain ⟨g, hg, hgl, _⟩ := h4 e.1 (List.mem_map_of_mem (f := fun e => e.1) he)
  have := writeGo_fail cfg ((pairs vals regs).foldl (fun d e => dset d e.1 e.2) (fun _ => none)) gs
    ⟨g, hg, by rw [hgl]; exact hfe⟩ m []
  simp only [writeBatch, h1]
  cases hgo : writeGo cfg ((pairs vals regs).foldl (fun d e => dset d e.1 e.2) (fun _ => none)) gs m [] with
  | mk b rest => rw [hgo] at this; simp only at this; subst this; rfl

/-! ## Non-vacuity: four layers, interleaved registers, duplicates -/

def cfg4 : Cfg := { layerOf := fun r => if r < 8 then some (r % 4) else none, failing := fun _ => false }
def mem4 : Mem Int := fun l r => 100 * l + r

example : (readBatch cfg4 mem4 [5, 0, 6, 1, 5, 3]).res = .vals [105, 0, 206, 101, 105, 303] := by decide
example : ((readBatch cfg4 mem4 [5, 0, 6, 1, 5, 3]).calls.map (fun c => (c.layer, c.regs)))
    = [(1, [5, 1, 5]), (0, [0]), (2, [6]), (3, [3])] := by decide
example : (((writeBatch cfg4 mem4 [7, 8, 9, 10] [5, 0, 1, 4]).calls.filter (fun c => c.layer = 1)).flatMap
    (fun c => c.regs.zip c.vals)) = [(5, 7), (1, 9)] := by decide
example : ((writeBatch cfg4 mem4 [7, 8, 9, 10] [5, 0, 1, 4]).calls.map (fun c => (c.layer, c.regs, c.vals)))
    = [(1, [5, 1], [7, 9]), (0, [0, 4], [8, 10])] := by decide
/-- duplicate register inside one batch: the memory agrees with the single writes (last value wins) although
    the layer receives the last value twice -/
example : (writeBatch cfg4 mem4 [7, 8] [5, 5]).mem 1 5 = 8 ∧
    ((writeBatch cfg4 mem4 [7, 8] [5, 5]).calls.map (fun c => (c.layer, c.regs, c.vals))) = [(1, [5, 5], [8, 8])] := by
  decide
example : (readBatch cfg4 mem4 [1, 9]).res = .raiseKey := by decide

end OPM.C25
