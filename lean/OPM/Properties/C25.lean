import OPM.Model.Composite
import OPM.Lemmas.Composite
/-!
# C25 Composite hardware is transparent

"Batch reads and writes through a composite of several hardware layers deliver the same values,
register for register and in the same order, as reading or writing each register on its own
hardware layer."

`lay r` is the layer of register `r` (`r.options["hardware"]`); the hypotheses say that the registers
of the call have a layer and that these layers answer (no exception).  Any number of layers, any
register order, duplicates within and across batches, any value type.
-/
namespace OPM.C25
open OPM.Composite

variable {V : Type}

/-- a single read goes to the register's own layer -/
theorem read_single (cfg : Cfg) (m : Mem V) (lay : RegId → Layer) (r : RegId)
    (hl : cfg.layerOf r = some (lay r)) (hf : cfg.failing (lay r) = false) :
    (Composite.read cfg m r).res = .vals [m (lay r) r] ∧ (Composite.read cfg m r).calls = [⟨lay r, [r], []⟩] ∧ (Composite.read cfg m r).mem = m := by
  simp [Composite.read, hl, hf]

/-- a single write goes to the register's own layer -/
theorem write_single (cfg : Cfg) (m : Mem V) (lay : RegId → Layer) (v : V) (r : RegId)
    (hl : cfg.layerOf r = some (lay r)) (hf : cfg.failing (lay r) = false) :
    (Composite.write cfg m v r).res = .unit ∧ (Composite.write cfg m v r).calls = [⟨lay r, [r], [v]⟩] ∧
    (Composite.write cfg m v r).mem = setMem m (lay r) r v := by
  simp [Composite.write, hl, hf]

/-- facts about the grouping used by both batch operations -/
theorem grouping (cfg : Cfg) (lay : RegId → Layer) (regs : List RegId)
    (hl : ∀ r ∈ regs, cfg.layerOf r = some (lay r)) :
    ∃ gs, groupsFrom cfg [] regs = some gs ∧ (layers gs).Nodup ∧
      (∀ g ∈ gs, g.2 = regs.filter (fun r => lay r = g.1) ∧ g.2 ≠ []) ∧
      (∀ r ∈ regs, ∃ g ∈ gs, g.1 = lay r ∧ r ∈ g.2) := by
  obtain ⟨gs, h1, h2, h3⟩ := groupsFrom_spec cfg lay regs hl [] ⟨by simp [layers], by simp⟩
  refine ⟨gs, h1, h2.1, ?_, ?_⟩
  · intro g hg
    have := mem_find gs h2.1 g hg
    rw [h3 g.1] at this
    exact ⟨by simpa [find] using this.symm, h2.2 g hg⟩
  · intro r hr
    have hne : find gs (lay r) ≠ [] := by
      rw [h3]; simp only [find, List.nil_append]
      intro h
      have : r ∈ regs.filter (fun r' => lay r' = lay r) := by simp [hr]
      rw [h] at this; cases this
    refine ⟨(lay r, find gs (lay r)), find_mem gs (lay r) hne, rfl, ?_⟩
    rw [h3]; simp [find, hr]

/-- Full statement, reads: a batch read through the composite returns, register for register and in
    the order of the request, exactly what a single read of each register on its own layer returns
    (duplicates allowed), and changes nothing. -/
theorem readBatch_transparent (cfg : Cfg) (m : Mem V) (lay : RegId → Layer) (regs : List RegId)
    (hl : ∀ r ∈ regs, cfg.layerOf r = some (lay r)) (hf : ∀ r ∈ regs, cfg.failing (lay r) = false) :
    (readBatch cfg m regs).res = .vals (regs.map (fun r => m (lay r) r)) ∧ (readBatch cfg m regs).mem = m := by
  obtain ⟨gs, h1, _, h3, h4⟩ := grouping cfg lay regs hl
  have hmem : ∀ g ∈ gs, ∀ r ∈ g.2, r ∈ regs ∧ lay r = g.1 := by
    intro g hg r hr
    rw [(h3 g hg).1] at hr
    simpa using hr
  have hfg : ∀ g ∈ gs, cfg.failing g.1 = false := by
    intro g hg
    obtain ⟨r, hr⟩ := List.exists_mem_of_ne_nil _ (h3 g hg).2
    have := hmem g hg r hr
    rw [← this.2]; exact hf r this.1
  obtain ⟨d', hd1, hd2⟩ := readGo_spec cfg m lay gs hfg (fun g hg r hr => (hmem g hg r hr).2) (fun _ => none) []
  have hseq : sequence (regs.map d') = some (regs.map (fun r => m (lay r) r)) := by
    apply sequence_map_some
    intro r hr
    obtain ⟨g, hg, _, hrg⟩ := h4 r hr
    rw [hd2 r, if_pos ⟨g, hg, hrg⟩]
  simp [readBatch, h1, hd1, hseq]

/-- … and each layer involved is asked exactly once, for exactly its registers, in request order. -/
theorem readBatch_calls (cfg : Cfg) (m : Mem V) (lay : RegId → Layer) (regs : List RegId)
    (hl : ∀ r ∈ regs, cfg.layerOf r = some (lay r)) (hf : ∀ r ∈ regs, cfg.failing (lay r) = false) :
    ((readBatch cfg m regs).calls.map (·.layer)).Nodup ∧
    (∀ c ∈ (readBatch cfg m regs).calls, c.regs = regs.filter (fun r => lay r = c.layer) ∧ c.regs ≠ []) ∧
    (∀ r ∈ regs, lay r ∈ (readBatch cfg m regs).calls.map (·.layer)) := by
  obtain ⟨gs, h1, h2, h3, h4⟩ := grouping cfg lay regs hl
  have hmem : ∀ g ∈ gs, ∀ r ∈ g.2, r ∈ regs ∧ lay r = g.1 := by
    intro g hg r hr
    rw [(h3 g hg).1] at hr
    simpa using hr
  have hfg : ∀ g ∈ gs, cfg.failing g.1 = false := by
    intro g hg
    obtain ⟨r, hr⟩ := List.exists_mem_of_ne_nil _ (h3 g hg).2
    have := hmem g hg r hr
    rw [← this.2]; exact hf r this.1
  obtain ⟨d', hd1, hd2⟩ := readGo_spec cfg m lay gs hfg (fun g hg r hr => (hmem g hg r hr).2) (fun _ => none) []
  have hseq : sequence (regs.map d') = some (regs.map (fun r => m (lay r) r)) := by
    apply sequence_map_some
    intro r hr
    obtain ⟨g, hg, _, hrg⟩ := h4 r hr
    rw [hd2 r, if_pos ⟨g, hg, hrg⟩]
  have hc : (readBatch cfg m regs).calls = gs.map callOfRead := by simp [readBatch, h1, hd1, hseq]
  rw [hc]
  refine ⟨?_, ?_, ?_⟩
  · simpa [layers, callOfRead, Function.comp_def] using h2
  · intro c hc
    obtain ⟨g, hg, rfl⟩ := List.mem_map.mp hc
    exact h3 g hg
  · intro r hr
    obtain ⟨g, hg, hgl, _⟩ := h4 r hr
    exact List.mem_map.mpr ⟨callOfRead g, List.mem_map_of_mem hg, by simp [callOfRead, hgl]⟩

/-- the sequence of single writes through the composite is `seqWrite` -/
theorem fold_write_eq_seqWrite (cfg : Cfg) (lay : RegId → Layer) (ps : List (RegId × V))
    (hl : ∀ e ∈ ps, cfg.layerOf e.1 = some (lay e.1)) (hf : ∀ e ∈ ps, cfg.failing (lay e.1) = false) (m : Mem V) :
    ps.foldl (fun m e => (Composite.write cfg m e.2 e.1).mem) m = seqWrite lay m ps := by
  induction ps generalizing m with
  | nil => rfl
  | cons a ps ih =>
    simp only [List.foldl_cons, seqWrite]
    rw [(write_single cfg m lay a.2 a.1 (hl a (by simp)) (hf a (by simp))).2.2]
    exact ih (fun e he => hl e (by simp [he])) (fun e he => hf e (by simp [he])) _

/-- what the write loop leaves in memory, in terms of the last value per register -/
theorem writeBatch_mem (cfg : Cfg) (m : Mem V) (lay : RegId → Layer) (vals : List V) (regs : List RegId)
    (hl : ∀ e ∈ pairs vals regs, cfg.layerOf e.1 = some (lay e.1))
    (hf : ∀ e ∈ pairs vals regs, cfg.failing (lay e.1) = false) :
    (writeBatch cfg m vals regs).res = .unit ∧
    (∀ l r, (writeBatch cfg m vals regs).mem l r =
      match lastV (pairs vals regs) r with
      | some v => if lay r = l then v else m l r
      | none => m l r) ∧
    ((writeBatch cfg m vals regs).calls.map (·.layer)).Nodup ∧
    (∀ c ∈ (writeBatch cfg m vals regs).calls,
      c.regs = ((pairs vals regs).map (·.1)).filter (fun r => lay r = c.layer) ∧ c.regs ≠ [] ∧
      c.vals.map some = c.regs.map (lastV (pairs vals regs))) ∧
    (∀ e ∈ pairs vals regs, lay e.1 ∈ (writeBatch cfg m vals regs).calls.map (·.layer)) := by
  generalize hps : pairs vals regs = ps at hl hf
  cases ps with
  | nil => simp [writeBatch, hps, groupsFrom, writeGo, lastV]
  | cons p0 ps' =>
    let ps := p0 :: ps'
    let f : RegId → V := fun r => (lastV ps r).getD p0.2
    have hl' : ∀ r ∈ ps.map (·.1), cfg.layerOf r = some (lay r) := by
      intro r hr; obtain ⟨e, he, rfl⟩ := List.mem_map.mp hr; exact hl e he
    obtain ⟨gs, h1, hnd, h3, h4⟩ := grouping cfg lay (ps.map (·.1)) hl'
    have hmem : ∀ g ∈ gs, ∀ r ∈ g.2, r ∈ ps.map (·.1) ∧ lay r = g.1 := by
      intro g hg r hr
      rw [(h3 g hg).1] at hr
      simpa using hr
    have hfg : ∀ g ∈ gs, cfg.failing g.1 = false := by
      intro g hg
      obtain ⟨r, hr⟩ := List.exists_mem_of_ne_nil _ (h3 g hg).2
      have := hmem g hg r hr
      obtain ⟨e, he, hre⟩ := List.mem_map.mp this.1
      rw [← this.2, ← hre]; exact hf e he
    have hwv : ∀ k, (ps.foldl (fun d e => dset d e.1 e.2) (fun _ => none)) k = lastV ps k := by
      intro k; rw [wv_fold]; cases lastV ps k <;> rfl
    have hv : ∀ g ∈ gs, ∀ r ∈ g.2, (ps.foldl (fun d e => dset d e.1 e.2) (fun _ => none)) r = some (f r) := by
      intro g hg r hr
      rw [hwv]
      have := (lastV_isSome ps r).mpr (hmem g hg r hr).1
      cases h : lastV ps r with
      | none => rw [h] at this; cases this
      | some v => simp [f, h]
    obtain ⟨m', hm1, hm2⟩ := writeGo_spec cfg _ f gs hfg hv m []
    have hres : writeBatch cfg m vals regs = ⟨.unit, [] ++ gs.map (callOfWrite f), m'⟩ := by
      simp only [writeBatch, hps]
      rw [h1]; simp only; rw [hm1]
    rw [hres]
    refine ⟨rfl, ?mem, ?nd, ?calls, ?cover⟩
    case nd => simpa [layers, callOfWrite, Function.comp_def] using hnd
    case cover =>
      intro e he
      obtain ⟨g, hg, hgl, _⟩ := h4 e.1 (List.mem_map_of_mem (f := fun e => e.1) he)
      exact List.mem_map.mpr ⟨callOfWrite f g, List.mem_map_of_mem hg, by simp [callOfWrite, hgl]⟩
    case calls =>
      intro c hc
      obtain ⟨g, hg, rfl⟩ := List.mem_map.mp hc
      refine ⟨(h3 g hg).1, (h3 g hg).2, ?_⟩
      simp only [callOfWrite, List.map_map]
      apply List.map_congr_left
      intro r hr
      have := hv g hg r hr
      rw [hwv] at this
      exact this.symm
    intro l r
    simp only
    rw [hm2 l r]
    cases h : lastV ps r with
    | none =>
      have hnot : ¬ r ∈ ps.map (·.1) := by
        intro hr; have := (lastV_isSome ps r).mpr hr; rw [h] at this; cases this
      have : ¬ ∃ g ∈ gs, g.1 = l ∧ r ∈ g.2 := by
        rintro ⟨g, hg, _, hr⟩; exact hnot (hmem g hg r hr).1
      rw [if_neg this]
    | some v =>
      have hr : r ∈ ps.map (·.1) := (lastV_isSome ps r).mp (by rw [h]; rfl)
      have hfr : f r = v := by simp [f, h]
      simp only
      by_cases hlr : lay r = l
      · obtain ⟨g, hg, hgl, hrg⟩ := h4 r hr
        rw [if_pos ⟨g, hg, hgl.trans hlr, hrg⟩, if_pos hlr, hfr]
      · have : ¬ ∃ g ∈ gs, g.1 = l ∧ r ∈ g.2 := by
          rintro ⟨g, hg, hgl, hr'⟩; exact hlr ((hmem g hg r hr').2.trans hgl)
        rw [if_neg this, if_neg hlr]

/-- Full statement, writes: after a batch write through the composite every layer's memory is exactly
    what the sequence of single writes — each register on its own layer, in request order — leaves
    (duplicates allowed; `zip(values, registers)` as in the code). -/
theorem writeBatch_transparent (cfg : Cfg) (m : Mem V) (lay : RegId → Layer) (vals : List V) (regs : List RegId)
    (hl : ∀ e ∈ pairs vals regs, cfg.layerOf e.1 = some (lay e.1))
    (hf : ∀ e ∈ pairs vals regs, cfg.failing (lay e.1) = false) :
    (writeBatch cfg m vals regs).res = .unit ∧
    (writeBatch cfg m vals regs).mem = (pairs vals regs).foldl (fun m e => (Composite.write cfg m e.2 e.1).mem) m := by
  obtain ⟨h1, h2, _, _, _⟩ := writeBatch_mem cfg m lay vals regs hl hf
  refine ⟨h1, ?_⟩
  rw [fold_write_eq_seqWrite cfg lay _ hl hf]
  funext l r
  rw [h2 l r, seqWrite_spec]
  cases lastV (pairs vals regs) r <;> rfl

theorem map_some_inj : ∀ (a b : List V), a.map some = b.map some → a = b
  | [], [], _ => rfl
  | [], _ :: _, h => by simp at h
  | _ :: _, [], h => by simp at h
  | x :: a, y :: b, h => by
    simp only [List.map_cons, List.cons.injEq, Option.some.injEq] at h
    rw [h.1, map_some_inj a b h.2]

theorem lastV_nodup (ps : List (RegId × V)) (hnd : (ps.map (·.1)).Nodup) : ∀ e ∈ ps, lastV ps e.1 = some e.2 := by
  induction ps with
  | nil => intro e he; cases he
  | cons a ps ih =>
    simp only [List.map_cons, List.nodup_cons] at hnd
    intro e he
    rcases List.mem_cons.mp he with h | h
    · have hn : lastV ps a.1 = none := by
        cases hx : lastV ps a.1 with
        | none => rfl
        | some v => exact absurd ((lastV_isSome ps a.1).mp (by rw [hx]; rfl)) hnd.1
      rw [h]; simp [lastV, hn]
    · simp [lastV, ih hnd.2 e h]

/-- … and, when a batch names each register once, every layer receives exactly one batch: its own
    registers with their values, in request order — the same sequence single writes would deliver to it. -/
theorem writeBatch_calls (cfg : Cfg) (m : Mem V) (lay : RegId → Layer) (vals : List V) (regs : List RegId)
    (hl : ∀ e ∈ pairs vals regs, cfg.layerOf e.1 = some (lay e.1))
    (hf : ∀ e ∈ pairs vals regs, cfg.failing (lay e.1) = false)
    (hnd : ((pairs vals regs).map (·.1)).Nodup) :
    ((writeBatch cfg m vals regs).calls.map (·.layer)).Nodup ∧
    (∀ e ∈ pairs vals regs, lay e.1 ∈ (writeBatch cfg m vals regs).calls.map (·.layer)) ∧
    ∀ c ∈ (writeBatch cfg m vals regs).calls,
      c.regs = ((pairs vals regs).filter (fun e => lay e.1 = c.layer)).map (·.1) ∧
      c.vals = ((pairs vals regs).filter (fun e => lay e.1 = c.layer)).map (·.2) := by
  obtain ⟨_, _, h3, h4, h5⟩ := writeBatch_mem cfg m lay vals regs hl hf
  refine ⟨h3, h5, ?_⟩
  · intro c hc
    obtain ⟨hr, _, hv⟩ := h4 c hc
    have hregs : c.regs = ((pairs vals regs).filter (fun e => lay e.1 = c.layer)).map (·.1) := by
      rw [hr, List.filter_map]; rfl
    refine ⟨hregs, ?_⟩
    apply map_some_inj
    rw [hv, hregs, List.map_map, List.map_map]
    apply List.map_congr_left
    intro e he
    exact lastV_nodup _ hnd e ((List.mem_filter.mp he).1)

/-! ## Errors are passed through as well -/

/-- a register without a hardware layer: `KeyError` before any layer is touched -/
theorem readBatch_missing_layer (cfg : Cfg) (m : Mem V) (regs : List RegId) (h : ∃ r ∈ regs, cfg.layerOf r = none) :
    (readBatch cfg m regs).res = .raiseKey ∧ (readBatch cfg m regs).calls = [] ∧ (readBatch cfg m regs).mem = m := by
  simp [readBatch, groupsFrom_none cfg regs h []]

theorem writeBatch_missing_layer (cfg : Cfg) (m : Mem V) (vals : List V) (regs : List RegId)
    (h : ∃ e ∈ pairs vals regs, cfg.layerOf e.1 = none) :
    (writeBatch cfg m vals regs).res = .raiseKey ∧ (writeBatch cfg m vals regs).calls = [] ∧
    (writeBatch cfg m vals regs).mem = m := by
  have : ∃ r ∈ (pairs vals regs).map (·.1), cfg.layerOf r = none := by
    obtain ⟨e, he, hn⟩ := h; exact ⟨e.1, List.mem_map_of_mem (f := fun e => e.1) he, hn⟩
  simp [writeBatch, groupsFrom_none cfg _ this []]

/-- a failing layer among those involved: the batch read raises the hardware exception -/
theorem readBatch_failing_layer (cfg : Cfg) (m : Mem V) (lay : RegId → Layer) (regs : List RegId)
    (hl : ∀ r ∈ regs, cfg.layerOf r = some (lay r)) (hf : ∃ r ∈ regs, cfg.failing (lay r) = true) :
    (readBatch cfg m regs).res = .raiseHw ∧ (readBatch cfg m regs).mem = m := by
  obtain ⟨gs, h1, _, _, h4⟩ := grouping cfg lay regs hl
  obtain ⟨r, hr, hfr⟩ := hf
  obtain ⟨g, hg, hgl, _⟩ := h4 r hr
  have := readGo_fail cfg m gs ⟨g, hg, by rw [hgl]; exact hfr⟩ (fun _ => none) []
  simp only [readBatch, h1]
  cases hgo : readGo cfg m gs (fun _ => none) [] with
  | mk d cs => rw [hgo] at this; simp only at this; subst this; exact ⟨rfl, rfl⟩

theorem writeBatch_failing_layer (cfg : Cfg) (m : Mem V) (lay : RegId → Layer) (vals : List V) (regs : List RegId)
    (hl : ∀ e ∈ pairs vals regs, cfg.layerOf e.1 = some (lay e.1))
    (hf : ∃ e ∈ pairs vals regs, cfg.failing (lay e.1) = true) :
    (writeBatch cfg m vals regs).res = .raiseHw := by
  have hl' : ∀ r ∈ (pairs vals regs).map (·.1), cfg.layerOf r = some (lay r) := by
    intro r hr; obtain ⟨e, he, rfl⟩ := List.mem_map.mp hr; exact hl e he
  obtain ⟨gs, h1, _, _, h4⟩ := grouping cfg lay _ hl'
  obtain ⟨e, he, hfe⟩ := hf
  obtain ⟨g, hg, hgl, _⟩ := h4 e.1 (List.mem_map_of_mem (f := fun e => e.1) he)
  have := writeGo_fail cfg ((pairs vals regs).foldl (fun d e => dset d e.1 e.2) (fun _ => none)) gs
    ⟨g, hg, by rw [hgl]; exact hfe⟩ m []
  simp only [writeBatch, h1]
  cases hgo : writeGo cfg ((pairs vals regs).foldl (fun d e => dset d e.1 e.2) (fun _ => none)) gs m [] with
  | mk b rest => rw [hgo] at this; simp only at this; subst this; rfl

/-! ## Non-vacuity: four layers, interleaved registers, duplicates -/

def cfg4 : Cfg := { layerOf := fun r => if r < 8 then some (r % 4) else none, failing := fun _ => false }
def mem4 : Mem Int := fun l r => 100 * l + r

example : (readBatch cfg4 mem4 [5, 0, 6, 1, 5, 3]).res = .vals [105, 0, 206, 101, 105, 303] := by decide
example : ((readBatch cfg4 mem4 [5, 0, 6, 1, 5, 3]).calls.map (fun c => (c.layer, c.regs)))
    = [(1, [5, 1, 5]), (0, [0]), (2, [6]), (3, [3])] := by decide
example : ((writeBatch cfg4 mem4 [7, 8, 9, 10] [5, 0, 1, 4]).calls.map (fun c => (c.layer, c.regs, c.vals)))
    = [(1, [5, 1], [7, 9]), (0, [0, 4], [8, 10])] := by decide
/-- duplicate register inside one batch: the memory agrees with the single writes (last value wins) although
    the layer receives the last value twice -/
example : (writeBatch cfg4 mem4 [7, 8] [5, 5]).mem 1 5 = 8 ∧
    ((writeBatch cfg4 mem4 [7, 8] [5, 5]).calls.map (fun c => (c.layer, c.regs, c.vals))) = [(1, [5, 5], [8, 8])] := by
  decide
example : (readBatch cfg4 mem4 [1, 9]).res = .raiseKey := by decide

end OPM.C25
