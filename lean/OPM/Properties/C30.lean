import OPM.Model.RunRecords
import OPM.Lemmas.RunRecords
/-!
# C30 Each run yields exactly one recent run and one plot log

"Each run produces exactly one recent-run record and exactly one plot log, regardless of duplicated or resent
run-started and run-stopped notifications and of engine disconnects during the run."

Histories = arbitrary lists over {register e, disconnect e, RunStartedMsg e r, RunStoppedMsg e r, aggregator restart,
aggregator crash} for any number of
engine ids `e` and any run ids `r` (also the same run id at two engines), starting from an empty database: every
duplication, resend, reordering and disconnect pattern is such a list.  Rows are counted per run id
(`runIds` = the run_id column), as the property observes them.
`run true` is the code with the repair (fixes/C30-one-record-per-run.diff, committed in /repo), `run false` the
code before it.
-/
namespace OPM.C30
open OPM.RunRecords

/-- The full statement, for either version of the code. -/
def C30_full (guarded : Bool) : Prop :=
  ∀ (ops : List Op) (r : Nat),
    (runIds (run guarded init ops).plotLogs).count r ≤ 1 ∧ (runIds (run guarded init ops).recentRuns).count r ≤ 1

/-- **Full statement (repaired code).** Whatever the message history, no run id ever has two plot logs or two
    recent-run records. -/
theorem at_most_one : C30_full true := by
  intro ops r
  have h := good_run init ops good_init
  rw [h.plNodup.count, h.rrNodup.count]
  constructor <;> split <;> omega

/-- Before the repair the statement is false: a duplicated RunStartedMsg gives the run a second plot log. -/
theorem unrepaired_counterexample : ¬ C30_full false := by
  intro h
  have := (h [.register 0, .start 0 1, .start 0 1] 1).1
  revert this
  decide

/-- Three minimal histories that break the unrepaired code: duplicate start; start resent after the stop (second
    plot log *and*, with the resent stop, a second recent run); start resent after a reconnect. -/
theorem unrepaired_witnesses :
    (runIds (run false init [.register 0, .start 0 1, .start 0 1]).plotLogs).count 1 = 2 ∧
    (runIds (run false init [.register 0, .start 0 1, .stop 0 1, .start 0 1, .stop 0 1]).recentRuns).count 1 = 2 ∧
    (runIds (run false init [.register 0, .start 0 1, .disconnect 0, .register 0, .start 0 1]).plotLogs).count 1 = 2 := by
  decide

/-- …and the repaired code handles exactly those histories. -/
example :
    (run true init [.register 0, .start 0 1, .start 0 1]).plotLogs = [(0, 1)] ∧
    (run true init [.register 0, .start 0 1, .stop 0 1, .start 0 1, .stop 0 1]).recentRuns = [(0, 1)] ∧
    (run true init [.register 0, .start 0 1, .disconnect 0, .register 0, .start 0 1]).plotLogs = [(0, 1)] := by
  decide

/-- Exactly one plot log: once a RunStartedMsg for `r` has been handled for a registered engine, `r` has exactly
    one plot log after any continuation whatsoever. -/
theorem started_run_has_exactly_one_plot_log (before after : List Op) (e r : Nat)
    (hreg : ((run true init before).eng e).registered = true) :
    (runIds (run true init (before ++ .start e r :: after)).plotLogs).count r = 1 := by
  have hgood := good_run init (before ++ .start e r :: after) good_init
  rw [hgood.plNodup.count]
  have hmem : r ∈ runIds (run true init (before ++ .start e r :: after)).plotLogs := by
    rw [run_append, run_cons]
    apply runIds_mono _ _ (run_mono true _ after).1
    rw [(step_start_eq _ _ _ hreg).2.1, mem_addOnce]
    exact Or.inr rfl
  simp [hmem]

example : ((run true init [.register 3]).eng 3).registered = true := by decide

theorem registered_of_run (ops : List Op) (e r : Nat) (hrun : ((run true init ops).eng e).run = some r) :
    ((run true init ops).eng e).registered = true := by
  have hb := good_run init ops good_init
  cases h : ((run true init ops).eng e).registered with
  | true => rfl
  | false => rw [hb.unreg e h] at hrun; cases hrun

/-- Exactly one recent run: once a RunStoppedMsg (with whatever run id) has been handled while `r` was the active
    run of the engine, `r` has exactly one recent-run record and exactly one plot log after any continuation. -/
theorem stopped_run_has_exactly_one_of_each (before after : List Op) (e q r : Nat)
    (hrun : ((run true init before).eng e).run = some r) :
    (runIds (run true init (before ++ .stop e q :: after)).recentRuns).count r = 1 ∧
    (runIds (run true init (before ++ .stop e q :: after)).plotLogs).count r = 1 := by
  have hgood := good_run init (before ++ .stop e q :: after) good_init
  have hreg := registered_of_run before e r hrun
  have hmem : r ∈ runIds (run true init (before ++ .stop e q :: after)).recentRuns := by
    rw [run_append, run_cons]
    apply runIds_mono _ _ (run_mono true _ after).2
    rw [(step_stop_eq _ _ _ hreg).2.2, hrun]
    simp [mem_addOnce]
  rw [hgood.rrNodup.count, hgood.plNodup.count]
  simp [hmem, hgood.rrHasPl r hmem]

example : ((run true init [.register 0, .start 0 7, .disconnect 0, .register 0]).eng 0).run = some 7 := by decide

/-- The same when the run is ended by the start of another run. -/
theorem superseded_run_has_exactly_one_of_each (before after : List Op) (e q r : Nat) (hne : r ≠ q)
    (hrun : ((run true init before).eng e).run = some r) :
    (runIds (run true init (before ++ .start e q :: after)).recentRuns).count r = 1 ∧
    (runIds (run true init (before ++ .start e q :: after)).plotLogs).count r = 1 := by
  have hgood := good_run init (before ++ .start e q :: after) good_init
  have hreg := registered_of_run before e r hrun
  have hmem : r ∈ runIds (run true init (before ++ .start e q :: after)).recentRuns := by
    rw [run_append, run_cons]
    apply runIds_mono _ _ (run_mono true _ after).2
    rw [(step_start_eq _ _ _ hreg).2.2, hrun]
    simp [mem_addOnce, hne]
  rw [hgood.rrNodup.count, hgood.plNodup.count]
  simp [hmem, hgood.rrHasPl r hmem]

/-- Every recent run has exactly one plot log, and every plot log belongs to a run that is finished (has its
    recent-run record), or is open at some engine: its active run, or parked in the engine's RecentEngines row while
    the engine is disconnected. -/
theorem records_are_paired (ops : List Op) (r : Nat) :
    let s := run true init ops
    (r ∈ runIds s.recentRuns → (runIds s.plotLogs).count r = 1) ∧
    (r ∈ runIds s.plotLogs → r ∈ runIds s.recentRuns ∨ ∃ e, openAt (s.eng e) r) := by
  intro s
  have h := good_run init ops good_init
  refine ⟨fun hr => ?_, h.accounted r⟩
  rw [h.plNodup.count]; simp [h.rrHasPl r hr]

/-- Messages of an engine that is not registered (disconnected) change nothing at all; a RunStartedMsg /
    RunStoppedMsg is answered with an error. In particular a stop that arrives only then is dropped. -/
theorem unregistered_messages_are_dropped (g : Bool) (s : State) (e r : Nat) (h : (s.eng e).registered = false) :
    step g s (.start e r) = (s, .notRegistered) ∧ step g s (.stop e r) = (s, .notRegistered) ∧
    step g s (.disconnect e) = (s, .ok) :=
  step_unregistered g s e r h

/-- What an engine's entry looks like is changed only by that engine's own messages. -/
theorem other_engines_untouched (g : Bool) (s : State) (op : Op) (e : Nat)
    (h : match op with
      | .register x | .disconnect x | .start x _ | .stop x _ => x ≠ e
      | .restart | .crash => False) :
    (step g s op).1.eng e = s.eng e := by
  cases op with
  | register x =>
    have hx : e ≠ x := fun h' => h h'.symm
    simp only [step]; split <;> simp [setEng, hx]
  | disconnect x =>
    have hx : e ≠ x := fun h' => h h'.symm
    simp only [step]; split <;> simp [setEng, hx]
  | start x r =>
    have hx : e ≠ x := fun h' => h h'.symm
    simp only [step, createPlotLog, storeRecentRun]
    repeat' split
    all_goals simp [setEng, hx]
  | stop x r =>
    have hx : e ≠ x := fun h' => h h'.symm
    simp only [step, storeRecentRun]
    repeat' split
    all_goals simp [setEng, hx]
  | restart => exact h.elim
  | crash => exact h.elim

/-- **Disconnect during the run.** The run is parked at the disconnect; whatever arrives while the engine is away
    (its own messages are dropped, other engines go on, the aggregator process may restart or crash), the
    re-registration gives the run back. -/
theorem run_restored_after_disconnect (before mid : List Op) (e r : Nat)
    (hrun : ((run true init before).eng e).run = some r) (hmid : ∀ op ∈ mid, op ≠ .register e) :
    ((run true init (before ++ .disconnect e :: mid ++ [.register e])).eng e).run = some r ∧
    ((run true init (before ++ .disconnect e :: mid ++ [.register e])).eng e).registered = true := by
  have hreg := registered_of_run before e r hrun
  have hpark : ∀ (mid : List Op) (s : State), (∀ op ∈ mid, op ≠ .register e) → (s.eng e).registered = false →
      (s.eng e).run = none → (run true s mid).eng e = s.eng e := by
    intro mid
    induction mid with
    | nil => intro s _ _ _; rfl
    | cons op ops ih =>
      intro s hm hs hn
      rw [run_cons]
      have hstep : (step true s op).1.eng e = s.eng e := by
        have hne := hm op (by simp)
        cases op with
        | register x =>
          apply other_engines_untouched; intro hx; exact hne (by rw [hx])
        | disconnect x =>
          by_cases hx : x = e
          · subst hx; rw [(step_unregistered true s x 0 hs).2.2]
          · exact other_engines_untouched _ _ _ _ hx
        | start x q =>
          by_cases hx : x = e
          · subst hx; rw [(step_unregistered true s x q hs).1]
          · exact other_engines_untouched _ _ _ _ hx
        | stop x q =>
          by_cases hx : x = e
          · subst hx; rw [(step_unregistered true s x q hs).2.1]
          · exact other_engines_untouched _ _ _ _ hx
        | restart => rw [(step_restart_eq true s).1 e]; simp [hs]
        | crash =>
          rw [(step_crash_eq true s).1 e]
          cases hE : s.eng e
          rw [hE] at hs hn
          simp_all
      rw [ih _ (fun o ho => hm o (by simp [ho])) (by rw [hstep]; exact hs) (by rw [hstep]; exact hn), hstep]
  have hshape : run true init (before ++ .disconnect e :: mid ++ [.register e]) =
      (step true (run true (step true (run true init before) (.disconnect e)).1 mid) (.register e)).1 := by
    rw [List.append_assoc, run_append, List.cons_append, run_cons, run_append]
    rfl
  rw [hshape]
  have hd := (step_disconnect_eq true (run true init before) e).1 e
  simp only [hreg, and_self, if_true] at hd
  have hm := hpark mid _ hmid (by rw [hd]) (by rw [hd])
  have hr := (step_register_eq true (run true (step true (run true init before) (.disconnect e)).1 mid) e).1 e
  rw [hr, hm, hd]
  simp [hrun, restoredRun]

/-- …so a run that was open across a disconnect gets exactly one recent-run record and one plot log at the next
    handled RunStoppedMsg (with whatever id), for ever after. -/
theorem run_open_across_disconnect_is_recorded (before mid after : List Op) (e q r : Nat)
    (hrun : ((run true init before).eng e).run = some r) (hmid : ∀ op ∈ mid, op ≠ .register e) :
    (runIds (run true init ((before ++ .disconnect e :: mid ++ [.register e]) ++ .stop e q :: after)).recentRuns).count r = 1 ∧
    (runIds (run true init ((before ++ .disconnect e :: mid ++ [.register e]) ++ .stop e q :: after)).plotLogs).count r = 1 :=
  stopped_run_has_exactly_one_of_each _ after e q r (run_restored_after_disconnect before mid e r hrun hmid).1

example : ∀ op ∈ [Op.stop 0 1, .start 0 2, .start 1 1, .disconnect 0], op ≠ Op.register 0 := by decide


/-- **Aggregator restart or crash during the run.** The new process (same database) knows no engine; when the engine
    registers again its run is given back — after a graceful restart from the row `shutdown()` wrote, after a crash
    from the row the RunStartedMsg wrote — so the run is recorded at its end like any other
    (`stopped_run_has_exactly_one_of_each` / `superseded_…` apply to the history continued from here). -/
theorem run_survives_aggregator_restart (ops : List Op) (e r : Nat) (graceful : Bool)
    (hrun : ((run true init ops).eng e).run = some r) :
    let s' := run true init (ops ++ [if graceful then .restart else .crash, .register e])
    (s'.eng e).run = some r ∧ (s'.eng e).registered = true := by
  intro s'
  have hg := good_run init ops good_init
  have hreg := registered_of_run ops e r hrun
  have hre := (hg.synced e r hreg).mp hrun
  have hs' : s' = (step true (step true (run true init ops) (if graceful then .restart else .crash)).1 (.register e)).1 := by
    simp only [s', run_append]; rfl
  have hr := (step_register_eq true (step true (run true init ops) (if graceful then .restart else .crash)).1 e).1 e
  rw [hs', hr]
  cases graceful with
  | true =>
    have hd := (step_restart_eq true (run true init ops)).1 e
    simp only [hreg, if_true] at hd
    simp only [if_true, hd, and_self, restoredRun, hrun]
  | false =>
    have hd := (step_crash_eq true (run true init ops)).1 e
    simp only [Bool.false_eq_true, if_false, hd, and_self, if_true, restoredRun, hre]

example : ((run true init [.register 0, .start 0 4, .crash, .register 0, .stop 0 4]).recentRuns) = [(0, 4)] ∧
    ((run true init [.register 0, .start 0 4, .restart, .register 0, .stop 0 4]).recentRuns) = [(0, 4)] := by decide

/-- A disconnect during the run followed by the re-registration gives the run back (and no new rows). -/
theorem run_survives_reconnect (ops : List Op) (e : Nat) (hreg : ((run true init ops).eng e).registered = true) :
    let s := run true init ops
    let s' := run true init (ops ++ [.disconnect e, .register e])
    (s'.eng e).run = (s.eng e).run ∧ (s'.eng e).registered = true ∧ s'.plotLogs = s.plotLogs ∧
    s'.recentRuns = s.recentRuns := by
  intro s s'
  have hs' : s' = (step true (step true s (.disconnect e)).1 (.register e)).1 := by
    simp only [s', s, run_append]; rfl
  have hd := step_disconnect_eq true s e
  have hr := step_register_eq true (step true s (.disconnect e)).1 e
  have hde := hd.1 e
  simp only [show ((run true init ops).eng e).registered = true from hreg, s, and_self, if_true] at hde
  rw [hs', hr.1 e, hr.2.1, hr.2.2, hd.2.1, hd.2.2, hde]
  refine ⟨?_, ?_, rfl, rfl⟩
  · simp only [and_self, if_true]
    cases ((run true init ops).eng e).run <;> rfl
  · simp

/-! What does **not** hold, and is recorded rather than claimed:
  * a RunStoppedMsg that arrives *only* while the engine is not registered is dropped (the engine gets an error
    reply); the run stays open and is recorded at the next handled stop / superseding start after the
    re-registration — if none ever arrives it has no recent-run record; -/
example :
    (run true init [.register 0, .start 0 1, .disconnect 0, .stop 0 1]).recentRuns = [] ∧
    ((run true init [.register 0, .start 0 1, .disconnect 0, .stop 0 1, .register 0]).eng 0).run = some 1 ∧
    (run true init [.register 0, .start 0 1, .disconnect 0, .stop 0 1, .register 0, .stop 0 1]).recentRuns = [(0, 1)] := by
  decide

/-!
  * the tables are keyed by run id only: if two engines use the same run id (engine run ids are uuid4, so this needs
    a collision or a misbehaving engine) the second engine's run is merged into the first one's rows — still
    one row per run id, but none of its own. -/
example :
    (run true init [.register 0, .register 1, .start 0 5, .start 1 5, .stop 0 5, .stop 1 5]).plotLogs = [(0, 5)] ∧
    (run true init [.register 0, .register 1, .start 0 5, .start 1 5, .stop 0 5, .stop 1 5]).recentRuns = [(0, 5)] := by
  decide

end OPM.C30
