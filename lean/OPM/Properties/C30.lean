import OPM.Model.RunRecords
import OPM.Lemmas.RunRecords
/-!
# C30 Each run yields exactly one recent run and one plot log

"Each run produces exactly one recent-run record and exactly one plot log, regardless of duplicated or resent
run-started and run-stopped notifications and of engine disconnects during the run."

Histories = arbitrary lists over {register, disconnect, RunStartedMsg r, RunStoppedMsg r} for one engine,
starting from an empty database: every duplication, resend, reordering and disconnect pattern is such a list.
`run true` is the code with fixes/C30-one-record-per-run.diff applied, `run false` the code before it.
-/
namespace OPM.C30
open OPM.RunRecords

/-- The full statement, for either version of the code. -/
def C30_full (guarded : Bool) : Prop :=
  ∀ (ops : List Op) (r : Nat),
    (run guarded init ops).plotLogs.count r ≤ 1 ∧ (run guarded init ops).recentRuns.count r ≤ 1

/-- **Full statement (repaired code).** Whatever the message history, no run id ever has two plot logs or two
    recent-run records. -/
theorem at_most_one : C30_full true := by
  intro ops r
  have h := good_run init ops good_init
  rw [h.plNodup.count, h.rrNodup.count]
  constructor <;> split <;> omega

/-- Before the repair the statement is false: a duplicated RunStartedMsg gives the run a second plot log. -/
theorem unrepaired_counterexample : ¬ C30_full false := by
  intro h
  have := (h [.register, .start 1, .start 1] 1).1
  revert this
  decide

/-- Three minimal histories that break the unrepaired code: duplicate start; start resent after the stop (second
    plot log *and*, with the resent stop, a second recent run); start resent after a reconnect. -/
theorem unrepaired_witnesses :
    (run false init [.register, .start 1, .start 1]).plotLogs.count 1 = 2 ∧
    (run false init [.register, .start 1, .stop 1, .start 1, .stop 1]).recentRuns.count 1 = 2 ∧
    (run false init [.register, .start 1, .disconnect, .register, .start 1]).plotLogs.count 1 = 2 := by
  decide

/-- …and the repaired code handles exactly those histories. -/
example :
    (run true init [.register, .start 1, .start 1]).plotLogs = [1] ∧
    (run true init [.register, .start 1, .stop 1, .start 1, .stop 1]).recentRuns = [1] ∧
    (run true init [.register, .start 1, .disconnect, .register, .start 1]).plotLogs = [1] := by
  decide

/-- Exactly one plot log: once a RunStartedMsg for `r` has been handled for a registered engine, `r` has exactly
    one plot log after any continuation whatsoever. -/
theorem started_run_has_exactly_one_plot_log (before after : List Op) (r : Nat)
    (hreg : (run true init before).registered = true) :
    (run true init (before ++ .start r :: after)).plotLogs.count r = 1 := by
  have hgood := good_run init (before ++ .start r :: after) good_init
  rw [hgood.plNodup.count]
  have hmem : r ∈ (run true init (before ++ .start r :: after)).plotLogs := by
    rw [run_append]
    have : run true (run true init before) (.start r :: after)
        = run true (step true (run true init before) (.start r)).1 after := rfl
    rw [this]
    apply (run_mono true _ after).1
    rw [step_start_eq _ _ hreg]
    simp [mem_addOnce]
  simp [hmem]

example : (run true init [.register]).registered = true := by decide

/-- Exactly one recent run: once a RunStoppedMsg (with whatever run id) has been handled while `r` was the active
    run, `r` has exactly one recent-run record and exactly one plot log after any continuation. -/
theorem stopped_run_has_exactly_one_of_each (before after : List Op) (q r : Nat)
    (hrun : (run true init before).run = some r) :
    (run true init (before ++ .stop q :: after)).recentRuns.count r = 1 ∧
    (run true init (before ++ .stop q :: after)).plotLogs.count r = 1 := by
  have hgood := good_run init (before ++ .stop q :: after) good_init
  have hb := good_run init before good_init
  have hreg : (run true init before).registered = true := by
    cases h : (run true init before).registered with
    | true => rfl
    | false => rw [hb.unreg h] at hrun; cases hrun
  have hmem : r ∈ (run true init (before ++ .stop q :: after)).recentRuns := by
    rw [run_append]
    have : run true (run true init before) (.stop q :: after)
        = run true (step true (run true init before) (.stop q)).1 after := rfl
    rw [this]
    apply (run_mono true _ after).2
    rw [step_stop_eq _ _ hreg, hrun]
    simp [mem_addOnce]
  rw [hgood.rrNodup.count, hgood.plNodup.count]
  simp [hmem, hgood.rrHasPl r hmem]

example : (run true init [.register, .start 7, .disconnect, .register]).run = some 7 := by decide

/-- The same when the run is ended by the start of another run. -/
theorem superseded_run_has_exactly_one_of_each (before after : List Op) (q r : Nat) (hne : r ≠ q)
    (hrun : (run true init before).run = some r) :
    (run true init (before ++ .start q :: after)).recentRuns.count r = 1 ∧
    (run true init (before ++ .start q :: after)).plotLogs.count r = 1 := by
  have hgood := good_run init (before ++ .start q :: after) good_init
  have hb := good_run init before good_init
  have hreg : (run true init before).registered = true := by
    cases h : (run true init before).registered with
    | true => rfl
    | false => rw [hb.unreg h] at hrun; cases hrun
  have hmem : r ∈ (run true init (before ++ .start q :: after)).recentRuns := by
    rw [run_append]
    have : run true (run true init before) (.start q :: after)
        = run true (step true (run true init before) (.start q)).1 after := rfl
    rw [this]
    apply (run_mono true _ after).2
    rw [step_start_eq _ _ hreg, hrun]
    simp [mem_addOnce, hne]
  rw [hgood.rrNodup.count, hgood.plNodup.count]
  simp [hmem, hgood.rrHasPl r hmem]

/-- Every recent run has exactly one plot log, and every plot log belongs to a run that is finished (has its
    recent-run record), is the active run, or is parked in the RecentEngines row while the engine is disconnected. -/
theorem records_are_paired (ops : List Op) (r : Nat) :
    let s := run true init ops
    (r ∈ s.recentRuns → s.plotLogs.count r = 1) ∧
    (r ∈ s.plotLogs → r ∈ s.recentRuns ∨ s.run = some r ∨
      (s.registered = false ∧ s.recentEngineRun = some (some r))) := by
  intro s
  have h := good_run init ops good_init
  refine ⟨fun hr => ?_, h.accounted r⟩
  rw [h.plNodup.count]; simp [h.rrHasPl r hr]

/-- A disconnect during the run followed by the re-registration gives the run back (and no new rows). -/
theorem run_survives_reconnect (ops : List Op) (hreg : (run true init ops).registered = true) :
    let s := run true init ops
    let s' := run true init (ops ++ [.disconnect, .register])
    s'.run = s.run ∧ s'.registered = true ∧ s'.plotLogs = s.plotLogs ∧ s'.recentRuns = s.recentRuns := by
  intro s s'
  have : s' = (step true (step true s .disconnect).1 .register).1 := by
    simp only [s', s, run_append]; rfl
  rw [this, step_register_eq, step_disconnect_eq]
  simp only [hreg, s, if_true]
  cases (run true init ops).run <;> simp

end OPM.C30
