import OPM.Model.WebPush
import OPM.Lemmas.WebPush
/-!
# C33 Push notifications reach exactly the entitled subscribers

"A push notification about a process unit is sent only to subscribers whose recorded roles grant access to the
unit and whose preferences select that topic and unit (all accessible units, units of runs they contributed to,
or listed units). Each subscription is notified at most once, and a new-contributor notification never goes to
the contributor it is about."

`publish nc db p` is the list of subscription rows that `WebPushPublisher.publish_message` hands to
`_post_webpush` (code as it is); `nc` is the number of the NEW_CONTRIBUTOR topic (the theorems hold for any numbering).
`contribute nc db e c env` is the tail of the requests that make user `c` a contributor of engine `e`, including the
construction of the notification in `FromFrontend.publish_new_contributor_notification` (end-to-end section below).  `db` is arbitrary in the targeting theorems; the at-most-once theorem needs the
row ids to be distinct, which is shown for every database reachable through the repository operations (`run h`).
-/
namespace OPM.C33
open OPM.WebPush

/-- The preference row `p` selects unit `u` by its scope. -/
def ScopeSelects (p : Pref) (u : ProcUnit) : Prop :=
  match p.scope with
  | .access => True                          -- all units the user has access to
  | .contributed => p.user ∈ u.contributors  -- units with runs the user contributed to
  | .specific => u.id ∈ p.units              -- listed units

/-- `user` is entitled to notifications on `topic` about unit `u`: there is a preference row of that user whose
    topics contain the topic, whose *recorded* roles give access to the unit (`HasAccess`: the unit requires no
    role, or one of the required roles is among them), and whose scope selects the unit. -/
def Entitled (db : DB) (topic : Nat) (u : ProcUnit) (user : Nat) : Prop :=
  ∃ p ∈ db.prefs, p.user = user ∧ topic ∈ p.topics ∧ HasAccess u.required p.roles ∧ ScopeSelects p u

theorem mem_subscriptionsForTopic (db : DB) (topic : Nat) (u : ProcUnit) (s : Sub) :
    s ∈ subscriptionsForTopic db topic u ↔ s ∈ db.subs ∧ Entitled db topic u s.user := by
  unfold subscriptionsForTopic prefsForTopic Entitled ScopeSelects
  simp only [List.mem_filter, List.contains_eq_mem, decide_eq_true_eq, List.mem_append, List.mem_map,
    Bool.and_eq_true, beq_iff_eq, hasAccess_iff, filter_length_pos_iff, and_congr_right_iff]
  intro _
  constructor
  · rintro ((⟨p, ⟨⟨hp, ht⟩, hsc, ha⟩, he⟩ | ⟨p, ⟨⟨hp, ht⟩, ⟨hsc, ha⟩, hc⟩, he⟩) | ⟨p, ⟨⟨hp, ht⟩, ⟨hsc, ha⟩, hu⟩, he⟩)
    · exact ⟨p, hp, he, ht, ha, by rw [hsc]; trivial⟩
    · exact ⟨p, hp, he, ht, ha, by rw [hsc]; exact hc⟩
    · exact ⟨p, hp, he, ht, ha, by rw [hsc]; exact hu⟩
  · rintro ⟨p, hp, he, ht, ha, hsel⟩
    cases hsc : p.scope with
    | access => exact Or.inl (Or.inl ⟨p, ⟨⟨hp, ht⟩, hsc, ha⟩, he⟩)
    | contributed => rw [hsc] at hsel; exact Or.inl (Or.inr ⟨p, ⟨⟨hp, ht⟩, ⟨hsc, ha⟩, hsel⟩, he⟩)
    | specific => rw [hsc] at hsel; exact Or.inr ⟨p, ⟨⟨hp, ht⟩, ⟨hsc, ha⟩, hsel⟩, he⟩

/-- Exact characterisation (all databases, all notifications): a subscription row is posted iff publishing is
    configured, the notification is not stale, the row exists, its user is entitled, and it is not the
    contributor a new-contributor notification is about. -/
theorem notified_iff (nc : Nat) (db : DB) (p : Publish) (s : Sub) :
    s ∈ publish nc db p ↔
      p.configured = true ∧ stale p = false ∧ s ∈ db.subs ∧ Entitled db p.topic p.unit s.user ∧
      ¬ (p.topic = nc ∧ p.contributorId = some s.user) := by
  unfold publish
  by_cases hc : p.configured = true
  · by_cases hst : stale p = true
    · simp [hc, hst]
    · have hst' : stale p = false := by simpa using hst
      simp only [hc, hst', Bool.not_true, Bool.false_eq_true, ↓reduceIte, List.mem_filter,
        mem_subscriptionsForTopic, Bool.not_eq_eq_eq_not, Bool.and_eq_false_imp, beq_iff_eq, true_and,
        beq_eq_false_iff_ne, ne_eq, not_and]
      constructor
      · rintro ⟨⟨h1, h2⟩, h3⟩; exact ⟨h1, h2, h3⟩
      · rintro ⟨h1, h2, h3⟩; exact ⟨⟨h1, h2⟩, h3⟩
  · have hc' : p.configured = false := by simpa using hc
    simp [hc']

/-- Sentence 1: a notification is sent only to existing subscriptions of entitled users. -/
theorem notified_only_entitled (nc : Nat) (db : DB) (p : Publish) (s : Sub) (h : s ∈ publish nc db p) :
    s ∈ db.subs ∧ Entitled db p.topic p.unit s.user :=
  let h' := (notified_iff nc db p s).1 h
  ⟨h'.2.2.1, h'.2.2.2.1⟩

/-- Sentence 3: a new-contributor notification never goes to the contributor it is about. -/
theorem contributor_not_notified (nc : Nat) (db : DB) (p : Publish) (u : Nat)
    (ht : p.topic = nc) (hc : p.contributorId = some u) : ∀ s ∈ publish nc db p, s.user ≠ u := by
  intro s hs heq
  have h := ((notified_iff nc db p s).1 hs).2.2.2.2
  exact h ⟨ht, by rw [hc, heq]⟩

/-- Every database built with the repository operations is well-formed: distinct subscription ids and one
    preference row (hence one set of recorded roles) per user. -/
theorem run_wf (h : List Op) : WF (run h) := wf_foldl h DB.empty ⟨by simp [DB.empty], by simp [DB.empty]⟩

/-- Sentence 2: no subscription is notified twice (by row, and by row id). -/
theorem notified_at_most_once (nc : Nat) (db : DB) (hw : WF db) (p : Publish) :
    (publish nc db p).Nodup ∧ ((publish nc db p).map (·.id)).Nodup := by
  have hsub : (publish nc db p).Sublist db.subs := by
    unfold publish
    split
    · exact List.nil_sublist _
    · split
      · exact List.nil_sublist _
      · unfold subscriptionsForTopic
        exact List.filter_sublist.trans List.filter_sublist
  have hid : ((publish nc db p).map (·.id)).Nodup := hw.1.sublist (hsub.map _)
  exact ⟨nodup_of_nodup_map _ _ hid, hid⟩

theorem notified_at_most_once_reachable (nc : Nat) (h : List Op) (p : Publish) :
    ((publish nc (run h) p).map (·.id)).Nodup :=
  (notified_at_most_once nc (run h) (run_wf h) p).2

/-- The recorded roles are well defined: in a reachable database the entitling preference row is unique. -/
theorem entitling_row_unique (h : List Op) (p q : Pref) (hp : p ∈ (run h).prefs) (hq : q ∈ (run h).prefs)
    (hu : p.user = q.user) : p = q := by
  have hn := (run_wf h).2
  generalize (run h).prefs = l at hp hq hn
  induction l with
  | nil => cases hp
  | cons a l ih =>
    simp only [List.map_cons, List.nodup_cons, List.mem_map, not_exists, not_and] at hn
    rcases List.mem_cons.1 hp with rfl | hp' <;> rcases List.mem_cons.1 hq with rfl | hq'
    · rfl
    · exact absurd hu.symm (hn.1 q hq')
    · exact absurd hu (hn.1 p hp')
    · exact ih hp' hq' hn.2

/-! ### End to end: the requests that make a user a contributor

`contribute nc db e c env` models the tail shared by `FromFrontend.save_method`, `request_cancel`, `request_force`,
`excute_command` and `excute_control_button_command` together with `publish_new_contributor_notification`, which
*constructs* the notification (topic NEW_CONTRIBUTOR, `data.contributor_id = contributor.id`) and hands it to
`publish_message`.  Sentence 3 of the property is about this composition, not about `publish_message` alone. -/

/-- A notification stamped with the current time is not stale. -/
theorem fresh_not_stale (p : Publish) (h : p.timestamp = some (p.now * 1000)) : stale p = false := by
  unfold stale
  rw [h]
  cases hn : p.now * 1000 with
  | zero => rfl
  | succ k =>
    simp only [gt_iff_lt, decide_eq_false_iff_not, Int.not_lt]
    omega

/-- The unit as `publish_message` sees it: the acting user has already been added to the contributors. -/
def unitAfter (e : EngineSt) (c : Contributor) : ProcUnit :=
  { e with contributors := e.contributors ++ [c] }.toUnit

/-- Exact characterisation of who is notified when user `c` acts on engine `e`: nobody unless `c` is a new
    contributor with an id, a run is active and publishing is configured; then exactly the existing subscriptions of
    the users entitled to NEW_CONTRIBUTOR notifications about the unit — other than `c` themselves. -/
theorem contribute_notifies_iff (nc : Nat) (db : DB) (e : EngineSt) (c : Contributor) (env : Env) (s : Sub) :
    s ∈ (contribute nc db e c env).2 ↔
      c ∉ e.contributors ∧ e.hasRun = true ∧ env.configured = true ∧
      ∃ uid, c.id = some uid ∧ s ∈ db.subs ∧ Entitled db nc (unitAfter e c) s.user ∧ s.user ≠ uid := by
  unfold contribute
  by_cases hc : e.contributors.contains c = true
  · have hm : c ∈ e.contributors := by simpa using hc
    simp [hm]
  · have hm : c ∉ e.contributors := by simpa using hc
    simp only [hc, Bool.false_eq_true, ↓reduceIte, hm, not_false_eq_true, true_and]
    unfold newContributorNotification
    cases hid : c.id with
    | none => simp
    | some uid =>
      by_cases hr : e.hasRun = true
      · simp only [hr, Bool.not_true, Bool.false_eq_true, ↓reduceIte, true_and, Option.some.injEq, exists_eq_left']
        rw [notified_iff]
        rw [fresh_not_stale _ rfl]
        simp only [true_and, Option.some.injEq, unitAfter]
        constructor
        · rintro ⟨h1, h2, h3, h4⟩
          exact ⟨h1, h2, h3, fun heq => h4 heq.symm⟩
        · rintro ⟨h1, h2, h3, h4⟩
          exact ⟨h1, h2, h3, fun heq => h4 heq.symm⟩
      · have hr' : e.hasRun = false := by simpa using hr
        simp [hr']

/-- Sentence 3, end to end: whatever the database, the engine and the request, the acting user is never notified
    about their own contribution. -/
theorem acting_user_never_notified (nc : Nat) (db : DB) (e : EngineSt) (c : Contributor) (env : Env) :
    ∀ s ∈ (contribute nc db e c env).2, c.id ≠ some s.user := by
  intro s hs heq
  obtain ⟨_, _, _, uid, hid, _, _, hne⟩ := (contribute_notifies_iff nc db e c env s).1 hs
  rw [hid] at heq
  exact hne (Option.some.inj heq).symm

/-- …and sentence 1 holds for it too: only existing subscriptions of entitled users. -/
theorem contribute_only_entitled (nc : Nat) (db : DB) (e : EngineSt) (c : Contributor) (env : Env) :
    ∀ s ∈ (contribute nc db e c env).2, s ∈ db.subs ∧ Entitled db nc (unitAfter e c) s.user := by
  intro s hs
  obtain ⟨_, _, _, uid, _, h1, h2, _⟩ := (contribute_notifies_iff nc db e c env s).1 hs
  exact ⟨h1, h2⟩

/-- The contributor is recorded, whether or not anything was published. -/
theorem contribute_records (nc : Nat) (db : DB) (e : EngineSt) (c : Contributor) (env : Env) :
    c ∈ (contribute nc db e c env).1.contributors := by
  unfold contribute
  by_cases hc : e.contributors.contains c = true
  · simp only [hc, ↓reduceIte]; simpa using hc
  · have hm : c ∉ e.contributors := by simpa using hc
    simp [hm]

/-! Non-vacuity: users 1–4; unit 7 requires role 1; user 3 contributed to its run.
    user 1: access scope, has role 1 → notified.  user 2: access scope, role 2 only → no access.
    user 3: contributed scope → notified for run topics, never for the new-contributor notification about them.
    user 4: specific scope listing unit 7, has role 1 → notified; listing unit 8 only → not. -/
section examples
private def db : DB := run [
  .pref ⟨1, [1], .access, [0, 6], []⟩, .pref ⟨2, [2], .access, [0, 6], []⟩,
  .pref ⟨3, [1, 2], .contributed, [0, 6], []⟩, .pref ⟨4, [1], .specific, [0], [7]⟩,
  .sub 1, .sub 2, .sub 3, .sub 4, .sub 1, .pref ⟨4, [1], .specific, [0], [8]⟩, .sub 4, .del 4]
private def unit7 : ProcUnit := ⟨7, [1], [3]⟩

example : publish 6 db ⟨0, unit7, none, true, some 1000000000000, 1000000000⟩ = [⟨1, 1⟩, ⟨3, 3⟩, ⟨5, 1⟩] := by
  decide +kernel
example : publish 6 db ⟨6, unit7, some 3, true, none, 1000000000⟩ = [⟨1, 1⟩, ⟨5, 1⟩] := by decide +kernel
example : publish 6 db ⟨0, ⟨7, [], []⟩, none, true, none, 0⟩ = [⟨1, 1⟩, ⟨2, 2⟩, ⟨5, 1⟩] := by decide +kernel
example : publish 6 db ⟨0, unit7, none, true, some 1, 1000000000⟩ = [] := by decide +kernel   -- stale
example : Entitled db 0 unit7 3 :=
  ⟨⟨3, [1, 2], .contributed, [0, 6], []⟩, by decide +kernel, rfl, by decide, Or.inr ⟨1, by decide, by decide⟩,
   by unfold ScopeSelects; decide⟩
/-- user 1 (access scope, selected NEW_CONTRIBUTOR = 6) acts on unit 7 during a run: user 1 is not notified; user 3
    (contributed scope) is not a contributor of this run yet, so nobody is.  When user 3 then acts, user 1's two rows are
    notified and user 3's is not. -/
example : (contribute 6 db ⟨7, [1], [], true⟩ ⟨some 1, 11⟩ ⟨true, 1000⟩).2 = [] := by decide +kernel
example : (contribute 6 db ⟨7, [1], [⟨some 1, 11⟩], true⟩ ⟨some 3, 13⟩ ⟨true, 1000⟩).2 = [⟨1, 1⟩, ⟨5, 1⟩] := by
  decide +kernel
example : (contribute 6 db ⟨7, [1], [⟨some 3, 13⟩], true⟩ ⟨some 1, 11⟩ ⟨true, 1000⟩).2 = [⟨3, 3⟩] := by decide +kernel
example : (contribute 6 db ⟨7, [1], [⟨some 3, 13⟩], false⟩ ⟨some 1, 11⟩ ⟨true, 1000⟩).2 = [] := by decide +kernel  -- no run
end examples

end OPM.C33
