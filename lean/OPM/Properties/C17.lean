import OPM.Model.ParseIndent
import OPM.Model.ParseText
import OPM.Lemmas.ParseIndent
import OPM.Lemmas.ParseText
/-!
# C17 Parsing maps every line to one node with indentation structure

"For any method text, parsing never fails and yields exactly one instruction per source line, in source
order, each identified by that line's id. For correctly indented text, each line belongs to the nearest
preceding line one indentation level (four spaces) shallower that opens a body (Block, Watch, Alarm,
Macro). Any other indentation is flagged as an indentation error instead of being silently re-nested."

The model (`OPM.ParseIndent`, `OPM.ParseText`) is total by construction (the Python side of "never fails"
is the correspondence: an exception of the real parser is an observable that the model never produces).
`parseRows fx ls` is the finished tree in pre-order: line number, parent, indent_error of every node.
Blank and comment lines (`Kind.ws`) are transparent for the discipline, as in the repository's own
`IndentationCheckAnalyzer`, which ignores their flag.

`fx = true` is the indentation pass with the (committed) repair fixes/C17-empty-body-blank-lines.diff; the
structure law is false for the pass as it was (`asis_*` below).

Two layers.  The theorems on `List LineInfo` read the indentation the parser gave the node
(`position.character`).  The section "Judged from the TEXT" restates both halves with the indentation of the
text line (leading white space, whether or not the rest parses): true on every text whose lines are blank,
comments or match the instruction pattern (`C17_partial`), false in general for the code as it is
(`C17_full`, `C17_counterexample`: `    ?` inside a block is put at column 0 and leaves the block), true for
every text with fixes/C17-error-line-keeps-indentation.diff (`text_law_repaired`).

"Any other indentation is flagged" is proved as: at least one instruction — the first offending one — is
flagged; nothing is claimed about later, independent offenders.  "Four spaces" = four white-space characters
(`\s`), as the parser counts them.
-/
namespace OPM.C17
open OPM.ParseIndent OPM.ParseText OPM.ParseLine

/-- Full statement, first half (any decision policy, repaired or not): the pre-order of the parsed tree is
    the source order — node `k` is line `k`, no line is lost or duplicated. -/
theorem one_node_per_line (fx : Bool) (ls : List LineInfo) :
    (parseRows fx ls).map Row.idx = List.range ls.length ∧ (parseRows fx ls).map Row.info = ls := by
  rw [parseRows_eq_crows]
  refine ⟨?_, crows_info fx ls Ctl.init⟩
  have := crows_idx fx ls Ctl.init
  simpa [Ctl.init, List.range_eq_range'] using this

example : (parseRows true [⟨0, .opener, false⟩, ⟨4, .leaf, false⟩, ⟨0, .ws, false⟩, ⟨7, .leaf, true⟩]).map Row.idx
    = [0, 1, 2, 3] := by decide

/-- …for a whole text: one node per line of `str.splitlines`, numbered in source order
    (`MethodLineIdGenerator` turns the line number into the id of that method line). -/
theorem text_one_node_per_line (fl fe fi : Bool) (uod : List String) (text : List Char) :
    (parseText fl fe fi uod text).map Row.idx = List.range (splitLines text).length := by
  have := (one_node_per_line fi ((nodesOf fl fe uod text).map infoOf)).1
  simpa [parseText, nodesOf] using this

/-- The lines of a text contain no line-boundary character (in particular no '\n', the one character the
    comment group `.*$` of the line grammar does not match: the line model's only assumption). -/
theorem lines_have_no_boundary (text : List Char) :
    ∀ l ∈ splitLines text, ∀ c ∈ l, isBreak c = false ∧ c ≠ '\n' := by
  intro l hl c hc
  have h := splitAux_noBreak [] text (by simp) l hl c hc
  refine ⟨h, ?_⟩
  rintro rfl
  exact absurd h (by decide)

/-- Full statement, structure law: in a correctly indented text no instruction is flagged and every
    instruction hangs under the nearest preceding instruction one level shallower, which opens a body
    (top level iff not indented). -/
theorem structure_law (ls : List LineInfo) (hc : Correct ls) :
    ∀ r ∈ parseRows true ls, r.info.kind ≠ .ws → r.err = false ∧ r.placed (parseRows true ls) := by
  obtain ⟨c', hg⟩ := crows_good ls Ctl.init [] good_init (by simpa [Ctl.init, Correct] using hc)
  rw [parseRows_eq_crows]
  simpa using hg.placed

/-- The same with the parent computed by an explicit search: `nearestShallower ls i` scans backwards from
    line `i` for the first instruction line indented exactly four less. -/
theorem parent_is_nearest_shallower (ls : List LineInfo) (hc : Correct ls) :
    ∀ r ∈ parseRows true ls, r.info.kind ≠ .ws →
      r.parent = nearestShallower ls r.idx ∧
      ∀ j, r.parent = some j → ∃ q, ls[j]? = some q ∧ q.kind = .opener := by
  intro r hr hk
  obtain ⟨_, hpl⟩ := structure_law ls hc r hr hk
  obtain ⟨hidx, hinfo⟩ := one_node_per_line true ls
  obtain ⟨hlk, hex⟩ := rows_lookup hidx hinfo
  have hri := hlk r hr
  have hrlt : r.idx < ls.length := by
    have := (List.getElem?_eq_some_iff.mp hri).1; exact this
  unfold Row.placed at hpl
  cases hp : r.parent with
  | none =>
    simp only [hp] at hpl
    refine ⟨?_, by simp⟩
    symm
    unfold nearestShallower
    rw [List.find?_eq_none]
    intro j _
    rw [hri]
    cases ls[j]? with
    | none => simp
    | some a => simp [hpl]
  | some j =>
    simp only [hp] at hpl
    obtain ⟨q, hq, hqj, hjr, hqo, hqc, hbetween⟩ := hpl
    have hqi := hlk q hq
    rw [hqj] at hqi
    refine ⟨?_, ?_⟩
    · symm
      unfold nearestShallower
      apply find_rev_range _ r.idx j hjr
      · rw [hqi, hri]; simp [hqo, hqc]
      · intro k hjk hkr
        obtain ⟨m, hm, hmk, hmi⟩ := hex k (by omega)
        rw [hmi, hri]
        by_cases hmw : m.info.kind = .ws
        · simp [hmw]
        · have := hbetween m hm (by omega) (by omega) hmw
          have hne : m.info.char + 4 ≠ r.info.char := by omega
          simp [hne]
    · intro j' hj'
      cases hj'
      exact ⟨q.info, hqi, hqo⟩

/-- Full statement, flag half: if the instruction lines do not follow the discipline, some instruction is
    flagged (the first offending one). `WellClassified`: the per-line pass flags exactly the instruction
    lines whose indentation is not a multiple of four — what `_parse_line` does. -/
theorem bad_indentation_flagged (ls : List LineInfo) (hw : WellClassified ls) (hc : ¬ Correct ls) :
    ∃ r ∈ parseRows true ls, r.info.kind ≠ .ws ∧ r.err = true := by
  rw [parseRows_eq_crows]
  apply crows_flag ls Ctl.init [] good_init hw
  simpa [Correct, Ctl.init] using hc

/-- `_parse_line` (model) classifies as `bad_indentation_flagged` assumes, for every text. -/
theorem text_wellClassified (fl fe : Bool) (uod : List String) (text : List Char) :
    WellClassified ((nodesOf fl fe uod text).map infoOf) := by
  intro l hl hk
  simp only [nodesOf, List.map_map, List.mem_map, Function.comp_apply] at hl
  obtain ⟨cs, _, rfl⟩ := hl
  revert hk
  unfold parseLineE infoOf
  cases h1 : strip cs with
  | nil => simp [blankNode]
  | cons c t =>
    by_cases hc : c = '#'
    · simp [hc, blankNode]
    · cases h3 : scanLine cs with
      | none => cases fe <;> simp [hc, blankNode]
      | some s => simp [hc]

/-- …so for every text: if the nodes' columns are not correctly indented, an instruction is flagged. -/
theorem text_bad_indentation_flagged (fl fe : Bool) (uod : List String) (text : List Char)
    (hc : ¬ Correct ((nodesOf fl fe uod text).map infoOf)) :
    ∃ r ∈ parseText fl fe true uod text, r.info.kind ≠ .ws ∧ r.err = true :=
  bad_indentation_flagged _ (text_wellClassified fl fe uod text) hc

/-! ### Judged from the TEXT

Above, "indentation" is the column the parser gave the node.  The property speaks about the text: the
indentation of a line is its leading white space (`srcIndent`), whether or not the rest of the line parses.
`srcInfos` is what the discipline reads from the text.  The two coincide except for lines that do not match
the instruction pattern (`    ?`, `    :x`): the code as it is puts those at column 0, so a well indented
unparsable line leaves its block and the next well indented line is flagged and re-nested. -/

/-- the statement on the text, for a line parser `fe` -/
def TextLaw (fe : Bool) : Prop :=
  ∀ (fl : Bool) (uod : List String) (text : List Char),
    (Correct (srcInfos fl fe uod text) →
      ∀ r ∈ parseText fl fe true uod text, r.info.kind ≠ .ws →
        r.err = false ∧ r.parent = nearestShallower (srcInfos fl fe uod text) r.idx) ∧
    (¬ Correct (srcInfos fl fe uod text) →
      ∃ r ∈ parseText fl fe true uod text, r.info.kind ≠ .ws ∧ r.err = true)

/-- both halves on the text, whenever the parser's columns are the text's indentations -/
theorem text_law_of_columns (fl fe : Bool) (uod : List String) (text : List Char)
    (h : fe = true ∨ AllScannable text) :
    (Correct (srcInfos fl fe uod text) →
      ∀ r ∈ parseText fl fe true uod text, r.info.kind ≠ .ws →
        r.err = false ∧ r.parent = nearestShallower (srcInfos fl fe uod text) r.idx) ∧
    (¬ Correct (srcInfos fl fe uod text) →
      ∃ r ∈ parseText fl fe true uod text, r.info.kind ≠ .ws ∧ r.err = true) := by
  have e := infos_eq_src fl fe uod text h
  unfold parseText
  rw [e]
  constructor
  · intro hc r hr hk
    exact ⟨(structure_law _ hc r hr hk).1, (parent_is_nearest_shallower _ hc r hr hk).1⟩
  · intro hc
    have hw := text_wellClassified fl fe uod text
    rw [e] at hw
    exact bad_indentation_flagged _ hw hc

/-- Full statement on the text — the code as it is (`fe = false`) -/
def C17_full : Prop := TextLaw false

/-- `    ?` inside a block: correctly indented text, the line leaves its block unflagged -/
theorem C17_counterexample : ¬ C17_full := by
  intro h
  have h1 := (h true [] "Block: A\n    Mark: a\n    ?\n    Mark: b\n".toList).1 (by decide +kernel)
    ⟨2, none, false, ⟨0, .leaf, false⟩⟩ (by decide +kernel) (by decide)
  revert h1
  decide +kernel

/-- what holds for the code as it is: the law on every text all of whose lines are blank, comments or match
    the instruction pattern -/
theorem C17_partial (fl : Bool) (uod : List String) (text : List Char) (h : AllScannable text) :
    (Correct (srcInfos fl false uod text) →
      ∀ r ∈ parseText fl false true uod text, r.info.kind ≠ .ws →
        r.err = false ∧ r.parent = nearestShallower (srcInfos fl false uod text) r.idx) ∧
    (¬ Correct (srcInfos fl false uod text) →
      ∃ r ∈ parseText fl false true uod text, r.info.kind ≠ .ws ∧ r.err = true) :=
  text_law_of_columns fl false uod text (Or.inr h)

/-- with fixes/C17-error-line-keeps-indentation.diff (`fe = true`) the full statement holds -/
theorem text_law_repaired : TextLaw true :=
  fun fl uod text => text_law_of_columns fl true uod text (Or.inl rfl)

example : AllScannable "Block: A\n    Mark: a\n\n  # c\n    1.5 Mark: b\n".toList := by decide +kernel
example : (parseText true true true [] "Block: A\n    Mark: a\n    ?\n    Mark: b\n".toList).map Row.parent
    = [none, some 0, some 0, some 0] := by decide +kernel

/-- Together: an instruction is flagged exactly when the text is not correctly indented. -/
theorem flagged_iff_incorrect (ls : List LineInfo) (hw : WellClassified ls) :
    (∃ r ∈ parseRows true ls, r.info.kind ≠ .ws ∧ r.err = true) ↔ ¬ Correct ls := by
  constructor
  · rintro ⟨r, hr, hk, he⟩ hc
    have := (structure_law ls hc r hr hk).1
    simp [he] at this
  · exact bad_indentation_flagged ls hw

/-! Non-vacuity: a correctly indented text with nested bodies, an empty body, blank and comment lines at odd
indentations; and an incorrect one. -/

def sample : List LineInfo :=
  [⟨0, .opener, false⟩, ⟨0, .ws, false⟩, ⟨4, .opener, false⟩, ⟨2, .ws, false⟩, ⟨8, .leaf, false⟩,
   ⟨4, .opener, false⟩, ⟨0, .leaf, false⟩, ⟨0, .opener, false⟩, ⟨9, .ws, false⟩, ⟨4, .leaf, false⟩]

example : Correct sample := by decide
example : (parseRows true sample).map Row.parent
    = [none, some 0, some 0, some 2, some 2, some 0, none, none, some 7, some 7] := by decide
example : WellClassified [⟨0, .leaf, false⟩, ⟨4, .leaf, false⟩] ∧ ¬ Correct [⟨0, .leaf, false⟩, ⟨4, .leaf, false⟩] := by
  refine ⟨?_, by decide⟩
  intro l hl _
  simp only [List.mem_cons, List.not_mem_nil, or_false] at hl
  rcases hl with rfl | rfl <;> simp

/-- The bodies are opened by exactly Block, Watch, Alarm and Macro (table regenerated from ast.py). -/
theorem opener_names :
    (OPM.Gen.ParseTables.instrTable.filter (fun e => e.2.2.1)).map (·.1) = ["Alarm", "Block", "Macro", "Watch"] := by
  decide

/-! Regression witnesses: the parser as it was (`fx = false`) breaks the structure law on correctly indented
texts without flagging anything. -/

/-- an opener with an empty body adopts the following line of the same indentation -/
theorem asis_empty_body_adopts_next :
    Correct [⟨0, .opener, false⟩, ⟨0, .leaf, false⟩] ∧
    parseRows false [⟨0, .opener, false⟩, ⟨0, .leaf, false⟩]
      = [⟨0, none, false, ⟨0, .opener, false⟩⟩, ⟨1, some 0, false, ⟨0, .leaf, false⟩⟩] := by decide

/-- an outdent directly after an empty opener lands one level too deep -/
theorem asis_outdent_after_empty_body :
    Correct [⟨0, .opener, false⟩, ⟨4, .opener, false⟩, ⟨0, .leaf, false⟩] ∧
    (parseRows false [⟨0, .opener, false⟩, ⟨4, .opener, false⟩, ⟨0, .leaf, false⟩]).map Row.parent
      = [none, some 0, some 0] := by decide

/-- a blank line right after an opener makes the first body line an error and re-nests what follows -/
theorem asis_blank_after_opener :
    Correct [⟨0, .opener, false⟩, ⟨0, .ws, false⟩, ⟨4, .leaf, false⟩, ⟨0, .leaf, false⟩] ∧
    (parseRows false [⟨0, .opener, false⟩, ⟨0, .ws, false⟩, ⟨4, .leaf, false⟩, ⟨0, .leaf, false⟩]).map
        (fun r => (r.parent, r.err))
      = [(none, false), (some 0, false), (some 0, true), (some 0, false)] := by decide

/-- hence the structure law does not hold for the parser as it was -/
theorem asis_violates_structure_law :
    ¬ (∀ ls, Correct ls → ∀ r ∈ parseRows false ls, r.info.kind ≠ .ws → r.err = false ∧ r.placed (parseRows false ls)) := by
  intro h
  have := (h [⟨0, .opener, false⟩, ⟨0, .leaf, false⟩] (by decide)
    ⟨1, some 0, false, ⟨0, .leaf, false⟩⟩ (by decide) (by decide)).2
  simp [Row.placed] at this

/-- the repaired parser on the same texts -/
example : (parseRows true [⟨0, .opener, false⟩, ⟨0, .leaf, false⟩]).map Row.parent = [none, none] := by decide
example : (parseRows true [⟨0, .opener, false⟩, ⟨4, .opener, false⟩, ⟨0, .leaf, false⟩]).map Row.parent
    = [none, some 0, none] := by decide
example : (parseRows true [⟨0, .opener, false⟩, ⟨0, .ws, false⟩, ⟨4, .leaf, false⟩, ⟨0, .leaf, false⟩]).map
    (fun r => (r.parent, r.err)) = [(none, false), (some 0, false), (some 0, false), (none, false)] := by decide

end OPM.C17
