import OPM.Model.Interp
import OPM.Model.InterpRun
import OPM.Lemmas.InterpC02
import OPM.Lemmas.InterpC02b
import OPM.Lemmas.InterpC02c
import OPM.Lemmas.InterpC02d
import OPM.Lemmas.InterpC02e
import OPM.Lemmas.InterpC02f
import OPM.Lemmas.InterpC02g
import OPM.Lemmas.InterpC02h
import OPM.Lemmas.InterpC02i
import OPM.Model.TrailingWs
set_option linter.unusedSimpArgs false
/-!
# C02 Method instructions run once each, in source order

"In a run without live edits or Restart, every instruction of the method body starts at most once,
instructions at the same level start in source order, and an instruction starts only after the
instruction before it at that level has completed and its enclosing block or macro call has started.
Bodies of Alarms and of called macros may run repeatedly, but each invocation starts its lines once
and in order. Blank and comment lines at the end of a scope are never passed, so lines appended there
later still run."

Model: `OPM.Model.Interp` (frame-stack machine of `pinterpreter.py`; one stack per Python generator).
Runs: `OPM.Model.InterpRun` (any schedule of ticks with any clock / tag inputs, cancel / force
requests, completion reports for command nodes).  Events: `.start n` = the wrapper set `started`,
`.effect n what` = the instruction acted (Mark set, command handed to the engine, …), `.bodyStart n`
= a Watch / Alarm / Block / Call macro / Injected body begins.

What is proved, and for which methods:

* for ALL methods, every reachable state, every generator (also the orphaned ones of pathological
  nestings): the stack discipline (`stack_discipline`) — the frames above a children loop
  `children n inx true` are those of child number `inx` of `n` — and the step theorems of the
  children loop (`loop_enters_child_in_order`, `loop_advances_when_child_returns`): children are
  entered in index order, one at a time, the next one only when the visit of the previous one has
  returned, never one below `child_index`;
* for ALL methods, per generator and invocation (`invocation_visits_lines_in_order`,
  `no_line_entered_twice_in_one_invocation`, `start_of_a_line_moves_the_position`): while one loop frame is
  alive — one run of a Watch / Alarm / Block / macro body by one generator — its position only grows under
  every interleaving: the lines are entered in index order, each at most once, each started at most once;
  generators other than the main one arise only from registrations, and without Alarm / Call macro / End
  block(s) a Watch is registered at most once (`watch_registered_at_most_once`).  What is NOT proved for
  methods with interrupts or macro calls: that one invocation is run by exactly one generator (false for a
  Watch nested in an Alarm) — that part rests on the oracle;
* for ALL methods: every micro-step emits at most one instruction event and only at its site
  (`one_event_per_step_at_its_site`): an effect only from the instruction's own body at its entry
  point, in the step that also completes it (or hands the command to the engine); `started` only by
  the wrapper once the threshold has passed;
* for ALL methods: the body of a trailing Blank/Comment never returns and never completes the node
  (`trailing_blank_never_returns`);
* for ALL methods: a trailing Blank/Comment is never completed in any reachable state
  (`trailing_blank_is_never_completed`);
* for methods without Alarm and Call macro (any Watches, Blocks, thresholds, commands): over a whole
  run a Mark takes effect at most once (`mark_takes_effect_at_most_once`), because `completed` is
  never cleared (`completed_is_never_cleared`);
* for sequential methods (no Watch / Alarm / Call macro; Blocks, End block(s), thresholds, Waits, Marks,
  commands, Base, blank lines, failing instructions): the full statement — every line starts at most once
  in the whole run (`sequential_line_starts_at_most_once`, `C02_partial`), lines of a scope are entered in
  source order, each only after the visit of the previous one has returned
  (`sequential_lines_in_source_order`), and only after the enclosing scope has started
  (`sequential_line_entered_after_scope_started`), by the structural invariant `SeqInv` (the stack is the path
  from the root to the running line, `inx = child_index` for every loop frame, an entered line is
  below `child_index` or is the line the loop is inside of);
* the full "once per invocation" statement `C02_full` is FALSE for methods that nest a Watch in an
  Alarm: `C02_counterexample` (the re-armed Alarm runs the Watch body inline while the Watch's own
  interrupt runs it too; observed on the real engine, recorded in findings.d/C02.json).
-/
namespace OPM.C02
open OPM.Interp OPM.InterpRun OPM.InterpC02

/-- States reachable by any schedule (no live edit, no Restart). -/
inductive Reachable (p : Prog) : St → Prop
  | init : Reachable p (init p)
  | step (s : St) (r : Req) : Reachable p s → Reachable p (applyReq p s r)

theorem reachable_final (p : Prog) (reqs : List Req) : Reachable p (final p reqs) := by
  unfold final run
  have : ∀ (acc : St × List Event), Reachable p acc.1 → Reachable p (reqs.foldl (execStep p) acc).1 := by
    induction reqs with
    | nil => intro acc h; exact h
    | cons r rs ih => intro acc h; exact ih _ (Reachable.step acc.1 r h)
  exact this _ Reachable.init

/-! ## order inside every generator (all methods) -/

theorem allChain_applyReq (p : Prog) (s : St) (r : Req) (h : AllChain p s) : AllChain p (applyReq p s r) := by
  cases r with
  | tick i => exact allChain_tick p s i h
  | cancel n =>
    simp only [applyReq]
    unfold cancel
    split
    · exact allChain_congr p s _ rfl h
    · exact h
  | force n =>
    simp only [applyReq]
    unfold force
    split
    · exact allChain_congr p s _ rfl h
    · exact h
  | complete n =>
    simp only [applyReq]
    split
    · unfold completeCmd
      split
      · exact h
      · exact allChain_congr p s _ rfl h
    · exact h

/-- **Stack discipline.** In every reachable state of every method, every generator's stack is a
    chain: directly above a children-loop frame `children n inx true` sit the frames of child number
    `inx` of `n` (and only those, up to the next loop frame); a children loop sits directly on its
    owner's body frame (or on the `Call macro` that runs the macro body); an instruction's body frames
    sit directly on its wrapper.  Hence inside a generator a scope's lines are visited one at a time. -/
theorem stack_discipline (p : Prog) (s : St) (hr : Reachable p s) : ∀ g ∈ s.gens, chainOK p g.stack := by
  induction hr with
  | init => exact allChain_init p
  | step s r _ ih => exact allChain_applyReq p s r ih

/-- …and the discipline holds after every single micro-step as well (not only between ticks). -/
theorem stack_discipline_step (p : Prog) (s : St) (stack : List Frame) (h : chainOK p stack) :
    chainOK p (stepGen p s stack).2.1 := chain_stepGen p s stack h

/-- **The children loop enters a child only in order.**  `_visit_children` at position `inx` (not
    inside a child) either stops, skips a child below `child_index`, or enters exactly child number
    `inx`, and only if `inx ≥ child_index` and the scope is neither complete nor ended; then it waits
    inside that child (`children n inx true`). -/
theorem loop_enters_child_in_order (p : Prog) (s : St) (n inx : Nat) (below : List Frame) :
    (∃ s', stepFrame p s (.children n inx false) below = .next s' [] .cont) ∨
    (stepFrame p s (.children n inx false) below = .next s [.children n (inx + 1) false] .cont ∧
      inx < (s.rt n).childIndex) ∨
    (∃ c, (node p n).children[inx]? = some c ∧ (s.rt n).childIndex ≤ inx ∧
      (s.rt n).childrenComplete = false ∧ (s.rt n).completed = false ∧
      stepFrame p s (.children n inx false) below = .next s [.wrapEnter c, .children n inx true] .cont) := by
  by_cases h0 : (decide (inx = 0) && ((s.rt n).completed || (s.rt n).childrenComplete)) = true
  · left; exact ⟨s, by simp only [stepFrame, getRt_eq, h0, Bool.false_eq_true, if_false, if_true] <;> rfl⟩
  · cases hk : (node p n).children[inx]? with
    | none => left; exact ⟨_, by simp only [stepFrame, getRt_eq, h0, hk, Bool.false_eq_true, if_false] <;> rfl⟩
    | some c =>
      by_cases h1 : ((s.rt n).childrenComplete || (s.rt n).completed) = true
      · left; exact ⟨_, by simp only [stepFrame, getRt_eq, h0, hk, h1, Bool.false_eq_true, if_false, if_true] <;> rfl⟩
      · by_cases h2 : inx < (s.rt n).childIndex
        · right; left; exact ⟨by simp only [stepFrame, getRt_eq, h0, hk, h1, h2, Bool.false_eq_true, if_false, if_true] <;> rfl, h2⟩
        · by_cases h3 : inEndedBlock p s (Frame.children n inx false :: below) c = true
          · left; exact ⟨_, by simp only [stepFrame, getRt_eq, h0, hk, h1, h2, h3, Bool.false_eq_true, if_false, if_true] <;> rfl⟩
          · right; right
            refine ⟨c, rfl, by omega, ?_, ?_, by simp only [stepFrame, getRt_eq, h0, hk, h1, h2, h3, Bool.false_eq_true, if_false, if_true] <;> rfl⟩
            · cases h : (s.rt n).childrenComplete <;> simp_all
            · cases h : (s.rt n).completed <;> simp_all

/-- **…and advances only when the child's visit has returned**: the frame `children n inx true` is
    stepped only when it is the top of the stack, i.e. when all frames of child `inx` are gone
    (stack discipline); the step increments `child_index` by exactly one and moves to `inx + 1`. -/
theorem loop_advances_when_child_returns (p : Prog) (s : St) (n inx : Nat) (below : List Frame) :
    ∃ s', stepFrame p s (.children n inx true) below = .next s' [.children n (inx + 1) false] .cont ∧
      (s'.rt n).childIndex = (s.rt n).childIndex + 1 ∧ ∀ k, k ≠ n → s'.rt k = s.rt k := by
  refine ⟨_, rfl, ?_, ?_⟩
  · simp
  · intro k hk; simp [hk]

/-! ## one invocation of a body, in one generator (all methods: Watch, Alarm, Block and macro bodies)

A loop frame `children n inx b` sitting on `rest` is one run of the body of `n` by this generator — it is
pushed by the step that emits `bodyStart` (for a macro: above the call's return frame).  The theorems hold
for every state in which the generator's steps are taken, i.e. under every interleaving with the other
generators, the engine and the requests. -/

/-- **One micro-step never moves the loop of a body backwards** (position = `4·inx` + phase of the wrapper
    of the line it is inside of), or the loop has ended. -/
theorem loop_position_never_decreases (p : Prog) (s : St) (pre rest : List Frame) (n inx : Nat) (b : Bool)
    (h : chainOK p (pre ++ .children n inx b :: rest)) :
    (∃ pre' inx' b', (stepGen p s (pre ++ .children n inx b :: rest)).2.1 = pre' ++ .children n inx' b' :: rest ∧
        loopPos pre inx b ≤ loopPos pre' inx' b') ∨
    (stepGen p s (pre ++ .children n inx b :: rest)).2.1 = rest := loop_frame_progress p s pre rest n inx b h

/-- **Within one invocation, one generator visits the lines of a body in source order, each at most once**:
    over any number of its steps (`Life`), taken in arbitrary states, the position only grows. -/
theorem invocation_visits_lines_in_order (p : Prog) (n : Nat) (rest : List Frame) (x z : List Frame × Nat × Bool)
    (h : Life p n rest x z) (hc : chainOK p (x.1 ++ .children n x.2.1 x.2.2 :: rest)) :
    InterpC02.pos x ≤ InterpC02.pos z := life_monotone p n rest x z h hc

/-- …so a line that has been left (or whose `start` point has been passed) is never come back to in the same
    invocation: equal positions at two moments mean the loop did not move in between. -/
theorem no_line_entered_twice_in_one_invocation (p : Prog) (n : Nat) (rest : List Frame)
    (x y z : List Frame × Nat × Bool) (h1 : Life p n rest x y) (h2 : Life p n rest y z)
    (hc : chainOK p (x.1 ++ .children n x.2.1 x.2.2 :: rest))
    (hc' : chainOK p (y.1 ++ .children n y.2.1 y.2.2 :: rest)) (he : InterpC02.pos x = InterpC02.pos z) :
    InterpC02.pos y = InterpC02.pos x := no_return_within_invocation p n rest x y z h1 h2 hc hc' he

/-- A line is entered only by the loop advancing onto it, and it is the line with the loop's index. -/
theorem line_entered_only_by_loop_advance (p : Prog) (s : St) (rest : List Frame) (n inx c : Nat) (rest' : List Frame)
    (hch : chainOK p (.children n inx false :: rest))
    (h : (stepGen p s (.children n inx false :: rest)).2.1 = .wrapEnter c :: rest') :
    (node p n).children[inx]? = some c ∧ rest' = .children n inx true :: rest :=
  child_entered_by_loop_advance p s rest n inx c rest' hch h

/-- The `start` of the line the loop is inside of moves the position from `4·i+2` to `4·i+3`: with
    `invocation_visits_lines_in_order`, a line starts at most once per invocation and generator. -/
theorem start_of_a_line_moves_the_position (p : Prog) (s : St) (c : Nat) (below : List Frame) (e : Event)
    (hcore : coreEvs (stepGen p s (.wrapThr c :: below)).1 = e :: coreEvs s) :
    e = .start c ∧ (stepGen p s (.wrapThr c :: below)).2.1 = .wrapDispatch c :: below :=
  start_moves_position p s c below e hcore

/-- **Which generators exist**: every generator other than the main one is created by the registration of
    an interrupt and starts at that node's wrapper (`stepGen_gens`); for methods without Alarm, Call macro,
    End block and End blocks a Watch is registered at most once in a whole run — so the lines of such a
    method are run by the main generator and by at most one generator per Watch. -/
theorem watch_registered_at_most_once (p : Prog) (hna : noAbort p = true) (w : Nat) (reqs : List Req) :
    cntReg w (trace p reqs) ≤ 1 := by
  have h0 : RegQ w (cntReg w ((init p, ([] : List Event)) : St × List Event).2) (init p, ([] : List Event)).1 := by
    refine ⟨by simp [cntReg], fun _ => by simp [cntReg]⟩
  exact (regQ_run p hna w reqs _ h0).1

theorem new_generators_start_at_a_wrapper (p : Prog) (s : St) (stack : List Frame) :
    ∀ g ∈ (stepGen p s stack).1.gens, g ∈ s.gens ∨ g.stack = [.wrapEnter g.node] := stepGen_gens p s stack

/-! ## instruction events (all methods) -/

/-- **One instruction event per micro-step, at its site.**  A micro-step of a generator adds at most
    one of the events `start` / `effect` / `bodyStart`, and then
    * `effect n w`: the stepped frame is the body of `n` at its entry point (`pc = 0`), `w` is the effect
      of `n`'s kind, the body moves on (`pc = 1`, end of tick), the same step sets `completed` (except
      for a command, which is handed to the engine), and a Mark was not completed before;
    * `start n`: the stepped frame is `n`'s wrapper at the threshold wait, which is over (or the node was
      started/completed already), and `started` is set;
    * `bodyStart n`: the stepped frame is the body of `n`, which pushes a children loop starting at 0. -/
theorem one_event_per_step_at_its_site (p : Prog) (s : St) (stack : List Frame) :
    coreEvs (stepGen p s stack).1 = coreEvs s ∨
    ∃ e f below, stack = f :: below ∧ coreEvs (stepGen p s stack).1 = e :: coreEvs s ∧
      SiteF p s f e (stepFrame p s f below) := stepGen_core p s stack

/-- A threshold that has not passed keeps the wrapper waiting: no `start`, nothing changes. -/
theorem threshold_holds_back (p : Prog) (s : St) (n : Nat) (below : List Frame)
    (h1 : (s.rt n).started = false) (h2 : (s.rt n).completed = false) (h3 : awaitingThreshold p s n = true) :
    stepFrame p s (.wrapThr n) below = .next s [] .cont ∨
    stepFrame p s (.wrapThr n) below = .next s [.wrapThr n] .endTick := by
  generalize hS : stepFrame p s (.wrapThr n) below = o
  unfold stepFrame at hS
  simp only [getRt_eq, h1, h2, h3, Bool.not_false, Bool.and_self, if_true] at hS
  split at hS
  · exact Or.inl hS.symm
  · exact Or.inr hS.symm

/-- A completed node is skipped by the wrapper (`visit`: "skipped, node is complete"). -/
theorem completed_node_is_skipped (p : Prog) (s : St) (n : Nat) (below : List Frame)
    (h : (s.rt n).completed = true) : stepFrame p s (.wrapEnter n) below = .next s [] .cont := by
  generalize hS : stepFrame p s (.wrapEnter n) below = o
  unfold stepFrame at hS
  simp only [getRt_eq, h, if_true] at hS
  exact hS.symm

/-! ## trailing Blank / Comment lines -/

/-- **The body of a trailing Blank/Comment never returns**: whatever the state, it clears `started`,
    ends the tick and stays where it is; `completed` is not set, so the loop of the enclosing scope
    stays inside this child and `child_index` does not pass it. -/
theorem trailing_blank_never_returns (p : Prog) (s : St) (n pc : Nat) (below : List Frame)
    (hk : (node p n).kind = .blank true) :
    stepBody p s n pc below =
      .next (setRt s n (fun r => { r with started := false })) [.body n 0] .endTick := by
  unfold stepBody
  simp only [hk, if_true]

theorem trailing_blank_not_completed_by_its_body (p : Prog) (s : St) (n pc : Nat) (below : List Frame)
    (hk : (node p n).kind = .blank true) (k : Nat) :
    ((outState (stepBody p s n pc below)).rt k).completed = (s.rt k).completed := by
  rw [trailing_blank_never_returns p s n pc below hk]
  simp only [outState, rt_setRt]
  split
  · rename_i e; subst e; rfl
  · rfl

theorem blankGood_applyReq (p : Prog) (s : St) (r : Req) (h : Good (BlankInv p) (FramesOK p) s) :
    Good (BlankInv p) (FramesOK p) (applyReq p s r) := by
  cases r with
  | tick i =>
    apply good_tick (blankInv_lifts p) s i
    exact ⟨⟨fun e he => h.1.1 e he, fun k hb => h.1.2 k hb⟩, h.2⟩
  | cancel n =>
    simp only [applyReq]
    cases hc : cancel p s n with
    | none => exact h
    | some s' =>
      simp only [Option.getD]
      unfold cancel at hc
      split at hc
      · cases hc
        refine ⟨⟨fun e he => h.1.1 e he, fun k hb => ?_⟩, h.2⟩
        simp only [rt_setRt]; split
        · rename_i e; subst e; exact h.1.2 _ hb
        · exact h.1.2 k hb
      · cases hc
  | force n =>
    simp only [applyReq]
    cases hc : force p s n with
    | none => exact h
    | some s' =>
      simp only [Option.getD]
      unfold force at hc
      split at hc
      · cases hc
        refine ⟨⟨fun e he => h.1.1 e he, fun k hb => ?_⟩, h.2⟩
        simp only [rt_setRt]; split
        · rename_i e; subst e; exact h.1.2 _ hb
        · exact h.1.2 k hb
      · cases hc
  | complete n =>
    simp only [applyReq]
    split
    · rename_i hcmd
      unfold completeCmd
      split
      · exact h
      · refine ⟨⟨fun e he => h.1.1 e he, fun k hb => ?_⟩, h.2⟩
        simp only [rt_setRt]; split
        · rename_i e; subst e
          unfold isCmd at hcmd; unfold isTrailingBlank at hb
          split at hcmd <;> simp_all
        · exact h.1.2 k hb
    · exact h

/-- **A trailing Blank/Comment is never completed**, in any reachable state of any method (all nestings,
    all generators, all schedules): together with `trailing_blank_never_returns` this is why the scope's
    loop never passes it, so a line appended there later is still ahead of `child_index`. -/
theorem trailing_blank_is_never_completed (p : Prog) (s : St) (hr : Reachable p s) (k : Nat)
    (hk : (node p k).kind = .blank true) : (s.rt k).completed = false := by
  have hgood : Good (BlankInv p) (FramesOK p) s := by
    induction hr with
    | init =>
      refine ⟨⟨fun e he => by simp [init] at he, fun k _ => rfl⟩, ?_⟩
      intro g hg
      simp only [init, List.mem_singleton] at hg
      subst hg
      intro f hf
      simp only [List.mem_singleton] at hf
      subst hf; rfl
    | step s r _ ih => exact blankGood_applyReq p s r ih
  exact hgood.1.2 k (by unfold isTrailingBlank; rw [hk])

/-! ## Marks take effect at most once (methods without Alarm / Call macro) -/

/-- `completed` is never cleared by a micro-step of a method without Alarm and Call macro. -/
theorem completed_is_never_cleared (p : Prog) (hnr : noReset p = true) (s : St) (stack : List Frame) (k : Nat)
    (h : (s.rt k).completed = true) : (((stepGen p s stack).1).rt k).completed = true :=
  stepGen_completed_mono p hnr s stack k h

/-- **A Mark takes effect at most once in a whole run**, for every method without Alarm and Call
    macro (any nesting of Watches and Blocks, thresholds, commands) and every schedule. -/
theorem mark_takes_effect_at_most_once (p : Prog) (hnr : noReset p = true) (n : Nat) (nm : String)
    (hk : (node p n).kind = .mark nm) (reqs : List Req) : cntEff n (trace p reqs) ≤ 1 := by
  have h0 : MarkQ n (cntEff n ((init p, ([] : List Event)) : St × List Event).2) (init p, ([] : List Event)).1 := by
    refine ⟨by simp [cntEff], fun _ => by simp [cntEff]⟩
  exact (markQ_run p hnr n nm hk reqs _ h0).1

/-- …and it is completed from that moment on. -/
theorem mark_completed_after_effect (p : Prog) (hnr : noReset p = true) (n : Nat) (nm : String)
    (hk : (node p n).kind = .mark nm) (reqs : List Req) (h : cntEff n (trace p reqs) ≠ 0) :
    ((final p reqs).rt n).completed = true := by
  have h0 : MarkQ n (cntEff n ((init p, ([] : List Event)) : St × List Event).2) (init p, ([] : List Event)).1 := by
    refine ⟨by simp [cntEff], fun _ => by simp [cntEff]⟩
  have := (markQ_run p hnr n nm hk reqs _ h0).2
  cases hc : ((final p reqs).rt n).completed with
  | true => rfl
  | false => exact absurd (this hc) h

/-! ## sequential methods: once each, in source order, over the whole run

Methods without Watch, Alarm, Call macro and injected code (any nesting of Blocks with End block / End
blocks, thresholds, Waits, Marks, commands, Base, blank and comment lines, Macro definitions, failing
instructions) on a well-formed tree (`sequential p`, decidable). -/

theorem seqState_final (p : Prog) (hseq : sequential p = true) (reqs : List Req) :
    SeqState p (fun k => cntStart k (trace p reqs)) (final p reqs) :=
  seqState_run p hseq reqs (init p, []) (seqState_init p)

/-- **Every line of a sequential method starts at most once in a whole run**, under every schedule. -/
theorem sequential_line_starts_at_most_once (p : Prog) (hseq : sequential p = true) (reqs : List Req) (k : Nat) :
    cntStart k (trace p reqs) ≤ 1 := by
  obtain ⟨_, st, _, _, hc⟩ := seqState_final p hseq reqs
  exact (hc k).1

/-- …and a line that has never been entered has not started. -/
theorem sequential_unvisited_line_not_started (p : Prog) (hseq : sequential p = true) (reqs : List Req) (k : Nat)
    (h : ((final p reqs).rt k).hasRecord = false) : cntStart k (trace p reqs) = 0 := by
  obtain ⟨_, st, _, _, hc⟩ := seqState_final p hseq reqs
  exact (hc k).2 (Or.inl h)

/-- **Lines of a scope are entered in source order, each only after the visit of the one before it has
    returned.**  In every state a sequential run can reach: if line number `i` of scope `n` has ever been
    entered then `i ≤ child_index n` — and `child_index n` is exactly the number of lines of `n` whose visit
    has returned (`loop_advances_when_child_returns`); so every line `j < i` of that scope has been visited
    and left before line `i` was entered. -/
theorem sequential_lines_in_source_order (p : Prog) (hseq : sequential p = true) (reqs : List Req)
    (n i c : Nat) (hc : (node p n).children[i]? = some c) (hr : ((final p reqs).rt c).hasRecord = true) :
    i ≤ ((final p reqs).rt n).childIndex := by
  obtain ⟨_, st, _, hi, _⟩ := seqState_final p hseq reqs
  rcases hi.J n i c hc hr with h1 | h1
  · omega
  · have := (hi.K n i true h1).1 rfl
    omega

/-- …and while the loop of `n` is inside line `i`, `i` is exactly `child_index n`: the one generator of a
    sequential run is at one place in every scope. -/
theorem sequential_loop_position (p : Prog) (hseq : sequential p = true) (reqs : List Req) :
    ∃ st, (final p reqs).gens = [{ gid := 0, node := 0, stack := st }] ∧ (final p reqs).imap = [] ∧
      ∀ n inx, Frame.children n inx true ∈ st → inx = ((final p reqs).rt n).childIndex := by
  obtain ⟨him, st, hg, hi, _⟩ := seqState_final p hseq reqs
  exact ⟨st, hg, him, fun n inx hm => (hi.K n inx true hm).1 rfl⟩

/-- **A line is entered only after its enclosing scope has started**: in every state a sequential run can
    reach, if a line of scope `n` has ever been entered then `n` (the method, or the enclosing Block) is
    started.  (A trailing Blank/Comment is the one node whose `started` flag is cleared again; it has no
    lines of its own in a parsed method.) -/
theorem sequential_line_entered_after_scope_started (p : Prog) (hseq : sequential p = true) (reqs : List Req)
    (n i c : Nat) (hc : (node p n).children[i]? = some c) (hr : ((final p reqs).rt c).hasRecord = true) :
    ((final p reqs).rt n).started = true ∨ (node p n).kind = .blank true := by
  obtain ⟨_, st, _, hi, hsc⟩ := seqState2_final p hseq reqs
  have h : startedOrBlank p (final p reqs) n := by
    rcases hi.J n i c hc hr with h1 | h1
    · exact hsc.advanced n (by omega)
    · exact hsc.frames _ h1 rfl
  rcases h with h | h
  · exact Or.inl h
  · right
    unfold isTrailingBlank at h
    split at h
    · assumption
    · cases h

theorem cntStart_two (n : Nat) (pre mid post : List Event) :
    2 ≤ cntStart n (pre ++ .start n :: (mid ++ .start n :: post)) := by
  simp only [cntStart_append, cntStart_cons, isStartOf, beq_self_eq_true, if_true]
  omega

/-! ## non-vacuity of the theorems above -/

def tk (k : Nat) (tags : List Int) : Req := .tick ⟨(k : Nat), (k : Nat), (k : Nat), tags⟩
def sched (n : Nat) (tags : List Int) : List Req := (List.range n).map (fun k => tk k tags)

/-- `Mark: a` / `Watch: T0 >= 0` [ `Mark: b` ] / `CmdA` / trailing blank line -/
def demo : Prog := #[
  { kind := .program, parent := none, children := [1, 2, 4, 5], threshold := none, keyPath := [0] },
  { kind := .mark "a", parent := some 0, children := [], threshold := none, keyPath := [0, 1] },
  { kind := .watch ⟨0, .ge, 0⟩, parent := some 0, children := [3], threshold := none, keyPath := [0, 2] },
  { kind := .mark "b", parent := some 2, children := [], threshold := none, keyPath := [0, 2, 3] },
  { kind := .cmd "CmdA" false, parent := some 0, children := [], threshold := none, keyPath := [0, 4] },
  { kind := .blank true, parent := some 0, children := [], threshold := none, keyPath := [0, 5] }]

/-- the hypotheses of `mark_takes_effect_at_most_once` are met and the bound is attained: both Marks
    take effect exactly once in 40 ticks, in source order for the method body -/
example : noReset demo = true ∧ cntEff 1 (trace demo (sched 40 [0])) = 1 ∧ cntEff 3 (trace demo (sched 40 [0])) = 1 ∧
    (final demo (sched 40 [0])).marks = ["a", "b"] := by decide +kernel

/-- the trailing blank line is reached, never completed, and `child_index` of the method stays at it -/
example : ((final demo (sched 40 [0])).rt 5).hasRecord = true ∧ ((final demo (sched 40 [0])).rt 5).completed = false ∧
    ((final demo (sched 40 [0])).rt 0).childIndex = 3 ∧
    (final demo (sched 40 [0])).gens.map (·.stack) =
      [[.body 5 0, .wrapAfter 5, .children 0 3 true, .body 0 1, .wrapAfter 0], []] := by decide +kernel

/-- `Mark: a` / `Block: B` [ `Mark: b` / `CmdA` / `End block` / `Mark: never` ] / `0.5 Mark: c` / blank -/
def seqDemo : Prog := #[
  { kind := .program, parent := none, children := [1, 2, 7, 8], threshold := none, keyPath := [0] },
  { kind := .mark "a", parent := some 0, children := [], threshold := none, keyPath := [0, 1] },
  { kind := .block "B", parent := some 0, children := [3, 4, 5, 6], threshold := none, keyPath := [0, 2] },
  { kind := .mark "b", parent := some 2, children := [], threshold := none, keyPath := [0, 2, 3] },
  { kind := .cmd "CmdA" false, parent := some 2, children := [], threshold := none, keyPath := [0, 2, 4] },
  { kind := .endBlock, parent := some 2, children := [], threshold := none, keyPath := [0, 2, 5] },
  { kind := .mark "never", parent := some 2, children := [], threshold := none, keyPath := [0, 2, 6] },
  { kind := .mark "c", parent := some 0, children := [], threshold := some (1/2), keyPath := [0, 7] },
  { kind := .blank true, parent := some 0, children := [], threshold := none, keyPath := [0, 8] }]

/-- the hypothesis of the sequential theorems holds for a method with a Block, a threshold, a command and a
    trailing blank line; every executed line starts exactly once, the line after `End block` never, and the
    Marks come in source order -/
example : sequential seqDemo = true ∧
    (List.range 9).map (fun k => cntStart k (trace seqDemo (sched 60 []))) = [1, 1, 1, 1, 1, 1, 0, 1, 1] ∧
    (final seqDemo (sched 60 [])).marks = ["a", "b", "c"] ∧
    ((final seqDemo (sched 60 [])).rt 0).childIndex = 3 := by decide +kernel

/-- non-vacuity of the per-invocation theorems: in `demo` the method's loop enters line 0 from the position
    before it (a `Life` step from position 0 to position 1), and the Watch is registered exactly once -/
example : Life demo 0 [.body 0 1, .wrapAfter 0] ([], 0, false) ([.wrapEnter 1], 0, true) ∧
    InterpC02.pos (([], 0, false) : List Frame × Nat × Bool) = 0 ∧
    InterpC02.pos (([.wrapEnter 1], 0, true) : List Frame × Nat × Bool) = 1 ∧
    noAbort demo = true ∧ cntReg 2 (trace demo (sched 40 [0])) = 1 :=
  ⟨Life.step _ _ _ (init demo) (by decide +kernel) (Life.refl _), by decide, by decide, by decide +kernel, by decide +kernel⟩

/-! ## which blank / comment lines the code treats as trailing (model of WhitespaceCheckAnalyzer)

`has_only_trailing_whitespace` is an input bit of the interpreter model (`Kind.blank trailing`); it is computed
by `WhitespaceCheckAnalyzer`, modelled in `OPM.Model.TrailingWs` and compared with the code by its own
correspondence stream (props/C02.py, `trailing-whitespace-flag`); the oracle judges "end of a scope" from the
source text, independently of both. -/

open OPM.TrailingWs in
/-- A line is flagged exactly if it is a blank/comment line that lies after the last instruction line among
    the direct children of EVERY enclosing scope (i.e. in the tail of the method, not merely at the end of
    its own scope — the gap between the code and the property's wording is a recorded finding). -/
theorem flagged_iff_after_last_instruction_of_every_enclosing_scope (t : Tree) (n : Nat) :
    flag t n = true ↔ (nd t n).ws = true ∧ ∀ a ∈ ancestors t n, lastNonWs t a < (nd t n).line := by
  unfold flag
  simp only [Bool.and_eq_true, List.all_eq_true, decide_eq_true_eq]

open OPM.TrailingWs in
/-- `Watch` [ `Mark`, `# c1` ] / `Mark` / `# c2`: the comment that closes the Watch body is NOT flagged (an
    instruction follows further out), the one at the end of the method is -/
example : flag #[⟨none, 0, false⟩, ⟨some 0, 0, false⟩, ⟨some 1, 1, false⟩, ⟨some 1, 2, true⟩, ⟨some 0, 3, false⟩,
    ⟨some 0, 4, true⟩] 3 = false ∧
    flag #[⟨none, 0, false⟩, ⟨some 0, 0, false⟩, ⟨some 1, 1, false⟩, ⟨some 1, 2, true⟩, ⟨some 0, 3, false⟩,
    ⟨some 0, 4, true⟩] 5 = true := by decide

/-! ## the full statement, and where it fails -/

def isInterruptNode (p : Prog) (n : Nat) : Bool :=
  match (node p n).kind with
  | .watch _ | .alarm _ => true
  | _ => false

/-- the beginning of a new invocation of an Alarm body or of a macro call -/
def isRepeater (p : Prog) : Event → Bool
  | .bodyStart a => resetKind (node p a).kind
  | _ => false

/-- "Every instruction starts at most once; bodies of Alarms and called macros may run repeatedly, but
    each invocation starts its lines once": between two `start` events of the same instruction lies the
    beginning of a new Alarm / macro invocation.  (A Watch/Alarm line itself is started by the scope
    that registers it and again by its own interrupt, by construction.) -/
def StartsOncePerInvocation (p : Prog) (tr : List Event) : Prop :=
  ∀ n pre mid post, tr = pre ++ .start n :: (mid ++ .start n :: post) → isInterruptNode p n = false →
    ∃ e ∈ mid, isRepeater p e = true

/-- The full-strength first clause of C02, for all methods and all schedules. -/
def C02_full : Prop := ∀ (p : Prog) (reqs : List Req), StartsOncePerInvocation p (trace p reqs)

/-- **C02 (first clause) for sequential methods**: the full statement holds for every method without
    Watch / Alarm / Call macro on a well-formed tree, under every schedule. -/
theorem C02_partial (p : Prog) (hseq : sequential p = true) (reqs : List Req) :
    StartsOncePerInvocation p (trace p reqs) := by
  intro n pre mid post htr _
  have h1 := sequential_line_starts_at_most_once p hseq reqs n
  have h2 := cntStart_two n pre mid post
  rw [← htr] at h2
  omega

/-- `Alarm: T0 >= 0` [ `Watch: T0 >= 0` [ `Mark: a` ] ] -/
def wit : Prog := #[
  { kind := .program, parent := none, children := [1], threshold := none, keyPath := [0] },
  { kind := .alarm ⟨0, .ge, 0⟩, parent := some 0, children := [2], threshold := none, keyPath := [0, 1] },
  { kind := .watch ⟨0, .ge, 0⟩, parent := some 1, children := [3], threshold := none, keyPath := [0, 1, 2] },
  { kind := .mark "a", parent := some 2, children := [], threshold := none, keyPath := [0, 1, 2, 3] }]

/-- **The full statement is false** for a Watch nested in an Alarm: in the Alarm's second invocation
    the Watch body runs twice at once — in the Watch's own interrupt and inline in the Alarm's
    generator (the re-armed Alarm finds `interrupt_registered` set and `_in_interrupt` true and falls
    into the interrupt part of `visit_WatchNode`) — so `Mark: a` is started twice within one
    invocation (events 29 and 32 of the 11-tick run; the second Alarm invocation began at event 25). -/
theorem C02_counterexample : ¬ C02_full := by
  intro h
  have h1 := h wit (sched 11 [0]) 3 ((trace wit (sched 11 [0])).take 29)
    (((trace wit (sched 11 [0])).drop 30).take 2) [] (by decide +kernel) (by decide)
  obtain ⟨e, he, hr⟩ := h1
  have h2 : (((trace wit (sched 11 [0])).drop 30).take 2).all (fun e => !isRepeater wit e) = true := by decide +kernel
  have := List.all_eq_true.mp h2 e he
  rw [hr] at this
  cases this

end OPM.C02
